package nsqd

// C07 end-to-end, "interleaved with other traffic on the same connection": ONE connection that is
// a subscriber and also publishes. The 4-byte length fields of its PUB / DPUB / MPUB commands are
// written in two TCP segments, and between the two a frame for this very connection is forced (a
// helper connection publishes to the channel it is subscribed to; the test waits until the frame
// has arrived). Bodies are >= 256 bytes and carry frame-header and command look-alikes, so a
// mis-read length would publish a truncated body and turn the rest into injected commands.
// Oracle: exactly the published bodies arrive on the target channel (byte for byte, timestamp in
// the publish window, 16-hex id), every command is answered OK, and nothing else appears anywhere
// in the daemon (no extra message, no extra topic).

import (
	"bytes"
	"encoding/binary"
	"fmt"
	"net"
	"os"
	"strings"
	"testing"
	"time"

	"github.com/nsqio/go-nsq"
)

func vfE1InjectBody(r *vfRand, n int) []byte {
	var b bytes.Buffer
	for b.Len() < n {
		switch r.Intn(5) {
		case 0: // a complete PUB command that would create a message nobody published
			b.WriteString("\nPUB vf_injected\n")
			binary.Write(&b, binary.BigEndian, int32(8))
			b.WriteString("INJECTED")
		case 1: // frame header look-alike: size, frame type 2, envelope
			binary.Write(&b, binary.BigEndian, int32(30))
			binary.Write(&b, binary.BigEndian, int32(2))
			binary.Write(&b, binary.BigEndian, time.Now().UnixNano())
			binary.Write(&b, binary.BigEndian, uint16(1))
			b.WriteString("0123456789abcdef")
		case 2:
			b.WriteString("\nFIN 0123456789abcdef\nNOP\nCLS\n")
		case 3:
			b.WriteString("\nMPUB vf_injected\n\x00\x00\x00\x0d\x00\x00\x00\x01\x00\x00\x00\x05hello")
		default:
			b.Write(r.Bytes(1 + r.Intn(40)))
		}
	}
	return b.Bytes()[:n]
}

func TestVerifPubSubSplit(t *testing.T) {
	opts := NewOptions()
	opts.Logger = nil
	opts.LogLevel = LOG_FATAL
	opts.DataPath = t.TempDir()
	opts.MemQueueSize = 10000
	opts.MaxMsgSize = 100000
	opts.MaxBodySize = 1000000
	opts.MaxReqTimeout = time.Hour
	tcpAddr, _, nsqd := vfStartNSQD(opts)
	defer nsqd.Exit()
	defer vfE1PanicGuard("the publisher-and-subscriber connection scenario", nil)()
	r := vfNewRand(83)
	n := vfEnvInt("VERIF_N", 30)
	fail := func(format string, a ...interface{}) {
		what := fmt.Sprintf(format, a...)
		fmt.Printf("ORACLE-FAIL PUBSUB %s\n", what)
		if p := os.Getenv("VERIF_OUT"); p != "" {
			os.WriteFile(p+"/pubsub_fail.txt", []byte(what+"\n"), 0o644)
		}
		t.Fail()
	}
	feed := nsqd.GetTopic("vf_ps_feed")
	feed.GetChannel("c")
	target := nsqd.GetTopic("vf_ps_target")
	tch := target.GetChannel("c2")
	conn, err := mustConnectNSQD(tcpAddr)
	if err != nil {
		t.Fatal(err)
	}
	defer conn.Close()
	conn.(*net.TCPConn).SetNoDelay(true)
	identify(t, conn, nil, frameTypeResponse)
	sub(t, conn, "vf_ps_feed", "c")
	nsq.Ready(200).WriteTo(conn)
	helper, err := mustConnectNSQD(tcpAddr)
	if err != nil {
		t.Fatal(err)
	}
	defer helper.Close()
	// no heartbeats on the helper connection: its answers are read with readValidate, and on a loaded machine the
	// scenario can outlast the heartbeat interval (seen once: "_heartbeat_" instead of "OK" after 30 s)
	identify(t, helper, map[string]interface{}{"heartbeat_interval": -1}, frameTypeResponse)
	// next frame on the dual connection: ("msg", id) | ("resp", text) | ("err", text)
	next := func() (string, string) {
		for {
			conn.SetReadDeadline(time.Now().Add(10 * time.Second))
			resp, err := nsq.ReadResponse(conn)
			if err != nil {
				return "ioerr", err.Error()
			}
			ft, data, err := nsq.UnpackResponse(resp)
			if err != nil {
				return "ioerr", err.Error()
			}
			switch ft {
			case frameTypeMessage:
				m, err := nsq.DecodeMessage(data)
				if err != nil {
					return "ioerr", "undecodable message frame"
				}
				return "msg", string(m.ID[:])
			case frameTypeError:
				return "err", string(data)
			default:
				if string(data) == "_heartbeat_" {
					nsq.Nop().WriteTo(conn)
					continue
				}
				return "resp", string(data)
			}
		}
	}
	okCases, frames := 0, 0
	kinds := map[string]int{}
	for i := 0; i < n; i++ {
		kind := []string{"PUB", "PUB", "DPUB", "MPUB"}[r.Intn(4)]
		kinds[kind]++
		var bodies [][]byte
		nb := 1
		if kind == "MPUB" {
			nb = 1 + r.Intn(3)
		}
		for k := 0; k < nb; k++ {
			sz := 256 + r.Intn(3000)
			if r.Intn(3) == 0 {
				sz = []int{256, 257, 511, 512, 65536 + 7, 4096 + 255}[r.Intn(6)]
			}
			b := vfE1InjectBody(r, sz)
			copy(b, fmt.Sprintf("case-%d-%d|", i, k)) // distinct
			bodies = append(bodies, b)
		}
		// the command as one byte string + the offsets of its 4-byte length fields
		var cmd bytes.Buffer
		var fields []int
		switch kind {
		case "PUB":
			cmd.WriteString("PUB vf_ps_target\n")
		case "DPUB":
			cmd.WriteString("DPUB vf_ps_target 0\n")
		case "MPUB":
			cmd.WriteString("MPUB vf_ps_target\n")
		}
		if kind == "MPUB" {
			total := 4
			for _, b := range bodies {
				total += 4 + len(b)
			}
			fields = append(fields, cmd.Len())
			binary.Write(&cmd, binary.BigEndian, int32(total))
			fields = append(fields, cmd.Len())
			binary.Write(&cmd, binary.BigEndian, int32(len(bodies)))
		}
		for _, b := range bodies {
			fields = append(fields, cmd.Len())
			binary.Write(&cmd, binary.BigEndian, int32(len(b)))
			cmd.Write(b)
		}
		raw := cmd.Bytes()
		splitAfter := 1 + r.Intn(3) // inside a length field: 1, 2 or 3 of its bytes first
		cut := fields[r.Intn(len(fields))] + splitAfter
		t0 := time.Now().UnixNano()
		if _, err := conn.Write(raw[:cut]); err != nil {
			t.Fatal(err)
		}
		time.Sleep(time.Duration(2+r.Intn(3)) * time.Millisecond) // the daemon is now blocked inside the length read
		// force a frame for this connection and wait until it is here
		nsq.Publish("vf_ps_feed", []byte(fmt.Sprintf("feed-%d", i))).WriteTo(helper)
		readValidate(t, helper, frameTypeResponse, "OK")
		k, v := next()
		if k != "msg" {
			fail("case %d (%s, %d bodies, first %d bytes): expected the forced message frame, got %s %q", i, kind, nb, len(bodies[0]), k, v)
			return
		}
		frames++
		feedID := v
		if _, err := conn.Write(raw[cut:]); err != nil {
			t.Fatal(err)
		}
		k, v = next()
		t1 := time.Now().UnixNano()
		if k != "resp" || v != "OK" {
			fail("case %d: %s of %d body/bodies (%d bytes, length field split after %d of 4 bytes, a frame was sent to the connection in between) was answered %s %q instead of OK",
				i, kind, nb, len(bodies[0]), splitAfter, k, strings.ToValidUTF8(v, "?"))
			return
		}
		var fid nsq.MessageID
		copy(fid[:], feedID)
		nsq.Finish(fid).WriteTo(conn)
		// what arrived on the target channel
		var got []*Message
		deadline := time.Now().Add(5 * time.Second)
		for len(got) < nb && time.Now().Before(deadline) {
			select {
			case m := <-tch.memoryMsgChan:
				got = append(got, m)
			case <-time.After(time.Millisecond):
			}
		}
		time.Sleep(time.Millisecond)
	drain:
		for {
			select {
			case m := <-tch.memoryMsgChan:
				got = append(got, m)
			default:
				break drain
			}
		}
		if len(got) != nb {
			fail("case %d: %s published %d body/bodies, %d message(s) arrived on the target channel", i, kind, nb, len(got))
			return
		}
		for k, m := range got {
			if !bytes.Equal(m.Body, bodies[k]) {
				fail("case %d: %s body %d published with %d bytes arrived with %d bytes (length field split after %d of 4 bytes with a frame to the same connection in between); published %s… got %s…",
					i, kind, k, len(bodies[k]), len(m.Body), splitAfter, vfHex(bodies[k][:24]), vfHex(m.Body[:vfE1Min(24, len(m.Body))]))
				return
			}
			if m.Timestamp < t0 || m.Timestamp > t1 {
				fail("case %d: timestamp %d outside the publish window [%d, %d]", i, m.Timestamp, t0, t1)
				return
			}
			for _, c := range m.ID {
				if !(c >= '0' && c <= '9' || c >= 'a' && c <= 'f') {
					fail("case %d: id %q is not 16 hex characters", i, m.ID[:])
					return
				}
			}
		}
		okCases++
	}
	// nothing else anywhere in the daemon
	nsqd.RLock()
	var extra []string
	for name := range nsqd.topicMap {
		if name != "vf_ps_feed" && name != "vf_ps_target" {
			extra = append(extra, name)
		}
	}
	nsqd.RUnlock()
	if len(extra) > 0 {
		fail("topics nobody published to exist after the run: %v (bytes of a body were executed as commands)", extra)
	}
	if d := tch.Depth(); d != 0 {
		fail("%d unexpected extra message(s) on the target channel", d)
	}
	if t.Failed() {
		return
	}
	fmt.Printf("PUBSUB-OK cases=%d frames-in-between=%d kinds=%v\n", okCases, frames, kinds)
}
