package nsqd

// C04, audit item A12: "never beyond max-msg-timeout after delivery" for a consumer that keeps the
// daemon's DEFAULT msg_timeout (no msg_timeout in IDENTIFY). The negotiated value is range-checked by
// SetMsgTimeout; the default comes straight from --msg-timeout, which option validation (nsqd.New) did
// not compare with --max-msg-timeout (finding `msg-timeout-above-max`; fix F40: New lowers the default to
// the cap).
//
// Every case: real New(opts) with the generated pair; if it is accepted, a real consumer over TCP (IDENTIFY
// without msg_timeout, SUB, RDY 1) receives one message; the in-flight deadline and deliveryTS are read
// off the real Channel, then TOUCH is sent and the deadline read again.
//   line:  optcheck <msgTimeout ns> <maxMsgTimeout ns>
//   impl:  refused | accepted first=<deadline - deliveryTS> touch_le_cap=<bool> touch_moved_back=<bool>

import (
	"fmt"
	"net"
	"os"
	"testing"
	"time"

	"github.com/nsqio/go-nsq"
)

func TestVerifMsgTimeoutOptions(t *testing.T) {
	out := vfOpen("optcheck")
	defer out.Close()
	r := vfNewRand(404)
	n := vfEnvInt("VERIF_N", 8)
	type pair struct{ mt, max time.Duration }
	pairs := []pair{
		{60 * time.Second, 15 * time.Minute},  // the defaults
		{20 * time.Minute, 15 * time.Minute},  // the audit's example: default above the cap
		{15 * time.Minute, 15 * time.Minute},  // equal: allowed
		{15*time.Minute + 1, 15 * time.Minute}, // one nanosecond above
	}
	for len(pairs) < n {
		max := time.Duration(1+r.Intn(3600)) * time.Second
		var mt time.Duration
		switch r.Intn(4) {
		case 0:
			mt = max
		case 1:
			mt = max + time.Duration(1+r.Intn(1000))*time.Millisecond
		case 2:
			mt = max * time.Duration(2+r.Intn(5))
		default:
			mt = time.Duration(1+r.Intn(int(max/time.Second))) * time.Second
		}
		pairs = append(pairs, pair{mt, max})
	}
	hist := map[string]int{}
	for i, p := range pairs {
		opts := NewOptions()
		opts.Logger = nil
		opts.LogLevel = LOG_FATAL
		opts.DataPath = t.TempDir()
		opts.TCPAddress, opts.HTTPAddress = vfLoop2()
	opts.HTTPSAddress = ""
		opts.MsgTimeout, opts.MaxMsgTimeout = p.mt, p.max
		op := fmt.Sprintf("optcheck %d %d", int64(p.mt), int64(p.max))
		nsqd, err := New(opts)
		if err != nil {
			out.Case(op, "refused")
			hist["refused"]++
			// neither tree shape refuses a pair of positive durations
			fmt.Printf("ORACLE-FAIL OPTS --msg-timeout %v --max-msg-timeout %v refused: %v\n", p.mt, p.max, err)
			t.Fail()
			continue
		}
		go nsqd.Main()
		res := func() string {
			topicName := fmt.Sprintf("vf_opt_%d", i)
			ch := nsqd.GetTopic(topicName).GetChannel("c")
			conn, err := net.DialTimeout("tcp", nsqd.RealTCPAddr().String(), 2*time.Second)
			if err != nil {
				return "error connect " + err.Error()
			}
			defer conn.Close()
			conn.Write(nsq.MagicV2)
			identify(t, conn, nil, frameTypeResponse) // no msg_timeout: the daemon default applies
			sub(t, conn, topicName, "c")
			nsq.Ready(1).WriteTo(conn)
			nsqd.GetTopic(topicName).PutMessage(NewMessage(nsqd.GetTopic(topicName).GenerateID(), []byte("x")))
			var id MessageID
			for {
				conn.SetReadDeadline(time.Now().Add(10 * time.Second))
				resp, err := nsq.ReadResponse(conn)
				if err != nil {
					return "error read " + err.Error()
				}
				ft, data, _ := nsq.UnpackResponse(resp)
				if ft == frameTypeMessage {
					m, _ := nsq.DecodeMessage(data)
					id = MessageID(m.ID)
					break
				}
			}
			read := func() (pri, dts int64, ok bool) {
				ch.inFlightMutex.Lock()
				defer ch.inFlightMutex.Unlock()
				m, ok := ch.inFlightMessages[id]
				if !ok {
					return 0, 0, false
				}
				return m.pri, m.deliveryTS.UnixNano(), true
			}
			first, dts, ok := read()
			if !ok {
				return "error message not in flight"
			}
			nsq.Touch(nsq.MessageID(id)).WriteTo(conn)
			var pri int64
			for k := 0; k < 2000; k++ { // TOUCH has no answer: wait until the deadline moved (or 2 s)
				pri, _, _ = read()
				if pri != first {
					break
				}
				time.Sleep(time.Millisecond)
			}
			return fmt.Sprintf("accepted first=%d touch_le_cap=%v touch_moved_back=%v", first-dts, pri-dts <= int64(p.max), pri < first)
		}()
		done := make(chan struct{})
		go func() { nsqd.Exit(); close(done) }()
		select {
		case <-done:
		case <-time.After(10 * time.Second):
		}
		out.Case(op, res)
		if len(res) > 8 && res[:8] == "accepted" {
			hist["accepted"]++
		} else {
			hist["error"]++
			fmt.Printf("ORACLE-FAIL OPTS case `%s`: %s\n", op, res)
			t.Fail()
		}
	}
	if p := os.Getenv("VERIF_OUT"); p != "" && !t.Failed() {
		fmt.Printf("OPTS-OK cases=%d %v\n", len(pairs), hist)
	}
}
