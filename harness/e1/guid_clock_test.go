package nsqd

// C12, audit item B25 — the clock-stepped-back clause ("the publish waits; it never reuses an id") and
// ids obtained through the real publish paths.
//
// A test cannot step the host's wall clock, so the state a step back of D produces is installed
// directly (white box): the topic's id factory remembers an id that was handed out D in the future
// (lastTimestamp = (now + D) >> 20, lastID = the id of that pseudo-millisecond). Everything else is the
// real code: Topic.GenerateID, the TCP PUB / MPUB / DPUB handlers, HTTP /pub and /mpub.
//
//   TestVerifGuidClockBack   short steps (milliseconds … ~1.5 s): the publish blocks, is released by the
//                            real clock passing lastTimestamp, and gets ids above everything handed out
//                            before; pre/post factory state goes to the Lean model (op `genids`).
//   TestVerifGuidClockFar    long steps (10 min, 1 h, 1 day): the publish stays blocked and the factory
//                            state does not move, for a window measured in *retries* (a calibration
//                            goroutine counts 1 ms sleeps side by side), not in seconds.
//   TestVerifGuidPublishOrder ids read off consumed message frames: a sequential publisher alternating
//                            PUB / MPUB / DPUB / HTTP pub / HTTP mpub (plus a concurrent second publisher)
//                            sees its ids strictly increase in publish order; all ids distinct; node bits
//                            and time field are what the layout says.

import (
	"bytes"
	"encoding/binary"
	"fmt"
	"io"
	"net"
	"net/http"
	"os"
	"sort"
	"strconv"
	"strings"
	"sync"
	"sync/atomic"
	"testing"
	"time"

	"github.com/nsqio/go-nsq"
)

func vfE1GFail(t *testing.T, tag string, format string, a ...interface{}) {
	what := fmt.Sprintf(format, a...)
	fmt.Printf("ORACLE-FAIL %s %s\n", tag, what)
	if p := os.Getenv("VERIF_OUT"); p != "" {
		f, err := os.OpenFile(p+"/guidclock_fail.txt", os.O_APPEND|os.O_CREATE|os.O_WRONLY, 0o644)
		if err == nil {
			f.WriteString(tag + " " + what + "\n")
			f.Close()
		}
	}
	t.Fail()
}

func vfE1GIDNum(id MessageID) (int64, bool) {
	u, err := strconv.ParseUint(string(id[:]), 16, 64)
	return int64(u), err == nil
}

func vfE1GOpts(t *testing.T) *Options {
	opts := NewOptions()
	opts.Logger = nil
	opts.LogLevel = LOG_FATAL
	opts.DataPath = t.TempDir()
	opts.MemQueueSize = 100000
	opts.MaxReqTimeout = time.Hour
	opts.ID = int64(vfEnvInt("VERIF_NODEID", 517))
	return opts
}

// vfE1GStepBack installs "an id was handed out `ahead` from now" into the factory and returns the pre-state.
// justIssued: lastID is exactly the id of (lastTimestamp, sequence); otherwise it is an older id.
func vfE1GStepBack(f *guidFactory, ahead time.Duration, seq int64, older int64) (node, lastTs int64, lastID guid) {
	f.Lock()
	lastTs = time.Now().Add(ahead).UnixNano() >> 20
	lastID = guid(((lastTs - older - twepoch) << timestampShift) | (f.nodeID << nodeIDShift) | seq)
	f.lastTimestamp = lastTs
	f.sequence = seq
	f.lastID = lastID
	node = f.nodeID
	f.Unlock()
	return
}

func vfE1GState(f *guidFactory) (seq, lastTs int64, lastID guid) {
	f.Lock()
	seq, lastTs, lastID = f.sequence, f.lastTimestamp, f.lastID
	f.Unlock()
	return
}

// one way of making the topic hand out ids; returns the ids in generation order as far as the caller
// can know it (MPUB: batch order), read white-box off the topic's channel `c`.
type vfE1GEntrance struct {
	name string
	k    int // messages
}

func vfE1GMpubBody(bodies [][]byte) []byte {
	var b bytes.Buffer
	binary.Write(&b, binary.BigEndian, int32(len(bodies)))
	for _, x := range bodies {
		binary.Write(&b, binary.BigEndian, int32(len(x)))
		b.Write(x)
	}
	return b.Bytes()
}

// vfE1GPublish performs one publish through entrance e; answers "" when acknowledged.
func vfE1GPublish(e vfE1GEntrance, conn net.Conn, httpAddr string, topic string, bodies [][]byte) string {
	readOK := func() string {
		for {
			resp, err := nsq.ReadResponse(conn)
			if err != nil {
				return "io: " + err.Error()
			}
			ft, data, err := nsq.UnpackResponse(resp)
			if err != nil {
				return "io: " + err.Error()
			}
			if ft == frameTypeResponse && string(data) == "_heartbeat_" {
				nsq.Nop().WriteTo(conn)
				continue
			}
			if ft != frameTypeResponse || string(data) != "OK" {
				return fmt.Sprintf("answer frame %d %q", ft, data)
			}
			return ""
		}
	}
	post := func(path string, body []byte) string {
		resp, err := http.Post("http://"+httpAddr+path, "application/octet-stream", bytes.NewReader(body))
		if err != nil {
			return "http: " + err.Error()
		}
		b, _ := io.ReadAll(resp.Body)
		resp.Body.Close()
		if resp.StatusCode != 200 {
			return fmt.Sprintf("http status %d %q", resp.StatusCode, b)
		}
		return ""
	}
	switch e.name {
	case "pub":
		nsq.Publish(topic, bodies[0]).WriteTo(conn)
		return readOK()
	case "dpub":
		nsq.DeferredPublish(topic, 3*time.Millisecond, bodies[0]).WriteTo(conn)
		return readOK()
	case "mpub":
		cmd, _ := nsq.MultiPublish(topic, bodies)
		cmd.WriteTo(conn)
		return readOK()
	case "hpub":
		return post("/pub?topic="+topic, bodies[0])
	case "hmpub":
		return post("/mpub?topic="+topic+"&binary=true", vfE1GMpubBody(bodies))
	case "hmpubtext":
		return post("/mpub?topic="+topic, bytes.Join(bodies, []byte("\n")))
	}
	return "unknown entrance"
}

var vfE1GEntrances = []vfE1GEntrance{{"direct", 1}, {"pub", 1}, {"dpub", 1}, {"mpub", 3}, {"hpub", 1}, {"hmpub", 2}, {"hmpubtext", 3}}

// TestVerifGuidClockBack — see the file comment.
// op line : genids <node> <seq> <lastTs> <lastID> <t0> <ts_1,…,ts_k>      (ts_j = the pseudo-ms field of id j)
// impl    : ids=<id_1,…,id_k> <seq'> <lastTs'> <lastID'>
func TestVerifGuidClockBack(t *testing.T) {
	out := vfOpen("guidclock")
	defer out.Close()
	opts := vfE1GOpts(t)
	tcpAddr, httpAddr, nsqd := vfStartNSQD(opts)
	defer nsqd.Exit()
	r := vfNewRand(1212)
	n := vfEnvInt("VERIF_N", 14)
	maxStep := vfEnvInt("VERIF_MAXSTEP_MS", 1600)
	type plan struct {
		i       int
		e       vfE1GEntrance
		ahead   time.Duration
		seq     int64
		older   int64
		topic   string
		factory *guidFactory
		top     *Topic
		ch      *Channel
	}
	var plans []plan
	hist := map[string]int{}
	for i := 0; i < n; i++ {
		p := plan{i: i, e: vfE1GEntrances[i%len(vfE1GEntrances)]}
		switch r.Intn(4) {
		case 0:
			p.ahead = time.Duration(1+r.Intn(40)) * time.Millisecond
		case 1, 2:
			p.ahead = time.Duration(50+r.Intn(500)) * time.Millisecond
		default:
			p.ahead = time.Duration(maxStep*2/3+r.Intn(maxStep/3+1)) * time.Millisecond
		}
		switch r.Intn(6) {
		case 0:
			p.seq = 0
		case 1:
			p.seq = 4094
		case 2:
			p.seq = 4095 // the id of lastTimestamp's millisecond that would come next does not exist
		default:
			p.seq = int64(r.Intn(4094))
		}
		if p.seq != 4095 && r.Intn(3) == 0 {
			p.older = int64(1 + r.Intn(1000)) // the last id is older than lastTimestamp (errors in between)
		}
		p.topic = fmt.Sprintf("vf_clk_%d", i)
		p.top = nsqd.GetTopic(p.topic)
		p.ch = p.top.GetChannel("c")
		p.factory = p.top.idFactory
		plans = append(plans, p)
		hist[p.e.name]++
	}
	var wg sync.WaitGroup
	var mu sync.Mutex
	maxWait := time.Duration(0)
	for _, p := range plans {
		wg.Add(1)
		go func(p plan) {
			defer wg.Done()
			var conn net.Conn
			if p.e.name == "pub" || p.e.name == "dpub" || p.e.name == "mpub" {
				c, err := mustConnectNSQD(tcpAddr)
				if err != nil {
					vfE1GFail(t, "CLOCK", "case %d: connect: %v", p.i, err)
					return
				}
				defer c.Close()
				identify(t, c, map[string]interface{}{"heartbeat_interval": -1}, frameTypeResponse)
				conn = c
			}
			bodies := make([][]byte, p.e.k)
			for j := range bodies {
				bodies[j] = []byte(fmt.Sprintf("clk-%d-%d", p.i, j))
			}
			node, lastTs, lastID := vfE1GStepBack(p.factory, p.ahead, p.seq, p.older)
			t0 := time.Now().UnixNano()
			var ids []MessageID
			if p.e.name == "direct" {
				ids = append(ids, p.top.GenerateID())
			} else {
				if bad := vfE1GPublish(p.e, conn, httpAddr.String(), p.topic, bodies); bad != "" {
					vfE1GFail(t, "CLOCK", "case %d (%s, clock %v behind the last id): publish not acknowledged: %s", p.i, p.e.name, p.ahead, bad)
					return
				}
			}
			t1 := time.Now().UnixNano()
			seq2, lastTs2, lastID2 := vfE1GState(p.factory)
			if p.e.name != "direct" {
				got := map[string]MessageID{}
				deadline := time.After(20 * time.Second)
				for len(got) < p.e.k {
					select {
					case m := <-p.ch.memoryMsgChan:
						got[string(m.Body)] = m.ID
					case <-deadline:
						vfE1GFail(t, "CLOCK", "case %d (%s): only %d of %d acknowledged messages reached the channel", p.i, p.e.name, len(got), p.e.k)
						return
					}
				}
				for _, b := range bodies {
					ids = append(ids, got[string(b)])
				}
			}
			desc := fmt.Sprintf("case %d entrance=%s node=%d: factory state of a clock stepped back by %v (sequence=%d lastTimestamp=%d lastID=%d = %s)",
				p.i, p.e.name, node, p.ahead, p.seq, lastTs, int64(lastID), func() string { h := lastID.Hex(); return string(h[:]) }())
			var nums, tss []string
			prev := int64(lastID)
			for j, id := range ids {
				g, ok := vfE1GIDNum(id)
				if !ok {
					vfE1GFail(t, "CLOCK", "%s: id %q is not 16 hex characters", desc, id[:])
					return
				}
				if g <= prev {
					vfE1GFail(t, "CLOCK", "%s: id #%d handed out after %.3fs is %s = %d, not above the id handed out before it (%d): ids between the two can be handed out a second time",
						desc, j, float64(t1-t0)/1e9, id[:], g, prev)
					return
				}
				if (g>>int64(timestampShift))+twepoch < lastTs {
					vfE1GFail(t, "CLOCK", "%s: id #%d = %s carries pseudo-millisecond %d < lastTimestamp %d: the publish did not wait for the clock", desc, j, id[:], (g>>int64(timestampShift))+twepoch, lastTs)
					return
				}
				prev = g
				nums = append(nums, fmt.Sprint(g))
				tss = append(tss, fmt.Sprint((g>>int64(timestampShift))+twepoch))
			}
			if t1>>20 < lastTs {
				vfE1GFail(t, "CLOCK", "%s: the publish returned at pseudo-millisecond %d, before the clock reached lastTimestamp %d", desc, t1>>20, lastTs)
				return
			}
			if int64(lastID2) != prev {
				vfE1GFail(t, "CLOCK", "%s: the factory remembers lastID=%d, the last id handed out is %d", desc, int64(lastID2), prev)
				return
			}
			out.Case(fmt.Sprintf("genids %d %d %d %d %d %s", node, p.seq, lastTs, int64(lastID), t0, strings.Join(tss, ",")),
				fmt.Sprintf("ids=%s %d %d %d", strings.Join(nums, ","), seq2, lastTs2, int64(lastID2)))
			mu.Lock()
			if d := time.Duration(t1 - t0); d > maxWait {
				maxWait = d
			}
			mu.Unlock()
		}(p)
	}
	wg.Wait()
	if !t.Failed() {
		fmt.Printf("CLOCK-OK cases=%d released=%d longest_wait_ms=%d entrances=%v\n", n, out.N, maxWait.Milliseconds(), hist)
	}
}

// TestVerifGuidClockFar — see the file comment. VERIF_RETRIES = how many 1 ms retries the window must span.
func TestVerifGuidClockFar(t *testing.T) {
	opts := vfE1GOpts(t)
	tcpAddr, httpAddr, nsqd := vfStartNSQD(opts)
	want := int64(vfEnvInt("VERIF_RETRIES", 2500))
	wallMax := time.Duration(vfEnvInt("VERIF_WALL_MAX_S", 25)) * time.Second
	r := vfNewRand(1213)
	steps := []time.Duration{10 * time.Minute, time.Hour, 24 * time.Hour}
	type far struct {
		e               vfE1GEntrance
		ahead           time.Duration
		topic           string
		top             *Topic
		seq, lastTs     int64
		lastID          guid
		returned        int32
		what            atomic.Value
	}
	var fars []*far
	for i, e := range []vfE1GEntrance{{"direct", 1}, {"pub", 1}, {"hpub", 1}, {"mpub", 3}} {
		f := &far{e: e, ahead: steps[r.Intn(len(steps))], topic: fmt.Sprintf("vf_far_%d", i)}
		f.top = nsqd.GetTopic(f.topic)
		f.top.GetChannel("c")
		f.seq = int64(r.Intn(4095))
		fars = append(fars, f)
	}
	// calibration: the same 1 ms sleep GenerateID does between two attempts, counted side by side
	var sleeps int64
	stop := make(chan struct{})
	go func() {
		for {
			select {
			case <-stop:
				return
			default:
			}
			time.Sleep(time.Millisecond)
			atomic.AddInt64(&sleeps, 1)
		}
	}()
	start := time.Now()
	for _, f := range fars {
		_, f.lastTs, f.lastID = vfE1GStepBack(f.top.idFactory, f.ahead, f.seq, 0)
		go func(f *far) {
			var conn net.Conn
			if f.e.name == "pub" || f.e.name == "mpub" {
				c, err := mustConnectNSQD(tcpAddr)
				if err != nil {
					return
				}
				identify(t, c, map[string]interface{}{"heartbeat_interval": -1}, frameTypeResponse)
				conn = c
			}
			bodies := [][]byte{[]byte("far-0"), []byte("far-1"), []byte("far-2")}[:f.e.k]
			if f.e.name == "direct" {
				id := f.top.GenerateID()
				f.what.Store(fmt.Sprintf("Topic.GenerateID returned id %s", id[:]))
			} else {
				ans := vfE1GPublish(f.e, conn, httpAddr.String(), f.topic, bodies)
				if ans == "" {
					ans = "OK"
				}
				f.what.Store(fmt.Sprintf("the publish was answered (%s)", ans))
			}
			atomic.StoreInt32(&f.returned, 1)
		}(f)
	}
	polls := 0
	for atomic.LoadInt64(&sleeps) < want && time.Since(start) < wallMax && !t.Failed() {
		time.Sleep(20 * time.Millisecond)
		polls++
		for _, f := range fars {
			seq, lastTs, lastID := vfE1GState(f.top.idFactory)
			desc := fmt.Sprintf("entrance=%s node=%d: factory state of a clock stepped back by %v (sequence=%d lastTimestamp=%d lastID=%d)",
				f.e.name, opts.ID, f.ahead, f.seq, f.lastTs, int64(f.lastID))
			if atomic.LoadInt32(&f.returned) == 1 {
				extra := ""
				if lastID != f.lastID {
					extra = fmt.Sprintf("; the factory now remembers lastID=%d lastTimestamp=%d: ids between it and %d can be handed out a second time", int64(lastID), lastTs, int64(f.lastID))
				}
				vfE1GFail(t, "CLOCKFAR", "%s: %v after %.2fs (~%d retries) although the clock is still %v behind the last id handed out — the publish must wait%s",
					desc, f.what.Load(), time.Since(start).Seconds(), atomic.LoadInt64(&sleeps), f.ahead, extra)
				break
			}
			if seq != f.seq || lastTs != f.lastTs || lastID != f.lastID {
				vfE1GFail(t, "CLOCKFAR", "%s: while the publish waits the factory state moved to sequence=%d lastTimestamp=%d lastID=%d after %.2fs (~%d retries)",
					desc, seq, lastTs, int64(lastID), time.Since(start).Seconds(), atomic.LoadInt64(&sleeps))
				break
			}
		}
	}
	close(stop)
	got := atomic.LoadInt64(&sleeps)
	if !t.Failed() {
		fmt.Printf("CLOCKFAR-OK blocked=%d retries=%d wanted=%d wall_ms=%d polls=%d\n", len(fars), got, want, time.Since(start).Milliseconds(), polls)
	}
	// tear-down only (not part of the oracle): let the parked publishes go so that Exit() can return
	for _, f := range fars {
		fa := f.top.idFactory
		fa.Lock()
		fa.lastTimestamp, fa.lastID, fa.sequence = 0, 0, 0
		fa.Unlock()
	}
	done := make(chan struct{})
	go func() { nsqd.Exit(); close(done) }()
	select {
	case <-done:
	case <-time.After(10 * time.Second):
	}
}

// TestVerifGuidPublishOrder — see the file comment.
func TestVerifGuidPublishOrder(t *testing.T) {
	opts := vfE1GOpts(t)
	tcpAddr, httpAddr, nsqd := vfStartNSQD(opts)
	defer nsqd.Exit()
	r := vfNewRand(1214)
	nops := vfEnvInt("VERIF_N", 300)
	topic := "vf_order"
	nsqd.GetTopic(topic).GetChannel("c")
	tStart := time.Now().UnixNano() >> 20
	// consumer: every frame's id by body
	cons, err := mustConnectNSQD(tcpAddr)
	if err != nil {
		t.Fatal(err)
	}
	defer cons.Close()
	identify(t, cons, nil, frameTypeResponse) // (SUB needs heartbeats on; they are answered below)
	sub(t, cons, topic, "c")
	nsq.Ready(2500).WriteTo(cons)
	type rec struct {
		id       MessageID
		attempts uint16
	}
	var gmu sync.Mutex
	got := map[string]rec{}
	dupBody := ""
	consDone := make(chan struct{})
	go func() {
		defer close(consDone)
		for {
			resp, err := nsq.ReadResponse(cons)
			if err != nil {
				return
			}
			ft, data, err := nsq.UnpackResponse(resp)
			if err == nil && ft == frameTypeResponse && string(data) == "_heartbeat_" {
				nsq.Nop().WriteTo(cons)
			}
			if err != nil || ft != frameTypeMessage {
				continue
			}
			m, err := nsq.DecodeMessage(data)
			if err != nil {
				continue
			}
			gmu.Lock()
			if old, dup := got[string(m.Body)]; dup && old.id != MessageID(m.ID) {
				dupBody = string(m.Body)
			}
			got[string(m.Body)] = rec{MessageID(m.ID), m.Attempts}
			gmu.Unlock()
			nsq.Finish(m.ID).WriteTo(cons)
		}
	}()
	entr := vfE1GEntrances[1:] // all real publish paths
	hist := map[string]int{}
	var hmu sync.Mutex
	publisher := func(tag string, rr *vfRand, count int) [][]byte {
		conn, err := mustConnectNSQD(tcpAddr)
		if err != nil {
			vfE1GFail(t, "ORDER", "connect: %v", err)
			return nil
		}
		defer conn.Close()
		identify(t, conn, map[string]interface{}{"heartbeat_interval": -1}, frameTypeResponse)
		var order [][]byte
		seqno := 0
		for i := 0; i < count && !t.Failed(); i++ {
			e := entr[rr.Intn(len(entr))]
			k := 1
			if e.k > 1 {
				k = 2 + rr.Intn(5)
			}
			bodies := make([][]byte, k)
			for j := range bodies {
				bodies[j] = []byte(fmt.Sprintf("%s-%06d-%s", tag, seqno, e.name))
				seqno++
			}
			if bad := vfE1GPublish(vfE1GEntrance{e.name, k}, conn, httpAddr.String(), topic, bodies); bad != "" {
				vfE1GFail(t, "ORDER", "publisher %s: %s of %d messages not acknowledged: %s", tag, e.name, k, bad)
				return nil
			}
			order = append(order, bodies...)
			hmu.Lock()
			hist[e.name] += k
			hmu.Unlock()
		}
		return order
	}
	var orders [2][][]byte
	var wg sync.WaitGroup
	for w := 0; w < 2; w++ {
		wg.Add(1)
		go func(w int) {
			defer wg.Done()
			orders[w] = publisher(fmt.Sprintf("p%d", w), vfNewRand(uint64(1215+w)), nops/2)
		}(w)
	}
	_ = r
	wg.Wait()
	total := len(orders[0]) + len(orders[1])
	deadline := time.Now().Add(30 * time.Second)
	for {
		gmu.Lock()
		have := len(got)
		gmu.Unlock()
		if have >= total || time.Now().After(deadline) || t.Failed() {
			break
		}
		time.Sleep(5 * time.Millisecond)
	}
	tEnd := time.Now().UnixNano() >> 20
	gmu.Lock()
	defer gmu.Unlock()
	if t.Failed() {
		return
	}
	if dupBody != "" {
		vfE1GFail(t, "ORDER", "message %q was delivered with two different ids", dupBody)
		return
	}
	if len(got) < total {
		vfE1GFail(t, "ORDER", "only %d of %d acknowledged messages were consumed within 30 s", len(got), total)
		return
	}
	var all []string
	for w := range orders {
		prev, prevBody := int64(-1), ""
		for _, b := range orders[w] {
			rc, ok := got[string(b)]
			if !ok {
				vfE1GFail(t, "ORDER", "acknowledged message %q was never consumed", b)
				return
			}
			g, okh := vfE1GIDNum(rc.id)
			if !okh || g < 0 {
				vfE1GFail(t, "ORDER", "message %q has id %q: not 16 lower-case hex characters of a non-negative number", b, rc.id[:])
				return
			}
			if g <= prev {
				vfE1GFail(t, "ORDER", "node-id %d, one publisher, each publish acknowledged before the next: %q got id %016x, the message published before it (%q) has id %016x — ids do not increase in publish order",
					opts.ID, b, g, prevBody, prev)
				return
			}
			if node := (g >> int64(nodeIDShift)) & 1023; node != opts.ID {
				vfE1GFail(t, "ORDER", "id %016x of %q carries node bits %d, the daemon's node id is %d", g, b, node, opts.ID)
				return
			}
			if ts := (g >> int64(timestampShift)) + twepoch; ts < tStart || ts > tEnd {
				vfE1GFail(t, "ORDER", "id %016x of %q carries pseudo-millisecond %d outside the run [%d, %d]", g, b, ts, tStart, tEnd)
				return
			}
			prev, prevBody = g, string(b)
			all = append(all, string(rc.id[:]))
		}
	}
	sort.Strings(all)
	for i := 1; i < len(all); i++ {
		if all[i] == all[i-1] {
			vfE1GFail(t, "ORDER", "id %s was given to two messages of topic %s (two concurrent publishers over TCP and HTTP)", all[i], topic)
			return
		}
	}
	fmt.Printf("ORDER-OK msgs=%d distinct=%d publishers=2 entrances=%v\n", total, len(all), hist)
}

// TestVerifGuidRecreate — replay of the open finding `topic-recreate-same-pseudo-ms` (audit B25, "restart / re-create"):
// a deleted and re-created topic gets a NEW id factory that remembers nothing, so when delete + re-create + publish
// fit into the pseudo-millisecond of the old topic's last id, the new topic hands out that very id again
// (Lean: Props.C12Clock.restart_unique_full_false; what IS proved: restart_unique_partial). No clock step is needed.
// Only public daemon API: GetTopic, GenerateID, DeleteExistingTopic. Prints how often it happened.
func TestVerifGuidRecreate(t *testing.T) {
	opts := vfE1GOpts(t)
	_, _, nsqd := vfStartNSQD(opts)
	defer nsqd.Exit()
	cycles := vfEnvInt("VERIF_N", 300)
	same, lower := 0, 0
	example := ""
	for i := 0; i < cycles; i++ {
		name := "vf_recreate"
		if i%2 == 1 {
			name = "vf_recreate#ephemeral"
		}
		a := nsqd.GetTopic(name).GenerateID()
		if err := nsqd.DeleteExistingTopic(name); err != nil {
			t.Fatal(err)
		}
		b := nsqd.GetTopic(name).GenerateID()
		if err := nsqd.DeleteExistingTopic(name); err != nil {
			t.Fatal(err)
		}
		switch {
		case a == b:
			same++
			if example == "" {
				example = fmt.Sprintf("topic %s: id %s handed out, topic deleted and re-created, id %s handed out again (cycle %d)", name, a[:], b[:], i)
			}
		case string(b[:]) < string(a[:]):
			lower++
		}
	}
	fmt.Printf("RECREATE cycles=%d same_id=%d lower_id=%d node=%d %s\n", cycles, same, lower, opts.ID, example)
}
