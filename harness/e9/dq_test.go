package nsqd

// Engine E9: the REAL github.com/nsqio/go-diskqueue (the version pinned by go.mod) driven with
// generated operation sequences; after every operation its private state (reflection, read at a
// quiescent point of ioLoop) and its files are written as one canonical line which the Lean model
// (lean/Nsq/Model/DiskQueue.lean through drv_e9) must reproduce. A reference FIFO kept by the
// harness is the direct oracle (ORACLE-FAIL lines).
//
// line format: see lean/DriverE9.lean.

import (
	"bytes"
	"fmt"
	"hash/fnv"
	"os"
	"path/filepath"
	"reflect"
	"runtime"
	"sort"
	"strconv"
	"strings"
	"testing"
	"time"

	diskqueue "github.com/nsqio/go-diskqueue"
)

const vfE9Name = "q"

type vfE9Q struct {
	t     *testing.T
	dir   string
	q     diskqueue.Interface
	open  bool
	cfg   [4]int64 // maxBytesPerFile, min, max, syncEvery
	syncT time.Duration
	nDirs int
	base  string
}

func vfE9Log(lvl diskqueue.LogLevel, f string, args ...interface{}) {}

func (h *vfE9Q) newQ() {
	h.q = diskqueue.New(vfE9Name, h.dir, h.cfg[0], int32(h.cfg[1]), int32(h.cfg[2]), h.cfg[3], h.syncT, vfE9Log)
	h.open = true
}

// barrier: Depth() is answered inside ioLoop's select, i.e. after the loop has settled; then wait
// until the ioLoop goroutine is parked in that select again (it re-runs the top of the loop after
// every select case, and a re-read of a one-record file transiently changes private fields).
func (h *vfE9Q) barrier() int64 {
	d := h.q.Depth()
	vfE9WaitParked()
	return d
}

// vfE9WaitParked polls the goroutine dump until no ioLoop goroutine is runnable/running.
func vfE9WaitParked() {
	buf := make([]byte, 1<<20)
	for i := 0; ; i++ {
		n := runtime.Stack(buf, true)
		busy := false
		for _, g := range strings.Split(string(buf[:n]), "\n\n") {
			if !strings.Contains(g, "go-diskqueue.(*diskQueue).ioLoop") {
				continue
			}
			hdr := g[:strings.Index(g+"\n", "\n")]
			if !strings.Contains(hdr, "[select") {
				busy = true
			}
		}
		if !busy {
			return
		}
		if i > 200 {
			time.Sleep(200 * time.Microsecond)
		} else {
			runtime.Gosched()
		}
	}
}

func (h *vfE9Q) field(name string) int64 {
	return reflect.ValueOf(h.q).Elem().FieldByName(name).Int()
}

func (h *vfE9Q) st() string {
	ro := 0
	var rb int64
	if !reflect.ValueOf(h.q).Elem().FieldByName("readFile").IsNil() {
		ro = 1
		rd := reflect.ValueOf(h.q).Elem().FieldByName("reader").Elem()
		rb = rd.FieldByName("w").Int() - rd.FieldByName("r").Int() // bytes buffered by bufio
	}
	return fmt.Sprintf("st=%d,%d,%d,%d,%d,%d,%d,%d,%d,%d", h.field("readFileNum"), h.field("readPos"),
		h.field("writeFileNum"), h.field("writePos"), h.field("depth"), h.field("nextReadFileNum"),
		h.field("nextReadPos"), h.field("maxBytesPerFileRead"), ro, rb)
}

func vfE9Fnv(b []byte) uint64 {
	f := fnv.New64a()
	f.Write(b)
	return f.Sum64()
}

type vfE9File struct {
	num  int
	data []byte
}

// files: (data files, bad files, metadata text or "", other names)
func vfE9List(dir string) (dat, bad []vfE9File, meta string, hasMeta bool, other []string) {
	ents, _ := os.ReadDir(dir)
	for _, e := range ents {
		n := e.Name()
		p := filepath.Join(dir, n)
		switch {
		case n == vfE9Name+".diskqueue.meta.dat":
			b, _ := os.ReadFile(p)
			meta, hasMeta = string(b), true
		case strings.HasPrefix(n, vfE9Name+".diskqueue.") && strings.HasSuffix(n, ".dat.bad"):
			k, err := strconv.Atoi(strings.TrimSuffix(strings.TrimPrefix(n, vfE9Name+".diskqueue."), ".dat.bad"))
			b, _ := os.ReadFile(p)
			if err != nil {
				other = append(other, n)
			} else {
				bad = append(bad, vfE9File{k, b})
			}
		case strings.HasPrefix(n, vfE9Name+".diskqueue.") && strings.HasSuffix(n, ".dat"):
			k, err := strconv.Atoi(strings.TrimSuffix(strings.TrimPrefix(n, vfE9Name+".diskqueue."), ".dat"))
			b, _ := os.ReadFile(p)
			if err != nil {
				other = append(other, n)
			} else {
				dat = append(dat, vfE9File{k, b})
			}
		default:
			other = append(other, n)
		}
	}
	sort.Slice(dat, func(i, j int) bool { return dat[i].num < dat[j].num })
	sort.Slice(bad, func(i, j int) bool { return bad[i].num < bad[j].num })
	return
}

func vfE9ShowFiles(fs []vfE9File) string {
	if len(fs) == 0 {
		return "-"
	}
	var parts []string
	for _, f := range fs {
		parts = append(parts, fmt.Sprintf("%d:%d:%d", f.num, len(f.data), vfE9Fnv(f.data)))
	}
	return strings.Join(parts, ";")
}

func (h *vfE9Q) fsLine() string {
	dat, bad, meta, hasMeta, other := vfE9List(h.dir)
	m := "none"
	if hasMeta {
		var a, b, c, d, e int64
		if n, err := fmt.Sscanf(meta, "%d\n%d,%d\n%d,%d\n", &a, &b, &c, &d, &e); err != nil || n != 5 ||
			meta != fmt.Sprintf("%d\n%d,%d\n%d,%d\n", a, b, c, d, e) {
			m = "malformed:" + vfHex([]byte(meta))
		} else {
			m = fmt.Sprintf("%d,%d,%d,%d,%d", a, b, c, d, e)
		}
	}
	s := fmt.Sprintf("md=%s dat=%s bad=%s", m, vfE9ShowFiles(dat), vfE9ShowFiles(bad))
	if len(other) > 0 {
		s += " other=" + strings.Join(other, ",")
	}
	return s
}

func (h *vfE9Q) full() string { return h.st() + " " + h.fsLine() }

func (h *vfE9Q) dataFilePath(i int) string {
	return filepath.Join(h.dir, fmt.Sprintf("%s.diskqueue.%06d.dat", vfE9Name, i))
}

// recv: one receive from ReadChan when ioLoop offers it (decided white-box at a quiescent point)
func (h *vfE9Q) recv() (string, []byte, bool) {
	h.barrier()
	avail := h.field("readFileNum") < h.field("writeFileNum") || h.field("readPos") < h.field("writePos")
	if !avail {
		select {
		case m := <-h.q.ReadChan():
			return "unexpected:" + vfHex(m), m, true
		default:
		}
		return "none", nil, false
	}
	select {
	case m := <-h.q.ReadChan():
		return "msg:" + vfHex(m), m, true
	case <-time.After(30 * time.Second):
		return "timeout", nil, false
	}
}

func vfE9CopyDir(src, dst string) {
	os.MkdirAll(dst, 0700)
	ents, _ := os.ReadDir(src)
	for _, e := range ents {
		b, err := os.ReadFile(filepath.Join(src, e.Name()))
		if err == nil {
			os.WriteFile(filepath.Join(dst, e.Name()), b, 0600)
		}
	}
}

// TestVerifE9DqCorr: generated operation sequences on the real diskqueue.
func TestVerifE9DqCorr(t *testing.T) {
	out := vfOpen("dq")
	defer out.Close()
	r := vfNewRand(909)
	n := vfEnvInt("VERIF_N", 60)
	steps := vfEnvInt("VERIF_STEPS", 60)
	hist := map[string]int{}
	fails := 0
	fail := func(format string, a ...interface{}) {
		fails++
		if fails <= 5 {
			fmt.Printf("ORACLE-FAIL "+format+"\n", a...)
		}
	}
	base := t.TempDir()
	for c := 0; c < n; c++ {
		h := &vfE9Q{t: t, base: base, syncT: time.Hour}
		h.dir = filepath.Join(base, fmt.Sprintf("c%d_0", c))
		os.MkdirAll(h.dir, 0700)
		mbpf := []int64{24, 30, 40, 64, 100, 1 << 20}[r.Intn(6)]
		minSz := int64([]int{0, 1, 1, 5}[r.Intn(4)])
		maxSz := minSz + int64(3+r.Intn(30))
		big := r.Intn(10) == 0
		if big { // bodies around bufio's 4096-byte buffer: chunked / direct reads of the read-ahead
			mbpf = []int64{9000, 20000, 1 << 20}[r.Intn(3)]
			maxSz = 9000
		}
		se := []int64{1, 2, 3, 5, 1000}[r.Intn(5)]
		h.cfg = [4]int64{mbpf, minSz, maxSz, se}
		h.newQ()
		h.barrier()
		out.Case(fmt.Sprintf("new %d %d %d %d", mbpf, minSz, maxSz, se), "ok "+h.full())
		// reference FIFO: exact while the case is clean (no crash / corruption so far)
		var want [][]byte
		clean := true
		everPut := map[string]bool{}
		// hard-kill oracle (Props.E9Kill.kill_after_any_history): `dup` = records received since the metadata
		// file was last written (it is reset whenever the file's text changes or disappears). After ONE kill
		// of a clean history: metadata present => the queue is dup ++ want, Depth() = the file's stale depth;
		// absent => depth 0, everything lost. `killed` = depth-stale mode (Props.E9Kill.stale_depth_*): the
		// FIFO oracle goes on, Depth() is not checked until the reader has reached the tail (then it is 0).
		var dup [][]byte
		killed := false
		lastRF, lastWF := int64(0), int64(0)
		expectDepth := int64(-1)
		dirtyAfterReopen := false
		metaNow := func() string {
			_, _, m, ok, _ := vfE9List(h.dir)
			if !ok {
				return "<none>"
			}
			return m
		}
		kill := func() {
			if !clean || killed {
				clean = false
				return
			}
			m := metaNow()
			if m == "<none>" {
				hist["kill-oracle-no-metadata"]++
				if len(want) > 0 {
					hist["kill-oracle-no-metadata-lost>0"]++
				}
				want = nil
				expectDepth = 0
				dirtyAfterReopen = true // stale data files stay behind: later writes may collide with them
			} else {
				var a int64
				fmt.Sscanf(m, "%d\n", &a)
				expectDepth = a
				hist["kill-oracle-with-metadata"]++
				if len(dup) > 0 {
					hist["kill-oracle-redelivers>0"]++
				}
				if a != int64(len(dup)+len(want)) {
					hist["kill-oracle-depth-stale"]++
				}
				want = append(append([][]byte{}, dup...), want...)
				killed = true
			}
			dup = nil
		}
		var metaHist []string
		seqNo := 0
		body := func() []byte {
			wp := h.field("writePos")
			var l int64
			switch r.Intn(12) {
			case 0:
				l = minSz - 1
			case 1:
				l = minSz
			case 2:
				l = maxSz
			case 3:
				l = maxSz + 1
			case 4:
				l = maxSz + 1 + int64(r.Intn(9))
			case 5:
				l = h.cfg[0] - wp - 4 // fills the file exactly
			case 6:
				l = h.cfg[0] - wp - 3 // one byte too many: roll
			case 7:
				l = h.cfg[0] - wp - 5
			default:
				l = minSz + int64(r.Intn(int(maxSz-minSz+1)))
			}
			if l < 0 {
				l = 0
			}
			if l > maxSz+12 {
				l = maxSz
			}
			if big && r.Intn(3) > 0 {
				l = []int64{4088, 4091, 4092, 4093, 4096, 4100, 8188, 8192, 30, 2000}[r.Intn(10)]
			}
			b := r.Bytes(int(l))
			// make bodies distinct (when long enough) so that the FIFO oracle sees reordering
			seqNo++
			if len(b) >= 2 {
				b[0], b[1] = byte(seqNo>>8), byte(seqNo)
			}
			return b
		}
		reopen := func() {
			if clean && r.Intn(8) == 0 {
				h.cfg[0] = []int64{24, 30, 40, 64, 100, 1 << 20}[r.Intn(6)] // --max-bytes-per-file changed across the restart
				hist["reopen-new-maxbytes"]++
			}
			h.newQ()
			d := h.barrier()
			out.Case(fmt.Sprintf("reopen %d %d %d %d", h.cfg[0], h.cfg[1], h.cfg[2], h.cfg[3]), "ok "+h.full())
			hist["reopen"]++
			if expectDepth >= 0 {
				if d != expectDepth {
					fail("case %d: depth %d after kill/reopen, the metadata file said %d (%d records expected in the queue)", c, d, expectDepth, len(want))
				}
				expectDepth = -1
				if dirtyAfterReopen {
					clean = false
					dirtyAfterReopen = false
				}
			} else if clean && !killed && d != int64(len(want)) {
				fail("case %d: depth %d after close/reopen, %d records were queued", c, d, len(want))
			}
			dup = nil
		}
		corrupt := func() {
			dat, _, meta, hasMeta, _ := vfE9List(h.dir)
			k := r.Intn(7)
			switch {
			case k == 0 && len(dat) > 0:
				f := dat[r.Intn(len(dat))]
				nl := 0
				if len(f.data) > 0 {
					nl = r.Intn(len(f.data) + 1)
				}
				os.Truncate(h.dataFilePath(f.num), int64(nl))
				out.Case(fmt.Sprintf("trunc %d %d", f.num, nl), "ok "+h.fsLine())
				hist["trunc"]++
			case k == 1 && len(dat) > 0:
				f := dat[r.Intn(len(dat))]
				if len(f.data) == 0 {
					return
				}
				off := r.Intn(len(f.data))
				if r.Intn(2) == 0 && len(f.data) >= 4 {
					off = r.Intn(4) // hit a length prefix of the first record
				}
				v := byte(r.Next())
				f.data[off] = v
				os.WriteFile(h.dataFilePath(f.num), f.data, 0600)
				out.Case(fmt.Sprintf("poke %d %d %d", f.num, off, v), "ok "+h.fsLine())
				hist["poke"]++
			case k == 2 && len(dat) > 0:
				f := dat[r.Intn(len(dat))]
				os.Remove(h.dataFilePath(f.num))
				out.Case(fmt.Sprintf("rmfile %d", f.num), "ok "+h.fsLine())
				hist["rmfile"]++
			case k == 3 && hasMeta:
				os.Remove(filepath.Join(h.dir, vfE9Name+".diskqueue.meta.dat"))
				out.Case("rmmeta", "ok "+h.fsLine())
				hist["rmmeta"]++
			case k == 4 && len(metaHist) > 0:
				// stale metadata: what a kill before a later sync would have left
				old := metaHist[r.Intn(len(metaHist))]
				var a, b, cc, d, e int64
				fmt.Sscanf(old, "%d\n%d,%d\n%d,%d\n", &a, &b, &cc, &d, &e)
				os.WriteFile(filepath.Join(h.dir, vfE9Name+".diskqueue.meta.dat"), []byte(old), 0600)
				out.Case(fmt.Sprintf("setmeta %d %d %d %d %d", a, b, cc, d, e), "ok "+h.fsLine())
				hist["setmeta-stale"]++
			case k == 5 && len(dat) > 0:
				// unsynced tail: bytes after what the metadata knows (a torn or a complete record)
				f := dat[len(dat)-1]
				var extra []byte
				if r.Intn(2) == 0 {
					b := r.Bytes(int(h.cfg[1]) + r.Intn(int(h.cfg[2]-h.cfg[1]+1)))
					extra = append([]byte{0, 0, 0, byte(len(b))}, b...)
					if r.Intn(2) == 0 && len(extra) > 1 {
						extra = extra[:1+r.Intn(len(extra)-1)] // torn
					}
				} else {
					extra = r.Bytes(1 + r.Intn(9))
				}
				fh, _ := os.OpenFile(h.dataFilePath(f.num), os.O_WRONLY|os.O_APPEND, 0600)
				fh.Write(extra)
				fh.Close()
				out.Case(fmt.Sprintf("append %d %s", f.num, vfHex(extra)), "ok "+h.fsLine())
				hist["append"]++
			default:
				_ = meta
				return
			}
			clean = false
		}
		for s := 0; s < steps; s++ {
			if !h.open {
				reopen()
				continue
			}
			if _, _, m, ok, _ := vfE9List(h.dir); ok && (len(metaHist) == 0 || metaHist[len(metaHist)-1] != m) {
				metaHist = append(metaHist, m)
			}
			k := r.Intn(100)
			if clean && !killed && len(dup) > 0 && r.Intn(5) == 0 {
				k = 95 // kill while the metadata lags behind the reader: the re-delivery clause of the kill oracle
			}
			if rfNow, wfNow := h.field("readFileNum"), h.field("writeFileNum"); clean && !killed && (rfNow != lastRF || wfNow != lastWF) && r.Intn(3) == 0 {
				k = 95 // kill right after the writer rolled / the reader changed file: the metadata must have followed
				hist["kill-after-file-change"]++
			}
			lastRF, lastWF = h.field("readFileNum"), h.field("writeFileNum")
			switch {
			case k < 46:
				b := body()
				before := h.fsLine()
				mb := metaNow()
				err := h.q.Put(b)
				h.barrier()
				if metaNow() != mb {
					dup = nil
				}
				res := "ok"
				valid := int64(len(b)) >= minSz && int64(len(b)) <= maxSz
				if err != nil {
					res = "invalid"
					if !strings.Contains(err.Error(), "invalid message write size") {
						res = "err:" + strings.ReplaceAll(err.Error(), " ", "_")
					}
				}
				out.Case("put "+vfHex(b), res+" "+h.full())
				hist["put-"+res]++
				if valid != (err == nil) {
					fail("case %d: Put of %d bytes (min %d max %d) returned %v", c, len(b), minSz, maxSz, err)
				}
				if err == nil {
					want = append(want, b)
					everPut[string(b)] = true
				} else if after := h.fsLine(); !sameDat(before, after) {
					fail("case %d: rejected Put changed the data files: %s -> %s", c, before, after)
				}
			case k < 74:
				mb := metaNow()
				res, m, got := h.recv()
				dNow := h.barrier()
				if got && metaNow() == mb {
					dup = append(dup, m)
				} else if got {
					dup = nil
				}
				out.Case("recv", res+" "+h.full())
				hist["recv-"+strings.SplitN(res, ":", 2)[0]]++
				if clean {
					if got && (len(want) == 0 || !bytes.Equal(want[0], m)) {
						fail("case %d: received %s, FIFO head is %v", c, res, headOf(want))
					}
					if !got && len(want) > 0 {
						fail("case %d: nothing offered on ReadChan, %d records queued (%s)", c, len(want), res)
					}
				} else if got && !everPut[string(m)] && res != "timeout" {
					hist["recv-not-a-put-record(after corruption)"]++
				}
				if got && len(want) > 0 {
					want = want[1:]
					if clean && killed && len(want) == 0 {
						// the reader reached the tail: checkTailCorruption has reset the stale depth
						if dNow != 0 {
							fail("case %d: Depth() = %d after the reader drained the queue that survived a kill", c, dNow)
						}
						killed = false
						hist["kill-oracle-depth-healed"]++
					}
				}
			case k < 79:
				d := h.barrier()
				out.Case("depth", fmt.Sprintf("depth:%d ", d)+h.full())
				hist["depth"]++
				if clean && !killed && d != int64(len(want)) {
					fail("case %d: Depth() = %d, %d records queued", c, d, len(want))
				}
			case k < 83:
				err := h.q.Empty()
				h.barrier()
				res := "ok"
				if err != nil {
					res = "err"
				}
				out.Case("empty", res+" "+h.full())
				hist["empty"]++
				want = nil
				dup = nil
				killed = false // Empty resets depth to 0: healthy again (Props.E9Kill.stale_depth_healed)
				dat, _, _, hasMeta, _ := vfE9List(h.dir)
				if len(dat) > 0 || (hasMeta && se != 0) {
					if clean {
						fail("case %d: Empty() left data files %s", c, h.fsLine())
					} else {
						hist["empty-left-files(after corruption)"]++
					}
				}
				if r.Intn(3) == 0 {
					h.q.Delete()
					h.open = false
					out.Case("delete", "ok "+h.full())
					hist["delete-after-empty"]++
					dat, _, _, hasMeta, _ := vfE9List(h.dir)
					if clean && (len(dat) > 0 || hasMeta) {
						fail("case %d: Empty()+Delete() left %s", c, h.fsLine())
					}
				}
			case k < 91:
				h.q.Close()
				h.open = false
				out.Case("close", "ok "+h.full())
				hist["close"]++
				if r.Intn(3) == 0 {
					for i := 0; i < 1+r.Intn(2); i++ {
						corrupt()
					}
				}
			case k < 97:
				// process kill at a quiescent point: the files as they are now are what a new process finds
				h.barrier()
				h.nDirs++
				nd := filepath.Join(base, fmt.Sprintf("c%d_%d", c, h.nDirs))
				vfE9CopyDir(h.dir, nd)
				h.q.Close()
				h.open = false
				h.dir = nd
				out.Case("crash", "ok "+h.fsLine())
				hist["crash"]++
				kill()
			default:
				h.q.Delete()
				h.open = false
				out.Case("delete", "ok "+h.full())
				hist["delete"]++
				kill() // Delete does not persist the metadata: like a kill
			}
		}
		if h.open {
			h.q.Close()
		}
	}
	keys := make([]string, 0, len(hist))
	for k := range hist {
		keys = append(keys, k)
	}
	sort.Strings(keys)
	for _, k := range keys {
		fmt.Printf("E9HIST %s %d\n", strings.ReplaceAll(k, " ", "_"), hist[k])
	}
	if fails == 0 {
		fmt.Printf("ORACLE-OK cases=%d lines=%d\n", n, out.N)
	}
}

func headOf(w [][]byte) string {
	if len(w) == 0 {
		return "<empty>"
	}
	return vfHex(w[0])
}

// sameDat compares the dat= part of two fs lines
func sameDat(a, b string) bool {
	f := func(s string) string {
		for _, w := range strings.Fields(s) {
			if strings.HasPrefix(w, "dat=") {
				return w
			}
		}
		return ""
	}
	return f(a) == f(b)
}

// TestVerifE9DqSyncTimer: with a short sync timeout the metadata catches up with the state without
// any further operation (polled, generous deadline; never fails because the machine is slow).
func TestVerifE9DqSyncTimer(t *testing.T) {
	dir := t.TempDir()
	q := diskqueue.New(vfE9Name, dir, 1<<20, 1, 100, 1000000, 20*time.Millisecond, vfE9Log)
	defer q.Close()
	wait := func(want string) bool {
		dl := time.Now().Add(20 * time.Second)
		for time.Now().Before(dl) {
			b, _ := os.ReadFile(filepath.Join(dir, vfE9Name+".diskqueue.meta.dat"))
			if string(b) == want {
				return true
			}
			time.Sleep(5 * time.Millisecond)
		}
		return false
	}
	for i := 0; i < 3; i++ {
		q.Put([]byte("abcdef"))
	}
	ok1 := wait("3\n0,0\n0,30\n")
	<-q.ReadChan()
	ok2 := wait("2\n0,10\n0,30\n")
	if ok1 && ok2 {
		fmt.Println("SYNCTIMER-OK")
	} else {
		fmt.Printf("ORACLE-FAIL sync timer: metadata did not follow the state within 20 s (%v %v)\n", ok1, ok2)
	}
}

// TestVerifE9DqReplay: executes a committed op file (VERIF_E9_OPS, same line language as the
// generated run) on the real package; lines starting with '#' are ignored.
func TestVerifE9DqReplay(t *testing.T) {
	out := vfOpen("dqreplay")
	defer out.Close()
	txt, err := os.ReadFile(os.Getenv("VERIF_E9_OPS"))
	if err != nil {
		t.Fatal(err)
	}
	base := t.TempDir()
	h := &vfE9Q{t: t, base: base, syncT: time.Hour}
	atoi := func(s string) int64 { v, _ := strconv.ParseInt(s, 10, 64); return v }
	unhex := func(s string) []byte {
		if s == "-" {
			return nil
		}
		b := make([]byte, len(s)/2)
		fmt.Sscanf(s, "%x", &b)
		return b
	}
	for _, line := range strings.Split(string(txt), "\n") {
		w := strings.Fields(line)
		if len(w) == 0 || strings.HasPrefix(w[0], "#") {
			continue
		}
		switch w[0] {
		case "new", "reopen":
			if w[0] == "new" {
				h.nDirs++
				h.dir = filepath.Join(base, fmt.Sprintf("r_%d", h.nDirs))
				os.MkdirAll(h.dir, 0700)
			}
			h.cfg = [4]int64{atoi(w[1]), atoi(w[2]), atoi(w[3]), atoi(w[4])}
			h.newQ()
			h.barrier()
			out.Case(line, "ok "+h.full())
		case "put":
			err := h.q.Put(unhex(w[1]))
			h.barrier()
			res := "ok"
			if err != nil {
				res = "invalid"
				if strings.Contains(err.Error(), "exiting") {
					res = "exiting"
				}
			}
			out.Case(line, res+" "+h.full())
		case "recv":
			if !h.open {
				out.Case(line, "none "+h.full())
				continue
			}
			res, _, _ := h.recv()
			h.barrier()
			out.Case(line, res+" "+h.full())
		case "depth":
			out.Case(line, fmt.Sprintf("depth:%d ", h.barrier())+h.full())
		case "empty":
			res := "ok"
			if h.q.Empty() != nil {
				res = "exiting"
			}
			h.barrier()
			out.Case(line, res+" "+h.full())
		case "close":
			h.q.Close()
			h.open = false
			out.Case(line, "ok "+h.full())
		case "delete":
			h.q.Delete()
			h.open = false
			out.Case(line, "ok "+h.full())
		case "crash":
			h.barrier()
			h.nDirs++
			nd := filepath.Join(base, fmt.Sprintf("r_%d", h.nDirs))
			vfE9CopyDir(h.dir, nd)
			h.q.Close()
			h.open = false
			h.dir = nd
			out.Case(line, "ok "+h.fsLine())
		case "trunc":
			os.Truncate(h.dataFilePath(int(atoi(w[1]))), atoi(w[2]))
			out.Case(line, "ok "+h.fsLine())
		case "poke":
			b, _ := os.ReadFile(h.dataFilePath(int(atoi(w[1]))))
			if int(atoi(w[2])) < len(b) {
				b[atoi(w[2])] = byte(atoi(w[3]))
				os.WriteFile(h.dataFilePath(int(atoi(w[1]))), b, 0600)
			}
			out.Case(line, "ok "+h.fsLine())
		case "rmfile":
			os.Remove(h.dataFilePath(int(atoi(w[1]))))
			out.Case(line, "ok "+h.fsLine())
		case "rmmeta":
			os.Remove(filepath.Join(h.dir, vfE9Name+".diskqueue.meta.dat"))
			out.Case(line, "ok "+h.fsLine())
		case "setmeta":
			os.WriteFile(filepath.Join(h.dir, vfE9Name+".diskqueue.meta.dat"),
				[]byte(fmt.Sprintf("%d\n%d,%d\n%d,%d\n", atoi(w[1]), atoi(w[2]), atoi(w[3]), atoi(w[4]), atoi(w[5]))), 0600)
			out.Case(line, "ok "+h.fsLine())
		case "append":
			fh, _ := os.OpenFile(h.dataFilePath(int(atoi(w[1]))), os.O_WRONLY|os.O_APPEND|os.O_CREATE, 0600)
			fh.Write(unhex(w[2]))
			fh.Close()
			out.Case(line, "ok "+h.fsLine())
		default:
			out.Case(line, "bad-op")
		}
	}
	if h.open {
		h.q.Close()
	}
}
