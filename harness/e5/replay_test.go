package nsqd

// Hook replays of the micro-step schedules that Lean exhibits (C08: F7/F8 family, C05: F9).
// Every schedule runs in its own subprocess (see props/C08.py, props/C05.py) because a panic
// inside a critical section leaves inFlightMutex locked.
//
//   VERIF_SCHED=<name> <bin> -test.run '^TestVerifE5Replay$' -test.timeout 20s
//
// Output: lines `E5REPLAY <name> key=value ...` (one per schedule), parsed by the python side.

import (
	"fmt"
	"os"
	"strings"
	"sync/atomic"
	"testing"
	"time"
)

type vfE5NullLogger struct{}

func (vfE5NullLogger) Output(_ int, s string) error {
	if os.Getenv("VERIF_LOG") != "" {
		fmt.Println("E5LOG " + s)
	}
	return nil
}

func vfE5Opts(dir string) *Options {
	opts := NewOptions()
	opts.Logger = vfE5NullLogger{}
	opts.LogLevel = LOG_FATAL
	if os.Getenv("VERIF_LOG") != "" {
		opts.LogLevel = LOG_WARN
	}
	opts.TCPAddress = "127.0.0.1:0"
	opts.HTTPAddress = "127.0.0.1:0"
	opts.HTTPSAddress = "127.0.0.1:0"
	opts.DataPath = dir
	opts.StatsdPrefix = ""
	opts.QueueScanInterval = time.Hour
	opts.QueueScanRefreshInterval = time.Hour
	opts.SyncTimeout = time.Hour
	return opts
}

func vfE5ID(n int) MessageID {
	var id MessageID
	copy(id[:], fmt.Sprintf("%016x", n))
	return id
}

// vfE5Gate is a hook callback that parks the first goroutine reaching the point.
type vfE5Gate struct {
	reached chan struct{}
	release chan struct{}
	used    int32
}

func vfE5NewGate(point string) *vfE5Gate {
	g := &vfE5Gate{reached: make(chan struct{}), release: make(chan struct{})}
	VerifSetHook(point, func(string) {
		if atomic.CompareAndSwapInt32(&g.used, 0, 1) {
			close(g.reached)
			<-g.release
		}
	})
	return g
}

func (g *vfE5Gate) wait(t *testing.T) {
	select {
	case <-g.reached:
	case <-time.After(5 * time.Second):
		t.Fatalf("hook point never reached")
	}
}

// vfE5Try runs f in a goroutine, recovering a panic; returns "ok", "panic:<text>" or "blocked".
func vfE5Try(d time.Duration, f func()) string {
	res := make(chan string, 1)
	go func() {
		defer func() {
			if r := recover(); r != nil {
				res <- "panic:" + strings.ReplaceAll(fmt.Sprint(r), " ", "_")
			}
		}()
		f()
		res <- "ok"
	}()
	select {
	case s := <-res:
		return s
	case <-time.After(d):
		return "blocked"
	}
}

func TestVerifE5Replay(t *testing.T) {
	name := os.Getenv("VERIF_SCHED")
	defer VerifClearHooks()
	switch name {
	case "f7_empty_stale_index", "f7_unrelated_removed", "f7_req_empty", "f7_touch_empty":
		vfE5ReplayF7(t, name)
	case "dq_bad_file_after_delete":
		vfE5ReplayBadFile(t, name)
	default:
		t.Fatalf("unknown schedule %q", name)
	}
}

// F7: FIN/REQ/TOUCH has left the in-flight map (parked at chan.<op>.afterPop), Channel.Empty
// resets map and heap, then the parked goroutine removes from the heap by a stale index.
func vfE5ReplayF7(t *testing.T, name string) {
	n, err := New(vfE5Opts(t.TempDir()))
	if err != nil {
		t.Fatal(err)
	}
	topic := n.GetTopic("f7")
	ch := topic.GetChannel("c")
	point := "chan.fin.afterPop"
	op := func(id MessageID) error { return ch.FinishMessage(1, id) }
	switch name {
	case "f7_req_empty":
		point = "chan.req.afterPop"
		op = func(id MessageID) error { return ch.RequeueMessage(1, id, 0) }
	case "f7_touch_empty":
		point = "chan.touch.afterPop"
		op = func(id MessageID) error { return ch.TouchMessage(1, id, time.Minute) }
	}
	// two messages in flight so that m sits at heap index 0 or 1
	m := NewMessage(vfE5ID(1), []byte("m"))
	ch.StartInFlightTimeout(m, 1, time.Minute)
	g := vfE5NewGate(point)
	first := make(chan string, 1)
	go func() { first <- vfE5Try(10*time.Second, func() { op(m.ID) }) }()
	g.wait(t)
	ch.Empty()
	var u *Message
	if name == "f7_unrelated_removed" {
		// after the reset another message is delivered: it now occupies heap slot 0
		u = NewMessage(vfE5ID(2), []byte("u"))
		ch.StartInFlightTimeout(u, 2, time.Minute)
	}
	close(g.release)
	r1 := <-first
	// liveness of the channel afterwards: a FIN of an unknown id only needs inFlightMutex
	r2 := vfE5Try(2*time.Second, func() { ch.FinishMessage(9, vfE5ID(99)) })
	extra := ""
	if u != nil && r2 == "ok" {
		ch.inFlightMutex.Lock()
		_, inMap := ch.inFlightMessages[u.ID]
		heapLen := len(ch.inFlightPQ)
		idx := u.index
		ch.inFlightMutex.Unlock()
		dirty := ch.processInFlightQueue(time.Now().Add(24 * time.Hour).UnixNano())
		ch.inFlightMutex.Lock()
		_, still := ch.inFlightMessages[u.ID]
		ch.inFlightMutex.Unlock()
		extra = fmt.Sprintf(" u_in_map=%v heap_len=%d u_index=%d scan_dirty=%v u_stuck_in_flight=%v", inMap, heapLen, idx, dirty, still)
	}
	fmt.Printf("E5REPLAY %s op=%s later_fin=%s%s\n", name, r1, r2, extra)
}

// go-diskqueue v1.1.0: when the writer rotates to a new file while the reader has consumed the
// current file exactly to its end, the reader then hits EOF in the old file and quarantines it as
// `<name>.diskqueue.NNNNNN.dat.bad`; neither Empty nor Delete removes `.bad` files, so a deleted
// channel leaves a file behind.  No message is lost (the file had been consumed completely).
func vfE5ReplayBadFile(t *testing.T, name string) {
	dir := t.TempDir()
	opts := vfE5Opts(dir)
	opts.MemQueueSize = 0
	opts.MaxBytesPerFile = 100
	n, err := New(opts)
	if err != nil {
		t.Fatal(err)
	}
	topic := n.GetTopic("dq")
	ch := topic.GetChannel("c")
	body := make([]byte, 10) // record = 4 + 26 + 10 = 40 bytes; two fit below 100, the third rotates
	got := 0
	put := func(i int) { ch.PutMessage(NewMessage(vfE5ID(i), body)) }
	read := func() {
		select {
		case <-ch.backend.ReadChan():
			got++
		case <-time.After(2 * time.Second):
		}
	}
	put(1)
	put(2)
	read()
	read() // reader is exactly at the end of file 0
	put(3) // 80+40 > 100: the writer rotates to file 1
	read() // the reader first tries file 0 again (EOF → .bad), then reads message 3 from file 1
	err = topic.DeleteExistingChannel("c")
	ents, _ := os.ReadDir(dir)
	var left []string
	for _, e := range ents {
		if strings.HasPrefix(e.Name(), "dq:c.") {
			left = append(left, e.Name())
		}
	}
	fmt.Printf("E5REPLAY %s delivered=%d delete_err=%v left=%s\n", name, got, err, strings.Join(left, ","))
	n.Exit()
}
