package nsqd

// Hook replays of the micro-step schedules that Lean exhibits (C08: F7/F8 family, C05: F9).
// Every schedule runs in its own subprocess (see props/C08.py, props/C05.py) because a panic
// inside a critical section leaves inFlightMutex locked.
//
//   VERIF_SCHED=<name> <bin> -test.run '^TestVerifE5Replay$' -test.timeout 20s
//
// Output: lines `E5REPLAY <name> key=value ...` (one per schedule), parsed by the python side.

import (
	"fmt"
	"io"
	"net"
	"os"
	"runtime"
	"strings"
	"sync/atomic"
	"testing"
	"time"
)

type vfE5NullLogger struct{}

func (vfE5NullLogger) Output(_ int, s string) error {
	if os.Getenv("VERIF_LOG") != "" {
		fmt.Println("E5LOG " + s)
	}
	return nil
}

func vfE5Opts(dir string) *Options {
	opts := NewOptions()
	opts.Logger = vfE5NullLogger{}
	opts.LogLevel = LOG_FATAL
	if os.Getenv("VERIF_LOG") != "" {
		opts.LogLevel = LOG_WARN
	}
	opts.TCPAddress, opts.HTTPAddress, opts.HTTPSAddress = vfLoop3()
	opts.DataPath = dir
	opts.StatsdPrefix = ""
	opts.QueueScanInterval = time.Hour
	opts.QueueScanRefreshInterval = time.Hour
	opts.SyncTimeout = time.Hour
	return opts
}

func vfE5ID(n int) MessageID {
	var id MessageID
	copy(id[:], fmt.Sprintf("%016x", n))
	return id
}

// vfE5Gate is a hook callback that parks the first goroutine reaching the point.
type vfE5Gate struct {
	reached chan struct{}
	release chan struct{}
	used    int32
}

func vfE5NewGate(point string) *vfE5Gate {
	g := &vfE5Gate{reached: make(chan struct{}), release: make(chan struct{})}
	VerifSetHook(point, func(string) {
		if atomic.CompareAndSwapInt32(&g.used, 0, 1) {
			close(g.reached)
			<-g.release
		}
	})
	return g
}

func (g *vfE5Gate) wait(t *testing.T) {
	select {
	case <-g.reached:
	case <-time.After(5 * time.Second):
		t.Fatalf("hook point never reached")
	}
}

// vfE5Try runs f in a goroutine, recovering a panic; returns "ok", "panic:<text>" or "blocked".
func vfE5Try(d time.Duration, f func()) string {
	res := make(chan string, 1)
	go func() {
		defer func() {
			if r := recover(); r != nil {
				res <- "panic:" + strings.ReplaceAll(fmt.Sprint(r), " ", "_")
			}
		}()
		f()
		res <- "ok"
	}()
	select {
	case s := <-res:
		return s
	case <-time.After(d):
		return "blocked"
	}
}

func TestVerifE5Replay(t *testing.T) {
	name := os.Getenv("VERIF_SCHED")
	defer VerifClearHooks()
	switch name {
	case "f7_empty_stale_index", "f7_unrelated_removed", "f7_req_empty", "f7_touch_empty":
		vfE5ReplayF7(t, name)
	case "ephemeral_topic_two_last_deletes", "ephemeral_topic_delete_races_create":
		vfE5ReplayEphTopic(t, name)
	case "ephemeral_topic_concurrent_leave":
		vfE5ReplayEphLeave(t, name)
	case "ephemeral_sub_after_last_leave":
		vfE5ReplayEphSubAfterLeave(t, name)
	case "delete_races_getchannel":
		vfE5ReplayDeleteGetChannel(t, name)
	case "fin_races_empty_count", "req_races_empty_count":
		vfE5ReplayAnswerEmpty(t, name)
	case "empty_races_delivery":
		vfE5ReplayEmptyDelivery(t, name)
	case "exit_races_timeout_scan":
		vfE5ReplayExitScan(t, name)
	case "exit_races_pending_notify":
		vfE5ReplayExitNotify(t, name)
	case "exit_races_req", "exit_races_req_deferred", "exit_races_touch":
		vfE5ReplayExitAnswer(t, name)
	case "topic_double_delete_unlinks_fresh":
		vfE5ReplayDoubleDelete(t, name)
	case "chan_double_delete_unlinks_fresh", "chan_double_delete_waits":
		vfE5ReplayChanDoubleDelete(t, name)
	case "empty_races_req_survives", "empty_races_touch_survives", "empty_races_scan_survives":
		vfE5ReplayEmptyReqSurvives(t, name)
	case "exit_races_new_topic_publish":
		vfE5ReplayExitNewTopic(t, name)
	case "sync_every_zero_delete", "sync_every_negative_delete", "sync_every_one_delete":
		vfE5ReplaySyncEvery(t, name)
	case "topic_delete_races_sub", "topic_delete_races_sub_early", "topic_delete_races_create_channel":
		vfE5ReplayTopicDeleteSub(t, name)
	case "f9_pump_holds":
		vfE5ReplayF9Pump(t, name)
	case "f9_put_after_exit_check":
		vfE5ReplayF9Put(t, name)
	case "orphan_resurrect":
		vfE5ReplayOrphan(t, name)
	case "empty_while_consumer_drains":
		vfE5ReplayEmptyDrain(t, name)
	case "dq_bad_file_after_delete":
		vfE5ReplayBadFile(t, name)
	default:
		t.Fatalf("unknown schedule %q", name)
	}
}

// F7: FIN/REQ/TOUCH has left the in-flight map (parked at chan.<op>.afterPop), Channel.Empty
// resets map and heap, then the parked goroutine removes from the heap by a stale index.
func vfE5ReplayF7(t *testing.T, name string) {
	n, err := New(vfE5Opts(t.TempDir()))
	if err != nil {
		t.Fatal(err)
	}
	topic := n.GetTopic("f7")
	ch := topic.GetChannel("c")
	point := "chan.fin.afterPop"
	op := func(id MessageID) error { return ch.FinishMessage(1, id) }
	switch name {
	case "f7_req_empty":
		point = "chan.req.afterPop"
		op = func(id MessageID) error { return ch.RequeueMessage(1, id, 0) }
	case "f7_touch_empty":
		point = "chan.touch.afterPop"
		op = func(id MessageID) error { return ch.TouchMessage(1, id, time.Minute) }
	}
	// two messages in flight so that m sits at heap index 0 or 1
	m := NewMessage(vfE5ID(1), []byte("m"))
	ch.StartInFlightTimeout(m, 1, time.Minute)
	g := vfE5NewGate(point)
	first := make(chan string, 1)
	go func() { first <- vfE5Try(10*time.Second, func() { op(m.ID) }) }()
	g.wait(t)
	// a tree where REQ / TOUCH hold the channel's read lock (fixes/F27) makes Empty wait for the parked answer: the
	// F7 schedule is then not executable for them - Empty runs once the answer has finished
	empDone := make(chan string, 1)
	go func() { empDone <- vfE5Try(20*time.Second, func() { ch.Empty() }) }()
	waited := false
	select {
	case <-empDone:
	case <-time.After(400 * time.Millisecond):
		waited = true
	}
	var u *Message
	if name == "f7_unrelated_removed" && !waited {
		// after the reset another message is delivered: it now occupies heap slot 0
		u = NewMessage(vfE5ID(2), []byte("u"))
		ch.StartInFlightTimeout(u, 2, time.Minute)
	}
	close(g.release)
	r1 := <-first
	if waited {
		if e := <-empDone; e != "ok" {
			r1 = "empty-" + e
		}
	}
	// liveness of the channel afterwards: a FIN of an unknown id only needs inFlightMutex
	r2 := vfE5Try(2*time.Second, func() { ch.FinishMessage(9, vfE5ID(99)) })
	extra := ""
	if u != nil && r2 == "ok" {
		ch.inFlightMutex.Lock()
		_, inMap := ch.inFlightMessages[u.ID]
		heapLen := len(ch.inFlightPQ)
		idx := u.index
		ch.inFlightMutex.Unlock()
		dirty := ch.processInFlightQueue(time.Now().Add(24 * time.Hour).UnixNano())
		ch.inFlightMutex.Lock()
		_, still := ch.inFlightMessages[u.ID]
		ch.inFlightMutex.Unlock()
		extra = fmt.Sprintf(" u_in_map=%v heap_len=%d u_index=%d scan_dirty=%v u_stuck_in_flight=%v", inMap, heapLen, idx, dirty, still)
	}
	fmt.Printf("E5REPLAY %s op=%s later_fin=%s empty_waited_for_answer=%v%s\n", name, r1, r2, waited, extra)
}

// go-diskqueue v1.1.0: when the writer rotates to a new file while the reader has consumed the
// current file exactly to its end, the reader then hits EOF in the old file and quarantines it as
// `<name>.diskqueue.NNNNNN.dat.bad`; neither Empty nor Delete removes `.bad` files, so a deleted
// channel leaves a file behind.  No message is lost (the file had been consumed completely).
func vfE5ReplayBadFile(t *testing.T, name string) {
	dir := t.TempDir()
	opts := vfE5Opts(dir)
	opts.MemQueueSize = 0
	opts.MaxBytesPerFile = 100
	n, err := New(opts)
	if err != nil {
		t.Fatal(err)
	}
	topic := n.GetTopic("dq")
	ch := topic.GetChannel("c")
	body := make([]byte, 10) // record = 4 + 26 + 10 = 40 bytes; two fit below 100, the third rotates
	got := 0
	put := func(i int) { ch.PutMessage(NewMessage(vfE5ID(i), body)) }
	read := func() {
		select {
		case <-ch.backend.ReadChan():
			got++
		case <-time.After(2 * time.Second):
		}
	}
	put(1)
	put(2)
	read()
	read() // reader is exactly at the end of file 0
	put(3) // 80+40 > 100: the writer rotates to file 1
	read() // the reader first tries file 0 again (EOF → .bad), then reads message 3 from file 1
	err = topic.DeleteExistingChannel("c")
	ents, _ := os.ReadDir(dir)
	var left []string
	for _, e := range ents {
		if strings.HasPrefix(e.Name(), "dq:c.") {
			left = append(left, e.Name())
		}
	}
	fmt.Printf("E5REPLAY %s delivered=%d delete_err=%v left=%s\n", name, got, err, strings.Join(left, ","))
	n.Exit()
}

// A durable channel under an ephemeral topic has a real disk queue.  The topic is not written to
// the metadata, so after a restart nobody owns the channel's files; creating the same names again
// re-opens them: the "new" channel starts with the old backlog.
func vfE5ReplayOrphan(t *testing.T, name string) {
	dir := t.TempDir()
	opts := vfE5Opts(dir)
	opts.MemQueueSize = 1
	n, err := New(opts)
	if err != nil {
		t.Fatal(err)
	}
	n.LoadMetadata()
	go n.Main()
	topic := n.GetTopic("e#ephemeral")
	ch := topic.GetChannel("c")
	for i := 1; i <= 3; i++ {
		topic.PutMessage(NewMessage(topic.GenerateID(), []byte("x")))
	}
	for d := time.Now().Add(5 * time.Second); ch.Depth() < 3 && time.Now().Before(d); {
		time.Sleep(time.Millisecond)
	}
	before := ch.Depth()
	n.Exit()
	n2, err := New(vfE5OptsLike(opts, dir))
	if err != nil {
		t.Fatal(err)
	}
	n2.LoadMetadata()
	go n2.Main()
	_, terr := n2.GetExistingTopic("e#ephemeral")
	var left []string
	ents, _ := os.ReadDir(dir)
	for _, e := range ents {
		if strings.HasPrefix(e.Name(), "e#ephemeral") {
			left = append(left, e.Name())
		}
	}
	ch2 := n2.GetTopic("e#ephemeral").GetChannel("c")
	fmt.Printf("E5REPLAY %s depth_before_exit=%d topic_after_restart=%v files=%s recreated_depth=%d\n", name, before,
		terr == nil, strings.Join(left, ","), ch2.Depth())
	n2.Exit()
}

func vfE5OptsLike(o *Options, dir string) *Options {
	opts := vfE5Opts(dir)
	opts.MemQueueSize = o.MemQueueSize
	opts.MaxBytesPerFile = o.MaxBytesPerFile
	return opts
}

// vfE5Restart: New on the same data path + LoadMetadata (+ Main), as apps/nsqd does.
func vfE5Restart(t *testing.T, old *Options, dir string) *NSQD {
	n2, err := New(vfE5OptsLike(old, dir))
	if err != nil {
		t.Fatal(err)
	}
	if err := n2.LoadMetadata(); err != nil {
		t.Fatal(err)
	}
	n2.PersistMetadata()
	go n2.Main()
	return n2
}

func vfE5TotalDepth(n *NSQD, topic string, channels ...string) int64 {
	tp, err := n.GetExistingTopic(topic)
	if err != nil {
		return -1
	}
	// let the reloaded topic queue reach the channels, then add everything up
	for d := time.Now().Add(300 * time.Millisecond); time.Now().Before(d); {
		time.Sleep(5 * time.Millisecond)
	}
	total := tp.Depth()
	for _, c := range channels {
		if ch, err := tp.GetExistingChannel(c); err == nil {
			total += ch.Depth()
		}
	}
	return total
}

// F9 (a): the consumer's messagePump has received m from the channel queue and is parked before
// StartInFlightTimeout (proto.pump.afterRecv); NSQD.Exit() runs to completion (flush sees neither
// queue nor in-flight map containing m); the pump continues.  After a restart m is gone although
// its publish had been acknowledged and it was never delivered.
func vfE5ReplayF9Pump(t *testing.T, name string) {
	dir := t.TempDir()
	opts := vfE5Opts(dir)
	opts.MemQueueSize = 10
	opts.ClientTimeout = 60 * time.Second
	n, err := New(opts)
	if err != nil {
		t.Fatal(err)
	}
	n.LoadMetadata()
	go n.Main()
	topic := n.GetTopic("f9")
	ch := topic.GetChannel("c")
	acked := topic.PutMessage(NewMessage(topic.GenerateID(), []byte("m"))) == nil
	for d := time.Now().Add(5 * time.Second); ch.Depth() < 1 && time.Now().Before(d); {
		time.Sleep(time.Millisecond)
	}
	g := vfE5NewGate("proto.pump.afterRecv")
	conn, err := net.DialTimeout("tcp", n.RealTCPAddr().String(), 2*time.Second)
	if err != nil {
		t.Fatal(err)
	}
	conn.Write([]byte("  V2"))
	conn.Write([]byte("SUB f9 c\n"))
	conn.Write([]byte("RDY 1\n"))
	g.wait(t)
	// a tree whose Exit waits for the connection handlers (and the pumps they join) before it flushes does not
	// finish while the pump is parked; the unchanged tree does
	exitDone := make(chan string, 1)
	go func() { exitDone <- vfE5Try(20*time.Second, func() { n.Exit() }) }()
	exit, early := "", false
	select {
	case exit = <-exitDone:
		early = true
	case <-time.After(500 * time.Millisecond):
	}
	close(g.release)
	if !early {
		exit = <-exitDone
	} else {
		// the pump now registers m in the in-flight map of the closed channel and fails to send it
		for d := time.Now().Add(2 * time.Second); time.Now().Before(d); {
			ch.inFlightMutex.Lock()
			k := len(ch.inFlightMessages)
			ch.inFlightMutex.Unlock()
			if k > 0 {
				break
			}
			time.Sleep(time.Millisecond)
		}
	}
	conn.Close()
	n2 := vfE5Restart(t, opts, dir)
	depth := vfE5TotalDepth(n2, "f9", "c")
	fmt.Printf("E5REPLAY %s acked=%v exit=%s exit_finished_while_pump_parked=%v depth_after_restart=%d lost=%v\n", name, acked, exit, early, depth, acked && depth == 0)
	n2.Exit()
}

// F9 (b): a publisher has passed the exitFlag test in Topic.PutMessage and is parked
// (topic.put.afterExitCheck); NSQD.Exit() flushes and closes the topic; the publisher's send then
// lands in the topic's memory channel and PutMessage returns nil (acknowledged).  After a restart
// the message is gone.
func vfE5ReplayF9Put(t *testing.T, name string) {
	dir := t.TempDir()
	opts := vfE5Opts(dir)
	opts.MemQueueSize = 10
	n, err := New(opts)
	if err != nil {
		t.Fatal(err)
	}
	n.LoadMetadata()
	go n.Main()
	topic := n.GetTopic("f9")
	topic.GetChannel("c")
	// the creation notifications persist the metadata asynchronously: wait for them, so that the
	// only PersistMetadata still to come is the one inside Exit
	for d := time.Now().Add(5 * time.Second); time.Now().Before(d); {
		b, _ := os.ReadFile(dir + "/nsqd.dat")
		if strings.Contains(string(b), `"name":"c"`) {
			break
		}
		time.Sleep(time.Millisecond)
	}
	time.Sleep(20 * time.Millisecond)
	// Exit is held right after its PersistMetadata (NSQD lock held, topics not yet closed) ...
	ge := vfE5NewGate("meta.persist.afterRename")
	exitRes := make(chan string, 1)
	go func() { exitRes <- vfE5Try(10*time.Second, func() { n.Exit() }) }()
	ge.wait(t)
	// ... a publisher passes the exitFlag test and is parked ...
	g := vfE5NewGate("topic.put.afterExitCheck")
	res := make(chan error, 1)
	go func() { res <- topic.PutMessage(NewMessage(topic.GenerateID(), []byte("m"))) }()
	g.wait(t)
	// ... Exit closes and flushes the topic, then the publisher's queue write happens; or (tree with
	// the topic-exit barrier) Exit waits for the publisher's read lock: give it ample time, then let
	// the publisher go on
	close(ge.release)
	exit := ""
	exitedFirst := false
	select {
	case exit = <-exitRes:
		exitedFirst = true
	case <-time.After(1500 * time.Millisecond):
	}
	close(g.release)
	var perr error
	select {
	case perr = <-res:
	case <-time.After(5 * time.Second):
		perr = fmt.Errorf("publisher blocked")
	}
	if exit == "" {
		exit = <-exitRes
	}
	n2 := vfE5Restart(t, opts, dir)
	depth := vfE5TotalDepth(n2, "f9", "c")
	fmt.Printf("E5REPLAY %s acked=%v exit=%s exit_finished_while_publisher_parked=%v depth_after_restart=%d lost=%v\n",
		name, perr == nil, exit, exitedFirst, depth, perr == nil && depth == 0)
	n2.Exit()
}

// A consumer's answer racing the shutdown: REQ (immediate or deferred) or TOUCH has taken the message
// out of the in-flight map (parked at chan.req.afterPop / chan.touch.afterPop) when NSQD.Exit() is
// called.  If Exit can run to its end while the answer is parked, Channel.flush sees the message in no
// container: it is written nowhere, and the answer then either fails with "exiting" (REQ 0) or puts it
// into a map of a closed channel (REQ > 0, TOUCH).  After a restart the message must still be there.
func vfE5ReplayExitAnswer(t *testing.T, name string) {
	dir := t.TempDir()
	opts := vfE5Opts(dir)
	opts.MemQueueSize = 10
	n, err := New(opts)
	if err != nil {
		t.Fatal(err)
	}
	n.LoadMetadata()
	n.PersistMetadata()
	go n.Main()
	topic := n.GetTopic("xa")
	ch := topic.GetChannel("c")
	acked := 0
	for i := 0; i < 2; i++ {
		if topic.PutMessage(NewMessage(topic.GenerateID(), []byte{byte(i)})) == nil {
			acked++
		}
	}
	for d := time.Now().Add(5 * time.Second); ch.Depth() < 2 && time.Now().Before(d); {
		time.Sleep(time.Millisecond)
	}
	msg := <-ch.memoryMsgChan
	msg.Attempts++
	ch.StartInFlightTimeout(msg, 77, time.Minute)
	point := "chan.req.afterPop"
	op := func() error { return ch.RequeueMessage(77, msg.ID, 0) }
	switch name {
	case "exit_races_req_deferred":
		op = func() error { return ch.RequeueMessage(77, msg.ID, time.Minute) }
	case "exit_races_touch":
		point = "chan.touch.afterPop"
		op = func() error { return ch.TouchMessage(77, msg.ID, time.Minute) }
	}
	g := vfE5NewGate(point)
	var operr error
	ans := make(chan string, 1)
	go func() { ans <- vfE5Try(20*time.Second, func() { operr = op() }) }()
	g.wait(t)
	exitRes := make(chan string, 1)
	go func() { exitRes <- vfE5Try(20*time.Second, func() { n.Exit() }) }()
	exit := ""
	exitedFirst := false
	select {
	case exit = <-exitRes:
		exitedFirst = true
	case <-time.After(1500 * time.Millisecond):
	}
	close(g.release)
	ansRes := <-ans
	if exit == "" {
		exit = <-exitRes
	}
	n2 := vfE5Restart(t, opts, dir)
	depth := vfE5TotalDepth(n2, "xa", "c")
	fmt.Printf("E5REPLAY %s acked=%d exit=%s answer=%s answer_err=%v exit_finished_while_answer_parked=%v depth_after_restart=%d lost=%v\n",
		name, acked, exit, ansRes, operr != nil, exitedFirst, depth, depth < int64(acked))
	n2.Exit()
}

// Empty racing a delivery: the consumer's messagePump is inside StartInFlightTimeout, between the
// in-flight map insert and the heap insert (chan.inflight.afterMapPush); Channel.Empty resets map and
// heap and zeroes the consumer's in-flight count; the pump continues: heap insert, SendingMessage
// (count = 1), the frame is sent.  The consumer's FIN then fails (the id is not in the map), so the
// count is never decremented: with RDY 1 the consumer never receives another message.
func vfE5ReplayEmptyDelivery(t *testing.T, name string) {
	opts := vfE5Opts(t.TempDir())
	opts.MemQueueSize = 10
	opts.ClientTimeout = 60 * time.Second
	n, err := New(opts)
	if err != nil {
		t.Fatal(err)
	}
	n.LoadMetadata()
	go n.Main()
	topic := n.GetTopic("ed")
	ch := topic.GetChannel("c")
	m := NewMessage(topic.GenerateID(), []byte("m"))
	topic.PutMessage(m)
	for d := time.Now().Add(5 * time.Second); ch.Depth() < 1 && time.Now().Before(d); {
		time.Sleep(time.Millisecond)
	}
	g := vfE5NewGate("chan.inflight.afterMapPush")
	conn, err := net.DialTimeout("tcp", n.RealTCPAddr().String(), 2*time.Second)
	if err != nil {
		t.Fatal(err)
	}
	defer conn.Close()
	conn.Write([]byte("  V2"))
	conn.Write([]byte("SUB ed c\n"))
	conn.Write([]byte("RDY 1\n"))
	g.wait(t)
	ch.Empty()
	close(g.release)
	// read frames until the message arrives (skip the OK of SUB and heartbeats)
	got := false
	buf := make([]byte, 4096)
	conn.SetReadDeadline(time.Now().Add(3 * time.Second))
	var acc []byte
	for !got {
		k, err := conn.Read(buf)
		if err != nil {
			break
		}
		acc = append(acc, buf[:k]...)
		if strings.Contains(string(acc), string(m.ID[:])) {
			got = true
		}
	}
	conn.Write([]byte("FIN " + string(m.ID[:]) + "\n"))
	time.Sleep(100 * time.Millisecond)
	var cl *clientV2
	ch.RLock()
	for _, c := range ch.clients {
		cl = c.(*clientV2)
	}
	ch.RUnlock()
	cnt := int64(-99)
	ready := false
	if cl != nil {
		cnt = atomic.LoadInt64(&cl.InFlightCount)
		ready = cl.IsReadyForMessages()
	}
	ch.inFlightMutex.Lock()
	inMap := len(ch.inFlightMessages)
	inHeap := len(ch.inFlightPQ)
	ch.inFlightMutex.Unlock()
	// a second message: is it ever delivered to this RDY-1 consumer?
	m2 := NewMessage(topic.GenerateID(), []byte("second"))
	topic.PutMessage(m2)
	conn.SetReadDeadline(time.Now().Add(1500 * time.Millisecond))
	second := false
	acc = acc[:0]
	for !second {
		k, err := conn.Read(buf)
		if err != nil {
			break
		}
		acc = append(acc, buf[:k]...)
		if strings.Contains(string(acc), string(m2.ID[:])) {
			second = true
		}
	}
	fmt.Printf("E5REPLAY %s delivered_after_empty=%v in_flight_map=%d heap=%d client_in_flight_count=%d ready=%v second_delivered=%v starved=%v\n",
		name, got, inMap, inHeap, cnt, ready, second, got && !second && cnt > 0 && inMap == 0)
	n.Exit()
}

// vfE5BlockingConsumer is a consumer whose TimedOutMessage() parks the queue-scan worker: the
// timed-out message has then left the in-flight map and has not been put back on the queue yet.
type vfE5BlockingConsumer struct {
	entered chan struct{}
	release chan struct{}
	used    int32
}

func (d *vfE5BlockingConsumer) UnPause()                 {}
func (d *vfE5BlockingConsumer) Pause()                   {}
func (d *vfE5BlockingConsumer) Close() error             { return nil }
func (d *vfE5BlockingConsumer) Empty()                   {}
func (d *vfE5BlockingConsumer) Stats(string) ClientStats { return nil }
func (d *vfE5BlockingConsumer) TimedOutMessage() {
	if atomic.CompareAndSwapInt32(&d.used, 0, 1) {
		close(d.entered)
		<-d.release
	}
}

// Shutdown racing the in-flight timeout scan: message m is in flight to a consumer that never
// answers; processInFlightQueue(t) times it out and is parked after m has left the in-flight map
// (inside the consumer's TimedOutMessage), before it is put back on the queue; NSQD.Exit() is called.
// On the code as it is the scan holds exitMutex.RLock across that window, so Channel.exit waits and
// then flushes m.  After a restart every acknowledged, unfinished message must be back.
func vfE5ReplayExitScan(t *testing.T, name string) {
	dir := t.TempDir()
	opts := vfE5Opts(dir)
	opts.MemQueueSize = 10
	n, err := New(opts)
	if err != nil {
		t.Fatal(err)
	}
	n.LoadMetadata()
	n.PersistMetadata()
	go n.Main()
	topic := n.GetTopic("xs")
	ch := topic.GetChannel("c")
	acked := 0
	for i := 0; i < 3; i++ {
		if topic.PutMessage(NewMessage(topic.GenerateID(), []byte{byte(i)})) == nil {
			acked++
		}
	}
	for d := time.Now().Add(5 * time.Second); ch.Depth() < 3 && time.Now().Before(d); {
		time.Sleep(time.Millisecond)
	}
	cons := &vfE5BlockingConsumer{entered: make(chan struct{}), release: make(chan struct{})}
	ch.AddClient(77, cons)
	msg := <-ch.memoryMsgChan
	msg.Attempts++
	ch.StartInFlightTimeout(msg, 77, time.Millisecond)
	scan := make(chan string, 1)
	go func() {
		scan <- vfE5Try(20*time.Second, func() { ch.processInFlightQueue(time.Now().Add(time.Hour).UnixNano()) })
	}()
	select {
	case <-cons.entered:
	case <-time.After(5 * time.Second):
		t.Fatalf("the scan never reached TimedOutMessage")
	}
	exitRes := make(chan string, 1)
	go func() { exitRes <- vfE5Try(20*time.Second, func() { n.Exit() }) }()
	// either Exit runs to its end although the scan is parked (then the window is unprotected),
	// or it waits for the scan: give it ample time, then let the scan go on
	exit := ""
	exitedFirst := false
	select {
	case exit = <-exitRes:
		exitedFirst = true
	case <-time.After(1500 * time.Millisecond):
	}
	close(cons.release)
	scanRes := <-scan
	if exit == "" {
		exit = <-exitRes
	}
	n2 := vfE5Restart(t, opts, dir)
	depth := vfE5TotalDepth(n2, "xs", "c")
	fmt.Printf("E5REPLAY %s acked=%d exit=%s scan=%s exit_finished_while_scan_parked=%v depth_after_restart=%d lost=%v\n",
		name, acked, exit, scanRes, exitedFirst, depth, depth < int64(acked))
	n2.Exit()
}

// vfE5NewGateAll parks every goroutine that reaches the point until release is closed.
func vfE5NewGateAll(point string) (arrived *int32, release chan struct{}) {
	var n int32
	rel := make(chan struct{})
	VerifSetHook(point, func(string) {
		atomic.AddInt32(&n, 1)
		<-rel
	})
	return &n, rel
}

// A Notify still pending when the shutdown starts: topic and channel are created so shortly before
// Exit() that their Notify goroutines (parked at nsqd.notify.beforeSend) have not persisted yet.
// Exit() persists, closes the first topic's channels and is parked at topic.exit.beforeFlush (NSQD
// lock held); the notify goroutines are released: they hand the object to lookupLoop and then wait
// for the NSQD lock; Exit continues and unlocks; the pending PersistMetadata now runs over closed
// (Exiting) topics.  After a restart the topic/channel set and paused flags must be those before the
// shutdown, and the backlog must be there.
func vfE5ReplayExitNotify(t *testing.T, name string) {
	dir := t.TempDir()
	opts := vfE5Opts(dir)
	opts.MemQueueSize = 10
	n, err := New(opts)
	if err != nil {
		t.Fatal(err)
	}
	n.LoadMetadata()
	n.PersistMetadata()
	go n.Main()
	time.Sleep(20 * time.Millisecond) // lookupLoop is running
	arrived, relNotify := vfE5NewGateAll("nsqd.notify.beforeSend")
	topic := n.GetTopic("pn")
	ch := topic.GetChannel("c")
	ch.Pause()
	acked := 0
	for i := 0; i < 2; i++ {
		if topic.PutMessage(NewMessage(topic.GenerateID(), []byte{byte(i)})) == nil {
			acked++
		}
	}
	for d := time.Now().Add(5 * time.Second); ch.Depth() < 2 && time.Now().Before(d); {
		time.Sleep(time.Millisecond)
	}
	for d := time.Now().Add(5 * time.Second); atomic.LoadInt32(arrived) < 2 && time.Now().Before(d); {
		time.Sleep(time.Millisecond)
	}
	ge := vfE5NewGate("topic.exit.beforeFlush")
	exitRes := make(chan string, 1)
	go func() { exitRes <- vfE5Try(20*time.Second, func() { n.Exit() }) }()
	ge.wait(t)
	close(relNotify)
	// the released goroutines pass their select (lookupLoop receives) and queue up on the NSQD lock
	time.Sleep(300 * time.Millisecond)
	close(ge.release)
	exit := <-exitRes
	b, _ := os.ReadFile(dir + "/nsqd.dat")
	n2 := vfE5Restart(t, opts, dir)
	_, terr := n2.GetExistingTopic("pn")
	chanOK, paused := false, false
	if terr == nil {
		tp, _ := n2.GetExistingTopic("pn")
		if c2, err := tp.GetExistingChannel("c"); err == nil {
			chanOK = true
			paused = c2.IsPaused()
		}
	}
	depth := vfE5TotalDepth(n2, "pn", "c")
	fmt.Printf("E5REPLAY %s acked=%d exit=%s pending_notifies=%d metadata_lists_topic=%v topic_after_restart=%v channel_after_restart=%v paused_kept=%v depth_after_restart=%d lost=%v\n",
		name, acked, exit, atomic.LoadInt32(arrived), strings.Contains(string(b), `"pn"`), terr == nil, chanOK, paused, depth,
		terr != nil || !chanOK || !paused || depth < int64(acked))
	n2.Exit()
}

// Channel delete racing a GetChannel/SUB of the same name: channel dr:c has a disk backlog with synced
// diskqueue metadata; DeleteExistingChannel is parked at chan.exit.stage1 (exit flag set, consumers not
// yet closed, nothing emptied); meanwhile GetChannel("c") + AddClient run (what a kicked consumer's
// re-SUB does); the delete is released and completes.  Then: whatever channel of that name exists (or is
// created now) must be empty, nothing of the old backlog may ever be delivered, no file may be left
// that a later diskqueue would pick up.  On the code as it is the mid-delete GetChannel returns the
// exiting channel and AddClient fails ("exiting"), so SUB fails / retries.
func vfE5ReplayDeleteGetChannel(t *testing.T, name string) {
	dir := t.TempDir()
	opts := vfE5Opts(dir)
	opts.MemQueueSize = 1
	opts.SyncEvery = 1
	n, err := New(opts)
	if err != nil {
		t.Fatal(err)
	}
	n.LoadMetadata()
	go n.Main()
	topic := n.GetTopic("dr")
	old := topic.GetChannel("c")
	for i := 0; i < 5; i++ {
		topic.PutMessage(NewMessage(topic.GenerateID(), []byte{byte(i)}))
	}
	for d := time.Now().Add(5 * time.Second); old.Depth() < 5 && time.Now().Before(d); {
		time.Sleep(time.Millisecond)
	}
	backlog := old.Depth()
	g := vfE5NewGate("chan.exit.stage1")
	del := make(chan string, 1)
	go func() { del <- vfE5Try(20*time.Second, func() { topic.DeleteExistingChannel("c") }) }()
	g.wait(t)
	var mid *Channel
	get := vfE5Try(5*time.Second, func() { mid = topic.GetChannel("c") })
	// AddClient takes the channel's exitMutex: on an exiting channel it waits for the delete to finish
	// and then fails; on a freshly created one it succeeds at once
	subRes := make(chan string, 1)
	if mid != nil {
		go func() {
			conn := &vfE5Conn{}
			if err := mid.AddClient(901, newClientV2(901, conn, n)); err != nil {
				subRes <- strings.ReplaceAll(err.Error(), " ", "_")
			} else {
				subRes <- "none"
			}
		}()
	} else {
		subRes <- "no_channel"
	}
	subErr := ""
	select {
	case subErr = <-subRes:
	case <-time.After(300 * time.Millisecond):
	}
	close(g.release)
	delRes := <-del
	if subErr == "" {
		select {
		case subErr = <-subRes:
		case <-time.After(5 * time.Second):
			subErr = "blocked"
		}
	}
	// after the delete: the channel a (re-)subscriber gets for that name
	_, gerr := topic.GetExistingChannel("c")
	existed := gerr == nil
	cur := topic.GetChannel("c")
	depth := cur.Depth()
	delivered := 0
	deadline := time.After(300 * time.Millisecond)
recv:
	for {
		select {
		case <-cur.memoryMsgChan:
			delivered++
		case <-cur.backend.ReadChan():
			delivered++
		case <-deadline:
			break recv
		}
	}
	var left []string
	ents, _ := os.ReadDir(dir)
	for _, e := range ents {
		if strings.HasPrefix(e.Name(), "dr:c.") {
			if fi, err := e.Info(); err == nil && fi.Size() > 0 && !strings.HasSuffix(e.Name(), ".bad") {
				left = append(left, fmt.Sprintf("%s:%d", e.Name(), fi.Size()))
			}
		}
	}
	bad := depth != 0 || delivered != 0 || (mid != nil && mid != old) || subErr == "none"
	fmt.Printf("E5REPLAY %s backlog=%d get=%s mid_delete_get_returned_exiting_channel=%v mid_delete_sub_err=%s delete=%s channel_listed_after_delete=%v depth=%d delivered_old_messages=%d nonempty_files=%s resurrected=%v\n",
		name, backlog, get, mid == old, subErr, delRes, existed, depth, delivered, strings.Join(left, ","), bad)
	n.Exit()
}

// FIN / REQ racing Empty, counter side (F8): a real TCP consumer holds two messages; its FIN (REQ) of the
// first has completed on the channel and is parked before the client's counter is decremented
// (proto.fin.beforeClientCount / proto.req.beforeClientCount); Channel.Empty(); release.  The consumer's
// in_flight_count must end at 0 (never negative) and a third message must still be delivered.
func vfE5ReplayAnswerEmpty(t *testing.T, name string) {
	opts := vfE5Opts(t.TempDir())
	opts.MemQueueSize = 10
	opts.ClientTimeout = 60 * time.Second
	n, err := New(opts)
	if err != nil {
		t.Fatal(err)
	}
	n.LoadMetadata()
	go n.Main()
	topic := n.GetTopic("ae")
	ch := topic.GetChannel("c")
	m1 := NewMessage(topic.GenerateID(), []byte("one"))
	m2 := NewMessage(topic.GenerateID(), []byte("two"))
	topic.PutMessage(m1)
	topic.PutMessage(m2)
	conn, err := net.DialTimeout("tcp", n.RealTCPAddr().String(), 2*time.Second)
	if err != nil {
		t.Fatal(err)
	}
	defer conn.Close()
	conn.Write([]byte("  V2"))
	conn.Write([]byte("SUB ae c\n"))
	conn.Write([]byte("RDY 2\n"))
	readUntil := func(ids ...string) bool {
		buf := make([]byte, 4096)
		var acc []byte
		conn.SetReadDeadline(time.Now().Add(3 * time.Second))
		for {
			all := true
			for _, id := range ids {
				if !strings.Contains(string(acc), id) {
					all = false
				}
			}
			if all {
				return true
			}
			k, err := conn.Read(buf)
			if err != nil {
				return false
			}
			acc = append(acc, buf[:k]...)
		}
	}
	got := readUntil(string(m1.ID[:]), string(m2.ID[:]))
	point, cmd := "proto.fin.beforeClientCount", "FIN "+string(m1.ID[:])+"\n"
	if name == "req_races_empty_count" {
		point, cmd = "proto.req.beforeClientCount", "REQ "+string(m1.ID[:])+" 0\n"
	}
	g := vfE5NewGate(point)
	conn.Write([]byte(cmd))
	g.wait(t)
	ch.Empty()
	close(g.release)
	time.Sleep(100 * time.Millisecond)
	var cl *clientV2
	ch.RLock()
	for _, c := range ch.clients {
		cl = c.(*clientV2)
	}
	ch.RUnlock()
	cnt := int64(-99)
	if cl != nil {
		cnt = atomic.LoadInt64(&cl.InFlightCount)
	}
	ch.inFlightMutex.Lock()
	inMap := len(ch.inFlightMessages)
	ch.inFlightMutex.Unlock()
	// REQ 0 put m1 back on the queue after the Empty: it is redelivered, then one message is in flight
	m3 := NewMessage(topic.GenerateID(), []byte("three"))
	topic.PutMessage(m3)
	third := readUntil(string(m3.ID[:]))
	time.Sleep(50 * time.Millisecond)
	ch.inFlightMutex.Lock()
	inMap2 := len(ch.inFlightMessages)
	ch.inFlightMutex.Unlock()
	cnt2 := atomic.LoadInt64(&cl.InFlightCount)
	fmt.Printf("E5REPLAY %s both_delivered=%v count_after=%d in_flight_map_after=%d third_delivered=%v count_end=%d in_flight_map_end=%d wrong=%v\n",
		name, got, cnt, inMap, third, cnt2, inMap2, cnt != int64(inMap) || cnt2 != int64(inMap2) || cnt < 0 || !third)
	n.Exit()
}

// Ephemeral topic auto-delete under concurrent channel deletion.
//  two_last_deletes: the last two channels of an #ephemeral topic are deleted concurrently (both
//    DeleteExistingChannel calls are parked at chan.exit.stage1, i.e. both have done their lookup, then
//    released): afterwards the topic must be gone (its once-only delete callback ran exactly once).
//  delete_races_create: the single last channel is being deleted (parked at chan.exit.stage1) while another
//    channel is created and subscribed to; afterwards the topic must still exist with that channel.
func vfE5ReplayEphTopic(t *testing.T, name string) {
	opts := vfE5Opts(t.TempDir())
	opts.MemQueueSize = 4
	n, err := New(opts)
	if err != nil {
		t.Fatal(err)
	}
	n.LoadMetadata()
	go n.Main()
	var deleted int32
	topic := n.GetTopic("et#ephemeral")
	inner := topic.deleteCallback
	topic.deleteCallback = func(tp *Topic) { atomic.AddInt32(&deleted, 1); inner(tp) }
	topic.GetChannel("c1")
	two := name == "ephemeral_topic_two_last_deletes"
	if two {
		topic.GetChannel("c2")
	}
	arrived, rel := vfE5NewGateAll("chan.exit.stage1")
	d1 := make(chan string, 1)
	d2 := make(chan string, 1)
	go func() { d1 <- vfE5Try(10*time.Second, func() { topic.DeleteExistingChannel("c1") }) }()
	want := int32(1)
	if two {
		go func() { d2 <- vfE5Try(10*time.Second, func() { topic.DeleteExistingChannel("c2") }) }()
		want = 2
	} else {
		d2 <- "n/a"
	}
	for d := time.Now().Add(5 * time.Second); atomic.LoadInt32(arrived) < want && time.Now().Before(d); {
		time.Sleep(time.Millisecond)
	}
	sub := "n/a"
	if !two {
		// a new consumer subscribes to another channel of the topic while its last channel is going away
		c3 := topic.GetChannel("c3")
		if err := c3.AddClient(501, newClientV2(501, &vfE5Conn{}, n)); err != nil {
			sub = "err"
		} else {
			sub = "ok"
		}
	}
	close(rel)
	r1, r2 := <-d1, <-d2
	// the once-only callback runs in its own goroutine: join it (a second Do returns after the first)
	gone := false
	for d := time.Now().Add(1500 * time.Millisecond); time.Now().Before(d); {
		if _, err := n.GetExistingTopic("et#ephemeral"); err != nil {
			gone = true
			break
		}
		time.Sleep(time.Millisecond)
	}
	topic.RLock()
	left := len(topic.channelMap)
	topic.RUnlock()
	wrong := false
	if two {
		wrong = !gone || atomic.LoadInt32(&deleted) != 1
	} else {
		wrong = gone || left != 1 || sub != "ok" || atomic.LoadInt32(&deleted) != 0
	}
	fmt.Printf("E5REPLAY %s parked_deletes=%d delete1=%s delete2=%s sub_other_channel=%s topic_gone=%v channels_left=%d delete_callback_runs=%d wrong=%v\n",
		name, atomic.LoadInt32(arrived), r1, r2, sub, gone, left, atomic.LoadInt32(&deleted), wrong)
	os.Exit(0)
}

// unsteered: the last consumers of the two ephemeral channels of an ephemeral topic leave at the same
// moment (two goroutines released together), many rounds; each round the topic must disappear.
func vfE5ReplayEphLeave(t *testing.T, name string) {
	opts := vfE5Opts(t.TempDir())
	opts.MemQueueSize = 4
	n, err := New(opts)
	if err != nil {
		t.Fatal(err)
	}
	n.LoadMetadata()
	go n.Main()
	rounds := vfEnvInt("VERIF_ROUNDS", 150)
	stuck := 0
	first := -1
	for i := 0; i < rounds; i++ {
		tn := fmt.Sprintf("el%d#ephemeral", i)
		topic := n.GetTopic(tn)
		c1 := topic.GetChannel("a#ephemeral")
		c2 := topic.GetChannel("b#ephemeral")
		c1.AddClient(1, newClientV2(1, &vfE5Conn{}, n))
		c2.AddClient(2, newClientV2(2, &vfE5Conn{}, n))
		start := make(chan struct{})
		done := make(chan struct{}, 2)
		go func() { <-start; c1.RemoveClient(1); done <- struct{}{} }()
		go func() { <-start; c2.RemoveClient(2); done <- struct{}{} }()
		close(start)
		<-done
		<-done
		gone := false
		for d := time.Now().Add(time.Second); time.Now().Before(d); {
			if _, err := n.GetExistingTopic(tn); err != nil {
				gone = true
				break
			}
			time.Sleep(200 * time.Microsecond)
		}
		if !gone {
			stuck++
			if first < 0 {
				first = i
			}
		}
	}
	fmt.Printf("E5REPLAY %s rounds=%d topics_left_behind=%d first_round=%d wrong=%v\n", name, rounds, stuck, first, stuck > 0)
	os.Exit(0)
}

// vfE5OneFrame reads one non-heartbeat frame ("r:OK", "e:E_…", "m"); closed = the peer closed / nothing within d.
func vfE5OneFrame(conn net.Conn, d time.Duration) (frame string, closed bool) {
	conn.SetReadDeadline(time.Now().Add(d))
	for {
		hdr := make([]byte, 8)
		if _, err := io.ReadFull(conn, hdr); err != nil {
			ne, isNet := err.(net.Error)
			return "", !(isNet && ne.Timeout())
		}
		size := int(hdr[0])<<24 | int(hdr[1])<<16 | int(hdr[2])<<8 | int(hdr[3])
		body := make([]byte, size-4)
		if _, err := io.ReadFull(conn, body); err != nil {
			return "", true
		}
		switch hdr[7] {
		case 0:
			if string(body) == "_heartbeat_" {
				conn.Write([]byte("NOP\n"))
				continue
			}
			return "r:" + string(body), false
		case 1:
			return "e:" + strings.ReplaceAll(string(body), " ", "_"), false
		default:
			return "m", false
		}
	}
}

// Audit B9 (no hook exists between RemoveClient and the asynchronous `go c.deleter.Do(…)` of an ephemeral channel):
// unsteered rounds.  Consumer A (the only one) leaves the ephemeral channel while a real TCP consumer B sends SUB for
// the same name.  Whatever the interleaving — B attached before A left (the channel stays), B attached to the old
// object between A's RemoveClient and the deletion's exit (the window: B is answered OK and then disconnected by the
// deletion), B finds the exiting object (retry / E_SUB_FAILED), B creates a fresh channel after the unlink — the
// property is: **a consumer that was answered OK is never left on a deleted channel**: afterwards B is either
// disconnected, or attached to a channel object that is linked in its topic and not exiting.
// Model: Model/ChanDelete.lean (`delBegin` enabled at any later time), theorem Props.C08ChanDelete.no_chan_zombie_fixed.
func vfE5ReplayEphSubAfterLeave(t *testing.T, name string) {
	opts := vfE5Opts(t.TempDir())
	opts.MemQueueSize = 4
	opts.ClientTimeout = 60 * time.Second
	n, err := New(opts)
	if err != nil {
		t.Fatal(err)
	}
	n.LoadMetadata()
	go n.Main()
	rounds := vfEnvInt("VERIF_ROUNDS", 300)
	keptOld, fresh, window, refused, zombie, firstZombie := 0, 0, 0, 0, 0, -1
	detail := ""
	for i := 0; i < rounds; i++ {
		tn := fmt.Sprintf("sl%d", i)
		topic := n.GetTopic(tn)
		old := topic.GetChannel("e#ephemeral")
		old.AddClient(1, newClientV2(1, &vfE5Conn{}, n))
		conn := vfE5Dial(t, n)
		start := make(chan struct{})
		left := make(chan struct{})
		go func() {
			<-start
			for k := 0; k < (i%8)*400; k++ { // a few microseconds, varied, so that the SUB lands around the removal
				runtime.Gosched()
			}
			old.RemoveClient(1)
			close(left)
		}()
		close(start)
		conn.Write([]byte("SUB " + tn + " e#ephemeral\n"))
		fr, closed := vfE5OneFrame(conn, 2*time.Second)
		<-left
		// let the asynchronous deletion (if one was started) run to its unlink
		for d := time.Now().Add(time.Second); time.Now().Before(d); {
			topic.RLock()
			cur := topic.channelMap["e#ephemeral"]
			topic.RUnlock()
			if !old.Exiting() || cur != old {
				break
			}
			time.Sleep(100 * time.Microsecond)
		}
		if old.Exiting() {
			// Channel.exit closes its consumers before the unlink; give the close a moment to arrive
			time.Sleep(2 * time.Millisecond)
		}
		topic.RLock()
		cur := topic.channelMap["e#ephemeral"]
		topic.RUnlock()
		attached := func(c *Channel) bool {
			if c == nil {
				return false
			}
			c.RLock()
			defer c.RUnlock()
			return len(c.clients) > 0
		}
		switch {
		case fr != "r:OK" || closed:
			refused++
		default:
			_, gone := vfE5OneFrame(conn, 20*time.Millisecond)
			onOld, onCur := attached(old), cur != old && attached(cur)
			switch {
			case gone:
				if old.Exiting() && cur != old {
					window++ // answered OK on the old object, then disconnected by its deletion
				}
			case onCur && cur != nil && !cur.Exiting():
				fresh++
			case onOld && cur == old && !old.Exiting():
				keptOld++
			default:
				zombie++
				if firstZombie < 0 {
					firstZombie = i
					detail = fmt.Sprintf("old_exiting=%v old_linked=%v on_old=%v on_cur=%v", old.Exiting(), cur == old, onOld, onCur)
				}
			}
		}
		conn.Close()
		n.DeleteExistingTopic(tn)
	}
	fmt.Printf("E5REPLAY %s rounds=%d attached_before_leave=%d fresh_channel=%d window_hit_then_closed=%d refused=%d zombie=%d first_round=%d detail=%s wrong=%v\n",
		name, rounds, keptOld, fresh, window, refused, zombie, firstZombie, strings.ReplaceAll(detail, " ", ","), zombie > 0)
	os.Exit(0)
}

// vfE5Frames reads nsq frames from conn until the deadline; returns the frame types/bodies seen
// ("r:OK", "e:E_...", "m") and whether the peer closed the connection.
func vfE5Frames(conn net.Conn, d time.Duration) (frames []string, closed bool) {
	conn.SetReadDeadline(time.Now().Add(d))
	var acc []byte
	buf := make([]byte, 4096)
	for {
		for len(acc) >= 8 {
			size := int(acc[0])<<24 | int(acc[1])<<16 | int(acc[2])<<8 | int(acc[3])
			if len(acc) < 4+size {
				break
			}
			ft := int(acc[7])
			body := acc[8 : 4+size]
			switch ft {
			case 0:
				if string(body) == "_heartbeat_" {
					conn.Write([]byte("NOP\n"))
				} else {
					frames = append(frames, "r:"+string(body))
				}
			case 1:
				frames = append(frames, "e:"+strings.ReplaceAll(string(body), " ", "_"))
			case 2:
				frames = append(frames, "m")
			}
			acc = acc[4+size:]
		}
		k, err := conn.Read(buf)
		acc = append(acc, buf[:k]...)
		if err != nil {
			if ne, ok := err.(net.Error); ok && ne.Timeout() {
				return frames, false
			}
			if k == 0 {
				return frames, true
			}
		}
	}
}

// DeleteExistingTopic racing a SUB (or a channel creation) of the same topic name.
//   topic_delete_races_sub: consumer A is subscribed to tz:c; DeleteExistingTopic("tz") is parked at
//     topic.delete.beforeUnlink (topic.Delete() has finished: every channel deleted, consumers closed,
//     files removed; the dead topic is still in the topic map); consumer B sends SUB tz c; the delete is
//     released.  Property: after the delete B is either disconnected / refused, or subscribed to a
//     channel that publishes to "tz" reach.  A SUB answered OK on a channel object that no map holds
//     (B stays connected and never receives anything) is a consumer the delete did not disconnect.
//   topic_delete_races_sub_early: B subscribes while the delete is parked at topic.delete.afterNotify
//     (exit flag set, channels not yet deleted): the delete loop then closes B as well.
//   topic_delete_races_create_channel: GetTopic + GetChannel("d") in the late window: the channel is
//     created inside the dead topic; after the delete no file and no metadata entry may be left.
func vfE5ReplayTopicDeleteSub(t *testing.T, name string) {
	dir := t.TempDir()
	opts := vfE5Opts(dir)
	opts.MemQueueSize = 0
	n, err := New(opts)
	if err != nil {
		t.Fatal(err)
	}
	n.LoadMetadata()
	n.PersistMetadata()
	go n.Main()
	defer n.Exit()
	topic := n.GetTopic("tz")
	topic.GetChannel("c")
	dial := func() net.Conn {
		conn, err := net.DialTimeout("tcp", n.RealTCPAddr().String(), 2*time.Second)
		if err != nil {
			t.Fatal(err)
		}
		conn.Write([]byte("  V2"))
		return conn
	}
	a := dial()
	defer a.Close()
	a.Write([]byte("SUB tz c\n"))
	fa, _ := vfE5Frames(a, 300*time.Millisecond)
	point := "topic.delete.beforeUnlink"
	if name == "topic_delete_races_sub_early" {
		point = "topic.delete.afterNotify"
	}
	g := vfE5NewGate(point)
	del := make(chan string, 1)
	go func() { del <- vfE5Try(20*time.Second, func() { n.DeleteExistingTopic("tz") }) }()
	g.wait(t)
	bAns := "n/a"
	var b net.Conn
	created := "n/a"
	if name == "topic_delete_races_create_channel" {
		tp := n.GetTopic("tz")
		ch := tp.GetChannel("d")
		created = fmt.Sprintf("dead_topic=%v,channel_exiting=%v", tp.Exiting(), ch.Exiting())
	} else {
		b = dial()
		defer b.Close()
		b.Write([]byte("SUB tz c\n"))
		fb, closed := vfE5Frames(b, 500*time.Millisecond)
		bAns = strings.Join(fb, ",")
		if closed {
			bAns += "+closed"
		}
		if bAns == "" {
			bAns = "none"
		}
	}
	close(g.release)
	delRes := <-del
	time.Sleep(50 * time.Millisecond)
	_, aClosed := vfE5Frames(a, 300*time.Millisecond)
	// afterwards: publish to the name (a fresh topic is created), B asks for a message
	tp2 := n.GetTopic("tz")
	fresh := tp2 != topic
	bGot, bClosed, bReachable := false, false, false
	if b != nil {
		_, inMap := tp2.GetExistingChannel("c")
		bReachable = inMap == nil
		tp2.PutMessage(NewMessage(tp2.GenerateID(), []byte("after")))
		b.Write([]byte("RDY 1\n"))
		fb, closed := vfE5Frames(b, 700*time.Millisecond)
		bClosed = closed
		for _, f := range fb {
			if f == "m" {
				bGot = true
			}
		}
	}
	files := []string{}
	ents, _ := os.ReadDir(dir)
	for _, e := range ents {
		if strings.HasPrefix(e.Name(), "tz:") {
			files = append(files, e.Name())
		}
	}
	meta, _ := os.ReadFile(dir + "/nsqd.dat")
	listed := strings.Contains(string(meta), `"name":"d"`)
	zombie := b != nil && strings.HasPrefix(bAns, "r:OK") && !bClosed && !bGot
	fmt.Printf("E5REPLAY %s a_sub=%s delete=%s a_closed=%v b_sub=%s b_closed_after=%v b_channel_in_map=%v b_got_message=%v fresh_topic=%v created=%s files_left=%d listed_in_metadata=%v zombie_consumer=%v\n",
		name, strings.Join(fa, ","), delRes, aClosed, bAns, bClosed, bReachable, bGot, fresh, created, len(files), listed, zombie)
}

// Two deletions of the same topic name with a re-creation in between.  D1 = DeleteExistingTopic("tz")
// is parked right after it set the exit flag (topic.delete.afterNotify).  D2 = a second
// DeleteExistingTopic("tz"): its topic.Delete() fails with "exiting" (ignored), it unlinks the name and
// returns nil.  A publisher / subscriber now gets a fresh topic object of the same name (with a consumer
// and a message).  D1 continues: it empties and deletes the disk queue *of that name* and finally
// unlinks *the name* - whatever object is registered under it.  Property: an object that was created after
// a completed deletion is not touched by the older deletion.
func vfE5ReplayDoubleDelete(t *testing.T, name string) {
	dir := t.TempDir()
	opts := vfE5Opts(dir)
	opts.MemQueueSize = 0
	n, err := New(opts)
	if err != nil {
		t.Fatal(err)
	}
	n.LoadMetadata()
	n.PersistMetadata()
	go n.Main()
	defer n.Exit()
	t1 := n.GetTopic("tz")
	t1.GetChannel("c")
	g := vfE5NewGate("topic.delete.afterNotify")
	d1 := make(chan string, 1)
	go func() { d1 <- vfE5Try(20*time.Second, func() { n.DeleteExistingTopic("tz") }) }()
	g.wait(t)
	var d2err error
	d2 := vfE5Try(5*time.Second, func() { d2err = n.DeleteExistingTopic("tz") })
	t2 := n.GetTopic("tz")
	fresh := t2 != t1 && !t2.Exiting()
	t2.GetChannel("c")
	conn, err := net.DialTimeout("tcp", n.RealTCPAddr().String(), 2*time.Second)
	if err != nil {
		t.Fatal(err)
	}
	defer conn.Close()
	conn.Write([]byte("  V2"))
	conn.Write([]byte("SUB tz c\n"))
	fb, _ := vfE5Frames(conn, 300*time.Millisecond)
	// a disk backlog of several messages on the fresh topic (mem-queue-size 0: every message goes through the
	// topic's and the channel's disk queue, whose file names are those of the object still being deleted)
	const backlog = 4
	ackedN := 0
	for i := 0; i < backlog; i++ {
		if t2.PutMessage(NewMessage(t2.GenerateID(), []byte(fmt.Sprintf("m%d", i+1)))) == nil {
			ackedN++
		}
	}
	acked := ackedN > 0
	c2, _ := t2.GetExistingChannel("c")
	for d := time.Now().Add(2 * time.Second); fresh && c2 != nil && c2.Depth() < int64(ackedN) && time.Now().Before(d); {
		time.Sleep(time.Millisecond)
	}
	close(g.release)
	r1 := <-d1
	time.Sleep(50 * time.Millisecond)
	cur, gerr := n.GetExistingTopic("tz")
	stillMapped := gerr == nil && cur == t2
	conn.Write([]byte("RDY 1\n"))
	fm, closed := vfE5Frames(conn, 700*time.Millisecond)
	got := false
	for _, f := range fm {
		if f == "m" {
			got = true
		}
	}
	// what the older deletion did to the files of the fresh topic: every acknowledged message of the fresh
	// topic must survive a graceful restart (it was never deleted)
	filesNow := 0
	ents, _ := os.ReadDir(dir)
	for _, e := range ents {
		if strings.HasPrefix(e.Name(), "tz.diskqueue") || strings.HasPrefix(e.Name(), "tz:c.diskqueue") {
			filesNow++
		}
	}
	depthAfter := int64(-2)
	freshExiting := t2.Exiting()
	if fresh && stillMapped {
		conn.Close()
		n.Exit()
		n2 := vfE5Restart(t, opts, dir)
		depthAfter = vfE5TotalDepth(n2, "tz", "c")
		n2.Exit()
	}
	lostBacklog := fresh && stillMapped && depthAfter != int64(ackedN)
	wrong := fresh && d2err == nil && (!stillMapped || (acked && !got) || lostBacklog)
	fmt.Printf("E5REPLAY %s d1=%s d2=%s d2_err=%v fresh_topic=%v b_sub=%s acked=%v acked_n=%d fresh_still_in_map=%v fresh_exiting=%v b_closed=%v b_got_message=%v fresh_files=%d depth_after_restart=%d fresh_backlog_lost=%v older_delete_hit_fresh_topic=%v\n",
		name, r1, d2, d2err != nil, fresh, strings.Join(fb, ","), acked, ackedN, stillMapped, freshExiting, closed, got, filesNow, depthAfter, lostBacklog, wrong)
}

// ---- round 7: channel-deletion race model (lean/Nsq/Model/ChanDelete.lean) ----

func vfE5Dial(t *testing.T, n *NSQD) net.Conn {
	conn, err := net.DialTimeout("tcp", n.RealTCPAddr().String(), 2*time.Second)
	if err != nil {
		t.Fatal(err)
	}
	conn.Write([]byte("  V2"))
	return conn
}

func vfE5CountMsgs(frames []string) int {
	k := 0
	for _, f := range frames {
		if f == "m" {
			k++
		}
	}
	return k
}

// Two deletions of one channel with a re-creation in between (Props.C08ChanDelete.witnessChanDouble).
//   chan_double_delete_unlinks_fresh: consumer A is subscribed to tz:c.  D1 = DeleteExistingChannel("c")
//     is parked at chan.delete.beforeUnlink (channel.Delete() has finished: A closed, queue emptied, files
//     removed; the dead object is still in channelMap).  D2 = a second DeleteExistingChannel("c") (HTTP delete,
//     or the ephemeral channel's deleteCallback): its channel.Delete() returns "exiting" (ignored), it
//     unlinks the name, persists and answers nil.  GetChannel("c") now creates a fresh object; consumer B
//     subscribes to it and a message is published and fanned out to it.  D1 continues and unlinks *the
//     name*.  Property: a channel created after a completed deletion is not touched by an older deletion
//     (it stays in the map, keeps receiving what is published, is listed in the metadata).
//   chan_double_delete_waits: D1 is parked at chan.delete.afterNotify (inside Channel.exit, holding
//     exitMutex).  A second deletion must not come back before D1's exit has finished (its Delete() waits
//     for the exit lock), GetChannel returns the exiting object (no re-creation), a SUB is refused.  This is
//     the enabling condition of the model's `loserUnlink` step; the leg must be clean on every tree.
func vfE5ReplayChanDoubleDelete(t *testing.T, name string) {
	dir := t.TempDir()
	opts := vfE5Opts(dir)
	opts.MemQueueSize = 0
	n, err := New(opts)
	if err != nil {
		t.Fatal(err)
	}
	n.LoadMetadata()
	n.PersistMetadata()
	go n.Main()
	defer n.Exit()
	topic := n.GetTopic("tz")
	topic.GetChannel("keep") // the topic keeps a second channel: its pump stays active whatever happens to c
	c1 := topic.GetChannel("c")
	a := vfE5Dial(t, n)
	defer a.Close()
	a.Write([]byte("SUB tz c\n"))
	fa, _ := vfE5Frames(a, 300*time.Millisecond)

	if name == "chan_double_delete_waits" {
		g := vfE5NewGate("chan.delete.afterNotify")
		d1 := make(chan string, 1)
		go func() { d1 <- vfE5Try(20*time.Second, func() { topic.DeleteExistingChannel("c") }) }()
		g.wait(t)
		d2 := make(chan string, 1)
		go func() { d2 <- vfE5Try(20*time.Second, func() { topic.DeleteExistingChannel("c") }) }()
		early := false
		select {
		case <-d2:
			early = true
		case <-time.After(300 * time.Millisecond):
		}
		got := topic.GetChannel("c")
		recreated := got != c1
		b := vfE5Dial(t, n)
		defer b.Close()
		b.Write([]byte("SUB tz c\n"))
		fb, bClosed := vfE5Frames(b, 500*time.Millisecond)
		bAns := strings.Join(fb, ",")
		if bClosed {
			bAns += "+closed"
		}
		if bAns == "" {
			bAns = "none"
		}
		close(g.release)
		r1 := <-d1
		r2 := "early"
		if !early {
			r2 = <-d2
		}
		time.Sleep(50 * time.Millisecond)
		_, aClosed := vfE5Frames(a, 300*time.Millisecond)
		// B's AddClient waited for exitMutex too: it is answered only now
		fb2, bClosed2 := vfE5Frames(b, 400*time.Millisecond)
		bAns += "/" + strings.Join(fb2, ",")
		if bClosed2 {
			bAns += "+closed"
		}
		_, gerr := topic.GetExistingChannel("c")
		files := 0
		ents, _ := os.ReadDir(dir)
		for _, e := range ents {
			if strings.HasPrefix(e.Name(), "tz:c.") {
				files++
			}
		}
		wrong := early || recreated || strings.Contains(bAns, "r:OK") || !aClosed || gerr == nil || files != 0
		fmt.Printf("E5REPLAY %s a_sub=%s d1=%s d2=%s d2_returned_before_d1_exit=%v recreated_during_delete=%v b_sub=%s a_closed=%v in_map_after=%v files_left=%d wrong=%v\n",
			name, strings.Join(fa, ","), r1, r2, early, recreated, bAns, aClosed, gerr == nil, files, wrong)
		return
	}

	g := vfE5NewGate("chan.delete.beforeUnlink")
	d1 := make(chan string, 1)
	go func() { d1 <- vfE5Try(20*time.Second, func() { topic.DeleteExistingChannel("c") }) }()
	g.wait(t)
	_, aClosed := vfE5Frames(a, 300*time.Millisecond)
	var d2err error
	d2 := vfE5Try(5*time.Second, func() { d2err = topic.DeleteExistingChannel("c") })
	c2 := topic.GetChannel("c")
	fresh := c2 != c1 && !c2.Exiting()
	b := vfE5Dial(t, n)
	defer b.Close()
	b.Write([]byte("SUB tz c\n"))
	fb, _ := vfE5Frames(b, 300*time.Millisecond)
	acked := 0
	if topic.PutMessage(NewMessage(topic.GenerateID(), []byte("m1"))) == nil {
		acked++
	}
	for d := time.Now().Add(2 * time.Second); fresh && c2.Depth() < 1 && time.Now().Before(d); {
		time.Sleep(time.Millisecond)
	}
	close(g.release)
	r1 := <-d1
	time.Sleep(50 * time.Millisecond)
	cur, gerr := topic.GetExistingChannel("c")
	stillMapped := gerr == nil && cur == c2
	if topic.PutMessage(NewMessage(topic.GenerateID(), []byte("m2"))) == nil {
		acked++
	}
	b.Write([]byte("RDY 2\n"))
	fm, bClosed := vfE5Frames(b, 700*time.Millisecond)
	got := vfE5CountMsgs(fm)
	meta, _ := os.ReadFile(dir + "/nsqd.dat")
	listed := strings.Contains(string(meta), `"name":"c"`)
	wrong := fresh && d2err == nil && (!stillMapped || got < acked || !listed)
	fmt.Printf("E5REPLAY %s a_sub=%s a_closed=%v d1=%s d2=%s d2_err=%v fresh_channel=%v b_sub=%s acked=%d fresh_still_in_map=%v fresh_exiting=%v b_closed=%v b_got_messages=%d listed_in_metadata=%v older_delete_hit_fresh_channel=%v\n",
		name, strings.Join(fa, ","), aClosed, r1, d2, d2err != nil, fresh, strings.Join(fb, ","), acked, stillMapped, c2.Exiting(), bClosed, got, listed, wrong)
}

// --sync-every is handed to go-diskqueue unvalidated (nsqd.New checks neither sign nor zero; E9's theorems
// assume 0 < syncEvery).  With 0 every pass of diskqueue's ioLoop syncs (`count == d.syncEvery` at count 0),
// so the metadata file that Empty's deleteAllFiles removed is written again before Delete closes the queue.
//   sync_every_zero_delete / _negative_delete / _one_delete: a disk backlog on tz and tz:c, then
//   DeleteExistingChannel and DeleteExistingTopic; the files left under the data path are listed; then a
//   restart-free re-creation must start empty.
func vfE5ReplaySyncEvery(t *testing.T, name string) {
	dir := t.TempDir()
	opts := vfE5Opts(dir)
	opts.MemQueueSize = 0
	switch name {
	case "sync_every_zero_delete":
		opts.SyncEvery = 0
	case "sync_every_negative_delete":
		opts.SyncEvery = -1
	default:
		opts.SyncEvery = 1
	}
	n, err := New(opts)
	if err != nil {
		fmt.Printf("E5REPLAY %s new_refused=true err=%s\n", name, strings.ReplaceAll(err.Error(), " ", "_"))
		return
	}
	n.LoadMetadata()
	n.PersistMetadata()
	go n.Main()
	defer n.Exit()
	topic := n.GetTopic("tz")
	topic.Pause() // the topic keeps its own backlog on disk
	ch := topic.GetChannel("c")
	for i := 0; i < 3; i++ {
		ch.PutMessage(NewMessage(topic.GenerateID(), []byte("chan-backlog")))
		topic.PutMessage(NewMessage(topic.GenerateID(), []byte("topic-backlog")))
	}
	depth := ch.Depth() + topic.Depth()
	list := func(prefix string) []string {
		var l []string
		ents, _ := os.ReadDir(dir)
		for _, e := range ents {
			if strings.HasPrefix(e.Name(), prefix) {
				l = append(l, e.Name())
			}
		}
		return l
	}
	d1 := vfE5Try(10*time.Second, func() { topic.DeleteExistingChannel("c") })
	time.Sleep(20 * time.Millisecond)
	chanLeft := list("tz:c.")
	d2 := vfE5Try(10*time.Second, func() { n.DeleteExistingTopic("tz") })
	time.Sleep(20 * time.Millisecond)
	topicLeft := list("tz.")
	re := n.GetTopic("tz").GetChannel("c")
	fmt.Printf("E5REPLAY %s new_refused=false sync_every=%d depth_before=%d delete_chan=%s delete_topic=%s chan_files_left=%s topic_files_left=%s recreated_depth=%d\n",
		name, opts.SyncEvery, depth, d1, d2, strings.Join(chanLeft, ","), strings.Join(topicLeft, ","), re.Depth()+n.GetTopic("tz").Depth())
}

// audit-A A1: a publish to a topic that does not exist yet while NSQD.Exit is closing the topics.  Exit is
// parked at topic.exit.beforeFlush (it holds the NSQD lock and is closing topic "old"); a publisher calls
// GetTopic("fresh") - it waits for the lock - and PutMessage.  After Exit's loop nobody closes or flushes
// "fresh": the acknowledged message sits in the memory queue of a topic that is never flushed.
func vfE5ReplayExitNewTopic(t *testing.T, name string) {
	dir := t.TempDir()
	opts := vfE5Opts(dir)
	opts.MemQueueSize = 10
	n, err := New(opts)
	if err != nil {
		t.Fatal(err)
	}
	n.LoadMetadata()
	n.PersistMetadata()
	go n.Main()
	old := n.GetTopic("old")
	old.GetChannel("c")
	old.PutMessage(NewMessage(old.GenerateID(), []byte("m-old")))
	g := vfE5NewGate("topic.exit.beforeFlush")
	exitDone := make(chan string, 1)
	go func() { exitDone <- vfE5Try(20*time.Second, func() { n.Exit() }) }()
	g.wait(t)
	type pubRes struct {
		acked   bool
		exiting bool
	}
	pub := make(chan pubRes, 1)
	go func() {
		tp := n.GetTopic("fresh") // blocks until Exit releases the NSQD lock
		err := tp.PutMessage(NewMessage(tp.GenerateID(), []byte("m-fresh")))
		pub <- pubRes{err == nil, tp.Exiting()}
	}()
	time.Sleep(100 * time.Millisecond)
	close(g.release)
	exit := <-exitDone
	var pr pubRes
	select {
	case pr = <-pub:
	case <-time.After(5 * time.Second):
		fmt.Printf("E5REPLAY %s exit=%s publish=blocked\n", name, exit)
		return
	}
	time.Sleep(50 * time.Millisecond)
	n2 := vfE5Restart(t, opts, dir)
	depth := vfE5TotalDepth(n2, "fresh")
	oldDepth := vfE5TotalDepth(n2, "old", "c")
	fmt.Printf("E5REPLAY %s exit=%s publish=done acked=%v topic_handed_out_exiting=%v fresh_depth_after_restart=%d old_depth_after_restart=%d lost=%v\n",
		name, exit, pr.acked, pr.exiting, depth, oldDepth, pr.acked && depth < 1)
	n2.Exit()
}

// audit B17: Channel.Empty racing a REQ in progress.  m1 is in flight to a real TCP consumer; its REQ 0 is parked
// at chan.req.afterPop (out of the in-flight map, not yet back on the queue); Channel.Empty() runs to its end;
// the REQ continues and puts m1 back on the emptied queue: REQ is answered OK *and* m1 is delivered again after
// the Empty - no sequential order of the two operations explains that (Props.C08.emptySurvivorSchedule).
func vfE5ReplayEmptyReqSurvives(t *testing.T, name string) {
	opts := vfE5Opts(t.TempDir())
	opts.MemQueueSize = 10
	opts.ClientTimeout = 60 * time.Second
	n, err := New(opts)
	if err != nil {
		t.Fatal(err)
	}
	n.LoadMetadata()
	go n.Main()
	defer n.Exit()
	topic := n.GetTopic("ae")
	ch := topic.GetChannel("c")
	m1 := NewMessage(topic.GenerateID(), []byte("one"))
	topic.PutMessage(m1)
	conn := vfE5Dial(t, n)
	defer conn.Close()
	conn.Write([]byte("SUB ae c\n"))
	conn.Write([]byte("RDY 1\n"))
	f1, _ := vfE5Frames(conn, 500*time.Millisecond)
	var g *vfE5Gate
	switch name {
	case "empty_races_touch_survives":
		g = vfE5NewGate("chan.touch.afterPop")
		conn.Write([]byte("TOUCH " + string(m1.ID[:]) + "\n"))
	case "empty_races_scan_survives":
		// the in-flight timeout scan has taken the message off the heap and out of the map (one critical section
		// since F16) and is about to put it back on the queue
		g = vfE5NewGate("chan.scan.afterPQPop")
		go ch.processInFlightQueue(time.Now().Add(time.Hour).UnixNano())
	default:
		g = vfE5NewGate("chan.req.afterPop")
		conn.Write([]byte("REQ " + string(m1.ID[:]) + " 0\n"))
	}
	g.wait(t)
	// round 10: take the consumer's pump out of the picture (white-box RDY 0) for the variants that put the message back on
	// the queue. With RDY 1 the requeued message could be received by messagePump before Empty got the write lock and
	// registered in flight after Empty's reset (the pump's own receive -> StartInFlightTimeout window, not the REQ / scan
	// window this replay is about): seen once under load as survived=true with empty_waited_for_req=true on the
	// unchanged tree. With RDY 0 the outcome is decided by the order of REQ's (the scan's) put and Empty alone.
	if name != "empty_races_touch_survives" {
		ch.RLock()
		for _, c := range ch.clients {
			if cv, ok := c.(*clientV2); ok {
				cv.SetReadyCount(0)
			}
		}
		ch.RUnlock()
	}
	// a tree where REQ holds the channel's read lock makes Empty wait for the parked REQ; the others let it through
	empDone := make(chan string, 1)
	go func() { empDone <- vfE5Try(20*time.Second, func() { ch.Empty() }) }()
	emp, waited := "", false
	select {
	case emp = <-empDone:
	case <-time.After(400 * time.Millisecond):
		waited = true
	}
	depthAfterEmpty := ch.Depth()
	close(g.release)
	if waited {
		emp = <-empDone
	}
	time.Sleep(100 * time.Millisecond)
	depthAfterReq := ch.Depth()
	// what the channel still holds once Empty and REQ have both returned (the consumer is NOT ready, see above: a message
	// REQ put back stays on the queue - Empty discards it on a tree where Empty waited, it survives otherwise)
	ch.inFlightMutex.Lock()
	heldAfter := int64(len(ch.inFlightMessages))
	ch.inFlightMutex.Unlock()
	heldAfter += ch.Depth()
	f2, _ := vfE5Frames(conn, 300*time.Millisecond)
	again := vfE5CountMsgs(f2)
	reqErr := false
	for _, f := range f2 {
		if strings.HasPrefix(f, "e:E_REQ_FAILED") || strings.HasPrefix(f, "e:E_TOUCH_FAILED") {
			reqErr = true
		}
	}
	fmt.Printf("E5REPLAY %s first_delivery=%d empty=%s empty_waited_for_req=%v depth_after_empty=%d depth_after_req=%d req_failed=%v redelivered=%d held_after_both_returned=%d survived=%v\n",
		name, vfE5CountMsgs(f1), emp, waited, depthAfterEmpty, depthAfterReq, reqErr, again, heldAfter, !reqErr && heldAfter > 0)
}

// empty_while_consumer_drains (corpus/C08/empty_while_consumer_drains.sched): unsteered rounds, no hooks.  A channel holds a
// backlog of a few thousand messages in its memory queue; two goroutines receive from that queue exactly as the
// messagePumps of two subscribed consumers with spare RDY do; as soon as they have taken their first messages the
// harness calls Channel.Empty (even rounds) or Topic.DeleteExistingChannel (odd rounds: Channel.exit(deleted) empties as
// well) - nobody publishes.  Both must return (C08: "may run concurrently with ... delivery ... without deadlocking the
// daemon"): whatever the receivers take concurrently is simply no longer there to discard.  A drain that counts the
// queue first and then receives that many messages with blocking receives (seeded C08-m6) waits for ever for the
// messages the receivers took - holding the channel's write lock, so GetStats / AddClient / the timeout scan hang behind
// it.  The free-running concurrent leg reaches that state only by luck (memory queue of 4, the next publish releases it).
func vfE5ReplayEmptyDrain(t *testing.T, name string) {
	opts := vfE5Opts(t.TempDir())
	backlog := vfEnvInt("VERIF_BACKLOG", 6000)
	opts.MemQueueSize = int64(backlog + 100)
	n, err := New(opts)
	if err != nil {
		t.Fatal(err)
	}
	rounds := vfEnvInt("VERIF_ROUNDS", 12)
	deadline := time.Duration(vfEnvInt("VERIF_OP_DEADLINE_MS", 8000)) * time.Millisecond
	var takenTotal, concurrent int64
	blocked, stats, wrong := "", "", ""
	done := 0
	for i := 0; i < rounds && blocked == "" && wrong == ""; i++ {
		tn := fmt.Sprintf("dr%d", i)
		topic := n.GetTopic(tn)
		ch := topic.GetChannel("c")
		for k := 0; k < backlog; k++ {
			ch.PutMessage(NewMessage(vfE5ID(i*100000+k+1), []byte("m")))
		}
		queue := ch.memoryMsgChan
		if len(queue) != backlog {
			wrong = fmt.Sprintf("round=%d:memory_queue_holds_%d_of_%d", i, len(queue), backlog)
			break
		}
		var taken int64
		stopRecv := make(chan struct{})
		recvDone := make(chan struct{}, 2)
		for g := 0; g < 2; g++ {
			go func() {
				defer func() { recvDone <- struct{}{} }()
				for {
					select {
					case m := <-queue:
						if m != nil {
							atomic.AddInt64(&taken, 1)
						}
					case <-stopRecv:
						return
					}
				}
			}()
		}
		for atomic.LoadInt64(&taken) < 2 {
			runtime.Gosched()
		}
		before := atomic.LoadInt64(&taken)
		op := "empty"
		var opErr error
		var r string
		if i%2 == 0 {
			r = vfE5Try(deadline, func() { opErr = ch.Empty() })
		} else {
			op = "deletechan"
			r = vfE5Try(deadline, func() { opErr = topic.DeleteExistingChannel("c") })
		}
		after := atomic.LoadInt64(&taken)
		if r != "ok" {
			blocked = fmt.Sprintf("round=%d:op=%s:%s", i, op, r)
			// what hangs behind it: the statistics take the channel's read lock
			stats = vfE5Try(2*time.Second, func() { n.GetStats("", "", true) })
			takenTotal += after
			break
		}
		close(stopRecv)
		<-recvDone
		<-recvDone
		takenTotal += atomic.LoadInt64(&taken)
		if after > before && after < int64(backlog) {
			concurrent++ // the receivers took messages while the operation ran (or just before it locked)
		}
		if opErr != nil {
			wrong = fmt.Sprintf("round=%d:op=%s:error:%s", i, op, strings.ReplaceAll(opErr.Error(), " ", "_"))
		} else if d := ch.Depth(); d != 0 {
			wrong = fmt.Sprintf("round=%d:op=%s:depth_afterwards=%d", i, op, d)
		} else if _, err := topic.GetExistingChannel("c"); op == "deletechan" && err == nil {
			wrong = fmt.Sprintf("round=%d:channel_still_linked_after_delete", i)
		}
		done++
	}
	if blocked == "" {
		blocked = "none"
	}
	if wrong == "" {
		wrong = "none"
	}
	if stats == "" {
		stats = "not-probed"
	}
	fmt.Printf("E5REPLAY %s rounds=%d backlog=%d taken_by_receivers=%d rounds_receivers_overlapped=%d blocked=%s stats_behind_it=%s wrong=%s\n",
		name, done, backlog, takenTotal, concurrent, blocked, stats, wrong)
	if blocked != "none" {
		os.Exit(0) // goroutines are stuck inside the channel lock: do not wait for them
	}
	vfE5Try(deadline, func() { n.Exit() })
}
