package nsqd

// Corr-E5 (C05): a real NSQD on a temp data path goes through a generated history (backlog in
// memory and on disk, messages in flight to live and departed consumers, deferred messages,
// paused topics/channels, zero-channel topics, ephemeral objects), then Exit(); New() on the same
// path + LoadMetadata + PersistMetadata + Main (the start-up sequence of apps/nsqd); every channel
// is then drained.  State dumps, metadata, directory listing and every delivered frame's
// (id, attempts, timestamp, body) are compared with Model/Life.lean + Model/Restart.lean.

import (
	"fmt"
	"sort"
	"strings"
	"sync/atomic"
	"testing"
)

// closeAll = NSQD.Exit(); the answer lists the subscribed consumers whose connection it closed.
func (l *vfE5Life) closeAll() {
	var subs []int64
	for _, t := range l.topics() {
		for _, c := range l.chans(t) {
			c.RLock()
			for k := range c.clients {
				subs = append(subs, k)
			}
			c.RUnlock()
		}
	}
	l.n.Exit()
	sort.Slice(subs, func(i, j int) bool { return subs[i] < subs[j] })
	var closed []string
	for _, k := range subs {
		if atomic.LoadInt32(&l.conns[k].closed) == 1 {
			closed = append(closed, fmt.Sprint(k))
		}
	}
	l.op("closeall", "ok closed=["+strings.Join(closed, ",")+"]")
	l.out.Case("files", vfE5Files(l.dir))
}

func TestVerifE5RestartCorr(t *testing.T) {
	out := vfOpen("restart")
	defer out.Close()
	r := vfNewRand(505)
	cases := vfEnvInt("VERIF_N", 20)
	steps := vfEnvInt("VERIF_STEPS", 40)
	hist := map[string]int{}
	for i := 0; i < cases; i++ {
		memq := []int{1, 2, 3, 50}[r.Intn(4)]
		dir := t.TempDir()
		l := vfE5NewLife(t, out, r, dir, memq, hist)
		l.op(fmt.Sprintf("new %d", memq), "ok")
		l.setup()
		cycles := 1 + r.Intn(3)
		for cy := 0; cy <= cycles; cy++ {
			for s := 0; s < steps; s++ {
				l.randomOp()
				l.settle()
				l.out.Case("settle", "ok")
				l.check()
			}
			if cy == cycles {
				break
			}
			l.closeAll()
			nextK := l.nextK
			l = vfE5NewLife(t, out, r, dir, memq, hist)
			l.nextK = nextK
			l.op(fmt.Sprintf("reload %d", memq), "ok")
			l.out.Case("filesexact", vfE5Files(l.dir))
			l.settle()
			l.out.Case("settle", "ok")
			l.check()
		}
		l.drain()
		l.settle()
		l.out.Case("settle", "ok")
		l.check()
		l.n.Exit()
	}
	var keys []string
	for k := range hist {
		keys = append(keys, k)
	}
	sort.Strings(keys)
	for _, k := range keys {
		fmt.Printf("E5HIST %s %d\n", k, hist[k])
	}
}
