package nsqd

// Corr-E5 (C05): a real NSQD on a temp data path goes through a generated history (backlog in
// memory and on disk, messages in flight to live and departed consumers, deferred messages,
// paused topics/channels, zero-channel topics, ephemeral objects), then Exit(); New() on the same
// path + LoadMetadata + PersistMetadata + Main (the start-up sequence of apps/nsqd); every channel
// is then drained.  State dumps, metadata, directory listing and every delivered frame's
// (id, attempts, timestamp, body) are compared with Model/Life.lean + Model/Restart.lean.

import (
	"encoding/json"
	"fmt"
	"os"
	"sort"
	"strings"
	"sync/atomic"
	"testing"
	"time"
)

// closeAll = NSQD.Exit(); the answer lists the subscribed consumers whose connection it closed.
func (l *vfE5Life) closeAll() {
	var subs []int64
	for _, t := range l.topics() {
		for _, c := range l.chans(t) {
			c.RLock()
			for k := range c.clients {
				subs = append(subs, k)
			}
			c.RUnlock()
		}
	}
	l.n.Exit()
	sort.Slice(subs, func(i, j int) bool { return subs[i] < subs[j] })
	var closed []string
	for _, k := range subs {
		if atomic.LoadInt32(&l.conns[k].closed) == 1 {
			closed = append(closed, fmt.Sprint(k))
		}
	}
	l.op("closeall", "ok closed=["+strings.Join(closed, ",")+"]")
	l.out.Case("files", vfE5Files(l.dir))
}

// backlogBeforeExit produces the on-disk state that a shutdown racing the topic pump leaves — an
// *unpaused* topic that has channels and a backlog in its own queue — without a race: the topic is
// paused (so the messages published now stay in the topic queue and Exit() flushes them to the
// topic's disk queue), and after Exit() the topic's entry in nsqd.dat is rewritten to paused=false.
// (Clearing the flag in memory instead is racy: the pump re-reads it whenever its last wake-up's
// handler happens to run.)  After the restart the pump must hand the backlog to *every* reloaded
// channel.  The model sees `ptopic t 0` before `closeall`.
func (l *vfE5Life) backlogBeforeExit() []string {
	var chosen []*Topic
	for _, t := range l.topics() {
		cs := l.chans(t)
		if t.ephemeral || len(cs) == 0 || l.r.Intn(2) == 0 {
			continue
		}
		eph := false
		for _, c := range cs {
			if c.ephemeral {
				eph = true
			}
		}
		if eph {
			continue // which messages an overflowing ephemeral channel keeps is the runtime's choice
		}
		chosen = append(chosen, t)
		if !t.IsPaused() {
			t.Pause()
			l.op(fmt.Sprintf("ptopic %s 1", t.name), "ok")
		}
	}
	l.settle()
	l.out.Case("settle", "ok")
	var names []string
	for _, t := range chosen {
		for i, k := 0, 1+l.r.Intn(4); i < k; i++ {
			body := vfE5Body(l.r, int(l.n.getOpts().MaxMsgSize))
			m := NewMessage(t.GenerateID(), body)
			line := fmt.Sprintf("pub %s %s %d %s", t.name, vfE5IDNum(m.ID), m.Timestamp, vfHex(body))
			if err := t.PutMessage(m); err != nil {
				l.op(line, "exiting")
			} else {
				l.op(line, "ok")
			}
		}
		l.op(fmt.Sprintf("ptopic %s 0", t.name), "ok")
		names = append(names, t.name)
	}
	return names
}

// unpauseOnDisk rewrites nsqd.dat with paused=false for the given topics.
func vfE5UnpauseOnDisk(t *testing.T, dir string, names []string) {
	if len(names) == 0 {
		return
	}
	fn := dir + "/nsqd.dat"
	b, err := os.ReadFile(fn)
	if err != nil {
		t.Fatal(err)
	}
	var m Metadata
	if err := json.Unmarshal(b, &m); err != nil {
		t.Fatal(err)
	}
	for i := range m.Topics {
		for _, nm := range names {
			if m.Topics[i].Name == nm {
				m.Topics[i].Paused = false
			}
		}
	}
	out, _ := json.Marshal(&m)
	if err := os.WriteFile(fn, out, 0600); err != nil {
		t.Fatal(err)
	}
}

// beforeShutdown makes sure most shutdowns find messages in flight (to live and to departed
// consumers) and deferred.
func (l *vfE5Life) beforeShutdown() {
	for _, t := range l.topics() {
		for _, c := range l.chans(t) {
			if c.IsPaused() || c.Depth() == 0 || l.r.Intn(3) == 0 {
				continue
			}
			l.doSub(t, c)
			k := l.nextK
			n := 0
			for i, cnt := 0, 1+l.r.Intn(4); i < cnt && l.deliver(t, c, k); i++ {
				n++
			}
			ids, owners := l.inflightOf(c)
			for i, id := range ids {
				if owners[i] != k {
					continue
				}
				switch l.r.Intn(4) {
				case 0: // deferred requeue: pending at shutdown
					if c.RequeueMessage(k, id, time.Hour) == nil {
						l.cl[k].RequeuedMessage()
						l.op(fmt.Sprintf("req %s %s %d %s 1", t.name, c.name, k, vfE5IDNum(id)), "ok")
					}
				case 1: // immediate requeue: back in the queue with attempts kept
					if c.RequeueMessage(k, id, 0) == nil {
						l.cl[k].RequeuedMessage()
						l.op(fmt.Sprintf("req %s %s %d %s 0", t.name, c.name, k, vfE5IDNum(id)), "ok")
					}
				}
			}
			if l.r.Intn(2) == 0 && !c.ephemeral { // the consumer goes away, its messages stay in flight
				c.RemoveClient(k)
				delete(l.where, k)
				l.op(fmt.Sprintf("unsub %s %s %d", t.name, c.name, k), "ok")
			}
		}
	}
	l.settle()
	l.out.Case("settle", "ok")
	l.check()
}

// afterRestart redelivers what came back (two restarts out of three): every frame's attempts,
// timestamp and body are compared with the model; the messages are then finished, requeued or left
// in flight for the next shutdown.
func (l *vfE5Life) afterRestart() {
	if l.r.Intn(3) == 0 {
		return
	}
	for _, t := range l.topics() {
		for _, c := range l.chans(t) {
			if c.IsPaused() || c.Depth() == 0 {
				continue
			}
			l.doSub(t, c)
			k := l.nextK
			for l.deliver(t, c, k) {
			}
			ids, owners := l.inflightOf(c)
			for i, id := range ids {
				if owners[i] != k {
					continue
				}
				switch l.r.Intn(3) {
				case 0:
					if c.FinishMessage(k, id) == nil {
						l.cl[k].FinishedMessage()
						l.op(fmt.Sprintf("fin %s %s %d %s", t.name, c.name, k, vfE5IDNum(id)), "ok")
					}
				case 1:
					if c.RequeueMessage(k, id, 0) == nil {
						l.cl[k].RequeuedMessage()
						l.op(fmt.Sprintf("req %s %s %d %s 0", t.name, c.name, k, vfE5IDNum(id)), "ok")
					}
				}
			}
		}
	}
	l.settle()
	l.out.Case("settle", "ok")
	l.check()
}

func TestVerifE5RestartCorr(t *testing.T) {
	out := vfOpen("restart")
	defer out.Close()
	r := vfNewRand(505)
	cases := vfEnvInt("VERIF_N", 20)
	steps := vfEnvInt("VERIF_STEPS", 40)
	hist := map[string]int{}
	for i := 0; i < cases; i++ {
		memq := []int{1, 2, 3, 50}[r.Intn(4)]
		dir := t.TempDir()
		l := vfE5NewLife(t, out, r, dir, memq, hist)
		l.op(fmt.Sprintf("new %d", memq), "ok")
		l.setup()
		cycles := 1 + r.Intn(3)
		for cy := 0; cy <= cycles; cy++ {
			for s := 0; s < steps; s++ {
				l.randomOp()
				l.settle()
				l.out.Case("settle", "ok")
				l.check()
			}
			if cy == cycles {
				break
			}
			l.beforeShutdown()
			unp := l.backlogBeforeExit()
			l.closeAll()
			vfE5UnpauseOnDisk(t, dir, unp)
			nextK := l.nextK
			l = vfE5NewLife(t, out, r, dir, memq, hist)
			l.nextK = nextK
			l.op(fmt.Sprintf("reload %d", memq), "ok")
			l.out.Case("filesexact", vfE5Files(l.dir))
			l.settle()
			l.out.Case("settle", "ok")
			l.check()
			l.afterRestart()
		}
		l.drain()
		l.settle()
		l.out.Case("settle", "ok")
		l.check()
		l.n.Exit()
	}
	var keys []string
	for k := range hist {
		keys = append(keys, k)
	}
	sort.Strings(keys)
	for _, k := range keys {
		fmt.Printf("E5HIST %s %d\n", k, hist[k])
	}
}
