package nsqd

// C08 thorough leg: pairwise interleavings.  Operation A (on the real Channel) is parked at one of its
// yield points, operation B runs to completion in the window (if B needs a lock A holds, A is released
// first and B must then finish), A is released.  One pair per process (VERIF_PAIR="A@point|B").
// Oracle: no panic, nothing blocked past the deadline, the channel still answers afterwards.
//
// Output: `E5PAIR a=<A> at=<point> b=<B> a_parked=<bool> b=<res> a=<res> b_waited_for_a=<bool> probe=<res> heap=<n> map=<n> dup=<bool> index_ok=<bool>`

import (
	"fmt"
	"os"
	"strings"
	"testing"
	"time"
)

var vfE5PairA = map[string][]string{
	"fin":    {"chan.fin.afterPop"},
	"req0":   {"chan.req.afterPop"},
	"reqd":   {"chan.req.afterPop", "chan.deferred.afterMapPush"},
	"touch":  {"chan.touch.afterPop", "chan.touch.afterMapPush"},
	"start":  {"chan.inflight.afterMapPush"},
	"scan":   {"chan.scan.afterPQPop"},
	"empty":  {"chan.empty.afterInitPQ"},
	"delete": {"chan.exit.stage1"},
}

var vfE5PairB = []string{"fin", "req0", "reqd", "touch", "start", "scan", "dscan", "empty", "delete", "fin2", "finX", "fin3", "req3", "put"}

// commands of connection 1: its IOLoop executes them one after the other, so two of them never overlap
// (the consumer's messagePump — "start" — the scan workers, Empty/Delete and other connections do)
var vfE5Conn1Cmd = map[string]bool{"fin": true, "req0": true, "reqd": true, "touch": true, "fin3": true, "req3": true}

// TestVerifE5PairList prints every pair (for the python side).
func TestVerifE5PairList(t *testing.T) {
	for _, a := range []string{"fin", "req0", "reqd", "touch", "start", "scan", "empty", "delete"} {
		for _, p := range vfE5PairA[a] {
			for _, b := range vfE5PairB {
				if vfE5Conn1Cmd[a] && vfE5Conn1Cmd[b] {
					continue
				}
				fmt.Printf("E5PAIRSPEC %s@%s|%s\n", a, p, b)
			}
		}
	}
}

func TestVerifE5Pair(t *testing.T) {
	spec := os.Getenv("VERIF_PAIR")
	ab := strings.Split(spec, "|")
	ap := strings.Split(ab[0], "@")
	aKind, aPoint, bKind := ap[0], ap[1], ab[1]
	defer VerifClearHooks()
	opts := vfE5Opts(t.TempDir())
	opts.MemQueueSize = 64
	n, err := New(opts)
	if err != nil {
		t.Fatal(err)
	}
	ch := &Channel{topicName: "p", name: "c#ephemeral", nsqd: n, ephemeral: true,
		clients: make(map[int64]Consumer), memoryMsgChan: make(chan *Message, 64), backend: newDummyBackendQueue()}
	ch.initPQ()
	o1 := NewMessage(vfE5ID(1), []byte("1"))
	o2 := NewMessage(vfE5ID(2), []byte("2"))
	o3 := NewMessage(vfE5ID(3), []byte("3"))
	o4 := NewMessage(vfE5ID(4), []byte("4"))
	ch.StartInFlightTimeout(o1, 1, time.Second)
	ch.StartInFlightTimeout(o2, 2, 2*time.Second)
	ch.PutMessage(o3)
	future := time.Now().Add(time.Hour).UnixNano()
	op := func(kind string) func() error {
		switch kind {
		case "fin":
			return func() error { return ch.FinishMessage(1, o1.ID) }
		case "fin2":
			return func() error { return ch.FinishMessage(2, o2.ID) }
		case "finX": // another connection names a message it does not own
			return func() error { return ch.FinishMessage(2, o1.ID) }
		case "fin3": // connection 1 answers the message its own pump is just delivering
			return func() error { return ch.FinishMessage(1, o3.ID) }
		case "req3":
			return func() error { return ch.RequeueMessage(1, o3.ID, 0) }
		case "req0":
			return func() error { return ch.RequeueMessage(1, o1.ID, 0) }
		case "reqd":
			return func() error { return ch.RequeueMessage(1, o1.ID, time.Minute) }
		case "touch":
			return func() error { return ch.TouchMessage(1, o1.ID, time.Minute) }
		case "start":
			return func() error {
				select {
				case m := <-ch.memoryMsgChan:
					m.Attempts++
					return ch.StartInFlightTimeout(m, 1, time.Minute)
				default:
					return nil
				}
			}
		case "scan":
			return func() error { ch.processInFlightQueue(future); return nil }
		case "dscan":
			return func() error { ch.processDeferredQueue(future); return nil }
		case "empty":
			return func() error { return ch.Empty() }
		case "delete":
			return func() error { return ch.Delete() }
		case "put":
			return func() error { return ch.PutMessage(o4) }
		}
		t.Fatalf("unknown op %q", kind)
		return nil
	}
	type task struct {
		parked chan string
		done   chan string
		resume chan struct{}
		nopark bool
	}
	var cur *task
	for _, pts := range vfE5PairA {
		for _, p := range pts {
			VerifSetHook(p, func(name string) {
				tk := cur
				if tk == nil || tk.nopark {
					return
				}
				tk.parked <- name
				<-tk.resume
			})
		}
	}
	run := func(tk *task, f func() error) {
		go func() {
			defer func() {
				if r := recover(); r != nil {
					tk.done <- "panic:" + strings.ReplaceAll(fmt.Sprint(r), " ", "_")
				}
			}()
			if err := f(); err != nil {
				tk.done <- "err"
			} else {
				tk.done <- "ok"
			}
		}()
	}
	wait := func(tk *task, d time.Duration) (string, string) { // (state, value)
		select {
		case p := <-tk.parked:
			return "parked", p
		case r := <-tk.done:
			return "done", r
		case <-time.After(d):
			return "waiting", ""
		}
	}
	a := &task{parked: make(chan string), done: make(chan string, 1), resume: make(chan struct{})}
	cur = a
	run(a, op(aKind))
	aParked := false
	aRes := ""
	for {
		st, v := wait(a, 3*time.Second)
		if st == "parked" && v == aPoint {
			aParked = true
			break
		}
		if st == "parked" {
			cur = a
			a.resume <- struct{}{}
			continue
		}
		if st == "done" {
			aRes = v
		} else {
			aRes = "blocked"
		}
		break
	}
	b := &task{parked: make(chan string), done: make(chan string, 1), resume: make(chan struct{}), nopark: true}
	cur = b
	run(b, op(bKind))
	st, bRes := wait(b, 300*time.Millisecond)
	bWaited := false
	if st == "waiting" {
		bWaited = true // B needs something A holds: A goes on first
	}
	if aParked {
		a.nopark = true
		cur = a
		a.resume <- struct{}{}
		st2, v := wait(a, 3*time.Second)
		if st2 == "done" {
			aRes = v
		} else {
			aRes = "blocked"
		}
	}
	if bWaited {
		st3, v := wait(b, 3*time.Second)
		if st3 == "done" {
			bRes = v
		} else {
			bRes = "blocked"
		}
	}
	probe := "skipped"
	heap, inMap := -1, -1
	dup, idxOK := false, true
	if !strings.HasPrefix(aRes, "panic") && !strings.HasPrefix(bRes, "panic") && aRes != "blocked" && bRes != "blocked" {
		probe = vfE5Try(2*time.Second, func() { ch.FinishMessage(9, vfE5ID(99)); ch.processInFlightQueue(0) })
		if probe == "ok" {
			ch.inFlightMutex.Lock()
			heap, inMap = len(ch.inFlightPQ), len(ch.inFlightMessages)
			seen := map[*Message]bool{}
			for i, m := range ch.inFlightPQ {
				if seen[m] {
					dup = true
				}
				seen[m] = true
				if m.index != i {
					idxOK = false
				}
			}
			ch.inFlightMutex.Unlock()
		}
	}
	fmt.Printf("E5PAIR a=%s at=%s b=%s a_parked=%v b_res=%s a_res=%s b_waited_for_a=%v probe=%s heap=%d map=%d dup=%v index_ok=%v\n",
		aKind, aPoint, bKind, aParked, bRes, aRes, bWaited, probe, heap, inMap, dup, idxOK)
	os.Exit(0) // parked / blocked goroutines must not keep the process alive
}
