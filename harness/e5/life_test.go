package nsqd

// Corr-E5 (C08 atomic leg): a real NSQD on a temp data path is driven through generated
// create / delete / empty / pause / subscribe / publish / deliver / FIN / REQ histories; after
// every operation the real state is dumped white-box and compared with the Lean model
// (lean/Nsq/Model/Life.lean through drv_e5).  The harness plays the consumer's messagePump
// itself (receive from the channel's memory chan / disk queue, Attempts++, StartInFlightTimeout,
// SendingMessage) on real clientV2 objects, so the schedule is deterministic.

import (
	"fmt"
	"net"
	"os"
	"sort"
	"strconv"
	"strings"
	"sync/atomic"
	"testing"
	"time"
)

type vfE5Addr struct{}

func (vfE5Addr) Network() string { return "tcp" }
func (vfE5Addr) String() string  { return "127.0.0.1:1" }

// vfE5Conn is the connection of a harness-played consumer: it only records Close.
type vfE5Conn struct{ closed int32 }

func (c *vfE5Conn) Read(b []byte) (int, error)       { select {} }
func (c *vfE5Conn) Write(b []byte) (int, error)      { return len(b), nil }
func (c *vfE5Conn) Close() error                     { atomic.StoreInt32(&c.closed, 1); return nil }
func (c *vfE5Conn) LocalAddr() net.Addr              { return vfE5Addr{} }
func (c *vfE5Conn) RemoteAddr() net.Addr             { return vfE5Addr{} }
func (c *vfE5Conn) SetDeadline(time.Time) error      { return nil }
func (c *vfE5Conn) SetReadDeadline(time.Time) error  { return nil }
func (c *vfE5Conn) SetWriteDeadline(time.Time) error { return nil }

type vfE5Life struct {
	t     *testing.T
	n     *NSQD
	dir   string
	out   *vfOut
	r     *vfRand
	conns map[int64]*vfE5Conn
	cl    map[int64]*clientV2
	where map[int64][2]string // client -> topic, channel it is subscribed to
	nextK int64
	hist  map[string]int
	bodies map[string]string // hex id -> body hex (for the restart leg)
}

func vfE5IDNum(id MessageID) string {
	v, err := strconv.ParseUint(string(id[:]), 16, 64)
	if err != nil {
		return "bad"
	}
	return strconv.FormatUint(v, 10)
}

func vfE5B(b bool) string {
	if b {
		return "1"
	}
	return "0"
}

func (l *vfE5Life) topics() []*Topic {
	l.n.RLock()
	var ts []*Topic
	for _, t := range l.n.topicMap {
		ts = append(ts, t)
	}
	l.n.RUnlock()
	sort.Slice(ts, func(i, j int) bool { return ts[i].name < ts[j].name })
	return ts
}

func (l *vfE5Life) chans(t *Topic) []*Channel {
	t.RLock()
	var cs []*Channel
	for _, c := range t.channelMap {
		cs = append(cs, c)
	}
	t.RUnlock()
	sort.Slice(cs, func(i, j int) bool { return cs[i].name < cs[j].name })
	return cs
}

// vfE5Barrier returns once the topic's messagePump is back in its select: a send on the
// unbuffered channelUpdateChan is only received there, i.e. after the fan-out of whatever the pump
// had taken before is complete (counters included).  Handling it only re-reads the channel map.
func vfE5Barrier(t *Topic) {
	select {
	case t.channelUpdateChan <- 1:
	case <-t.exitChan:
	}
}

// settle waits until every topic pump has fanned out what it can (no sleeping on a guess: the
// barrier above is the synchronisation; the loop only yields while the pump still has input).
func (l *vfE5Life) settle() {
	deadline := time.Now().Add(10 * time.Second)
	for {
		busy := false
		for _, t := range l.topics() {
			if t.Exiting() {
				continue
			}
			// depth 0 *before* the barrier: the pump has already received everything; the barrier
			// then waits until it has finished fanning the last message out
			if len(l.chans(t)) > 0 && !t.IsPaused() && t.Depth() > 0 {
				busy = true
			}
			vfE5Barrier(t)
		}
		if !busy {
			return
		}
		if time.Now().After(deadline) {
			l.t.Fatalf("settle: topic pumps did not drain within 10s")
		}
		time.Sleep(200 * time.Microsecond)
	}
}

func vfE5ChanDump(c *Channel) string {
	c.inFlightMutex.Lock()
	var inf []string
	for id, m := range c.inFlightMessages {
		inf = append(inf, fmt.Sprintf("%s:%d:%d", vfE5IDNum(id), m.Attempts, m.clientID))
	}
	c.inFlightMutex.Unlock()
	c.deferredMutex.Lock()
	var df []string
	for id := range c.deferredMessages {
		df = append(df, vfE5IDNum(id))
	}
	c.deferredMutex.Unlock()
	c.RLock()
	var cl []string
	var ks []int64
	for k := range c.clients {
		ks = append(ks, k)
	}
	sort.Slice(ks, func(i, j int) bool { return ks[i] < ks[j] })
	for _, k := range ks {
		cl = append(cl, fmt.Sprintf("%d:%d", k, atomic.LoadInt64(&c.clients[k].(*clientV2).InFlightCount)))
	}
	c.RUnlock()
	sort.Strings(inf)
	sort.Strings(df)
	return fmt.Sprintf("C %s e=%s p=%s ml=%d dl=%d if=[%s] df=[%s] cl=[%s] n=%d",
		c.name, vfE5B(c.ephemeral), vfE5B(c.IsPaused()), len(c.memoryMsgChan), c.backend.Depth(),
		strings.Join(inf, ","), strings.Join(df, ","), strings.Join(cl, ","), atomic.LoadUint64(&c.messageCount))
}

func (l *vfE5Life) dump() string {
	var parts []string
	for _, t := range l.topics() {
		s := fmt.Sprintf("T %s e=%s p=%s ml=%d dl=%d n=%d", t.name, vfE5B(t.ephemeral), vfE5B(t.IsPaused()),
			len(t.memoryMsgChan), t.backend.Depth(), atomic.LoadUint64(&t.messageCount))
		for _, c := range l.chans(t) {
			s += " | " + vfE5ChanDump(c)
		}
		parts = append(parts, s)
	}
	var closed []string
	var ks []int64
	for k, c := range l.conns {
		if atomic.LoadInt32(&c.closed) == 1 {
			ks = append(ks, k)
		}
	}
	sort.Slice(ks, func(i, j int) bool { return ks[i] < ks[j] })
	for _, k := range ks {
		closed = append(closed, strconv.FormatInt(k, 10))
	}
	parts = append(parts, "closed=["+strings.Join(closed, ",")+"]")
	return strings.Join(parts, " ; ")
}

func (l *vfE5Life) meta() string {
	l.n.RLock()
	m := l.n.GetMetadata(false)
	l.n.RUnlock()
	var ts []string
	for _, t := range m.Topics {
		var cs []string
		for _, c := range t.Channels {
			cs = append(cs, c.Name+":"+vfE5B(c.Paused))
		}
		sort.Strings(cs)
		ts = append(ts, t.Name+":"+vfE5B(t.Paused)+"["+strings.Join(cs, ",")+"]")
	}
	sort.Strings(ts)
	return "meta " + strings.Join(ts, ";")
}

// vfE5Files lists the backends that own at least one file under dir ("t" or "t:c"); a backend
// whose only remaining files are go-diskqueue's quarantined `*.bad` files is marked "name!bad".
func vfE5Files(dir string) string {
	ents, _ := os.ReadDir(dir)
	good := map[string]bool{}
	bad := map[string]bool{}
	for _, e := range ents {
		if os.Getenv("VERIF_FILES_FULL") != "" {
			fmt.Printf("E5FILE %s\n", e.Name())
		}
		if i := strings.Index(e.Name(), ".diskqueue."); i >= 0 {
			if strings.HasSuffix(e.Name(), ".bad") {
				bad[e.Name()[:i]] = true
			} else {
				good[e.Name()[:i]] = true
			}
		}
	}
	var names []string
	for k := range good {
		names = append(names, k)
	}
	for k := range bad {
		if !good[k] {
			names = append(names, k+"!bad")
		}
	}
	sort.Strings(names)
	return "files " + strings.Join(names, ",")
}

func (l *vfE5Life) op(line, impl string) {
	l.out.Case(line, impl)
	l.hist[strings.Fields(line)[0]+"→"+strings.Fields(impl)[0]]++
}

func (l *vfE5Life) check() {
	l.out.Case("dump", l.dump())
	l.out.Case("meta", l.meta())
	l.out.Case("files", vfE5Files(l.dir))
}

func (l *vfE5Life) newClient() int64 {
	l.nextK++
	k := l.nextK
	conn := &vfE5Conn{}
	l.conns[k] = conn
	l.cl[k] = newClientV2(k, conn, l.n)
	return k
}

// vfE5Body: mostly tiny bodies; one in three sits at the configured max-msg-size or just below it
// (max, max-1, max-25, max-26, max-27: the record header is 26 bytes), so that every queue that bounds
// its record size by something smaller than header + max-msg-size shows.
func vfE5Body(r *vfRand, max int) []byte {
	if r.Intn(3) == 0 && max > 30 {
		return r.Bytes(max - []int{0, 1, 25, 26, 27}[r.Intn(5)])
	}
	return r.Bytes(r.Intn(9))
}

var vfE5TopicNames = []string{"ta", "tb", "tc#ephemeral"}
var vfE5ChanNames = []string{"c1", "c2", "c3#ephemeral", "c4#ephemeral"}

func (l *vfE5Life) pickTopic() *Topic {
	ts := l.topics()
	if len(ts) == 0 {
		return nil
	}
	return ts[l.r.Intn(len(ts))]
}

func (l *vfE5Life) pickChan() (*Topic, *Channel) {
	t := l.pickTopic()
	if t == nil {
		return nil, nil
	}
	cs := l.chans(t)
	if len(cs) == 0 {
		return t, nil
	}
	return t, cs[l.r.Intn(len(cs))]
}

// pickChanWhere prefers a channel satisfying pred (3 times out of 4), else any channel.
func (l *vfE5Life) pickChanWhere(pred func(*Channel) bool) (*Topic, *Channel) {
	if l.r.Intn(4) != 0 {
		type tc struct {
			t *Topic
			c *Channel
		}
		var all []tc
		for _, t := range l.topics() {
			for _, c := range l.chans(t) {
				if pred(c) {
					all = append(all, tc{t, c})
				}
			}
		}
		if len(all) > 0 {
			x := all[l.r.Intn(len(all))]
			return x.t, x.c
		}
	}
	return l.pickChan()
}

func vfE5HasInflight(c *Channel) bool {
	c.inFlightMutex.Lock()
	defer c.inFlightMutex.Unlock()
	return len(c.inFlightMessages) > 0
}

func vfE5HasDeferred(c *Channel) bool {
	c.deferredMutex.Lock()
	defer c.deferredMutex.Unlock()
	return len(c.deferredMessages) > 0
}

func vfE5Deliverable(c *Channel) bool {
	c.RLock()
	n := len(c.clients)
	c.RUnlock()
	return n > 0 && !c.IsPaused() && c.Depth() > 0
}

func vfE5HasClients(c *Channel) bool {
	c.RLock()
	defer c.RUnlock()
	return len(c.clients) > 0
}

// deliver plays one iteration of protocolV2.messagePump for client k on channel c.
func (l *vfE5Life) deliver(t *Topic, c *Channel, k int64) bool {
	var msg *Message
	src := ""
	tryMem := len(c.memoryMsgChan) > 0
	tryDisk := c.backend.Depth() > 0
	if tryMem && tryDisk && l.r.Intn(2) == 0 {
		tryMem = false
	}
	if tryMem {
		select {
		case msg = <-c.memoryMsgChan:
			src = "mem"
		default:
		}
	} else if tryDisk {
		select {
		case b := <-c.backend.ReadChan():
			m, err := decodeMessage(b)
			if err != nil {
				l.t.Fatalf("decode: %v", err)
			}
			msg, src = m, "disk"
		case <-time.After(2 * time.Second):
			l.t.Fatalf("disk queue of %s:%s has depth but delivers nothing", t.name, c.name)
		}
	}
	if msg == nil {
		return false
	}
	msg.Attempts++
	c.StartInFlightTimeout(msg, k, time.Hour)
	l.cl[k].SendingMessage()
	l.op(fmt.Sprintf("deliver %s %s %d %s %s", t.name, c.name, k, src, vfE5IDNum(msg.ID)),
		fmt.Sprintf("ok att=%d ts=%d body=%s", msg.Attempts, msg.Timestamp, vfHex(msg.Body)))
	return true
}

// waitGone waits for the asynchronous once-only delete callbacks (`go deleter.Do(...)`) to run to
// their end.  Once the object has left its map the real callback is the Once's first call, so a
// second Do (with a no-op) blocks until that first call has returned — a join, not a sleep.  (The
// callback's tail sends on the topic's channelUpdateChan; a pump poked late would re-read the
// paused flag at an arbitrary moment.)
func (l *vfE5Life) waitGone(t *Topic, c *Channel) {
	deadline := time.Now().Add(10 * time.Second)
	for {
		_, err := t.GetExistingChannel(c.name)
		if err != nil {
			break
		}
		if time.Now().After(deadline) {
			l.t.Fatalf("ephemeral channel %s:%s not auto-deleted within 10s", t.name, c.name)
		}
		time.Sleep(200 * time.Microsecond)
	}
	if c.ephemeral {
		c.deleter.Do(func() {})
	}
	if t.ephemeral && len(l.chans(t)) == 0 {
		for {
			if _, err := l.n.GetExistingTopic(t.name); err != nil {
				break
			}
			if time.Now().After(deadline) {
				l.t.Fatalf("ephemeral topic %s not auto-deleted within 10s", t.name)
			}
			time.Sleep(200 * time.Microsecond)
		}
		t.deleter.Do(func() {})
	}
}

func (l *vfE5Life) inflightOf(c *Channel) (ids []MessageID, owners []int64) {
	c.inFlightMutex.Lock()
	for id, m := range c.inFlightMessages {
		ids = append(ids, id)
		owners = append(owners, m.clientID)
	}
	c.inFlightMutex.Unlock()
	idx := make([]int, len(ids))
	for i := range idx {
		idx[i] = i
	}
	sort.Slice(idx, func(a, b int) bool { return string(ids[idx[a]][:]) < string(ids[idx[b]][:]) })
	var i2 []MessageID
	var o2 []int64
	for _, i := range idx {
		i2 = append(i2, ids[i])
		o2 = append(o2, owners[i])
	}
	return i2, o2
}

func (l *vfE5Life) doCreateTopic(name string) *Topic {
	t := l.n.GetTopic(name)
	l.op(fmt.Sprintf("ctopic %s %s", name, vfE5B(t.ephemeral)), "ok")
	return t
}

func (l *vfE5Life) doCreateChan(t *Topic, name string) *Channel {
	c := t.GetChannel(name)
	l.op(fmt.Sprintf("cchan %s %s %s", t.name, name, vfE5B(c.ephemeral)), "ok")
	return c
}

func (l *vfE5Life) doSub(t *Topic, c *Channel) {
	k := l.newClient()
	if err := c.AddClient(k, l.cl[k]); err != nil {
		l.op(fmt.Sprintf("sub %s %s %d", t.name, c.name, k), "exiting")
	} else {
		l.where[k] = [2]string{t.name, c.name}
		l.op(fmt.Sprintf("sub %s %s %d", t.name, c.name, k), "ok")
	}
}

// setup gives most cases a populated start: topics with channels and consumers
func (l *vfE5Life) setup() {
	r := l.r
	for i, n := 0, r.Intn(3); i < n; i++ {
		t := l.doCreateTopic(vfE5TopicNames[r.Intn(len(vfE5TopicNames))])
		for j, m := 0, r.Intn(4); j < m; j++ {
			c := l.doCreateChan(t, vfE5ChanNames[r.Intn(len(vfE5ChanNames))])
			for q, w := 0, r.Intn(3); q < w; q++ {
				l.doSub(t, c)
			}
		}
	}
}

// backlogIntoEphemeral: starting the pump of topic t now would fan a backlog of several messages
// out to an ephemeral channel.  Which of them an overflowing ephemeral channel keeps depends on
// the order in which the pump's select takes them from memory and disk — chosen by the Go runtime —
// so the generator does not create that situation (the drop itself is exercised one message at a time).
func (l *vfE5Life) backlogIntoEphemeral(t *Topic, newChan string) bool {
	if t.Depth() <= 1 {
		return false
	}
	if strings.HasSuffix(newChan, "#ephemeral") {
		return true
	}
	for _, c := range l.chans(t) {
		if c.ephemeral {
			return true
		}
	}
	return false
}

// one generated operation
func (l *vfE5Life) randomOp() {
	r := l.r
	switch x := r.Intn(100); {
	case x < 6: // create topic
		name := vfE5TopicNames[r.Intn(len(vfE5TopicNames))]
		t := l.n.GetTopic(name)
		l.op(fmt.Sprintf("ctopic %s %s", name, vfE5B(t.ephemeral)), "ok")
	case x < 14: // create channel
		t := l.pickTopic()
		name := vfE5ChanNames[r.Intn(len(vfE5ChanNames))]
		if t == nil {
			l.op("cchan zz "+name+" 0", "notopic")
			return
		}
		if len(l.chans(t)) == 0 && !t.IsPaused() && l.backlogIntoEphemeral(t, name) {
			return
		}
		c := t.GetChannel(name)
		l.op(fmt.Sprintf("cchan %s %s %s", t.name, name, vfE5B(c.ephemeral)), "ok")
	case x < 16: // delete topic
		name := vfE5TopicNames[r.Intn(len(vfE5TopicNames))]
		if tt := l.pickTopic(); tt != nil && r.Intn(3) != 0 {
			name = tt.name
		}
		err := l.n.DeleteExistingTopic(name)
		if err != nil {
			l.op("dtopic "+name, "notopic")
		} else {
			l.op("dtopic "+name, "ok")
		}
	case x < 20: // delete channel
		t := l.pickTopic()
		name := vfE5ChanNames[r.Intn(len(vfE5ChanNames))]
		if t == nil {
			return
		}
		if cs := l.chans(t); len(cs) > 0 && r.Intn(3) != 0 {
			name = cs[r.Intn(len(cs))].name
		}
		err := t.DeleteExistingChannel(name)
		if err != nil {
			l.op(fmt.Sprintf("dchan %s %s", t.name, name), "nochan")
		} else {
			if t.ephemeral && len(l.chans(t)) == 0 {
				l.waitGone(t, &Channel{name: name})
			}
			l.op(fmt.Sprintf("dchan %s %s", t.name, name), "ok")
		}
	case x < 22: // empty topic
		if t := l.pickTopic(); t != nil {
			t.Empty()
			l.op("etopic "+t.name, "ok")
		}
	case x < 27: // empty channel
		if t, c := l.pickChan(); c != nil {
			c.Empty()
			l.op(fmt.Sprintf("echan %s %s", t.name, c.name), "ok")
		}
	case x < 30: // pause / unpause topic
		if t := l.pickTopic(); t != nil {
			p := r.Intn(2) == 0
			if !p && t.IsPaused() && l.backlogIntoEphemeral(t, "") {
				return
			}
			if p {
				t.Pause()
			} else {
				t.UnPause()
			}
			l.op(fmt.Sprintf("ptopic %s %s", t.name, vfE5B(p)), "ok")
		}
	case x < 33:
		if t, c := l.pickChan(); c != nil {
			p := r.Intn(2) == 0
			if p {
				c.Pause()
			} else {
				c.UnPause()
			}
			l.op(fmt.Sprintf("pchan %s %s %s", t.name, c.name, vfE5B(p)), "ok")
		}
	case x < 48: // publish 1..4 messages
		t := l.pickTopic()
		if t == nil {
			return
		}
		for i, k := 0, 1+r.Intn(4); i < k; i++ {
			body := vfE5Body(r, int(l.n.getOpts().MaxMsgSize))
			m := NewMessage(t.GenerateID(), body)
			line := fmt.Sprintf("pub %s %s %d %s", t.name, vfE5IDNum(m.ID), m.Timestamp, vfHex(body))
			l.bodies[string(m.ID[:])] = vfHex(body)
			if err := t.PutMessage(m); err != nil {
				l.op(line, "exiting")
			} else {
				l.op(line, "ok")
			}
			// an ephemeral topic drops on overflow: keep the pump caught up so that the
			// outcome does not depend on how fast it runs
			l.settle()
			l.out.Case("settle", "ok")
		}
	case x < 56: // subscribe a new client
		t, c := l.pickChan()
		if c == nil {
			return
		}
		k := l.newClient()
		if err := c.AddClient(k, l.cl[k]); err != nil {
			l.op(fmt.Sprintf("sub %s %s %d", t.name, c.name, k), "exiting")
		} else {
			l.where[k] = [2]string{t.name, c.name}
			l.op(fmt.Sprintf("sub %s %s %d", t.name, c.name, k), "ok")
		}
	case x < 61: // a client leaves
		t, c := l.pickChanWhere(vfE5HasClients)
		if c == nil {
			return
		}
		c.RLock()
		var ks []int64
		for k := range c.clients {
			ks = append(ks, k)
		}
		c.RUnlock()
		if len(ks) == 0 {
			return
		}
		sort.Slice(ks, func(i, j int) bool { return ks[i] < ks[j] })
		k := ks[r.Intn(len(ks))]
		c.RemoveClient(k)
		delete(l.where, k)
		if len(ks) == 1 && c.ephemeral {
			l.waitGone(t, c)
		}
		l.op(fmt.Sprintf("unsub %s %s %d", t.name, c.name, k), "ok")
	case x < 78: // deliver
		t, c := l.pickChanWhere(vfE5Deliverable)
		if c == nil || c.IsPaused() {
			return
		}
		c.RLock()
		var ks []int64
		for k := range c.clients {
			ks = append(ks, k)
		}
		c.RUnlock()
		if len(ks) == 0 {
			return
		}
		sort.Slice(ks, func(i, j int) bool { return ks[i] < ks[j] })
		for i, cnt := 0, 1+r.Intn(3); i < cnt; i++ {
			if !l.deliver(t, c, ks[r.Intn(len(ks))]) {
				break
			}
		}
	case x < 86: // FIN (mostly of a message really held; sometimes by the wrong client)
		t, c := l.pickChanWhere(vfE5HasInflight)
		if c == nil {
			return
		}
		ids, owners := l.inflightOf(c)
		if len(ids) == 0 {
			return
		}
		i := r.Intn(len(ids))
		k := owners[i]
		if r.Intn(8) == 0 {
			k = k + 1000
		}
		err := c.FinishMessage(k, ids[i])
		line := fmt.Sprintf("fin %s %s %d %s", t.name, c.name, k, vfE5IDNum(ids[i]))
		if err != nil {
			l.op(line, "failed")
		} else {
			if cl := l.cl[k]; cl != nil {
				cl.FinishedMessage()
			}
			l.op(line, "ok")
		}
	case x < 96: // REQ, immediate or deferred
		t, c := l.pickChanWhere(vfE5HasInflight)
		if c == nil {
			return
		}
		ids, owners := l.inflightOf(c)
		if len(ids) == 0 {
			return
		}
		i := r.Intn(len(ids))
		k := owners[i]
		def := r.Intn(2) == 0
		d := time.Duration(0)
		if def {
			d = time.Hour
		}
		err := c.RequeueMessage(k, ids[i], d)
		line := fmt.Sprintf("req %s %s %d %s %s", t.name, c.name, k, vfE5IDNum(ids[i]), vfE5B(def))
		if err != nil {
			l.op(line, "failed")
		} else {
			if cl := l.cl[k]; cl != nil {
				cl.RequeuedMessage()
			}
			l.op(line, "ok")
		}
	default: // the earliest deferred message becomes due
		t, c := l.pickChanWhere(vfE5HasDeferred)
		if c == nil {
			return
		}
		c.deferredMutex.Lock()
		var best *MessageID
		var bestPri int64
		for id, it := range c.deferredMessages {
			if best == nil || it.Priority < bestPri {
				i2 := id
				best, bestPri = &i2, it.Priority
			}
		}
		c.deferredMutex.Unlock()
		if best == nil {
			return
		}
		c.processDeferredQueue(bestPri)
		l.op(fmt.Sprintf("release %s %s %s", t.name, c.name, vfE5IDNum(*best)), "ok")
	}
}

func vfE5NewLife(t *testing.T, out *vfOut, r *vfRand, dir string, memq int, hist map[string]int) *vfE5Life {
	opts := vfE5Opts(dir)
	opts.MemQueueSize = int64(memq)
	opts.MaxBytesPerFile = int64(vfEnvInt("VERIF_MAXFILE", 200))
	opts.MaxMsgSize = int64(vfEnvInt("VERIF_MAXMSG", 64))
	n, err := New(opts)
	if err != nil {
		t.Fatal(err)
	}
	// the start-up sequence of apps/nsqd/main.go: LoadMetadata, PersistMetadata, Main
	if err := n.LoadMetadata(); err != nil {
		t.Fatal(err)
	}
	if err := n.PersistMetadata(); err != nil {
		t.Fatal(err)
	}
	go n.Main()
	return &vfE5Life{t: t, n: n, dir: dir, out: out, r: r, conns: map[int64]*vfE5Conn{}, cl: map[int64]*clientV2{},
		where: map[int64][2]string{}, hist: hist, bodies: map[string]string{}}
}

// drain delivers and finishes everything every channel still holds (final acceptor check).
func (l *vfE5Life) drain() {
	for _, t := range l.topics() {
		for _, c := range l.chans(t) {
			if c.IsPaused() {
				c.UnPause()
				l.op(fmt.Sprintf("pchan %s %s 0", t.name, c.name), "ok")
			}
			k := l.newClient()
			if err := c.AddClient(k, l.cl[k]); err != nil {
				continue
			}
			l.op(fmt.Sprintf("sub %s %s %d", t.name, c.name, k), "ok")
			for l.deliver(t, c, k) {
			}
			ids, owners := l.inflightOf(c)
			for i, id := range ids {
				if owners[i] != k {
					continue
				}
				if err := c.FinishMessage(k, id); err == nil {
					l.cl[k].FinishedMessage()
					l.op(fmt.Sprintf("fin %s %s %d %s", t.name, c.name, k, vfE5IDNum(id)), "ok")
				}
			}
		}
	}
}

func TestVerifE5LifeCorr(t *testing.T) {
	out := vfOpen("life")
	defer out.Close()
	r := vfNewRand(508)
	cases := vfEnvInt("VERIF_N", 60)
	steps := vfEnvInt("VERIF_STEPS", 60)
	hist := map[string]int{}
	for i := 0; i < cases; i++ {
		memq := []int{1, 2, 3, 50}[r.Intn(4)]
		l := vfE5NewLife(t, out, r, t.TempDir(), memq, hist)
		l.op(fmt.Sprintf("new %d", memq), "ok")
		l.setup()
		for s := 0; s < steps; s++ {
			l.randomOp()
			l.settle()
			l.out.Case("settle", "ok")
			l.check()
		}
		l.drain()
		l.settle()
		l.out.Case("settle", "ok")
		l.check()
		l.n.Exit()
	}
	var keys []string
	for k := range hist {
		keys = append(keys, k)
	}
	sort.Strings(keys)
	for _, k := range keys {
		fmt.Printf("E5HIST %s %d\n", k, hist[k])
	}
}
