package nsqd

// Corr-E5 (C08 micro-step leg): the real Channel methods FinishMessage / RequeueMessage /
// TouchMessage / StartInFlightTimeout / processInFlightQueue / Empty run in goroutines that are
// parked at the verif hook points, so that the harness executes one critical section at a time in
// a generated order.  After every micro-step the real in-flight map, heap array and every
// object's index/pri/clientID are dumped and compared with lean/Nsq/Model/InFlight.lean.
//
// A panic inside a critical section leaves inFlightMutex locked: the case ends there (the whole
// run is a subprocess with a timeout).

import (
	"fmt"
	"sort"
	"strings"
	"testing"
	"time"
)

type vfE5Task struct {
	kind   string
	o      int
	t      int64 // scan time
	parked chan string
	done   chan string
	resume chan struct{}
	at     string
	rest   bool // empty: true once parked after initPQ
}

type vfE5Micro struct {
	t     *testing.T
	n     *NSQD
	ch    *Channel
	objs  map[int]*Message
	tasks []*vfE5Task
	cur   *vfE5Task
	out   *vfOut
	r     *vfRand
	nobj  int
	hist  map[string]int
	dead  bool
	// fixes/F27 in the tree: REQ / TOUCH hold c.RLock, Empty holds c.Lock — the generator does not start one while
	// the other is parked (it would block; model: disabled)
	ansLock bool
}

var vfE5MicroPoints = []string{"chan.fin.afterPop", "chan.req.afterPop", "chan.touch.afterPop",
	"chan.touch.afterMapPush", "chan.inflight.afterMapPush", "chan.deferred.afterMapPush",
	"chan.scan.afterPQPop", "chan.empty.afterInitPQ"}

func (m *vfE5Micro) install() {
	for _, p := range vfE5MicroPoints {
		VerifSetHook(p, func(name string) {
			t := m.cur
			if t == nil {
				return
			}
			t.parked <- name
			<-t.resume
		})
	}
}

// wait for the running task to park, finish or panic
func (m *vfE5Micro) wait(t *vfE5Task) string {
	select {
	case p := <-t.parked:
		t.at = p
		return "parked"
	case r := <-t.done:
		t.at = ""
		m.remove(t)
		return r
	case <-time.After(3 * time.Second):
		return "blocked"
	}
}

func (m *vfE5Micro) remove(t *vfE5Task) {
	for i, x := range m.tasks {
		if x == t {
			m.tasks = append(m.tasks[:i], m.tasks[i+1:]...)
			return
		}
	}
}

func (m *vfE5Micro) start(kind string, o int, f func() error) (*vfE5Task, string) {
	t := &vfE5Task{kind: kind, o: o, parked: make(chan string), done: make(chan string, 1), resume: make(chan struct{})}
	m.tasks = append(m.tasks, t)
	m.cur = t
	go func() {
		defer func() {
			if r := recover(); r != nil {
				t.done <- "panic"
			}
		}()
		if err := f(); err != nil {
			t.done <- "err"
		} else {
			t.done <- "ok"
		}
	}()
	return t, m.wait(t)
}

func (m *vfE5Micro) resumeTask(t *vfE5Task) string {
	m.cur = t
	t.resume <- struct{}{}
	return m.wait(t)
}

func (m *vfE5Micro) objOf(msg *Message) int {
	for o, x := range m.objs {
		if x == msg {
			return o
		}
	}
	return 0
}

func (m *vfE5Micro) dump() string {
	c := m.ch
	var mp, pq, dm, dq, q, idx, conts []string
	if !m.dead {
		c.inFlightMutex.Lock()
		for id := range c.inFlightMessages {
			mp = append(mp, strings.TrimLeft(string(id[:]), "0"))
		}
		for _, x := range c.inFlightPQ {
			pq = append(pq, fmt.Sprint(m.objOf(x)))
		}
		c.inFlightMutex.Unlock()
		c.deferredMutex.Lock()
		for id := range c.deferredMessages {
			dm = append(dm, strings.TrimLeft(string(id[:]), "0"))
		}
		for _, it := range c.deferredPQ {
			dq = append(dq, fmt.Sprintf("%d:%d", it.Priority, m.objOf(it.Value.(*Message))))
		}
		c.deferredMutex.Unlock()
	}
	// queue content: drain and refill (nothing else runs)
	var held []*Message
	for {
		select {
		case x := <-c.memoryMsgChan:
			held = append(held, x)
			continue
		default:
		}
		break
	}
	for _, x := range held {
		q = append(q, fmt.Sprint(m.objOf(x)))
		c.memoryMsgChan <- x
	}
	for o := 1; o <= m.nobj; o++ {
		if x := m.objs[o]; x != nil {
			idx = append(idx, fmt.Sprintf("%d:%d:%d:%d", o, x.index, x.clientID, x.pri))
		}
	}
	for _, t := range m.tasks {
		conts = append(conts, fmt.Sprintf("%s.%d@%s", t.kind, t.o, strings.TrimPrefix(t.at, "chan.")))
	}
	sort.Strings(mp)
	sort.Strings(dm)
	sort.Strings(dq)
	sort.Strings(q)
	sort.Strings(conts)
	return fmt.Sprintf("map=[%s] pq=[%s] dmap=[%s] dpq=[%s] q=[%s] obj=[%s] conts=[%s]", strings.Join(mp, ","),
		strings.Join(pq, ","), strings.Join(dm, ","), strings.Join(dq, ","), strings.Join(q, ","),
		strings.Join(idx, ","), strings.Join(conts, ","))
}

func (m *vfE5Micro) emit(line, res string) {
	m.out.Case("if "+line, res)
	m.hist[strings.Fields(line)[0]+"→"+res]++
	if res == "panic" || res == "blocked" {
		m.dead = true
		return
	}
	m.out.Case("if dump", m.dump())
}

func (m *vfE5Micro) free(o int) bool { // object id not located anywhere and not held by a task
	if m.objs[o] == nil {
		return true
	}
	x := m.objs[o]
	c := m.ch
	c.inFlightMutex.Lock()
	_, in := c.inFlightMessages[x.ID]
	for _, y := range c.inFlightPQ {
		if y == x {
			in = true
		}
	}
	c.inFlightMutex.Unlock()
	c.deferredMutex.Lock()
	if _, ok := c.deferredMessages[x.ID]; ok {
		in = true
	}
	for _, it := range c.deferredPQ {
		if it.Value.(*Message) == x {
			in = true
		}
	}
	c.deferredMutex.Unlock()
	for _, t := range m.tasks {
		if t.o == o {
			in = true
		}
	}
	if in {
		return false
	}
	found := false
	var held []*Message
	for {
		select {
		case y := <-c.memoryMsgChan:
			held = append(held, y)
			continue
		default:
		}
		break
	}
	for _, y := range held {
		if y == x {
			found = true
		}
		c.memoryMsgChan <- y
	}
	return !found
}

func (m *vfE5Micro) answerPending() bool {
	for _, t := range m.tasks {
		if t.kind == "req" || t.kind == "touch" {
			return true
		}
	}
	return false
}

func (m *vfE5Micro) emptyPending() bool {
	for _, t := range m.tasks {
		if t.kind == "empty" {
			return true
		}
	}
	return false
}

func (m *vfE5Micro) heapObjs() map[int]int {
	set := map[int]int{}
	m.ch.inFlightMutex.Lock()
	for _, x := range m.ch.inFlightPQ {
		set[m.objOf(x)]++
	}
	m.ch.inFlightMutex.Unlock()
	return set
}

// popped: the object that left the heap between two snapshots (0 if none)
func (m *vfE5Micro) popped(before map[int]int) int {
	after := m.heapObjs()
	for o, n := range before {
		if after[o] < n {
			return o
		}
	}
	return 0
}

func (m *vfE5Micro) forceResume(t *vfE5Task) {
	c := m.ch
	at := t.at
	before := map[int]int{}
	if t.kind == "scan" {
		before = m.heapObjs()
	}
	res := m.resumeTask(t)
	obj := m.objs[t.o]
	switch t.kind + "@" + at {
	case "fin@chan.fin.afterPop":
		m.emit(fmt.Sprintf("finRemove %d", t.o), res)
	case "req@chan.req.afterPop":
		m.emit(fmt.Sprintf("reqResume %d", t.o), res)
	case "req@chan.deferred.afterMapPush":
		pri := int64(0)
		if res != "panic" && res != "blocked" {
			c.deferredMutex.Lock()
			for _, it := range c.deferredPQ {
				if it.Value.(*Message) == obj {
					pri = it.Priority
				}
			}
			c.deferredMutex.Unlock()
		}
		m.emit(fmt.Sprintf("deferPQPush %d %d", t.o, pri), res)
	case "touch@chan.touch.afterPop":
		m.emit(fmt.Sprintf("touchResume %d %d", t.o, obj.pri), res)
	case "touch@chan.touch.afterMapPush":
		m.emit(fmt.Sprintf("touchPQPush %d", t.o), res)
	case "start@chan.inflight.afterMapPush":
		m.emit(fmt.Sprintf("startPQPush %d", t.o), res)
	case "scan@chan.scan.afterPQPop":
		prev := t.o
		if res == "parked" {
			t.o = m.popped(before) // parked again: the heap handed out the next due message
		}
		m.emit(fmt.Sprintf("scanResume %d %d", prev, t.t), res)
	case "empty@chan.empty.afterInitPQ":
		m.emit("emptyRest", res)
	default:
		m.t.Fatalf("unexpected task state %s@%s", t.kind, at)
	}
}

// one generated micro-step
func (m *vfE5Micro) stepOnce() {
	r := m.r
	c := m.ch
	// resume a parked task half of the time when there is one
	if len(m.tasks) > 0 && r.Intn(2) == 0 {
		t := m.tasks[r.Intn(len(m.tasks))]
		if t.kind == "scan" && m.emptyPending() {
			return // would block on the channel RWMutex held by Empty (model: disabled)
		}
		m.forceResume(t)
		return
	}
	o := 1 + r.Intn(m.nobj)
	cl := int64(1 + r.Intn(2))
	switch x := r.Intn(100); {
	case x < 18: // publish a new message object
		if !m.free(o) || len(c.memoryMsgChan) >= cap(c.memoryMsgChan)-1 {
			return
		}
		msg := NewMessage(vfE5ID(o), []byte("x"))
		m.objs[o] = msg
		c.PutMessage(msg)
		m.emit(fmt.Sprintf("put %d", o), "ok")
	case x < 40: // the consumer pump takes the head of the queue and starts the in-flight timeout
		var msg *Message
		select {
		case msg = <-c.memoryMsgChan:
		default:
			return
		}
		oo := m.objOf(msg)
		_, res := m.start("start", oo, func() error { return c.StartInFlightTimeout(msg, cl, time.Duration(1+r.Intn(50))*time.Second) })
		m.emit(fmt.Sprintf("startMapPush %d %d %d", cl, oo, msg.pri), res)
	case x < 58:
		if m.objs[o] == nil {
			return
		}
		_, res := m.start("fin", o, func() error { return c.FinishMessage(cl, vfE5ID(o)) })
		m.emit(fmt.Sprintf("finPop %d %d", cl, o), res)
	case x < 70:
		if m.objs[o] == nil || (m.ansLock && m.emptyPending()) {
			return
		}
		d := time.Duration(0)
		if r.Intn(2) == 0 {
			d = time.Duration(1+r.Intn(50)) * time.Second
		}
		_, res := m.start("req", o, func() error { return c.RequeueMessage(cl, vfE5ID(o), d) })
		m.emit(fmt.Sprintf("reqPop %d %d %d", cl, o, int64(d)), res)
	case x < 80:
		if m.objs[o] == nil || (m.ansLock && m.emptyPending()) {
			return
		}
		_, res := m.start("touch", o, func() error { return c.TouchMessage(cl, vfE5ID(o), time.Duration(1+r.Intn(50))*time.Second) })
		m.emit(fmt.Sprintf("touchPop %d %d", cl, o), res)
	case x < 88: // timeout scan at a time that makes some in-flight messages due
		if m.emptyPending() {
			return
		}
		tm := time.Now().Add(time.Duration(r.Intn(60)) * time.Second).UnixNano()
		before := m.heapObjs()
		t, res := m.start("scan", 0, func() error { c.processInFlightQueue(tm); return nil })
		t.t = tm
		if res == "parked" {
			t.o = m.popped(before)
		}
		m.emit(fmt.Sprintf("scanPeek %d", tm), res)
	case x < 93: // deferred scan (no hook inside: runs to completion)
		if m.emptyPending() {
			return
		}
		tm := time.Now().Add(time.Duration(r.Intn(60)) * time.Second).UnixNano()
		c.processDeferredQueue(tm)
		m.emit(fmt.Sprintf("dscan %d", tm), "ok")
	case x < 97:
		if m.emptyPending() || (m.ansLock && m.answerPending()) {
			return
		}
		_, res := m.start("empty", 0, func() error { return c.Empty() })
		m.emit("emptyInit", res)
	default: // a queued message goes through the disk queue: it comes back as a fresh object
		var held []*Message
		for {
			select {
			case y := <-c.memoryMsgChan:
				held = append(held, y)
				continue
			default:
			}
			break
		}
		done := 0
		heap := m.heapObjs()
		for i, y := range held {
			oo := m.objOf(y)
			busy := heap[oo] > 0 // still referenced by the heap (model: reload disabled)
			for _, t := range m.tasks {
				if t.o == oo {
					busy = true // or by a parked goroutine
				}
			}
			if done == 0 && !busy && r.Intn(2) == 0 {
				cp := &Message{ID: y.ID, Body: y.Body, Timestamp: y.Timestamp, Attempts: y.Attempts}
				m.objs[oo] = cp
				held[i] = cp
				done = oo
			}
		}
		for _, y := range held {
			c.memoryMsgChan <- y
		}
		if done != 0 {
			m.emit(fmt.Sprintf("reload %d", done), "ok")
		}
	}
}

func TestVerifE5MicroCorr(t *testing.T) {
	out := vfOpen("micro")
	defer out.Close()
	defer VerifClearHooks()
	r := vfNewRand(805)
	cases := vfEnvInt("VERIF_N", 300)
	steps := vfEnvInt("VERIF_STEPS", 40)
	fixed := vfEnvInt("VERIF_FIXED", 0)
	scanAtomic := vfEnvInt("VERIF_SCANATOMIC", 0)
	pushAtomic := vfEnvInt("VERIF_PUSHATOMIC", 0)
	ansLock := vfEnvInt("VERIF_ANSLOCK", 0)
	opts := vfE5Opts(t.TempDir())
	opts.MemQueueSize = 64
	n, err := New(opts)
	if err != nil {
		t.Fatal(err)
	}
	hist := map[string]int{}
	for i := 0; i < cases; i++ {
		ch := &Channel{topicName: "m", name: fmt.Sprintf("c%d#ephemeral", i), nsqd: n, ephemeral: true,
			clients: make(map[int64]Consumer), memoryMsgChan: make(chan *Message, 64), backend: newDummyBackendQueue()}
		ch.initPQ()
		m := &vfE5Micro{t: t, n: n, ch: ch, objs: map[int]*Message{}, out: out, r: r, nobj: 2 + r.Intn(4), hist: hist, ansLock: ansLock == 1}
		m.install()
		out.Case(fmt.Sprintf("if new %d %d %d %d", fixed, scanAtomic, pushAtomic, ansLock), "ok")
		for s := 0; s < steps && !m.dead; s++ {
			m.stepOnce()
		}
		// let parked goroutines of a dead (panicked) channel go; they block on the mutex forever,
		// which is the point of running this in a subprocess
		if !m.dead {
			for len(m.tasks) > 0 && !m.dead {
				// finish everything in a fixed order: non-scan first while an Empty is pending
				var t0 *vfE5Task
				for _, x := range m.tasks {
					if x.kind == "scan" && m.emptyPending() {
						continue
					}
					t0 = x
					break
				}
				if t0 == nil {
					break
				}
				m.forceResume(t0)
			}
		}
	}
	var keys []string
	for k := range hist {
		keys = append(keys, k)
	}
	sort.Strings(keys)
	for _, k := range keys {
		fmt.Printf("E5HIST micro.%s %d\n", k, hist[k])
	}
	n.Exit()
}
