package nsqd

// C08 concurrent leg (liveness watch): free-running goroutines publish, consume (the harness plays
// the consumer pump), answer FIN/REQ/TOUCH, run timeout scans, empty / pause / delete / re-create
// channels and topics against one real NSQD — no serialisation.  Every operation is stamped; a
// watchdog reports any operation that has not returned within the deadline ("daemon liveness: every
// request answered within a deadline").  A panic kills this subprocess and is reported by the caller.
//
// Output: `E5CONC ok ops=<n> ...` or `E5CONC blocked op=<name> for=<d>`.

import (
	"fmt"
	"os"
	"path/filepath"
	"sort"
	"strings"
	"sync"
	"sync/atomic"
	"testing"
	"time"
)

type vfE5Stamp struct {
	name  atomic.Value
	since int64 // unix nano, 0 = idle
}

func TestVerifE5Concurrent(t *testing.T) {
	dur := time.Duration(vfEnvInt("VERIF_MS", 1500)) * time.Millisecond
	workers := vfEnvInt("VERIF_WORKERS", 12)
	opts := vfE5Opts(t.TempDir())
	opts.MemQueueSize = 4
	opts.MaxBytesPerFile = 4096
	n, err := New(opts)
	if err != nil {
		t.Fatal(err)
	}
	n.LoadMetadata()
	go n.Main()
	topics := []string{"ka", "kb#ephemeral"}
	chans := []string{"c1", "c2#ephemeral"}
	for _, tn := range topics {
		tp := n.GetTopic(tn)
		for _, cn := range chans {
			tp.GetChannel(cn)
		}
	}
	stamps := make([]*vfE5Stamp, workers)
	counts := make([]map[string]int, workers)
	var stop, stopScan int32 // stopScan: the timeout scans and the empty / delete operations end 40 ms before everything
	// else, so that what the last deliveries and answers leave behind (e.g. a heap entry whose message was FINished) is
	// still there when the quiescent oracles look
	var wg sync.WaitGroup
	var nextClient int64 = 100
	do := func(w int, name string, f func()) {
		stamps[w].name.Store(name)
		atomic.StoreInt64(&stamps[w].since, time.Now().UnixNano())
		f()
		atomic.StoreInt64(&stamps[w].since, 0)
		counts[w][name]++
	}
	for w := 0; w < workers; w++ {
		stamps[w] = &vfE5Stamp{}
		stamps[w].name.Store("")
		counts[w] = map[string]int{}
		wg.Add(1)
		go func(w int) {
			defer wg.Done()
			r := vfNewRand(uint64(9000 + w))
			var held []*Message // messages this worker has in flight (as client k)
			k := atomic.AddInt64(&nextClient, 1)
			conn := &vfE5Conn{}
			cl := newClientV2(k, conn, n)
			for atomic.LoadInt32(&stop) == 0 {
				tn := topics[r.Intn(len(topics))]
				cn := chans[r.Intn(len(chans))]
				switch role := w % 4; {
				case role == 0: // publisher
					do(w, "pub", func() {
						tp := n.GetTopic(tn)
						tp.PutMessage(NewMessage(tp.GenerateID(), r.Bytes(r.Intn(16))))
					})
				case role == 1 || role == 2: // consumer
					var ch *Channel
					do(w, "getchan", func() { ch = n.GetTopic(tn).GetChannel(cn) })
					do(w, "sub", func() { ch.AddClient(k, cl) })
					for i := 0; i < 20 && atomic.LoadInt32(&stop) == 0; i++ {
						do(w, "deliver", func() {
							var msg *Message
							select {
							case msg = <-ch.memoryMsgChan:
							case b := <-ch.backend.ReadChan():
								msg, _ = decodeMessage(b)
							case <-time.After(time.Millisecond):
							}
							if msg != nil {
								msg.Attempts++
								ch.StartInFlightTimeout(msg, k, time.Duration(1+r.Intn(20))*time.Millisecond)
								cl.SendingMessage()
								held = append(held, msg)
							}
						})
						if len(held) > 0 {
							m := held[len(held)-1]
							held = held[:len(held)-1]
							switch r.Intn(4) {
							case 0:
								do(w, "fin", func() {
									if ch.FinishMessage(k, m.ID) == nil {
										cl.FinishedMessage()
									}
								})
							case 1:
								do(w, "req", func() {
									if ch.RequeueMessage(k, m.ID, time.Duration(r.Intn(2))*time.Millisecond) == nil {
										cl.RequeuedMessage()
									}
								})
							case 2:
								do(w, "touch", func() { ch.TouchMessage(k, m.ID, 10*time.Millisecond) })
							default: // let it time out
							}
						}
					}
					do(w, "unsub", func() { ch.RemoveClient(k) })
				default: // admin + scanner
					op := r.Intn(10)
					if atomic.LoadInt32(&stopScan) != 0 && op < 4 {
						op = 6 // the last 40 ms: no empty / delete either (they would wipe what the oracles should see)
					}
					switch op {
					case 0:
						do(w, "emptychan", func() {
							if tp, err := n.GetExistingTopic(tn); err == nil {
								if ch, err := tp.GetExistingChannel(cn); err == nil {
									ch.Empty()
								}
							}
						})
					case 1:
						do(w, "emptytopic", func() {
							if tp, err := n.GetExistingTopic(tn); err == nil {
								tp.Empty()
							}
						})
					case 2:
						do(w, "deletechan", func() {
							if tp, err := n.GetExistingTopic(tn); err == nil {
								tp.DeleteExistingChannel(cn)
							}
						})
					case 3:
						if r.Intn(4) == 0 {
							do(w, "deletetopic", func() { n.DeleteExistingTopic(tn) })
						}
					case 4:
						do(w, "pause", func() {
							if tp, err := n.GetExistingTopic(tn); err == nil {
								if r.Intn(2) == 0 {
									tp.Pause()
								} else {
									tp.UnPause()
								}
							}
						})
					case 5:
						do(w, "pausechan", func() {
							if tp, err := n.GetExistingTopic(tn); err == nil {
								if ch, err := tp.GetExistingChannel(cn); err == nil {
									if r.Intn(2) == 0 {
										ch.Pause()
									} else {
										ch.UnPause()
									}
								}
							}
						})
					case 6:
						do(w, "stats", func() { n.GetStats("", "", true) })
					default:
						if atomic.LoadInt32(&stopScan) != 0 {
							break
						}
						do(w, "scan", func() {
							for _, ch := range n.channels() {
								now := time.Now().UnixNano()
								ch.processInFlightQueue(now)
								ch.processDeferredQueue(now)
							}
						})
					}
				}
			}
		}(w)
	}
	deadline := time.Duration(vfEnvInt("VERIF_OP_DEADLINE_MS", 4000)) * time.Millisecond
	end := time.Now().Add(dur)
	blocked := ""
	for time.Now().Before(end) && blocked == "" {
		time.Sleep(20 * time.Millisecond)
		if time.Until(end) < 40*time.Millisecond {
			atomic.StoreInt32(&stopScan, 1)
		}
		now := time.Now().UnixNano()
		for w := range stamps {
			if s := atomic.LoadInt64(&stamps[w].since); s != 0 && time.Duration(now-s) > deadline {
				blocked = fmt.Sprintf("op=%s worker=%d for=%s", stamps[w].name.Load().(string), w, time.Duration(now-s))
			}
		}
	}
	atomic.StoreInt32(&stop, 1)
	if blocked == "" {
		done := make(chan struct{})
		go func() { wg.Wait(); close(done) }()
		select {
		case <-done:
		case <-time.After(deadline):
			for w := range stamps {
				if s := atomic.LoadInt64(&stamps[w].since); s != 0 {
					blocked = fmt.Sprintf("op=%s worker=%d (did not return after stop)", stamps[w].name.Load().(string), w)
				}
			}
			if blocked == "" {
				blocked = "workers did not stop"
			}
		}
	}
	// audit B23: the workers have all returned (every consumer has left its channel): the daemon is quiescent apart
	// from its own queueScanLoop.  Check what must hold of the real objects then.
	var oracle []string
	checks := 0
	if blocked == "" {
		// the auto-deletes of ephemeral objects run in goroutines of their own (`go c.deleter.Do`, `go t.deleter.Do`): give
		// a deletion that is still between its exit flag and its unlink the time to finish before judging
		for try := 0; try < 400; try++ {
			oracle, checks = vfE5ConcQuiesce(n, opts.DataPath)
			if len(oracle) == 0 {
				break
			}
			time.Sleep(5 * time.Millisecond)
		}
	}
	if blocked == "" {
		if r := vfE5Try(deadline, func() { n.Exit() }); r != "ok" {
			blocked = "op=Exit " + r
		}
	}
	if blocked != "" {
		fmt.Printf("E5CONC blocked %s\n", blocked)
		os.Exit(3) // goroutines are stuck: do not wait for them
	}
	total := map[string]int{}
	sum := 0
	for _, c := range counts {
		for k, v := range c {
			total[k] += v
			sum += v
		}
	}
	var keys []string
	for k := range total {
		keys = append(keys, k)
	}
	sort.Strings(keys)
	for _, o := range oracle {
		fmt.Printf("E5CONC oracle %s\n", o)
	}
	line := fmt.Sprintf("E5CONC ok ops=%d quiesce_checks=%d oracle_failures=%d", sum, checks, len(oracle))
	for _, k := range keys {
		line += fmt.Sprintf(" %s=%d", k, total[k])
	}
	fmt.Println(line)
}

// vfE5ConcQuiesce: oracles on the real daemon once no harness goroutine is inside an operation.
//   linked-object-exiting   a topic / channel still in its map has its exit flag set (a deletion that returned must have unlinked it)
//   heap-map-differ         in-flight map and deadline heap of a channel disagree, or an index field is wrong
//                           (Lean: Props.C08.map_heap_agree_at_quiescence / index_ok_every_schedule)
//   consumer-left-attached  a channel still has a consumer although every worker has unsubscribed
//   negative-count          a consumer's in_flight_count is negative
//   files-of-unlinked       a disk-queue file whose owner is not a linked durable topic / channel (".bad" files excepted:
//                           known third-party finding; a durable channel under an ephemeral topic does own files)
// returns the failures and the number of checks evaluated
func vfE5ConcQuiesce(n *NSQD, dataPath string) ([]string, int) {
	var bad []string
	checks := 0
	owners := map[string]bool{}
	n.RLock()
	var tps []*Topic
	for _, tp := range n.topicMap {
		tps = append(tps, tp)
	}
	n.RUnlock()
	for _, tp := range tps {
		checks++
		if tp.Exiting() {
			bad = append(bad, "key=linked-object-exiting topic="+tp.name)
		}
		if !tp.ephemeral {
			owners[tp.name] = true
		}
		tp.RLock()
		var chs []*Channel
		for _, ch := range tp.channelMap {
			chs = append(chs, ch)
		}
		tp.RUnlock()
		for _, ch := range chs {
			checks++
			if ch.Exiting() {
				bad = append(bad, fmt.Sprintf("key=linked-object-exiting channel=%s:%s", tp.name, ch.name))
			}
			if !ch.ephemeral {
				owners[tp.name+":"+ch.name] = true
			}
			ch.inFlightMutex.Lock()
			nm, nh := len(ch.inFlightMessages), len(ch.inFlightPQ)
			agree := nm == nh
			for i, x := range ch.inFlightPQ {
				if x.index != i {
					agree = false
				}
				if y, ok := ch.inFlightMessages[x.ID]; !ok || y != x {
					agree = false
				}
			}
			ch.inFlightMutex.Unlock()
			checks++
			if !agree {
				bad = append(bad, fmt.Sprintf("key=heap-map-differ channel=%s:%s map=%d heap=%d", tp.name, ch.name, nm, nh))
			}
			ch.RLock()
			nc := len(ch.clients)
			for _, c := range ch.clients {
				if cv, ok := c.(*clientV2); ok && atomic.LoadInt64(&cv.InFlightCount) < 0 {
					bad = append(bad, fmt.Sprintf("key=negative-count channel=%s:%s", tp.name, ch.name))
				}
			}
			ch.RUnlock()
			checks++
			if nc != 0 {
				bad = append(bad, fmt.Sprintf("key=consumer-left-attached channel=%s:%s clients=%d", tp.name, ch.name, nc))
			}
		}
	}
	files, _ := filepath.Glob(filepath.Join(dataPath, "*.diskqueue.*"))
	for _, f := range files {
		base := filepath.Base(f)
		if strings.HasSuffix(base, ".bad") {
			continue
		}
		owner := base[:strings.Index(base, ".diskqueue.")]
		checks++
		if !owners[owner] {
			bad = append(bad, "key=files-of-unlinked file="+base)
		}
	}
	return bad, checks
}
