package nsqd

// C08 concurrent leg (liveness watch): free-running goroutines publish, consume (the harness plays
// the consumer pump), answer FIN/REQ/TOUCH, run timeout scans, empty / pause / delete / re-create
// channels and topics against one real NSQD — no serialisation.  Every operation is stamped; a
// watchdog reports any operation that has not returned within the deadline ("daemon liveness: every
// request answered within a deadline").  A panic kills this subprocess and is reported by the caller.
//
// Output: `E5CONC ok ops=<n> ...` or `E5CONC blocked op=<name> for=<d>`.

import (
	"fmt"
	"os"
	"sort"
	"sync"
	"sync/atomic"
	"testing"
	"time"
)

type vfE5Stamp struct {
	name  atomic.Value
	since int64 // unix nano, 0 = idle
}

func TestVerifE5Concurrent(t *testing.T) {
	dur := time.Duration(vfEnvInt("VERIF_MS", 1500)) * time.Millisecond
	workers := vfEnvInt("VERIF_WORKERS", 12)
	opts := vfE5Opts(t.TempDir())
	opts.MemQueueSize = 4
	opts.MaxBytesPerFile = 4096
	n, err := New(opts)
	if err != nil {
		t.Fatal(err)
	}
	n.LoadMetadata()
	go n.Main()
	topics := []string{"ka", "kb#ephemeral"}
	chans := []string{"c1", "c2#ephemeral"}
	for _, tn := range topics {
		tp := n.GetTopic(tn)
		for _, cn := range chans {
			tp.GetChannel(cn)
		}
	}
	stamps := make([]*vfE5Stamp, workers)
	counts := make([]map[string]int, workers)
	var stop int32
	var wg sync.WaitGroup
	var nextClient int64 = 100
	do := func(w int, name string, f func()) {
		stamps[w].name.Store(name)
		atomic.StoreInt64(&stamps[w].since, time.Now().UnixNano())
		f()
		atomic.StoreInt64(&stamps[w].since, 0)
		counts[w][name]++
	}
	for w := 0; w < workers; w++ {
		stamps[w] = &vfE5Stamp{}
		stamps[w].name.Store("")
		counts[w] = map[string]int{}
		wg.Add(1)
		go func(w int) {
			defer wg.Done()
			r := vfNewRand(uint64(9000 + w))
			var held []*Message // messages this worker has in flight (as client k)
			k := atomic.AddInt64(&nextClient, 1)
			conn := &vfE5Conn{}
			cl := newClientV2(k, conn, n)
			for atomic.LoadInt32(&stop) == 0 {
				tn := topics[r.Intn(len(topics))]
				cn := chans[r.Intn(len(chans))]
				switch role := w % 4; {
				case role == 0: // publisher
					do(w, "pub", func() {
						tp := n.GetTopic(tn)
						tp.PutMessage(NewMessage(tp.GenerateID(), r.Bytes(r.Intn(16))))
					})
				case role == 1 || role == 2: // consumer
					var ch *Channel
					do(w, "getchan", func() { ch = n.GetTopic(tn).GetChannel(cn) })
					do(w, "sub", func() { ch.AddClient(k, cl) })
					for i := 0; i < 20 && atomic.LoadInt32(&stop) == 0; i++ {
						do(w, "deliver", func() {
							var msg *Message
							select {
							case msg = <-ch.memoryMsgChan:
							case b := <-ch.backend.ReadChan():
								msg, _ = decodeMessage(b)
							case <-time.After(time.Millisecond):
							}
							if msg != nil {
								msg.Attempts++
								ch.StartInFlightTimeout(msg, k, time.Duration(1+r.Intn(20))*time.Millisecond)
								cl.SendingMessage()
								held = append(held, msg)
							}
						})
						if len(held) > 0 {
							m := held[len(held)-1]
							held = held[:len(held)-1]
							switch r.Intn(4) {
							case 0:
								do(w, "fin", func() {
									if ch.FinishMessage(k, m.ID) == nil {
										cl.FinishedMessage()
									}
								})
							case 1:
								do(w, "req", func() {
									if ch.RequeueMessage(k, m.ID, time.Duration(r.Intn(2))*time.Millisecond) == nil {
										cl.RequeuedMessage()
									}
								})
							case 2:
								do(w, "touch", func() { ch.TouchMessage(k, m.ID, 10*time.Millisecond) })
							default: // let it time out
							}
						}
					}
					do(w, "unsub", func() { ch.RemoveClient(k) })
				default: // admin + scanner
					switch r.Intn(10) {
					case 0:
						do(w, "emptychan", func() {
							if tp, err := n.GetExistingTopic(tn); err == nil {
								if ch, err := tp.GetExistingChannel(cn); err == nil {
									ch.Empty()
								}
							}
						})
					case 1:
						do(w, "emptytopic", func() {
							if tp, err := n.GetExistingTopic(tn); err == nil {
								tp.Empty()
							}
						})
					case 2:
						do(w, "deletechan", func() {
							if tp, err := n.GetExistingTopic(tn); err == nil {
								tp.DeleteExistingChannel(cn)
							}
						})
					case 3:
						if r.Intn(4) == 0 {
							do(w, "deletetopic", func() { n.DeleteExistingTopic(tn) })
						}
					case 4:
						do(w, "pause", func() {
							if tp, err := n.GetExistingTopic(tn); err == nil {
								if r.Intn(2) == 0 {
									tp.Pause()
								} else {
									tp.UnPause()
								}
							}
						})
					case 5:
						do(w, "pausechan", func() {
							if tp, err := n.GetExistingTopic(tn); err == nil {
								if ch, err := tp.GetExistingChannel(cn); err == nil {
									if r.Intn(2) == 0 {
										ch.Pause()
									} else {
										ch.UnPause()
									}
								}
							}
						})
					case 6:
						do(w, "stats", func() { n.GetStats("", "", true) })
					default:
						do(w, "scan", func() {
							for _, ch := range n.channels() {
								now := time.Now().UnixNano()
								ch.processInFlightQueue(now)
								ch.processDeferredQueue(now)
							}
						})
					}
				}
			}
		}(w)
	}
	deadline := time.Duration(vfEnvInt("VERIF_OP_DEADLINE_MS", 4000)) * time.Millisecond
	end := time.Now().Add(dur)
	blocked := ""
	for time.Now().Before(end) && blocked == "" {
		time.Sleep(20 * time.Millisecond)
		now := time.Now().UnixNano()
		for w := range stamps {
			if s := atomic.LoadInt64(&stamps[w].since); s != 0 && time.Duration(now-s) > deadline {
				blocked = fmt.Sprintf("op=%s worker=%d for=%s", stamps[w].name.Load().(string), w, time.Duration(now-s))
			}
		}
	}
	atomic.StoreInt32(&stop, 1)
	if blocked == "" {
		done := make(chan struct{})
		go func() { wg.Wait(); close(done) }()
		select {
		case <-done:
		case <-time.After(deadline):
			for w := range stamps {
				if s := atomic.LoadInt64(&stamps[w].since); s != 0 {
					blocked = fmt.Sprintf("op=%s worker=%d (did not return after stop)", stamps[w].name.Load().(string), w)
				}
			}
			if blocked == "" {
				blocked = "workers did not stop"
			}
		}
	}
	if blocked == "" {
		if r := vfE5Try(deadline, func() { n.Exit() }); r != "ok" {
			blocked = "op=Exit " + r
		}
	}
	if blocked != "" {
		fmt.Printf("E5CONC blocked %s\n", blocked)
		os.Exit(3) // goroutines are stuck: do not wait for them
	}
	total := map[string]int{}
	sum := 0
	for _, c := range counts {
		for k, v := range c {
			total[k] += v
			sum += v
		}
	}
	var keys []string
	for k := range total {
		keys = append(keys, k)
	}
	sort.Strings(keys)
	line := fmt.Sprintf("E5CONC ok ops=%d", sum)
	for _, k := range keys {
		line += fmt.Sprintf(" %s=%d", k, total[k])
	}
	fmt.Println(line)
}
