package nsqlookupd

// Known findings of C14 (concurrency): windows in which a handler is more than one critical
// section of RegistrationDB (see lean/Nsq/Props/C14.lean section 3). Free-running goroutines on
// the real daemon; the outcome is inspected white-box. A loss can only be REPORTED when it
// really happened (no false alarm); not seeing one within the time box proves nothing.

import (
	"fmt"
	"net/http/httptest"
	"strings"
	"sync"
	"sync/atomic"
	"testing"
	"time"
)

func (e *vfE4Env) has(cat, key, sub, addr string) (bool, bool) {
	e.l.DB.RLock()
	defer e.l.DB.RUnlock()
	pm, ok := e.l.DB.registrationMap[Registration{cat, key, sub}]
	if !ok {
		return false, false
	}
	_, in := pm[addr]
	return true, in
}

func vfE4Cmd(c *vfE4Conn, s string) string {
	c.c.SetDeadline(time.Now().Add(vfE4IOTimeout))
	c.c.Write([]byte(s + "\n"))
	b, err := vfE4ReadFrame(c.rd)
	if err != nil {
		vfE4GiveUp("race leg: no answer to %q within %v: %v", s, vfE4IOTimeout, err)
	}
	return string(b)
}

// a: flips REGISTER/UNREGISTER of an ephemeral name it is the only other producer of;
// b: REGISTERs the same name, is answered OK, and must then be listed under it.
func vfE4RaceUnregisterGC(env *vfE4Env, budget time.Duration, regA, unregA, regB, unregB string, cat, key, sub string, ida, idb int) (int, int) {
	ca, cb := env.conn(ida), env.conn(idb)
	var stop int32
	var wg sync.WaitGroup
	wg.Add(1)
	go func() {
		defer wg.Done()
		for atomic.LoadInt32(&stop) == 0 {
			vfE4Cmd(ca, regA)
			vfE4Cmd(ca, unregA)
		}
	}()
	lost, n := 0, 0
	addr := cb.addr
	deadline := time.Now().Add(budget)
	for time.Now().Before(deadline) && lost < 3 {
		if a := vfE4Cmd(cb, regB); a != "OK" {
			vfE4GiveUp("race leg: REGISTER answered %q", a)
		}
		n++
		if _, in := env.has(cat, key, sub, addr); !in {
			lost++
		}
		vfE4Cmd(cb, unregB)
	}
	atomic.StoreInt32(&stop, 1)
	wg.Wait()
	return lost, n
}

func TestVerifE4Races(t *testing.T) {
	ms := vfEnvInt("VERIF_MS", 1500)
	env := vfE4Start(false, []string{"t"})
	defer env.Stop()
	env.Exec(fmt.Sprintf("%d identify 1 6841 6e41 7631 4150 4151", env.vnow))
	env.Exec(fmt.Sprintf("%d identify 3 6842 6e42 7631 4150 4151", env.vnow))
	budget := time.Duration(ms) * time.Millisecond

	lost, n := vfE4RaceUnregisterGC(env, budget, "REGISTER t d#ephemeral", "UNREGISTER t d#ephemeral",
		"REGISTER t d#ephemeral", "UNREGISTER t d#ephemeral", "channel", "t", "d#ephemeral", 1, 3)
	fmt.Printf("RACE unregister-gc-vs-register bad=%d rounds=%d\n", lost, n)

	lost, n = vfE4RaceUnregisterGC(env, budget, "REGISTER e#ephemeral", "UNREGISTER e#ephemeral",
		"REGISTER e#ephemeral", "UNREGISTER e#ephemeral", "topic", "e#ephemeral", "", 1, 3)
	fmt.Printf("RACE unregister-gc-vs-register-topic bad=%d rounds=%d\n", lost, n)

	// REGISTER t c  ||  POST /topic/delete?topic=t : afterwards either both keys hold the producer
	// (delete; register) or neither (register; delete)
	ca := env.conn(1)
	addr := ca.addr
	torn, rounds := 0, 0
	deadline := time.Now().Add(budget)
	for time.Now().Before(deadline) && torn < 3 {
		vfE4Cmd(ca, "UNREGISTER u")
		var wg sync.WaitGroup
		wg.Add(2)
		go func() {
			defer wg.Done()
			vfE4Cmd(ca, "REGISTER u c")
		}()
		go func() {
			defer wg.Done()
			w := httptest.NewRecorder()
			env.h.ServeHTTP(w, httptest.NewRequest("POST", "/topic/delete?topic=u", nil))
		}()
		wg.Wait()
		rounds++
		_, inTopic := env.has("topic", "u", "", addr)
		_, inChan := env.has("channel", "u", "c", addr)
		if inTopic != inChan {
			torn++
		}
	}
	fmt.Printf("RACE register-vs-topic-delete bad=%d rounds=%d\n", torn, rounds)

	// POST /channel/create?topic=w&channel=c  ||  POST /topic/delete?topic=w : afterwards both keys exist
	// (delete; create) or neither (create; delete) — never the topic without the channel or the reverse
	post := func(target string) {
		w := httptest.NewRecorder()
		env.h.ServeHTTP(w, httptest.NewRequest("POST", target, nil))
	}
	torn, rounds = 0, 0
	deadline = time.Now().Add(budget)
	for time.Now().Before(deadline) && torn < 3 {
		post("/topic/delete?topic=w")
		var wg sync.WaitGroup
		wg.Add(2)
		go func() { defer wg.Done(); post("/channel/create?topic=w&channel=c") }()
		go func() { defer wg.Done(); post("/topic/delete?topic=w") }()
		wg.Wait()
		rounds++
		hasTopic, _ := env.has("topic", "w", "", "")
		hasChan, _ := env.has("channel", "w", "c", "")
		if hasTopic != hasChan {
			torn++
		}
	}
	fmt.Printf("RACE create-channel-vs-topic-delete bad=%d rounds=%d\n", torn, rounds)

	// audit B5: GET /lookup?topic=x  ||  loop { POST /channel/create?topic=x&channel=c ; POST /topic/delete?topic=x }.
	// Every state a serial order of these calls reaches has topic x together with channel c, or neither
	// (AddTopicChannel / RemoveTopic are one critical section each): an answer 200 with "channels":[] is
	// explained by no serial order (doLookup = three critical sections; one with fixes/F37).
	get := func(target string) (int, string) {
		w := httptest.NewRecorder()
		env.h.ServeHTTP(w, httptest.NewRequest("GET", target, nil))
		return w.Code, w.Body.String()
	}
	{
		var stop int32
		var wg sync.WaitGroup
		wg.Add(1)
		go func() {
			defer wg.Done()
			for atomic.LoadInt32(&stop) == 0 {
				post("/channel/create?topic=x&channel=c")
				post("/topic/delete?topic=x")
			}
		}()
		torn, rounds, n200 := 0, 0, 0
		deadline = time.Now().Add(budget)
		for time.Now().Before(deadline) && torn < 3 {
			code, body := get("/lookup?topic=x")
			rounds++
			if code == 200 {
				n200++
				if strings.Contains(body, `"channels":[]`) {
					torn++
				}
			}
		}
		atomic.StoreInt32(&stop, 1)
		wg.Wait()
		fmt.Printf("RACE lookup-vs-topic-delete bad=%d rounds=%d\n", torn, rounds)
		fmt.Printf("HIST race lookup-vs-topic-delete answers200=%d of %d\n", n200, rounds)
	}

	// GET /nodes  ||  loop { POST /topic/delete?topic=y ; REGISTER y (conn 1) ; REGISTER y (conn 3) }: the states a
	// serial order reaches are {}, {1}, {1,3} — a /nodes answer listing y for node 3 but not for node 1 is
	// explained by none (doNodes = 1 + 2n critical sections; one with fixes/F37).
	{
		cb := env.conn(3)
		var stop int32
		var wg sync.WaitGroup
		wg.Add(1)
		go func() {
			defer wg.Done()
			for atomic.LoadInt32(&stop) == 0 {
				post("/topic/delete?topic=y")
				vfE4Cmd(ca, "REGISTER y")
				vfE4Cmd(cb, "REGISTER y")
			}
		}()
		torn, rounds := 0, 0
		deadline = time.Now().Add(budget)
		for time.Now().Before(deadline) && torn < 3 {
			_, body := get("/nodes")
			rounds++
			// node 1 announces broadcast address hA, node 3 hB
			has := map[string]bool{}
			for _, part := range strings.Split(body, `{"remote_address"`)[1:] {
				who := ""
				if strings.Contains(part, `"broadcast_address":"hA"`) {
					who = "A"
				} else if strings.Contains(part, `"broadcast_address":"hB"`) {
					who = "B"
				}
				has[who] = strings.Contains(part, `"y"`)
			}
			if has["B"] && !has["A"] {
				torn++
			}
		}
		atomic.StoreInt32(&stop, 1)
		wg.Wait()
		vfE4Cmd(ca, "UNREGISTER y")
		vfE4Cmd(cb, "UNREGISTER y")
		fmt.Printf("RACE nodes-vs-topic-delete bad=%d rounds=%d\n", torn, rounds)
	}
}

// audit B6: POST /topic/tombstone writes Producer.tombstoned / tombstonedAt (p.Tombstone()) after FindProducers has
// released the lock, while GET /lookup, /nodes, /debug read them. Meant for a binary built with -race: the Go race
// detector is the oracle (its report is parsed by props/C14.py). Without -race the test only exercises the paths.
func TestVerifE4TombstoneRace(t *testing.T) {
	ms := vfEnvInt("VERIF_MS", 1200)
	env := vfE4Start(false, []string{"t"})
	defer env.Stop()
	env.Exec(fmt.Sprintf("%d identify 1 6841 6e41 7631 4150 4151", env.vnow))
	env.Exec(fmt.Sprintf("%d identify 3 6842 6e42 7631 4150 4151", env.vnow))
	vfE4Cmd(env.conn(1), "REGISTER t")
	vfE4Cmd(env.conn(3), "REGISTER t")
	do := func(method, target string) int {
		w := httptest.NewRecorder()
		env.h.ServeHTTP(w, httptest.NewRequest(method, target, nil))
		return w.Code
	}
	var stop int32
	var wg sync.WaitGroup
	wg.Add(1)
	nw := 0
	go func() {
		defer wg.Done()
		for atomic.LoadInt32(&stop) == 0 {
			if do("POST", "/topic/tombstone?topic=t&node=hA:4151") != 200 {
				vfE4GiveUp("tombstone race leg: POST /topic/tombstone not 200")
			}
			nw++
		}
	}()
	rounds := 0
	deadline := time.Now().Add(time.Duration(ms) * time.Millisecond)
	for time.Now().Before(deadline) {
		do("GET", "/lookup?topic=t")
		do("GET", "/nodes")
		do("GET", "/debug")
		rounds++
	}
	atomic.StoreInt32(&stop, 1)
	wg.Wait()
	fmt.Printf("TOMBRACE rounds=%d tombstones=%d\n", rounds, nw)
}
