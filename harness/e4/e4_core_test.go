package nsqlookupd

// Engine E4 harness core: an in-process NSQLookupd on loopback port 0, real TCP connections
// acting as nsqds, white-box virtual time, and an executor for the E4 line protocol
// (the same lines the Lean driver lean/DriverE4.lean replays). Generators only produce
// lines; vfE4Env.Exec runs one line on the real code and returns the canonical answer.

import (
	"bufio"
	"bytes"
	"encoding/binary"
	"encoding/hex"
	"encoding/json"
	"fmt"
	"io"
	"net"
	"net/http"
	"net/http/httptest"
	"net/url"
	"os"
	"sort"
	"strconv"
	"strings"
	"sync/atomic"
	"time"

	"github.com/nsqio/nsq/internal/lg"
	"github.com/nsqio/nsq/internal/version"
)

const (
	vfE4Unit = int64(1000 * time.Second) // one virtual time unit
	vfE4Now0 = int64(1000000) * int64(time.Second)
)

// --inactive-producer-timeout / --tombstone-lifetime of the daemon under test, in seconds; the option-edge legs
// set them to 0 or a negative value (VERIF_E4_INACTIVE_S, VERIF_E4_TOMBLIFE_S)
var (
	vfE4Inactive = int64(vfEnvInt("VERIF_E4_INACTIVE_S", 2500)) * int64(time.Second)
	vfE4TombLife = int64(vfEnvInt("VERIF_E4_TOMBLIFE_S", 1500)) * int64(time.Second)
)

// Harness-side I/O budget. A harness timeout is NOT a verdict about nsqlookupd: the run ends with
// the marker E4-INCONCLUSIVE (exit code 7); the python side re-runs the leg once in a fresh process
// and reports only a failure that persists.
const vfE4IOTimeout = 20 * time.Second

// vfE4GiveUp may be called from any goroutine: it ends the process with the marker.
func vfE4GiveUp(format string, a ...interface{}) {
	fmt.Printf("E4-INCONCLUSIVE %s\n", fmt.Sprintf(format, a...))
	os.Stdout.Sync()
	os.Exit(7)
}

type vfE4NullLogger struct{}

func (vfE4NullLogger) Output(int, string) error { return nil }

type vfE4Conn struct {
	id   int
	c    net.Conn
	rd   *bufio.Reader
	addr string // the address nsqlookupd sees this connection coming from (its DB id)
	pipe bool
}

// vfE4PipeEnd: the server side of a net.Pipe, with an address of its own. Handed to the real
// tcpServer.Handle. A pipe has no buffering: when the client closes without reading, the
// server's pending write of the answer fails — deterministically (a TCP reset would race).
type vfE4PipeEnd struct {
	net.Conn
	remote vfE4Addr
}
type vfE4Addr string

func (a vfE4Addr) Network() string { return "tcp" }
func (a vfE4Addr) String() string  { return string(a) }

func (p vfE4PipeEnd) RemoteAddr() net.Addr { return p.remote }

type vfE4Env struct {
	l        *NSQLookupd
	h        *httpServer
	realHTTP bool
	client   *http.Client
	conns    map[int]*vfE4Conn
	addr2id  map[string]int
	vnow     int64
	topics   []string
	hist     map[string]int
	plainID  bool // IDENTIFY without the decoy members (the C15 bystander)
	// amend: what the run-time choice of a nondeterministic operation turned out to be (read off the
	// real run); ExecX appends it to the op line so that the model and the oracle can ACCEPT or
	// refuse it: ` pick=<conn>:<hex topic>,…` (POST /topic/tombstone?topic=*), ` obs=<conn>,…` (qstar)
	amend string
	// body of the last answer of a pprof row (C15 sweep: the text of a non-200 answer is judged by a direct oracle)
	lastBody []byte
}

func vfE4Start(realHTTP bool, topics []string) *vfE4Env {
	opts := NewOptions()
	opts.Logger = vfE4NullLogger{}
	opts.LogLevel = lg.FATAL
	opts.TCPAddress, opts.HTTPAddress = vfLoop2()
	opts.BroadcastAddress = vfLoopHost(opts.TCPAddress)
	opts.InactiveProducerTimeout = time.Duration(vfE4Inactive)
	opts.TombstoneLifetime = time.Duration(vfE4TombLife)
	l, err := New(opts)
	if err != nil {
		panic(err)
	}
	go func() {
		if err := l.Main(); err != nil {
			panic(err)
		}
	}()
	return &vfE4Env{l: l, h: newHTTPServer(l), realHTTP: realHTTP,
		// redirects (httprouter's 301/307 for non-canonical paths) are answers, not something to follow
		client: &http.Client{Timeout: vfE4IOTimeout, CheckRedirect: func(*http.Request, []*http.Request) error { return http.ErrUseLastResponse }},
		conns:   map[int]*vfE4Conn{},
		addr2id: map[string]int{}, vnow: vfE4Now0, topics: topics, hist: map[string]int{}}
}

func (e *vfE4Env) ConfLine(variant string) string {
	hs := make([]string, len(e.topics))
	for i, t := range e.topics {
		hs[i] = vfHex([]byte(t))
	}
	return fmt.Sprintf("conf %d %d %d %s %s", vfE4Inactive, vfE4TombLife, vfE4Unit, variant, strings.Join(hs, ","))
}

func (e *vfE4Env) Stop() {
	for id := range e.conns {
		e.closeConn(id)
	}
	e.l.Exit()
}

// ---------------------------------------------------------------- connections

func (e *vfE4Env) open(id int, magic bool) *vfE4Conn {
	c, err := net.DialTimeout("tcp", e.l.RealTCPAddr().String(), vfE4IOTimeout)
	if err != nil {
		vfE4GiveUp("connect: %v", err)
	}
	if magic {
		c.Write([]byte("  V1"))
	}
	vc := &vfE4Conn{id: id, c: c, rd: bufio.NewReader(c), addr: c.LocalAddr().String()}
	e.conns[id] = vc
	e.addr2id[vc.addr] = id
	return vc
}

// openPipe: a connection over net.Pipe served by the real tcpServer.Handle.
func (e *vfE4Env) openPipe(id int) *vfE4Conn {
	ours, theirs := net.Pipe()
	addr := fmt.Sprintf("192.0.2.7:%d", 20000+id)
	go e.l.tcpServer.Handle(vfE4PipeEnd{Conn: theirs, remote: vfE4Addr(addr)})
	vc := &vfE4Conn{id: id, c: ours, rd: bufio.NewReader(ours), addr: addr, pipe: true}
	e.conns[id] = vc
	e.addr2id[addr] = id
	ours.SetDeadline(time.Now().Add(vfE4IOTimeout))
	if _, err := ours.Write([]byte("  V1")); err != nil {
		vfE4GiveUp("pipe magic: %v", err)
	}
	return vc
}

// connection ids that are multiples of 2 are pipe connections, the others real TCP connections
// (a rule on the id, so that an .ops file alone determines it)
func vfE4IsPipeID(id int) bool { return id%2 == 0 }

func (e *vfE4Env) conn(id int) *vfE4Conn {
	if vc, ok := e.conns[id]; ok {
		return vc
	}
	if vfE4IsPipeID(id) {
		return e.openPipe(id)
	}
	return e.open(id, true)
}

// serverHas reports whether the server still tracks a connection from this local address.
func (e *vfE4Env) serverHas(addr string) bool {
	found := false
	e.l.tcpServer.conns.Range(func(k, v interface{}) bool {
		if k.(net.Addr).String() == addr {
			found = true
			return false
		}
		return true
	})
	return found
}

// closeConn closes our side and waits until the server's IOLoop exit path (which removes the
// peer's registrations) has completed.
func (e *vfE4Env) closeConn(id int) {
	vc, ok := e.conns[id]
	if !ok {
		return
	}
	addr := vc.addr
	vc.c.Close()
	delete(e.conns, id)
	e.waitGone(addr)
}

func (e *vfE4Env) waitGone(addr string) {
	deadline := time.Now().Add(vfE4IOTimeout)
	for n := 0; e.serverHas(addr); n++ {
		if time.Now().After(deadline) {
			vfE4GiveUp("server did not finish connection %s within %v", addr, vfE4IOTimeout)
		}
		if n < 200 {
			time.Sleep(20 * time.Microsecond)
		} else {
			time.Sleep(time.Millisecond)
		}
	}
}

func vfE4ReadFrame(rd *bufio.Reader) ([]byte, error) {
	var n int32
	if err := binary.Read(rd, binary.BigEndian, &n); err != nil {
		return nil, err
	}
	if n < 0 || n > 1<<24 {
		return nil, fmt.Errorf("bad frame size %d", n)
	}
	b := make([]byte, n)
	if _, err := io.ReadFull(rd, b); err != nil {
		return nil, err
	}
	return b, nil
}

func vfE4IsIdentifyResp(b []byte) bool {
	var m map[string]interface{}
	if json.Unmarshal(b, &m) != nil {
		return false
	}
	_, ok := m["tcp_port"]
	return ok
}

// canonical form of one reply frame of a command
func vfE4TcpOut(b []byte) string {
	if string(b) == "OK" {
		return "OK"
	}
	if vfE4IsIdentifyResp(b) {
		return "IDENTIFIED"
	}
	s := string(b)
	if i := strings.IndexByte(s, ' '); i >= 0 && strings.HasPrefix(s, "E_") {
		return s[:i] + " " + vfHex([]byte(s[i+1:]))
	}
	return "?" + vfHex(b)
}

// command: write, read one reply; on an error reply the server closes: wait for that.
func (e *vfE4Env) command(id int, wire []byte) string {
	vc := e.conn(id)
	vc.c.SetDeadline(time.Now().Add(vfE4IOTimeout))
	if _, err := vc.c.Write(wire); err != nil {
		vfE4GiveUp("write %q: %v", wire, err)
	}
	b, err := vfE4ReadFrame(vc.rd)
	if err != nil {
		vfE4GiveUp("no reply to %q within %v: %v", wire, vfE4IOTimeout, err)
	}
	out := vfE4TcpOut(b)
	if strings.HasPrefix(out, "E_") {
		// every error of this protocol is fatal: the server closes the connection
		vc.c.SetReadDeadline(time.Now().Add(vfE4IOTimeout))
		if _, err := vc.rd.ReadByte(); err == nil {
			return out + " !connection-left-open"
		}
		e.closeConn(id)
	}
	return out
}

// wire: the bytes of one nsqd-side command of the line protocol
func (e *vfE4Env) wire(id int, kind string, a []string) ([]byte, bool) {
	switch kind {
	case "identify":
		if len(a) != 5 {
			return nil, false
		}
		tcp, _ := strconv.Atoi(a[3])
		hp, _ := strconv.Atoi(a[4])
		// every IDENTIFY of the history legs also carries members that are not IDENTIFY fields, naming
		// another connection's address: they must be ignored (remote_address is overwritten, id is unexported)
		other := e.otherAddr(id)
		extra := map[string]interface{}{"remote_address": other, "id": other, "lastUpdate": 1}
		if e.plainID {
			extra = nil
		}
		body := vfE4IdentifyBodyX(vfE4Unhex(a[0]), vfE4Unhex(a[1]), vfE4Unhex(a[2]), tcp, hp, extra)
		var buf bytes.Buffer
		buf.WriteString("IDENTIFY\n")
		binary.Write(&buf, binary.BigEndian, int32(len(body)))
		buf.Write(body)
		return buf.Bytes(), true
	case "register", "unregister":
		parts := []string{strings.ToUpper(kind)}
		for _, p := range a {
			parts = append(parts, string(vfE4Unhex(p)))
		}
		return []byte(strings.Join(parts, " ") + "\n"), true
	case "ping":
		return []byte("PING\n"), true
	}
	return nil, false
}

// abort: send one command on a pipe connection and go away WITHOUT reading its answer. The write
// returns when the server has taken the bytes; the server then executes the command and its write
// of the answer fails (closed pipe). Afterwards the connection must be gone like after any
// other disconnect.
func (e *vfE4Env) abort(id int, wire []byte) string {
	vc := e.conn(id)
	if !vc.pipe {
		return "abort-needs-pipe"
	}
	vc.c.SetDeadline(time.Now().Add(vfE4IOTimeout))
	if _, err := vc.c.Write(wire); err != nil {
		vfE4GiveUp("abort write %q: %v", wire, err)
	}
	addr := vc.addr
	vc.c.Close()
	delete(e.conns, id)
	e.waitGone(addr)
	return "aborted"
}

// ---------------------------------------------------------------- virtual time

// advance: instead of sleeping, every lastUpdate / tombstonedAt is moved into the past.
func (e *vfE4Env) advance(d int64) {
	if d <= 0 {
		return
	}
	seen := map[*PeerInfo]bool{}
	e.l.DB.Lock()
	for _, pm := range e.l.DB.registrationMap {
		for _, p := range pm {
			if !seen[p.peerInfo] {
				seen[p.peerInfo] = true
				atomic.AddInt64(&p.peerInfo.lastUpdate, -d)
			}
			if p.tombstoned {
				p.tombstonedAt = p.tombstonedAt.Add(-time.Duration(d))
			}
		}
	}
	e.l.DB.Unlock()
	e.vnow += d
}

// ---------------------------------------------------------------- HTTP

func (e *vfE4Env) httpDo(method, path, rawQuery string) (int, []byte) {
	target := path
	if rawQuery != "" {
		target += "?" + rawQuery
	}
	if !e.realHTTP {
		req := httptest.NewRequest(method, target, nil)
		w := httptest.NewRecorder()
		e.h.ServeHTTP(w, req)
		return w.Code, w.Body.Bytes()
	}
	if path == "*" {
		target = "/"
	}
	req, err := http.NewRequest(method, "http://"+e.l.RealHTTPAddr().String()+target, nil)
	if err != nil {
		panic(err)
	}
	if path == "*" {
		// server-wide request line `OPTIONS * HTTP/1.1`
		req.URL = &url.URL{Scheme: "http", Host: e.l.RealHTTPAddr().String(), Opaque: "*"}
	}
	resp, err := e.client.Do(req)
	if err != nil {
		vfE4GiveUp("%s %s: %v", method, target, err)
	}
	defer resp.Body.Close()
	b, _ := io.ReadAll(resp.Body)
	return resp.StatusCode, b
}

func vfE4Join(xs []string) string {
	sort.Strings(xs)
	return strings.Join(xs, ",")
}

type vfE4Peer struct {
	RemoteAddress    string   `json:"remote_address"`
	Hostname         string   `json:"hostname"`
	BroadcastAddress string   `json:"broadcast_address"`
	TCPPort          int      `json:"tcp_port"`
	HTTPPort         int      `json:"http_port"`
	Version          string   `json:"version"`
	Tombstones       []bool   `json:"tombstones"`
	Topics           []string `json:"topics"`
}

func (e *vfE4Env) peerStr(p vfE4Peer) string {
	id, ok := e.addr2id[p.RemoteAddress]
	if !ok {
		id = -1
	}
	return fmt.Sprintf("%d:%s:%s:%s:%d:%d", id, p.BroadcastAddress, p.Hostname, p.Version, p.TCPPort, p.HTTPPort)
}

func vfE4MustJSON(b []byte, v interface{}, what string) {
	if err := json.Unmarshal(b, v); err != nil {
		panic(fmt.Sprintf("%s: bad JSON %q: %v", what, b, err))
	}
}

// Queries fetches /topics, /channels and /lookup for every configured topic, /nodes and
// /debug and renders them exactly like `queries` in lean/DriverE4.lean.
func (e *vfE4Env) Queries() string {
	var parts []string
	code, b := e.httpDo("GET", "/topics", "")
	if code != 200 {
		parts = append(parts, fmt.Sprintf("T=!%d", code))
	} else {
		var r struct{ Topics []string }
		vfE4MustJSON(b, &r, "/topics")
		parts = append(parts, "T="+vfE4Join(r.Topics))
	}
	for _, t := range e.topics {
		code, b := e.httpDo("GET", "/channels", "topic="+url.QueryEscape(t))
		if code != 200 {
			parts = append(parts, fmt.Sprintf("C[%s]=!%d", t, code))
			continue
		}
		var r struct{ Channels []string }
		vfE4MustJSON(b, &r, "/channels")
		parts = append(parts, fmt.Sprintf("C[%s]=%s", t, vfE4Join(r.Channels)))
	}
	for _, t := range e.topics {
		code, b := e.httpDo("GET", "/lookup", "topic="+url.QueryEscape(t))
		if code != 200 {
			parts = append(parts, fmt.Sprintf("L[%s]=%d", t, code))
			continue
		}
		var r struct {
			Channels  []string
			Producers []vfE4Peer
		}
		vfE4MustJSON(b, &r, "/lookup")
		ps := make([]string, len(r.Producers))
		for i, p := range r.Producers {
			ps[i] = e.peerStr(p)
		}
		parts = append(parts, fmt.Sprintf("L[%s]=ch=%s;pr=%s", t, vfE4Join(r.Channels), vfE4Join(ps)))
	}
	code, b = e.httpDo("GET", "/nodes", "")
	if code != 200 {
		parts = append(parts, fmt.Sprintf("N=!%d", code))
	} else {
		var r struct{ Producers []vfE4Peer }
		vfE4MustJSON(b, &r, "/nodes")
		ns := make([]string, len(r.Producers))
		for i, p := range r.Producers {
			if len(p.Topics) != len(p.Tombstones) {
				ns[i] = e.peerStr(p) + "{!len}"
				continue
			}
			ts := make([]string, len(p.Topics))
			for j := range p.Topics {
				f := 0
				if p.Tombstones[j] {
					f = 1
				}
				ts[j] = fmt.Sprintf("%s=%d", p.Topics[j], f)
			}
			ns[i] = e.peerStr(p) + "{" + vfE4Join(ts) + "}"
		}
		parts = append(parts, "N="+vfE4Join(ns))
	}
	code, b = e.httpDo("GET", "/debug", "")
	if code != 200 {
		parts = append(parts, fmt.Sprintf("D=!%d", code))
	} else {
		now := time.Now().UnixNano()
		var r map[string][]struct {
			ID           string `json:"id"`
			LastUpdate   int64  `json:"last_update"`
			Tombstoned   bool   `json:"tombstoned"`
			TombstonedAt int64  `json:"tombstoned_at"`
		}
		vfE4MustJSON(b, &r, "/debug")
		var ks []string
		for k, ps := range r {
			xs := make([]string, len(ps))
			for i, p := range ps {
				id, ok := e.addr2id[p.ID]
				if !ok {
					id = -1
				}
				tb := "0"
				if p.Tombstoned {
					tb = fmt.Sprintf("1:%d", (now-p.TombstonedAt)/vfE4Unit)
				}
				xs[i] = fmt.Sprintf("%d:%d:%s", id, (now-p.LastUpdate)/vfE4Unit, tb)
			}
			ks = append(ks, k+"["+vfE4Join(xs)+"]")
		}
		sort.Strings(ks)
		parts = append(parts, "D="+strings.Join(ks, " "))
	}
	return strings.Join(parts, " | ")
}

// ---------------------------------------------------------------- executor

func vfE4Unhex(w string) []byte {
	if w == "-" {
		return []byte{}
	}
	b, err := hex.DecodeString(w)
	if err != nil {
		panic("bad hex " + w)
	}
	return b
}

func vfE4Query(bad, t, c, n string) string {
	var q []string
	if t != "_" {
		q = append(q, "topic="+url.QueryEscape(string(vfE4Unhex(t))))
	}
	if c != "_" {
		q = append(q, "channel="+url.QueryEscape(string(vfE4Unhex(c))))
	}
	if n != "_" {
		q = append(q, "node="+url.QueryEscape(string(vfE4Unhex(n))))
	}
	if bad == "1" {
		q = append(q, "%zz=1")
	}
	return strings.Join(q, "&")
}

var vfE4HandlerPath = map[string]string{
	"createTopic": "/topic/create", "deleteTopic": "/topic/delete",
	"createChannel": "/channel/create", "deleteChannel": "/channel/delete",
	"tombstone": "/topic/tombstone",
}

func vfE4IdentifyBody(bc, ho, ve []byte, tcp, httpPort int) []byte {
	return vfE4IdentifyBodyX(bc, ho, ve, tcp, httpPort, nil)
}

// vfE4IdentifyBodyX: the five documented members plus extra ones (a client controls the whole
// document; members that are not IDENTIFY fields must have no effect).
func vfE4IdentifyBodyX(bc, ho, ve []byte, tcp, httpPort int, extra map[string]interface{}) []byte {
	m := map[string]interface{}{
		"broadcast_address": string(bc), "hostname": string(ho), "version": string(ve),
		"tcp_port": tcp, "http_port": httpPort,
	}
	for k, v := range extra {
		m[k] = v
	}
	b, _ := json.Marshal(m)
	return b
}

// otherAddr: the address another open connection talks from (what a spoofing peer would claim)
func (e *vfE4Env) otherAddr(self int) string {
	best := -1
	for id := range e.conns {
		if id != self && (best < 0 || id < best) {
			best = id
		}
	}
	if best < 0 {
		return "203.0.113.9:1"
	}
	return e.conns[best].addr
}

func (e *vfE4Env) count(k string) { e.hist[k]++ }

// Exec runs one line of the E4 protocol on the real nsqlookupd and returns the canonical
// answer (reply + all query answers), exactly what the Lean driver prints for that line.
func (e *vfE4Env) Exec(line string) string {
	w := strings.Fields(line)
	if len(w) == 0 {
		return "bad-op"
	}
	switch w[0] {
	case "conf":
		return "conf"
	case "reset":
		for id := range e.conns {
			e.closeConn(id)
		}
		e.l.DB.Lock()
		e.l.DB.registrationMap = make(map[Registration]ProducerMap)
		e.l.DB.Unlock()
		return "reset"
	}
	if w[0] == "st" {
		out, ok := e.execOnly(w[1:])
		if !ok {
			return "bad-op"
		}
		return out
	}
	out, ok := e.execOnly(w)
	if !ok {
		return "bad-op"
	}
	e.count(w[1] + ":" + strings.Fields(out + " x")[0])
	return out + " | " + e.Queries()
}

// ExecX: like Exec for lines whose result depends on Go's map iteration order. Returns the line
// completed with the observed choice (a ` pick=` / ` obs=` token already present, e.g. in a corpus
// file, is dropped first: another run may choose differently) and the canonical answer.
func (e *vfE4Env) ExecX(line string) (string, string) {
	w := strings.Fields(line)
	var keep []string
	for _, tok := range w {
		if !strings.HasPrefix(tok, "pick=") && !strings.HasPrefix(tok, "obs=") {
			keep = append(keep, tok)
		}
	}
	line = strings.Join(keep, " ")
	e.amend = ""
	res := e.Exec(line)
	if e.amend != "" {
		line += " " + e.amend
	}
	return line, res
}

type vfE4TombSnap map[[2]string]int64

// tombSnapshot: (topic, peer id) -> tombstonedAt of every tombstoned topic producer (white-box)
func (e *vfE4Env) tombSnapshot() vfE4TombSnap {
	m := vfE4TombSnap{}
	e.l.DB.RLock()
	for k, pm := range e.l.DB.registrationMap {
		if k.Category != "topic" {
			continue
		}
		for id, p := range pm {
			if p.tombstoned {
				m[[2]string{k.Key, id}] = p.tombstonedAt.UnixNano()
			} else {
				m[[2]string{k.Key, id}] = -1
			}
		}
	}
	e.l.DB.RUnlock()
	return m
}

// pickOf: which (peer, topic) entries a wild-card tombstone really marked
func (e *vfE4Env) pickOf(before, after vfE4TombSnap) string {
	var xs []string
	for k, v := range after {
		if v != -1 && before[k] != v {
			id, ok := e.addr2id[k[1]]
			if !ok {
				id = -1
			}
			xs = append(xs, fmt.Sprintf("%d:%s", id, vfHex([]byte(k[0]))))
		}
	}
	if len(xs) == 0 {
		return "pick=-"
	}
	return "pick=" + vfE4Join(xs)
}

// qstar: GET /channels?topic=* and GET /lookup?topic=* (both iterate the whole registration map)
func (e *vfE4Env) qstar() string {
	var parts []string
	code, b := e.httpDo("GET", "/channels", "topic=*")
	if code != 200 {
		parts = append(parts, fmt.Sprintf("C[*]=!%d", code))
	} else {
		var r struct{ Channels []string }
		vfE4MustJSON(b, &r, "/channels")
		parts = append(parts, "C[*]="+vfE4Join(r.Channels))
	}
	code, b = e.httpDo("GET", "/lookup", "topic=*")
	if code != 200 {
		e.amend = fmt.Sprintf("obs=%d", code)
		parts = append(parts, fmt.Sprintf("L[*]=%d", code))
	} else {
		var r struct {
			Channels  []string
			Producers []vfE4Peer
		}
		vfE4MustJSON(b, &r, "/lookup")
		ps := make([]string, len(r.Producers))
		ids := make([]string, len(r.Producers))
		for i, p := range r.Producers {
			ps[i] = e.peerStr(p)
			ids[i] = strings.SplitN(ps[i], ":", 2)[0]
		}
		e.amend = "obs=" + vfE4Join(ids)
		if len(ids) == 0 {
			e.amend = "obs=-"
		}
		parts = append(parts, fmt.Sprintf("L[*]=ch=%s;pr=%s", vfE4Join(r.Channels), vfE4Join(ps)))
	}
	return "qstar " + strings.Join(parts, " ")
}

// execOnly runs one timed line without fetching the query answers.
func (e *vfE4Env) execOnly(w []string) (string, bool) {
	now, err := strconv.ParseInt(w[0], 10, 64)
	if err != nil || len(w) < 2 {
		return "", false
	}
	e.advance(now - e.vnow)
	var out string
	switch w[1] {
	case "q":
		out = "q"
	case "qstar":
		out = e.qstar()
	case "identify", "register", "unregister", "ping":
		id, _ := strconv.Atoi(w[2])
		wire, ok := e.wire(id, w[1], w[3:])
		if !ok {
			return "", false
		}
		out = e.command(id, wire)
	case "abort":
		if len(w) < 4 {
			return "", false
		}
		id, _ := strconv.Atoi(w[2])
		wire, ok := e.wire(id, w[3], w[4:])
		if !ok {
			return "", false
		}
		out = e.abort(id, wire)
	case "disconnect":
		id, _ := strconv.Atoi(w[2])
		e.closeConn(id)
		out = "closed"
	case "http":
		star := w[2] == "tombstone" && w[4] == "2a"
		var before vfE4TombSnap
		if star {
			before = e.tombSnapshot()
		}
		code, b := e.httpDo("POST", vfE4HandlerPath[w[2]], vfE4Query(w[3], w[4], w[5], w[6]))
		if star && code == 200 {
			e.amend = e.pickOf(before, e.tombSnapshot())
		}
		if code == 200 {
			out = "200"
		} else {
			var m struct{ Message string }
			vfE4MustJSON(b, &m, "error body")
			out = fmt.Sprintf("%d %s", code, m.Message)
		}
	case "raw":
		// optional tokens after the six arguments: q=<hex of extra raw query> (pprof arguments)
		query := vfE4Query(w[4], w[5], w[6], w[7])
		for _, tok := range w[8:] {
			if strings.HasPrefix(tok, "q=") {
				if query != "" {
					query += "&"
				}
				query += string(vfE4Unhex(tok[2:]))
			}
		}
		code, body := e.httpDo(w[2], w[3], query)
		out = fmt.Sprintf("status=%d", code)
		if strings.HasPrefix(w[3], "/debug/pprof/") {
			// a pprof row answers one of a SET of statuses: ExecX hands the observed one to the model (acceptor)
			e.amend = fmt.Sprintf("obs=%d", code)
			e.lastBody = body
		}
		if code == 200 && w[2] == "GET" && w[3] == "/ping" {
			out += " body=" + vfHex(body) // PlainText decorator: the two bytes "OK"
		}
		if code == 200 && w[2] == "GET" && w[3] == "/info" {
			var m map[string]interface{}
			if json.Unmarshal(body, &m) == nil && len(m) == 1 && m["version"] == version.Binary {
				out += " body=version"
			} else {
				out += " body=BAD-" + vfHex(body)
			}
		}
	case "stream":
		id, _ := strconv.Atoi(w[2])
		var splits []int
		for _, tok := range w[4:] {
			if strings.HasPrefix(tok, "split=") {
				for _, x := range strings.Split(tok[6:], ",") {
					n, _ := strconv.Atoi(x)
					splits = append(splits, n)
				}
			}
		}
		out = e.stream(id, vfE4Unhex(w[3]), splits...)
	case "spoof":
		// spoof <id> <victim> <keys> <bc> <ho> <ve> <tcp> <http> <rest>
		id, _ := strconv.Atoi(w[2])
		victim, _ := strconv.Atoi(w[3])
		addr := "203.0.113.9:1"
		if c, ok := e.conns[victim]; ok {
			addr = c.addr
		}
		extra := map[string]interface{}{}
		if w[4] != "-" {
			for _, k := range strings.Split(w[4], ",") {
				switch k {
				case "peerInfo", "peer_info":
					extra[k] = map[string]interface{}{"id": addr, "remote_address": addr}
				case "lastUpdate", "last_update":
					extra[k] = 1
				case "tombstoned":
					extra[k] = true
				default:
					extra[k] = addr
				}
			}
		}
		tcp, _ := strconv.Atoi(w[8])
		hp, _ := strconv.Atoi(w[9])
		body := vfE4IdentifyBodyX(vfE4Unhex(w[5]), vfE4Unhex(w[6]), vfE4Unhex(w[7]), tcp, hp, extra)
		var buf bytes.Buffer
		buf.WriteString("  V1IDENTIFY\n")
		binary.Write(&buf, binary.BigEndian, int32(len(body)))
		buf.Write(body)
		buf.Write(vfE4Unhex(w[10]))
		if len(w) > 11 && strings.HasPrefix(w[11], "k=") {
			k, _ := strconv.Atoi(w[11][2:])
			out = e.streamK(id, buf.Bytes()[4:], k)
		} else {
			out = e.stream(id, buf.Bytes())
		}
	default:
		return "", false
	}
	return out, true
}

// stream: a fresh raw connection sends the bytes, half-closes, and collects every reply frame
// until the server closes.
func (e *vfE4Env) stream(id int, data []byte, splits ...int) string {
	vc := e.open(id, false)
	addr := vc.addr
	vc.c.SetDeadline(time.Now().Add(vfE4IOTimeout))
	go func() {
		// optional split points: the bytes arrive in several TCP segments with a pause in between
		prev := 0
		for _, sp := range splits {
			if sp > prev && sp < len(data) {
				vc.c.Write(data[prev:sp])
				time.Sleep(15 * time.Millisecond)
				prev = sp
			}
		}
		vc.c.Write(data[prev:])
		vc.c.(*net.TCPConn).CloseWrite()
	}()
	var replies []string
	for {
		b, err := vfE4ReadFrame(vc.rd)
		if err != nil {
			if ne, ok := err.(net.Error); ok && ne.Timeout() {
				vfE4GiveUp("stream: the server neither answered nor closed within %v", vfE4IOTimeout)
			}
			break
		}
		if vfE4IsIdentifyResp(b) {
			b = []byte("IDENTIFY-RESPONSE")
		}
		replies = append(replies, vfHex(b))
	}
	vc.c.Close()
	delete(e.conns, id)
	e.waitGone(addr)
	return "fin=closed replies=" + strings.Join(replies, ",")
}

// streamK: a pipe connection (magic already sent) writes the bytes, reads only the first k answers
// and then goes away — the answer the server is writing (or about to write) is never read.
func (e *vfE4Env) streamK(id int, data []byte, k int) string {
	vc := e.openPipe(id)
	addr := vc.addr
	vc.c.SetDeadline(time.Now().Add(vfE4IOTimeout))
	done := make(chan struct{})
	go func() {
		vc.c.Write(data) // fails when we close below: the server stopped taking input
		close(done)
	}()
	var replies []string
	for len(replies) < k {
		b, err := vfE4ReadFrame(vc.rd)
		if err != nil {
			if ne, ok := err.(net.Error); ok && ne.Timeout() {
				vfE4GiveUp("streamK: answer %d did not arrive within %v", len(replies), vfE4IOTimeout)
			}
			break
		}
		if vfE4IsIdentifyResp(b) {
			b = []byte("IDENTIFY-RESPONSE")
		}
		replies = append(replies, vfHex(b))
	}
	vc.c.Close()
	<-done
	delete(e.conns, id)
	e.waitGone(addr)
	return "fin=closed replies=" + strings.Join(replies, ",")
}

// vfE4Decode: what the JSON VALUE PARSER makes of an IDENTIFY body: the first value (as PeerInfo
// fields) and the number of bytes it occupies. Whether what follows the value is acceptable is
// NOT decided here — the model does that (only white space may follow), so a daemon that accepts
// `{…}}}` or leaves `{…}REGISTER x` half-read disagrees with the model.
func vfE4Decode(body []byte) string {
	pi := PeerInfo{}
	dec := json.NewDecoder(bytes.NewReader(body))
	if dec.Decode(&pi) != nil {
		return ""
	}
	return fmt.Sprintf("%s=%s/%s/%s/%d/%d/%d", vfHex(body), vfHex([]byte(pi.BroadcastAddress)),
		vfHex([]byte(pi.Hostname)), vfHex([]byte(pi.Version)), pi.TCPPort, pi.HTTPPort, dec.InputOffset())
}

func vfE4PrintHist(tag string, h map[string]int) {
	var ks []string
	for k := range h {
		ks = append(ks, k)
	}
	sort.Strings(ks)
	var sb strings.Builder
	for _, k := range ks {
		fmt.Fprintf(&sb, " %s=%d", k, h[k])
	}
	fmt.Fprintf(os.Stdout, "HIST %s%s\n", tag, sb.String())
}
