package nsqlookupd

// C14 generators for engine E4: sequentially exhaustive short histories, long random
// histories, replay of a committed .ops file, and concurrent histories checked at quiescent
// points. All of them only produce lines; vfE4Env.Exec (e4_core_test.go) runs them.

import (
	"bufio"
	"fmt"
	"os"
	"sort"
	"strings"
	"sync"
	"testing"
)

var vfE4Topics = []string{"t", "e#ephemeral", "zz"}

type vfE4Slot struct {
	bc, ho, ve string
	tcp, http  int
}

// slot 2 has the same broadcast address and HTTP port as slot 0: one tombstone hits both.
var vfE4Slots = []vfE4Slot{
	{"hA", "nA", "v1", 4150, 4151},
	{"hB", "nB", "v1", 4150, 4151},
	{"hA", "nC", "v2", 5150, 4151},
	// slot 3: the broadcast address of slots 0/2 with ANOTHER HTTP port — a tombstone for "hA:4151" must not touch it
	{"hA", "nD", "v1", 4150, 4152},
}

func vfE4H(s string) string { return vfHex([]byte(s)) }

// vfE4Gen turns abstract choices into lines, tracking which connection id a slot uses.
type vfE4Gen struct {
	env    *vfE4Env
	slot   []int // current connection id of each slot (0 = none)
	ident  []bool
	nextID int
}

func vfE4NewGen(env *vfE4Env, nslots int) *vfE4Gen {
	return &vfE4Gen{env: env, slot: make([]int, nslots), ident: make([]bool, nslots), nextID: 1}
}

func (g *vfE4Gen) reset() {
	for i := range g.slot {
		g.slot[i] = 0
		g.ident[i] = false
	}
}

// slot 0 talks over pipe connections (even ids), the other slots over real TCP connections
func (g *vfE4Gen) id(s int) int {
	if g.slot[s] == 0 {
		for vfE4IsPipeID(g.nextID) != (s == 0) {
			g.nextID++
		}
		g.slot[s] = g.nextID
		g.nextID++
	}
	return g.slot[s]
}

// after a line was executed: a fatal error reply closed the slot's connection
func (g *vfE4Gen) after(s int, out string) {
	if s >= 0 && strings.HasPrefix(out, "E_") {
		g.slot[s] = 0
		g.ident[s] = false
	}
}

// an abstract op: kind + slot + arguments
type vfE4Op struct {
	kind string
	slot int
	a, b string // topic/channel or topic/node
	adv  int64
}

func (g *vfE4Gen) line(op vfE4Op) string {
	now := g.env.vnow
	switch op.kind {
	case "identify":
		sl := vfE4Slots[op.slot]
		g.ident[op.slot] = true
		return fmt.Sprintf("%d identify %d %s %s %s %d %d", now, g.id(op.slot), vfE4H(sl.bc), vfE4H(sl.ho), vfE4H(sl.ve), sl.tcp, sl.http)
	case "register", "unregister":
		l := fmt.Sprintf("%d %s %d %s", now, op.kind, g.id(op.slot), vfE4H(op.a))
		if op.b != "" {
			l += " " + vfE4H(op.b)
		}
		return l
	case "ping":
		return fmt.Sprintf("%d ping %d", now, g.id(op.slot))
	case "abort-identify", "abort-register", "abort-unregister", "abort-ping":
		// send the command, close without reading its answer (pipe connections only)
		id := g.id(op.slot)
		g.slot[op.slot] = 0
		g.ident[op.slot] = false
		switch op.kind {
		case "abort-identify":
			sl := vfE4Slots[op.slot]
			return fmt.Sprintf("%d abort %d identify %s %s %s %d %d", now, id, vfE4H(sl.bc), vfE4H(sl.ho), vfE4H(sl.ve), sl.tcp, sl.http)
		case "abort-ping":
			return fmt.Sprintf("%d abort %d ping", now, id)
		}
		l := fmt.Sprintf("%d abort %d %s %s", now, id, strings.TrimPrefix(op.kind, "abort-"), vfE4H(op.a))
		if op.b != "" {
			l += " " + vfE4H(op.b)
		}
		return l
	case "disconnect":
		if g.slot[op.slot] == 0 {
			return fmt.Sprintf("%d q", now)
		}
		id := g.slot[op.slot]
		g.slot[op.slot] = 0
		g.ident[op.slot] = false
		return fmt.Sprintf("%d disconnect %d", now, id)
	case "createTopic", "deleteTopic":
		return fmt.Sprintf("%d http %s 0 %s _ _", now, op.kind, vfE4H(op.a))
	case "createChannel", "deleteChannel":
		return fmt.Sprintf("%d http %s 0 %s %s _", now, op.kind, vfE4H(op.a), vfE4H(op.b))
	case "tombstone":
		return fmt.Sprintf("%d http tombstone 0 %s _ %s", now, vfE4H(op.a), vfE4H(op.b))
	case "advance":
		return fmt.Sprintf("%d q", now+op.adv*vfE4Unit)
	case "qstar":
		return fmt.Sprintf("%d qstar", now)
	}
	panic("unknown op kind " + op.kind)
}

// "tiny": 13 operations around ONE ephemeral topic/channel with two producers (one over a pipe),
// deletion, tombstone and time — small enough for sequentially exhaustive depth 5 (371 293 histories).
func vfE4TinyAlphabet() []vfE4Op {
	e, d := "e#ephemeral", "d#ephemeral"
	return []vfE4Op{
		{kind: "identify", slot: 0}, {kind: "register", slot: 0, a: e, b: d}, {kind: "unregister", slot: 0, a: e, b: d},
		{kind: "unregister", slot: 0, a: e}, {kind: "disconnect", slot: 0},
		{kind: "identify", slot: 1}, {kind: "register", slot: 1, a: e, b: d}, {kind: "unregister", slot: 1, a: e, b: d},
		{kind: "deleteTopic", slot: -1, a: e}, {kind: "createChannel", slot: -1, a: e, b: d},
		{kind: "tombstone", slot: -1, a: e, b: fmt.Sprintf("%s:%d", vfE4Slots[0].bc, vfE4Slots[0].http)},
		{kind: "abort-register", slot: 0, a: e, b: d}, {kind: "advance", slot: -1, adv: 2},
	}
}

func vfE4Alphabet(kind string) []vfE4Op {
	if kind == "tiny" {
		return vfE4TinyAlphabet()
	}
	var ops []vfE4Op
	topics := []string{"t", "e#ephemeral"}
	chans := []string{"", "c", "d#ephemeral"}
	nslots := 2
	if kind == "small" {
		chans = []string{"", "d#ephemeral"}
	}
	for s := 0; s < nslots; s++ {
		ops = append(ops, vfE4Op{kind: "identify", slot: s}, vfE4Op{kind: "ping", slot: s}, vfE4Op{kind: "disconnect", slot: s})
		for _, t := range topics {
			for _, c := range chans {
				if kind == "small" && s == 1 && c != "" {
					continue
				}
				ops = append(ops, vfE4Op{kind: "register", slot: s, a: t, b: c}, vfE4Op{kind: "unregister", slot: s, a: t, b: c})
			}
		}
	}
	// slot 0 can also go away while an answer is pending (close without reading it)
	ops = append(ops, vfE4Op{kind: "abort-identify", slot: 0}, vfE4Op{kind: "abort-register", slot: 0, a: "t", b: "c"})
	if kind != "small" {
		ops = append(ops, vfE4Op{kind: "abort-ping", slot: 0}, vfE4Op{kind: "abort-unregister", slot: 0, a: "t", b: "c"})
	}
	for _, t := range topics {
		ops = append(ops, vfE4Op{kind: "createTopic", slot: -1, a: t}, vfE4Op{kind: "deleteTopic", slot: -1, a: t})
		for _, c := range chans[1:] {
			if kind == "small" {
				continue
			}
			ops = append(ops, vfE4Op{kind: "createChannel", slot: -1, a: t, b: c}, vfE4Op{kind: "deleteChannel", slot: -1, a: t, b: c})
		}
		for s := 0; s < nslots; s++ {
			if kind == "small" && (s == 1 || t != "t") {
				continue
			}
			ops = append(ops, vfE4Op{kind: "tombstone", slot: -1, a: t, b: fmt.Sprintf("%s:%d", vfE4Slots[s].bc, vfE4Slots[s].http)})
		}
	}
	if kind != "small" {
		// the two wild-card paths whose result depends on Go's map order (model: a set of allowed results)
		ops = append(ops, vfE4Op{kind: "tombstone", slot: -1, a: "*", b: fmt.Sprintf("%s:%d", vfE4Slots[0].bc, vfE4Slots[0].http)},
			vfE4Op{kind: "qstar", slot: -1})
	}
	ops = append(ops, vfE4Op{kind: "advance", slot: -1, adv: 1}, vfE4Op{kind: "advance", slot: -1, adv: 2})
	return ops
}

// TestVerifE4Exhaustive: every history of length VERIF_LEN over the alphabet (all shorter
// histories are prefixes), each from an empty registry; answers compared after EVERY step.
// Sharded: history index mod VERIF_NSHARD == VERIF_SHARD. Admin/query calls go through the
// real router in-process (httpServer.ServeHTTP); nsqd-side commands over real TCP.
func TestVerifE4Exhaustive(t *testing.T) {
	L := vfEnvInt("VERIF_LEN", 3)
	shard, nshard := vfEnvInt("VERIF_SHARD", 0), vfEnvInt("VERIF_NSHARD", 1)
	alpha := vfE4Alphabet(os.Getenv("VERIF_ALPHA"))
	env := vfE4Start(false, vfE4Topics)
	defer env.Stop()
	// VERIF_PRE=ident (audit B27): every history starts from the state in which both producers have IDENTIFYed (two
	// extra lines, compared like all others) — from the empty registry ~99 % of the REGISTER/UNREGISTER steps of a
	// length-3 history are E_INVALID "client must IDENTIFY"
	pre := os.Getenv("VERIF_PRE")
	name := "exh"
	if pre != "" {
		name = "exhp"
	}
	out := vfOpen(fmt.Sprintf("%s_%d", name, shard))
	defer out.Close()
	out.Case(env.ConfLine("fixed"), "conf")
	g := vfE4NewGen(env, 2)
	N := len(alpha)
	total := 1
	for i := 0; i < L; i++ {
		total *= N
	}
	hist := 0
	for h := shard; h < total; h += nshard {
		out.Case("reset", env.Exec("reset"))
		g.reset()
		if pre == "ident" {
			for sl := 0; sl < 2; sl++ {
				line, res := env.ExecX(g.line(vfE4Op{kind: "identify", slot: sl}))
				g.after(sl, res)
				out.Case(line, res)
			}
		}
		x := h
		for i := 0; i < L; i++ {
			op := alpha[x%N]
			x /= N
			line, res := env.ExecX(g.line(op))
			g.after(op.slot, res)
			out.Case(line, res)
		}
		hist++
	}
	fmt.Printf("E4-EXH alphabet=%d len=%d pre=%q histories=%d lines=%d\n", N, L, pre, hist, out.N)
	vfE4PrintHist(name, env.hist)
}

func vfE4RandomOp(r *vfRand, nslots int) vfE4Op {
	topics := []string{"t", "e#ephemeral", "u"}
	chans := []string{"", "", "c", "d#ephemeral"}
	s := r.Intn(nslots)
	t := topics[r.Intn(len(topics))]
	c := chans[r.Intn(len(chans))]
	switch r.Intn(20) {
	case 0, 1:
		return vfE4Op{kind: "identify", slot: s}
	case 2, 3, 4, 5:
		return vfE4Op{kind: "register", slot: s, a: t, b: c}
	case 6, 7, 8:
		return vfE4Op{kind: "unregister", slot: s, a: t, b: c}
	case 9:
		return vfE4Op{kind: "ping", slot: s}
	case 10:
		if r.Intn(2) == 0 {
			k := []string{"abort-identify", "abort-register", "abort-unregister", "abort-ping"}[r.Intn(4)]
			return vfE4Op{kind: k, slot: 0, a: t, b: c}
		}
		return vfE4Op{kind: "disconnect", slot: s}
	case 11:
		return vfE4Op{kind: "createTopic", slot: -1, a: t}
	case 12:
		return vfE4Op{kind: "deleteTopic", slot: -1, a: t}
	case 13:
		return vfE4Op{kind: "createChannel", slot: -1, a: t, b: chans[2+r.Intn(2)]}
	case 14:
		return vfE4Op{kind: "deleteChannel", slot: -1, a: t, b: chans[2+r.Intn(2)]}
	case 15, 16, 17:
		sl := vfE4Slots[r.Intn(nslots)]
		if r.Intn(3) == 0 {
			t = "*"
		}
		return vfE4Op{kind: "tombstone", slot: -1, a: t, b: fmt.Sprintf("%s:%d", sl.bc, sl.http)}
	case 18:
		return vfE4Op{kind: "qstar", slot: -1}
	default:
		return vfE4Op{kind: "advance", slot: -1, adv: int64(1 + r.Intn(2))}
	}
}

// TestVerifE4Random: long random histories over 3 producers (two of them with the same node
// address), 3 topics, real HTTP requests.
func TestVerifE4Random(t *testing.T) {
	n, L := vfEnvInt("VERIF_N", 20), vfEnvInt("VERIF_LEN", 200)
	shard := vfEnvInt("VERIF_SHARD", 0)
	env := vfE4Start(true, []string{"t", "e#ephemeral", "u", "zz"})
	defer env.Stop()
	out := vfOpen(fmt.Sprintf("rnd_%d", shard))
	defer out.Close()
	out.Case(env.ConfLine("fixed"), "conf")
	r := vfNewRand(1400 + uint64(shard))
	g := vfE4NewGen(env, 4)
	for h := 0; h < n; h++ {
		out.Case("reset", env.Exec("reset"))
		g.reset()
		for i := 0; i < L; i++ {
			op := vfE4RandomOp(r, 4)
			// mostly-valid: registering on an unidentified slot closes it; keep that rare
			if (op.kind == "register" || op.kind == "unregister") && !g.ident[op.slot] && r.Intn(8) != 0 {
				op = vfE4Op{kind: "identify", slot: op.slot}
			}
			if strings.HasPrefix(op.kind, "abort-") && op.kind != "abort-identify" && !g.ident[op.slot] && r.Intn(8) != 0 {
				op = vfE4Op{kind: "identify", slot: op.slot}
			}
			line, res := env.ExecX(g.line(op))
			g.after(op.slot, res)
			out.Case(line, res)
		}
	}
	fmt.Printf("E4-RND histories=%d len=%d lines=%d\n", n, L, out.N)
	vfE4PrintHist("rnd", env.hist)
}

// TestVerifE4Replay: run a committed / minimised .ops file (VERIF_REPLAY) on the real code.
func TestVerifE4Replay(t *testing.T) {
	path := os.Getenv("VERIF_REPLAY")
	f, err := os.Open(path)
	if err != nil {
		t.Fatal(err)
	}
	defer f.Close()
	var lines []string
	sc := bufio.NewScanner(f)
	sc.Buffer(make([]byte, 1<<20), 1<<26)
	for sc.Scan() {
		if l := strings.TrimSpace(sc.Text()); l != "" && !strings.HasPrefix(l, "#") {
			lines = append(lines, l)
		}
	}
	topics := vfE4Topics
	for _, l := range lines {
		w := strings.Fields(l)
		if w[0] == "conf" && len(w) >= 6 {
			topics = nil
			for _, h := range strings.Split(w[5], ",") {
				if h != "" {
					topics = append(topics, string(vfE4Unhex(h)))
				}
			}
		}
	}
	env := vfE4Start(os.Getenv("VERIF_REALHTTP") == "1", topics)
	defer env.Stop()
	out := vfOpen("replay")
	defer out.Close()
	for _, l := range lines {
		// flushed before execution: if the process dies the last line names the input
		fmt.Printf("E4-REPLAY-LINE %s\n", l)
		os.Stdout.Sync()
		if w := strings.Fields(l); len(w) >= 2 && (w[1] == "qstar" || (len(w) > 2 && w[1] == "http" && w[2] == "tombstone")) {
			l2, res := env.ExecX(l)
			out.Case(l2, res)
			continue
		}
		out.Case(l, env.Exec(l))
	}
	fmt.Printf("E4-REPLAY-DONE lines=%d\n", out.N)
}

// TestVerifE4Concurrent: free-running producer connections and admin calls. Each goroutine
// owns disjoint names, so at the quiescent point (all goroutines joined) the registry must
// equal what the model computes from ANY interleaving that keeps each goroutine's order; the
// harness writes the per-goroutine sequences one after another (one such linearisation) and
// the answers fetched at the quiescent point.
func TestVerifE4Concurrent(t *testing.T) {
	rounds, L := vfEnvInt("VERIF_N", 10), vfEnvInt("VERIF_LEN", 40)
	const W = 4
	env := vfE4Start(true, []string{"t0", "t1", "t2", "t3", "zz"})
	defer env.Stop()
	out := vfOpen("conc")
	defer out.Close()
	out.Case(env.ConfLine("fixed"), "conf")
	r := vfNewRand(1499)
	nextID := 1
	for round := 0; round < rounds; round++ {
		out.Case("reset", env.Exec("reset"))
		// every worker gets its own env view sharing the same lookupd (own conn table)
		scripts := make([][]string, W)
		for wk := 0; wk < W; wk++ {
			topic := fmt.Sprintf("t%d", wk)
			id := nextID
			nextID++
			sl := vfE4Slots[wk%len(vfE4Slots)]
			var s []string
			now := env.vnow
			s = append(s, fmt.Sprintf("%d identify %d %s %s %s %d %d", now, id, vfE4H(fmt.Sprintf("h%d", wk)), vfE4H(sl.ho), vfE4H(sl.ve), sl.tcp, 4000+wk))
			for i := 0; i < L; i++ {
				ch := []string{"", "c", "d#ephemeral"}[r.Intn(3)]
				switch r.Intn(8) {
				case 0, 1, 2:
					l := fmt.Sprintf("%d register %d %s", now, id, vfE4H(topic))
					if ch != "" {
						l += " " + vfE4H(ch)
					}
					s = append(s, l)
				case 3, 4:
					l := fmt.Sprintf("%d unregister %d %s", now, id, vfE4H(topic))
					if ch != "" {
						l += " " + vfE4H(ch)
					}
					s = append(s, l)
				case 5:
					s = append(s, fmt.Sprintf("%d http createChannel 0 %s %s _", now, vfE4H(topic), vfE4H("c")))
				case 6:
					s = append(s, fmt.Sprintf("%d http deleteTopic 0 %s _ _", now, vfE4H(topic)))
				default:
					s = append(s, fmt.Sprintf("%d http tombstone 0 %s _ %s", now, vfE4H(topic), vfE4H(fmt.Sprintf("h%d:%d", wk, 4000+wk))))
				}
			}
			scripts[wk] = s
		}
		var wg sync.WaitGroup
		var mu sync.Mutex
		for wk := 0; wk < W; wk++ {
			wg.Add(1)
			go func(wk int) {
				defer wg.Done()
				sub := &vfE4Env{l: env.l, h: env.h, realHTTP: true, client: env.client, conns: map[int]*vfE4Conn{},
					addr2id: map[string]int{}, vnow: env.vnow, topics: nil, hist: map[string]int{}}
				for _, l := range scripts[wk] {
					sub.ExecNoQuery(l)
				}
				mu.Lock()
				for id, c := range sub.conns {
					env.conns[id] = c
				}
				for a, id := range sub.addr2id {
					env.addr2id[a] = id
				}
				mu.Unlock()
			}(wk)
		}
		wg.Wait()
		// quiescent point: the linearisation "worker 0, then 1, …" must give the same answers
		var all []string
		for wk := 0; wk < W; wk++ {
			all = append(all, scripts[wk]...)
		}
		for _, l := range all {
			out.Case("noq "+l, "noq")
		}
		q := fmt.Sprintf("%d q", env.vnow)
		out.Case(q, env.Exec(q))
	}
	keys := []string{}
	for k := range env.hist {
		keys = append(keys, k)
	}
	sort.Strings(keys)
	fmt.Printf("E4-CONC rounds=%d workers=%d len=%d lines=%d\n", rounds, W, L, out.N)
}

// ExecNoQuery: like Exec without fetching the query answers (used by concurrent workers).
func (e *vfE4Env) ExecNoQuery(line string) {
	if _, ok := e.execOnly(strings.Fields(line)); !ok {
		panic("bad line " + line)
	}
}
