package nsqlookupd

// C15 "… or stop it answering others": concurrent liveness leg. Readers hammer every read route
// while TCP peers connect / IDENTIFY / REGISTER / UNREGISTER / disconnect and admin calls run;
// afterwards a fresh request on every route and a fresh IDENTIFY+REGISTER must be answered
// within a deadline. The daemon lives in this test process: python runs it as a subprocess with
// a timeout, and the test itself leaves through os.Exit when the daemon is wedged (stuck
// goroutines cannot be joined).

import (
	"bufio"
	"bytes"
	"encoding/binary"
	"fmt"
	"io"
	"net"
	"net/http"
	"os"
	"runtime"
	"sort"
	"strings"
	"sync"
	"sync/atomic"
	"testing"
	"time"
)

type vfE4Mix struct {
	mu sync.Mutex
	n  map[string]int
}

func (m *vfE4Mix) add(k string) {
	m.mu.Lock()
	m.n[k]++
	m.mu.Unlock()
}

func (m *vfE4Mix) String() string {
	m.mu.Lock()
	defer m.mu.Unlock()
	var ks []string
	for k := range m.n {
		ks = append(ks, k)
	}
	sort.Strings(ks)
	var sb strings.Builder
	for _, k := range ks {
		fmt.Fprintf(&sb, " %s=%d", k, m.n[k])
	}
	return sb.String()
}

var vfE4ReadRoutes = []string{"/nodes", "/lookup?topic=t", "/topics", "/channels?topic=t", "/debug", "/lookup?topic=e%23ephemeral", "/ping", "/info"}

func vfE4Get(base, route string, timeout time.Duration) error {
	c := &http.Client{Timeout: timeout, Transport: &http.Transport{DisableKeepAlives: true}}
	resp, err := c.Get(base + route)
	if err != nil {
		return err
	}
	io.Copy(io.Discard, resp.Body)
	resp.Body.Close()
	if resp.StatusCode >= 500 {
		return fmt.Errorf("status %d", resp.StatusCode)
	}
	return nil
}

// one nsqd-like peer session; returns an error when the daemon does not answer in time
func vfE4PeerSession(addr string, r *vfRand, k int, mix *vfE4Mix, timeout time.Duration) error {
	c, err := net.DialTimeout("tcp", addr, timeout)
	if err != nil {
		return fmt.Errorf("connect: %v", err)
	}
	defer c.Close()
	c.SetDeadline(time.Now().Add(timeout))
	body := vfE4IdentifyBody([]byte(fmt.Sprintf("h%d", k)), []byte("n"), []byte("v1"), 4150, 4151+k)
	var buf bytes.Buffer
	buf.WriteString("  V1IDENTIFY\n")
	binary.Write(&buf, binary.BigEndian, int32(len(body)))
	buf.Write(body)
	if _, err := c.Write(buf.Bytes()); err != nil {
		return err
	}
	br := bufio.NewReader(c)
	if _, err := vfE4ReadFrame(br); err != nil {
		return fmt.Errorf("IDENTIFY unanswered: %v", err)
	}
	mix.add("tcp:IDENTIFY")
	n := 2 + r.Intn(8)
	for i := 0; i < n; i++ {
		t := []string{"t", "e#ephemeral", "u"}[r.Intn(3)]
		ch := []string{"", " c", " d#ephemeral"}[r.Intn(3)]
		cmd := []string{"REGISTER", "REGISTER", "UNREGISTER", "PING"}[r.Intn(4)]
		line := cmd
		if cmd != "PING" {
			line += " " + t + ch
		}
		c.SetDeadline(time.Now().Add(timeout))
		if _, err := c.Write([]byte(line + "\n")); err != nil {
			return err
		}
		if _, err := vfE4ReadFrame(br); err != nil {
			return fmt.Errorf("%s unanswered: %v", cmd, err)
		}
		mix.add("tcp:" + cmd)
	}
	mix.add("tcp:disconnect")
	return nil
}

func TestVerifE4Liveness(t *testing.T) {
	ms := vfEnvInt("VERIF_MS", 2000)
	readers, peers := vfEnvInt("VERIF_READERS", 6), vfEnvInt("VERIF_PEERS", 4)
	deadline := time.Duration(vfEnvInt("VERIF_DEADLINE_MS", 2000)) * time.Millisecond
	env := vfE4Start(true, []string{"t"})
	base := "http://" + env.l.RealHTTPAddr().String()
	tcp := env.l.RealTCPAddr().String()
	mix := &vfE4Mix{n: map[string]int{}}
	var stop int32
	var stuck atomic.Value
	fail := func(s string) {
		if stuck.Load() == nil {
			stuck.Store(s)
		}
		atomic.StoreInt32(&stop, 1)
	}
	var wg sync.WaitGroup
	for i := 0; i < readers; i++ {
		wg.Add(1)
		go func(i int) {
			defer wg.Done()
			for j := i; atomic.LoadInt32(&stop) == 0; j++ {
				route := vfE4ReadRoutes[j%len(vfE4ReadRoutes)]
				if err := vfE4Get(base, route, 2*deadline); err != nil {
					fail(fmt.Sprintf("GET %s during the load: %v", route, err))
					return
				}
				mix.add("GET " + strings.SplitN(route, "?", 2)[0])
			}
		}(i)
	}
	for k := 0; k < peers; k++ {
		wg.Add(1)
		go func(k int) {
			defer wg.Done()
			r := vfNewRand(1600 + uint64(k))
			for atomic.LoadInt32(&stop) == 0 {
				if err := vfE4PeerSession(tcp, r, k, mix, 2*deadline); err != nil {
					fail(fmt.Sprintf("TCP peer %d during the load: %v", k, err))
					return
				}
			}
		}(k)
	}
	wg.Add(1)
	go func() {
		defer wg.Done()
		r := vfNewRand(1699)
		posts := []string{"/topic/create?topic=u", "/topic/delete?topic=u", "/channel/create?topic=t&channel=c", "/channel/delete?topic=t&channel=c",
			"/topic/tombstone?topic=t&node=h0:4151", "/topic/create?topic=t"}
		c := &http.Client{Timeout: 2 * deadline}
		for atomic.LoadInt32(&stop) == 0 {
			p := posts[r.Intn(len(posts))]
			resp, err := c.Post(base+p, "text/plain", nil)
			if err != nil {
				fail(fmt.Sprintf("POST %s during the load: %v", p, err))
				return
			}
			io.Copy(io.Discard, resp.Body)
			resp.Body.Close()
			mix.add("POST " + strings.SplitN(p, "?", 2)[0])
		}
	}()
	time.Sleep(time.Duration(ms) * time.Millisecond)
	atomic.StoreInt32(&stop, 1)
	done := make(chan struct{})
	go func() { wg.Wait(); close(done) }()
	select {
	case <-done:
	case <-time.After(3 * deadline):
		fail("load goroutines did not come back (requests still unanswered)")
	}
	// probes: every route and a fresh producer must be answered within the deadline
	if stuck.Load() == nil {
		for _, route := range vfE4ReadRoutes {
			if err := vfE4Get(base, route, deadline); err != nil {
				fail(fmt.Sprintf("probe GET %s not answered within %v: %v", route, deadline, err))
				break
			}
		}
	}
	if stuck.Load() == nil {
		if err := vfE4PeerSession(tcp, vfNewRand(1), 99, mix, deadline); err != nil {
			fail(fmt.Sprintf("probe IDENTIFY+REGISTER not answered within %v: %v", deadline, err))
		}
	}
	if s := stuck.Load(); s != nil {
		fmt.Printf("LIVENESS-WEDGED %s\nLIVENESS-MIX readers=%d peers=%d ms=%d%s\n", s, readers, peers, ms, mix.String())
		os.Stdout.Sync()
		os.Exit(3) // stuck goroutines cannot be joined
	}
	fmt.Printf("LIVENESS-OK readers=%d peers=%d ms=%d%s\n", readers, peers, ms, mix.String())
	env.Stop()
}

// TestVerifE4Unbounded (audit C28g; open known finding `unbounded-line-read`, fixed finding `unbounded-http-body-read`):
// a byte sequence without a newline on the TCP port is buffered in full — `reader.ReadString('\n')`
// (lookup_protocol_v1.go:41) has no limit; a POST body that never ends on the HTTP port WAS buffered in full by
// `io.ReadAll(req.Body)` in internal/http_api.NewReqParams until /repo 894b9eb (F33) and must not be any more. Deterministic observation, no timing oracle: the test
// process contains the daemon; the client writes N bytes from ONE reused 64 KiB block (so the client side holds
// nothing), waits until the daemon has taken them, forces a GC and reads the LIVE heap. The finding reproduces iff
// the live heap grew by at least N/2 while the connection is still open and unanswered; a daemon with a bounded
// line / body closes (or answers) long before and the growth stays small.
func TestVerifE4Unbounded(t *testing.T) {
	n := vfEnvInt("VERIF_UNBOUNDED_MIB", 32) << 20
	env := vfE4Start(true, nil)
	defer env.Stop()
	live := func() int64 {
		runtime.GC()
		runtime.GC()
		var m runtime.MemStats
		runtime.ReadMemStats(&m)
		return int64(m.HeapAlloc)
	}
	block := bytes.Repeat([]byte("A"), 64<<10)
	probe := func(kind string, addr string, head []byte) {
		base := live()
		c, err := net.DialTimeout("tcp", addr, vfE4IOTimeout)
		if err != nil {
			vfE4GiveUp("unbounded %s: connect: %v", kind, err)
		}
		defer c.Close()
		c.SetDeadline(time.Now().Add(vfE4IOTimeout))
		sent, open := 0, true
		if _, err := c.Write(head); err != nil {
			open = false
		}
		for open && sent < n {
			k, err := c.Write(block)
			sent += k
			if err != nil {
				open = false // the daemon closed the connection: it does bound what it reads
			}
		}
		// wait (bounded) until the daemon holds what was sent — or it turns out that it does not keep it
		grow := int64(0)
		for i := 0; i < 200; i++ {
			grow = live() - base
			if !open || grow >= int64(sent)*9/10 {
				break
			}
			time.Sleep(10 * time.Millisecond)
		}
		// has the daemon answered or closed? (read with a short deadline: a timeout means "still waiting for more")
		c.SetReadDeadline(time.Now().Add(150 * time.Millisecond))
		one := make([]byte, 1)
		_, rerr := c.Read(one)
		waiting := false
		if ne, ok := rerr.(net.Error); ok && ne.Timeout() {
			waiting = true
		}
		fmt.Printf("E4-UNBOUNDED kind=%s sent=%d live_heap_growth=%d still_waiting=%v reproduced=%v\n", kind, sent, grow, waiting,
			waiting && sent >= n && grow >= int64(n)/2)
		c.Close()
		env.waitGoneAll()
		fmt.Printf("E4-UNBOUNDED-AFTER kind=%s live_heap_growth_after_close=%d\n", kind, live()-base)
	}
	probe("line", env.l.RealTCPAddr().String(), []byte("  V1"))
	probe("http-body", env.l.RealHTTPAddr().String(), []byte(fmt.Sprintf(
		"POST /topic/create?topic=t HTTP/1.1\r\nHost: x\r\nContent-Type: application/octet-stream\r\nContent-Length: %d\r\n\r\n", n+1)))
	fmt.Printf("E4-UNBOUNDED-DONE\n")
}

// waitGoneAll: every TCP connection the daemon tracks has run its exit path (bounded wait)
func (e *vfE4Env) waitGoneAll() {
	for i := 0; i < 2000; i++ {
		cnt := 0
		e.l.tcpServer.conns.Range(func(k, v interface{}) bool { cnt++; return true })
		if cnt == 0 {
			return
		}
		time.Sleep(time.Millisecond)
	}
}
