package nsqlookupd

// C15 generators for engine E4: hostile byte streams on the TCP port and the HTTP
// route x method x argument sweep, both next to a well-behaved bystander producer.

import (
	"bytes"
	"encoding/binary"
	"fmt"
	"os"
	"regexp"
	"runtime/pprof"
	"strings"
	"testing"
	"time"
)

// vfE4CPUProfiling: is a CPU profile running in this process? (StartCPUProfile fails iff one is.)
func vfE4CPUProfiling() bool {
	if err := pprof.StartCPUProfile(vfE4Discard{}); err != nil {
		return true
	}
	pprof.StopCPUProfile()
	return false
}

type vfE4Discard struct{}

func (vfE4Discard) Write(b []byte) (int, error) { return len(b), nil }

const vfE4Bystander = "hA:4151"

// bystander: a well-behaved producer registered on a durable and an ephemeral topic/channel
func vfE4SetupBystander(env *vfE4Env, out *vfOut, id int) {
	for _, l := range []string{
		fmt.Sprintf("%d identify %d %s %s %s 4150 4151", env.vnow, id, vfE4H("hA"), vfE4H("nA"), vfE4H("v1")),
		fmt.Sprintf("%d register %d %s %s", env.vnow, id, vfE4H("t"), vfE4H("c")),
		fmt.Sprintf("%d register %d %s %s", env.vnow, id, vfE4H("e#ephemeral"), vfE4H("d#ephemeral")),
	} {
		out.Case(l, env.Exec(l))
	}
}

func vfE4Pick(r *vfRand, xs []string) string { return xs[r.Intn(len(xs))] }

var vfE4GoodNames = []string{"t", "c", "e#ephemeral", "d#ephemeral", "x1", "a.b_c-d", strings.Repeat("n", 64),
	strings.Repeat("m", 54) + "#ephemeral"}
var vfE4BadNames = []string{"", "#ephemeral", "a#ephemeral#ephemeral", "a b", "bad!", "a#eph", strings.Repeat("n", 65),
	strings.Repeat("m", 55) + "#ephemeral", "t\x00", "caf\xc3\xa9", "*", "a#Ephemeral", "\xff\xfe", "a/b", "t:1"}
var vfE4Spaces = []string{" ", "\t", "\r", "\v", "\f", "\xc2\xa0", "\xc2\x85", "\xe2\x80\x80", "\xe2\x80\xa8", "\xe3\x80\x80", "\xe1\x9a\x80", "\xe2\x81\x9f"}
var vfE4NotSpaces = []string{"\xc2", "\xa0", "\xe2\x80", "\xe2\x80\x8b", "\x00", "\xe2\x80\x8a\xe2", "\xc2\xa1", "\x1f", "\xef\xbf\xbd"}

func vfE4Body(r *vfRand) []byte {
	switch r.Intn(24) {
	case 0:
		return []byte(`{}`)
	case 1:
		return []byte(`null`)
	case 2:
		return []byte(`[]`)
	case 3:
		return []byte(`{"broadcast_address":"hX","hostname":"nX","version":"v9","tcp_port":1,"http_port":`)
	case 4:
		return []byte(`{"broadcast_address":"hX","hostname":"nX","version":"v9","tcp_port":"1","http_port":2}`)
	case 5:
		return []byte(`{"broadcast_address":"","hostname":"nX","version":"v9","tcp_port":1,"http_port":2}`)
	case 6:
		return []byte(`{"broadcast_address":"hX","hostname":"nX","version":"v9","tcp_port":0,"http_port":2}`)
	case 7:
		return []byte(`{"broadcast_address":"hX","hostname":"nX","version":"v9","tcp_port":1,"http_port":0}`)
	case 8:
		return []byte(`{"broadcast_address":"hX","hostname":"nX","version":"","tcp_port":1,"http_port":2}`)
	case 9:
		return []byte(`{"broadcast_address":"hX","version":"v9","tcp_port":-7,"http_port":-8}`)
	case 10:
		return []byte(`{"broadcast_address":"hA","hostname":"evil","version":"v9","tcp_port":4150,"http_port":4151,"id":"x","lastUpdate":1,"remote_address":"1.2.3.4:5"}`)
	case 11:
		return []byte(`{"broadcast_address":"hX","hostname":"nX","version":"v9","tcp_port":1.5,"http_port":2}`)
	case 12:
		return []byte(`{"broadcast_address":"hX","hostname":"nX","version":"v9","tcp_port":99999999999999999999,"http_port":2}`)
	case 13:
		return []byte("not json at all\n")
	case 14:
		return r.Bytes(1 + r.Intn(40))
	case 15:
		return []byte(`{"BROADCAST_ADDRESS":"hU","Hostname":"nU","VERSION":"v9","Tcp_Port":3,"HTTP_PORT":4}`)
	case 16:
		return []byte(`{"broadcast_address":"hX","hostname":null,"version":"v9","tcp_port":1,"http_port":2,"topology_zone":"z"}`)
	default:
		return vfE4IdentifyBody([]byte(vfE4Pick(r, []string{"hX", "hY", "hA"})), []byte("nX"), []byte("v9"), 1+r.Intn(3), 4151+r.Intn(2))
	}
}

// one IDENTIFY with a length prefix of the given class; returns wire bytes
func vfE4Identify(r *vfRand, body []byte, noneg bool, hist map[string]int) []byte {
	var buf bytes.Buffer
	buf.WriteString("IDENTIFY\n")
	size := int32(len(body))
	cls := "exact"
	switch r.Intn(16) {
	case 0:
		size, cls = 0, "zero"
	case 1:
		if len(body) > 0 {
			size, cls = size-1, "short1"
		}
	case 2:
		size, cls = size+1, "long1"
	case 3:
		size, cls = 0x7fffffff, "maxint32"
	case 4:
		size, cls = 1<<20+1, "over-limit"
	case 5:
		if !noneg {
			size, cls = -1, "neg1"
		}
	case 6:
		if !noneg {
			size, cls = -0x80000000, "minint32"
		}
	case 7:
		if !noneg {
			size, cls = -int32(1+r.Intn(1<<20)), "neg"
		}
	case 8:
		// truncated size field: stream ends inside it
		binary.Write(&buf, binary.BigEndian, size)
		hist["size:truncated"]++
		return buf.Bytes()[:len("IDENTIFY\n")+r.Intn(4)]
	case 9:
		size, cls = 1<<20, "at-limit"
	}
	hist["size:"+cls]++
	binary.Write(&buf, binary.BigEndian, size)
	buf.Write(body)
	return buf.Bytes()
}

// a well-formed but hostile peer: identifies properly (possibly claiming the bystander's node
// address) with EXTRA members in the IDENTIFY document that name the bystander's connection
// (remote_address / id / … = the bystander's ip:port), then works on the bystander's topics and
// channels, then misbehaves or just leaves. Emitted as a structured op
//   spoof <id> <victim conn id> <extra keys, comma separated | -> <bc> <ho> <ve> <tcp> <http> <hex of what follows the body>
// (the victim's address is only known at run time; the driver uses a one-byte placeholder body).
func vfE4GenSpoof(r *vfRand, hist map[string]int, now int64, id, victim int) string {
	keys := []string{"remote_address", "id", "RemoteAddress", "REMOTE_ADDRESS", "Id", "peerInfo", "peer_info", "lastUpdate", "tombstoned"}
	var ks []string
	for n := r.Intn(4); n > 0; n-- {
		k := keys[r.Intn(len(keys))]
		ks = append(ks, k)
		hist["extra:"+k]++
	}
	extra := "-"
	if len(ks) > 0 {
		extra = strings.Join(ks, ",")
	}
	var buf bytes.Buffer
	names := [][2]string{{"t", "c"}, {"e#ephemeral", "d#ephemeral"}, {"t", ""}, {"e#ephemeral", ""}, {"t", "d#ephemeral"}, {"x1", ""},
		{"t", "bad!"}, {"x1", strings.Repeat("n", 65)}, {"bad!", ""}, {"t", "#ephemeral"}}
	n := 1 + r.Intn(4)
	for i := 0; i < n; i++ {
		tc := names[r.Intn(len(names))]
		cmd := "UNREGISTER"
		if r.Intn(3) == 0 {
			cmd = "REGISTER"
		}
		line := cmd + " " + tc[0]
		if tc[1] != "" {
			line += " " + tc[1]
		}
		buf.WriteString(line + "\n")
	}
	switch r.Intn(4) {
	case 0:
		buf.WriteString("IDENTIFY\n")
	case 1:
		buf.WriteString("BOGUS\n")
	case 2:
		buf.WriteString("UNREGISTER t c")
	}
	hist["stream:spoof"]++
	line := fmt.Sprintf("%d spoof %d %d %s %s %s %s 4150 4151 %s", now, id, victim, extra,
		vfE4H(vfE4Pick(r, []string{"hA", "hX"})), vfE4H("nX"), vfE4H("v9"), vfHex(buf.Bytes()))
	if r.Intn(3) == 0 {
		// the peer reads only k of the 1+n answers it is owed and goes away with one pending
		line += fmt.Sprintf(" k=%d", r.Intn(n+1))
		hist["stream:spoof-unread-answer"]++
	}
	return line
}

// IDENTIFY whose declared size covers a valid JSON document AND bytes after it: closing brackets,
// NULs, white space, white space + garbage, a whole command line (topic `smuggled` is used nowhere
// else), optionally padded beyond 512 / 4096 bytes (read boundaries of streaming decoders and of
// bufio), optionally written in two TCP segments. Only white space may follow the value:
// everything else is E_BAD_BODY, and no byte of a body may ever be read as a command.
// Returns the stream, extra tokens for the op line (split points, noident=1) .
func vfE4GenTrailing(r *vfRand, hist map[string]int) ([]byte, []string) {
	doc := vfE4IdentifyBody([]byte("hT"), []byte("nT"), []byte("v9"), 4150, 4199)
	pad := ""
	switch r.Intn(4) {
	case 1:
		pad = strings.Repeat(" ", 500+r.Intn(40))
	case 2:
		pad = strings.Repeat(" ", 4000+r.Intn(200))
	case 3:
		pad = strings.Repeat("\n", 1+r.Intn(3))
	}
	tails := []string{"}", "]", "}}}", "\x00\x00", "x", "null", "{}", " garbage", "\nREGISTER smuggled\n", "\nREGISTER smuggled c\nPING\n",
		"REGISTER smuggled\n", "\nUNREGISTER t c\n", "\nIDENTIFY\n", "", " ", "\n", "\r\n", " \t\n"}
	tail := tails[r.Intn(len(tails))]
	legal := strings.TrimLeft(tail, " \t\r\n") == ""
	body := string(doc) + pad + tail
	if !legal && r.Intn(3) == 0 {
		body = string(doc) + tail + pad // garbage right after the value, then padding
	}
	var buf bytes.Buffer
	buf.WriteString("  V1IDENTIFY\n")
	binary.Write(&buf, binary.BigEndian, int32(len(body)))
	bodyAt := buf.Len()
	buf.WriteString(body)
	follow := []string{"", "PING\n", "REGISTER t c\nPING\n", "REGISTER x1\n"}[r.Intn(4)]
	buf.WriteString(follow)
	var toks []string
	switch r.Intn(3) {
	case 1:
		// split right after the JSON value / one byte before the end of the body
		toks = append(toks, fmt.Sprintf("split=%d", bodyAt+len(doc)))
	case 2:
		toks = append(toks, fmt.Sprintf("split=%d,%d", bodyAt+len(doc), bodyAt+len(body)-1))
	}
	if legal {
		hist["trailing:white-space-only"]++
		toks = append(toks, "legal=1")
	} else {
		hist["trailing:garbage"]++
		toks = append(toks, "noident=1")
	}
	if len(pad) > 400 {
		hist["trailing:padded"]++
	}
	return buf.Bytes(), toks
}

// vfE4GenIdentified (audit C32): a stream that gets PAST IDENTIFY (valid document, exact size) and is hostile
// afterwards: the bad-name matrix on REGISTER / UNREGISTER (so `getTopicChan` is reached: E_BAD_TOPIC /
// E_BAD_CHANNEL), re-IDENTIFY in several shapes, unknown / mis-cased commands, over-long lines, argument counts —
// after 0–3 valid commands (whose registrations must be gone after the error).
func vfE4GenIdentified(r *vfRand, hist map[string]int) ([]byte, []string) {
	expect := ""
	var buf bytes.Buffer
	buf.WriteString("  V1IDENTIFY\n")
	body := vfE4IdentifyBody([]byte(vfE4Pick(r, []string{"hX", "hY", "hA"})), []byte("nX"), []byte("v9"), 1+r.Intn(3), 4151+r.Intn(2))
	binary.Write(&buf, binary.BigEndian, int32(len(body)))
	buf.Write(body)
	for n := r.Intn(4); n > 0; n-- {
		buf.WriteString(vfE4Pick(r, []string{"PING\n", "REGISTER t c\n", "REGISTER x1\n", "UNREGISTER t c\n", "REGISTER e#ephemeral d#ephemeral\n",
			"UNREGISTER e#ephemeral d#ephemeral\n", "UNREGISTER t\n", " REGISTER zz \n"}))
	}
	cmd := vfE4Pick(r, []string{"REGISTER", "UNREGISTER"})
	k := r.Intn(20)
	switch {
	case k < 7:
		buf.WriteString(cmd + " " + vfE4Pick(r, vfE4BadNames[1:]))
		if r.Intn(2) == 0 {
			buf.WriteString(" " + vfE4Pick(r, vfE4GoodNames))
		}
		buf.WriteString("\n")
		expect = vfE4ExpectNameErr(buf.Bytes())
		hist["ident:bad-topic"]++
	case k < 12:
		buf.WriteString(cmd + " " + vfE4Pick(r, vfE4GoodNames) + " " + vfE4Pick(r, vfE4BadNames[1:]) + "\n")
		expect = vfE4ExpectNameErr(buf.Bytes())
		hist["ident:bad-channel"]++
	case k < 15:
		// re-IDENTIFY shapes: bare, with size+body, with a negative size, with arguments, padded, truncated size
		shape := r.Intn(6)
		switch shape {
		case 0:
			buf.WriteString("IDENTIFY\n")
		case 1:
			buf.WriteString("IDENTIFY\n")
			binary.Write(&buf, binary.BigEndian, int32(len(body)))
			buf.Write(body)
		case 2:
			buf.WriteString("IDENTIFY\n\xff\xff\xff\xff")
		case 3:
			buf.WriteString("IDENTIFY again and again\n")
		case 4:
			buf.WriteString("\xc2\xa0IDENTIFY \t\n\x00\x00\x00\x02{}")
		default:
			buf.WriteString("IDENTIFY\n\x00\x00")
		}
		expect = "E_INVALID"
		hist[fmt.Sprintf("ident:re-identify-%d", shape)]++
	case k < 17:
		buf.WriteString(vfE4Pick(r, []string{"register t", "Unregister t c", "PINGX", "PUB t", "SUB t c", "NOP", "\x00", "REGISTER\tt c", "IDENTIFY2", ""}) + "\n")
		hist["ident:unknown"]++
	case k < 18:
		buf.WriteString(cmd + " " + strings.Repeat("A", 1000+r.Intn(70000)) + "\n")
		hist["ident:long-name"]++
	case k < 19:
		buf.WriteString(vfE4Pick(r, []string{"REGISTER", "UNREGISTER", "REGISTER ", "UNREGISTER  c", "REGISTER  c"}) + "\n")
		hist["ident:argcount"]++
	default:
		buf.WriteString(strings.Repeat("B", 5000+r.Intn(100000)) + vfE4Pick(r, []string{"\n", "", " t\n"}))
		hist["ident:long-line"]++
	}
	if r.Intn(2) == 0 {
		buf.WriteString("PING\nREGISTER after c\n") // never executed: every error is fatal
	}
	hist["stream:identified-hostile"]++
	if expect != "" {
		// what the protocol description demands as the LAST reply, judged by the generator itself (independent of the
		// model and of the package's own name check): python oracle `documented-error-missing`
		return buf.Bytes(), []string{"expect=" + expect}
	}
	return buf.Bytes(), nil
}

var vfE4NameRe = regexp.MustCompile(`^[.a-zA-Z0-9_-]+(#ephemeral)?$`)

// vfE4ExpectNameErr: the error the LAST line of the stream (REGISTER/UNREGISTER <topic> [<channel>] …) must get
func vfE4ExpectNameErr(stream []byte) string {
	lines := strings.Split(strings.TrimSuffix(string(stream), "\n"), "\n")
	f := strings.Split(lines[len(lines)-1], " ")
	ok := func(n string) bool { return len(n) >= 1 && len(n) <= 64 && vfE4NameRe.MatchString(n) }
	if len(f) < 2 || !ok(f[1]) {
		return "E_BAD_TOPIC"
	}
	if len(f) >= 3 && f[2] != "" && !ok(f[2]) {
		return "E_BAD_CHANNEL"
	}
	return "" // e.g. the bad name contained a blank and fell apart into two good ones
}

// vfE4MagicPins: the magic is pinned by behaviour (the textual tie cannot tell "  V1" from " V1")
var vfE4MagicPins = []string{"  V1", " V1", "  V2", "  v1", " V1 ", "V1  ", "\tV1 ", "  V1\n", "   V1"}

func vfE4GenStream(r *vfRand, noneg bool, hist map[string]int) ([]byte, []string) {
	var buf bytes.Buffer
	var dec []string
	switch r.Intn(12) {
	case 0:
		buf.Write([]byte(vfE4Pick(r, []string{"  V2", "V1  ", "\x00\x00\x00\x00", " V1\n", "GET ", "  v1"})))
		hist["magic:bad"]++
	case 1:
		buf.WriteString("  V1"[:r.Intn(4)])
		hist["magic:short"]++
		return buf.Bytes(), nil
	default:
		buf.WriteString("  V1")
	}
	n := 1 + r.Intn(6)
	for i := 0; i < n; i++ {
		name := func() string {
			if r.Intn(4) == 0 {
				return vfE4Pick(r, vfE4BadNames)
			}
			return vfE4Pick(r, vfE4GoodNames)
		}
		var line string
		k := r.Intn(20)
		switch {
		case k < 5:
			body := vfE4Body(r)
			if d := vfE4Decode(body); d != "" {
				dec = append(dec, d)
			}
			buf.Write(vfE4Identify(r, body, noneg, hist))
			hist["line:IDENTIFY"]++
			continue
		case k < 8:
			line = "REGISTER " + name()
			if r.Intn(2) == 0 {
				line += " " + name()
			}
			hist["line:REGISTER"]++
		case k < 11:
			line = "UNREGISTER " + name()
			if r.Intn(2) == 0 {
				line += " " + name()
			}
			hist["line:UNREGISTER"]++
		case k < 13:
			line = "PING"
			hist["line:PING"]++
		case k == 13:
			line = vfE4Pick(r, []string{"REGISTER", "UNREGISTER", "REGISTER ", "UNREGISTER  ", "REGISTER t c extra more", "REGISTER  c", "UNREGISTER t  c"})
			hist["line:argcount"]++
		case k == 14:
			line = vfE4Pick(r, []string{"", " ", "ping", "Ping", "PINGX", "PUB t", "SUB t c", "NOP", "IDENTIFY2", "\x00", "REGISTER\tt", "GET / HTTP/1.1", "PING PING", "IDENTIFY extra"})
			hist["line:unknown"]++
		case k == 15:
			// white space (Unicode aware TrimSpace) around a command
			line = vfE4Pick(r, vfE4Spaces) + vfE4Pick(r, []string{"PING", "REGISTER t", "UNREGISTER t c"}) + vfE4Pick(r, vfE4Spaces)
			hist["line:space"]++
		case k == 16:
			line = vfE4Pick(r, vfE4NotSpaces) + vfE4Pick(r, []string{"PING", "REGISTER t"}) + vfE4Pick(r, vfE4NotSpaces)
			hist["line:notspace"]++
		case k == 17:
			line = "REGISTER " + strings.Repeat("A", 1000+r.Intn(20000))
			hist["line:long"]++
		case k == 18:
			line = string(r.Bytes(1 + r.Intn(30)))
			line = strings.ReplaceAll(line, "\n", "x")
			hist["line:random"]++
		default:
			line = "PING\r"
			hist["line:crlf"]++
		}
		if i == n-1 && r.Intn(6) == 0 {
			buf.WriteString(line) // last line without newline: stream ends inside a line
			hist["line:unterminated"]++
		} else {
			buf.WriteString(line + "\n")
		}
	}
	return buf.Bytes(), dec
}

// vfE4DecodeTable: every byte range the server could hand to json.Unmarshal for this stream
// (after any "IDENTIFY\n" + 4-byte size that fits), with what encoding/json makes of it.
func vfE4DecodeTable(data []byte) []string {
	seen := map[string]bool{}
	var out []string
	pat := []byte("IDENTIFY")
	for i := 0; i+len(pat) <= len(data); i++ {
		if !bytes.Equal(data[i:i+len(pat)], pat) {
			continue
		}
		// the rest of the line (anything up to the newline), then the size
		j := bytes.IndexByte(data[i:], '\n')
		if j < 0 {
			continue
		}
		k := i + j + 1
		if k+4 > len(data) {
			continue
		}
		n := int(int32(binary.BigEndian.Uint32(data[k : k+4])))
		if n <= 0 || k+4+n > len(data) || n > 1<<16 {
			continue
		}
		if d := vfE4Decode(data[k+4 : k+4+n]); d != "" && !seen[d] {
			seen[d] = true
			out = append(out, d)
		}
	}
	return out
}

// TestVerifE4Hostile: generated hostile streams, each on a fresh connection, next to the
// bystander. The line about to run is printed (and flushed) first, so a dying process names
// its input.
func TestVerifE4Hostile(t *testing.T) {
	n := vfEnvInt("VERIF_N", 500)
	shard := vfEnvInt("VERIF_SHARD", 0)
	noneg := os.Getenv("VERIF_NONEG") == "1"
	variant := os.Getenv("VERIF_VARIANT")
	if variant == "" {
		variant = "fixed"
	}
	env := vfE4Start(os.Getenv("VERIF_INPROC") != "1", []string{"t", "e#ephemeral", "x1", "zz"}) // queries through the real listener
	env.plainID = true // the bystander is well-behaved: the attack comes from the spoof / stream ops
	defer env.Stop()
	out := vfOpen(fmt.Sprintf("hostile_%d", shard))
	defer out.Close()
	out.Case(env.ConfLine(variant), "conf")
	r := vfNewRand(1500 + uint64(shard))
	hist := map[string]int{}
	id, by := 1, 0
	for i := 0; i < n; i++ {
		if i%40 == 0 {
			out.Case("reset", env.Exec("reset"))
			vfE4SetupBystander(env, out, id)
			by = id
			id++
		}
		var line string
		pin := i - 1 // the first cases of every shard pin the magic
		if r.Intn(4) == 0 && !(pin >= 0 && pin < len(vfE4MagicPins)) {
			line = vfE4GenSpoof(r, hist, env.vnow, id, by)
		} else {
			var data []byte
			var toks []string
			if pin >= 0 && pin < len(vfE4MagicPins) {
				data = []byte(vfE4MagicPins[pin] + "PING\nPING\n")
				hist["magic:pinned"]++
			} else if r.Intn(5) == 0 {
				data, toks = vfE4GenTrailing(r, hist)
			} else if r.Intn(2) == 0 {
				data, toks = vfE4GenIdentified(r, hist)
			} else {
				data, _ = vfE4GenStream(r, noneg, hist)
			}
			dec := vfE4DecodeTable(data)
			line = fmt.Sprintf("%d stream %d %s", env.vnow, id, vfHex(data))
			if len(dec) > 0 {
				line += " " + strings.Join(dec, " ")
			}
			if len(toks) > 0 {
				line += " " + strings.Join(toks, " ")
			}
		}
		id++
		if len(line) < 40000 {
			fmt.Printf("E4-CURRENT %s\n", line)
		} else {
			fmt.Printf("E4-CURRENT (long line, %d bytes)\n", len(line))
		}
		os.Stdout.Sync()
		out.Case(line, env.Exec(line))
		if i%8 == 7 {
			// the bystander keeps working after the hostile input
			p := fmt.Sprintf("%d ping %d", env.vnow, by)
			out.Case(p, env.Exec(p))
		}
	}
	fmt.Printf("E4-HOSTILE cases=%d lines=%d\n", n, out.N)
	vfE4PrintHist("hostile", hist)
	vfE4PrintHist("hostile-out", env.hist)
}

// TestVerifE4HttpSweep: every route x method x argument subset (and value class).
func TestVerifE4HttpSweep(t *testing.T) {
	full := os.Getenv("VERIF_FULL") == "1"
	// every request goes through the daemon's REAL listener and the httpServer instance `Main` created
	// (VERIF_INPROC=1: ServeHTTP on a second server object, for comparison only)
	env := vfE4Start(os.Getenv("VERIF_INPROC") != "1", []string{"t", "e#ephemeral", "new1", "zz"})
	defer env.Stop()
	out := vfOpen("sweep")
	defer out.Close()
	out.Case(env.ConfLine("fixed"), "conf")
	api := []struct{ m, p string }{
		{"GET", "/ping"}, {"GET", "/info"}, {"GET", "/debug"}, {"GET", "/lookup"}, {"GET", "/topics"},
		{"GET", "/channels"}, {"GET", "/nodes"}, {"POST", "/topic/create"}, {"POST", "/topic/delete"},
		{"POST", "/channel/create"}, {"POST", "/channel/delete"}, {"POST", "/topic/tombstone"},
	}
	other := []string{"/debug/pprof", "/debug/pprof/cmdline", "/debug/pprof/symbol", "/debug/pprof/heap",
		"/debug/pprof/goroutine", "/debug/pprof/block", "/debug/pprof/threadcreate", "/nope", "/", "/lookup/x", "/topic"}
	methods := []string{"GET", "POST", "PUT", "DELETE", "OPTIONS", "HEAD", "PATCH"}
	arg := func(s string) string {
		if s == "_" {
			return "_"
		}
		return vfHex([]byte(s))
	}
	topics := []string{"_", "t", "new1", "e#ephemeral", "bad name!", "", "*", strings.Repeat("n", 65)}
	chans := []string{"_", "c", "d#ephemeral", "bad name", "", "*"}
	nodes := []string{"_", vfE4Bystander, "nobody:1", "", "*"}
	id := 1
	count := 0
	emit := func(m, p, bad, tp, ch, nd string) {
		if count%60 == 0 {
			out.Case("reset", env.Exec("reset"))
			vfE4SetupBystander(env, out, id)
			id++
		}
		count++
		line := fmt.Sprintf("%d raw %s %s %s %s %s %s", env.vnow, m, p, bad, arg(tp), arg(ch), arg(nd))
		if p == "/topic/tombstone" && m == "POST" && tp == "*" && nd != "_" && bad == "0" {
			// effect depends on Go map order (one arbitrary topic per peer): compare the status only,
			// then start from a clean registry
			line = "st " + line
			out.Case(line, env.Exec(line))
			count = 0
			return
		}
		out.Case(line, env.Exec(line))
	}
	for _, a := range api {
		for _, tp := range topics {
			for _, ch := range chans {
				for _, nd := range nodes {
					uses := map[string]string{"/lookup": "t", "/channels": "t", "/topic/create": "t", "/topic/delete": "t",
						"/channel/create": "tc", "/channel/delete": "tc", "/topic/tombstone": "tn"}[a.p]
					if !full {
						// arguments a handler never reads: only absent / one present value
						if !strings.Contains(uses, "t") && tp != "_" && tp != "t" {
							continue
						}
						if !strings.Contains(uses, "c") && ch != "_" && ch != "c" {
							continue
						}
						if !strings.Contains(uses, "n") && nd != "_" && nd != vfE4Bystander {
							continue
						}
					}
					emit(a.m, a.p, "0", tp, ch, nd)
				}
			}
		}
		emit(a.m, a.p, "1", "t", "c", vfE4Bystander)
		emit(a.m, a.p, "1", "_", "_", "_")
		for _, m := range methods {
			if m == a.m {
				continue
			}
			emit(m, a.p, "0", "t", "c", vfE4Bystander)
			emit(m, a.p, "0", "_", "_", "_")
		}
	}
	for _, p := range other {
		for _, m := range methods {
			emit(m, p, "0", "t", "c", vfE4Bystander)
		}
	}
	// ---- non-canonical paths (audit C11): httprouter cleans / case-folds / repairs the trailing slash and REDIRECTS
	// (301 GET, 307 other methods with a tree) instead of answering 404; never a handler, never an effect.
	cls := map[string]int{}
	var paths []string
	seenP := map[string]bool{}
	for _, a := range api {
		if !seenP[a.p] {
			seenP[a.p] = true
			paths = append(paths, a.p)
		}
	}
	paths = append(paths, "/debug/pprof", "/debug/pprof/cmdline", "/debug/pprof/symbol", "/debug/pprof/profile", "/debug/pprof/heap",
		"/debug/pprof/goroutine", "/debug/pprof/block", "/debug/pprof/threadcreate")
	title := func(p string) string {
		b := []byte(p)
		for i := 1; i < len(b); i++ {
			if b[i-1] == '/' && b[i] >= 'a' && b[i] <= 'z' {
				b[i] -= 32
			}
		}
		return string(b)
	}
	variant := func(p string) [][2]string {
		return [][2]string{{"trailing-slash", p + "/"}, {"upper", strings.ToUpper(p)}, {"title", title(p)}, {"double-slash", "/" + p},
			{"inner-double-slash", strings.Replace(p[1:], "/", "//", 1)}, {"dot", "/." + p}, {"dotdot", "/x/.." + p}, {"final-dot", p + "/."},
			{"two-trailing", p + "//"}, {"upper-trailing", strings.ToUpper(p) + "/"}, {"dotdot-past-root", "/../.." + p}, {"suffix", p + "x"},
			{"final-dotdot", p + "/y/.."}}
	}
	vmethods := []string{"GET", "POST", "PUT", "OPTIONS", "HEAD", "DELETE"}
	k := 0
	for _, p := range paths {
		for _, v := range variant(p) {
			vp := v[1]
			if !strings.HasPrefix(vp, "/") {
				vp = "/" + vp
			}
			for _, m := range vmethods {
				k++
				if !full && m != "GET" && m != "POST" && k%3 != 0 {
					continue // quick: the methods without a tree on every third variant
				}
				cls["variant:"+v[0]]++
				emit(m, vp, "0", "t", "c", vfE4Bystander)
			}
		}
	}
	for _, p := range []string{"/topic/", "/channel/", "/debug/", "/debug/pprof/", "/topic", "/channel", "//", "/.", "/..", "/./", "/lookup/../lookup",
		"/topic/../topic/delete", "/TOPIC/DELETE/", "/Debug/Pprof/Heap/", "/lookup/lookup", "/topics/x", "/nodes//", "/p", "/pin", "/pingg", "/debug/ppro", "/debug/pprof/hea"} {
		for _, m := range vmethods {
			cls["variant:prefix-or-near-miss"]++
			emit(m, p, "0", "t", "c", vfE4Bystander)
		}
	}
	// `OPTIONS *` (other methods with `*` are refused by net/http itself, 400, before any handler)
	if env.realHTTP { // (a request line `OPTIONS *` cannot be built for the in-process comparison run)
		cls["variant:star"]++
		emit("OPTIONS", "*", "0", "t", "c", vfE4Bystander)
	}
	// ---- pprof rows with odd arguments: the answer is one of a SET (driver = acceptor, `obs=`); direct oracle on the
	// text of every non-200 answer. (`profile` without a valid `seconds` would run for 30 s: not sent.)
	pp := func(m, p, q string, bg bool) {
		if count%60 == 0 {
			out.Case("reset", env.Exec("reset"))
			vfE4SetupBystander(env, out, id)
			id++
		}
		count++
		var done chan int
		if bg {
			// another CPU profile is running while the request is made: the documented pprof-busy case
			done = make(chan int, 1)
			go func() {
				c, _ := env.httpDo("GET", "/debug/pprof/profile", "seconds=1")
				done <- c
			}()
			for i := 0; i < 300 && !vfE4CPUProfiling(); i++ {
				time.Sleep(time.Millisecond)
			}
		}
		line := fmt.Sprintf("%d raw %s %s 0 %s %s %s", env.vnow, m, p, arg("t"), arg("c"), arg(vfE4Bystander))
		if q != "" {
			line += " q=" + vfHex([]byte(q))
		}
		line, res := env.ExecX(line)
		out.Case(line, res)
		st := strings.Fields(res)[0]
		cls["pprof:"+p[len("/debug/pprof"):]+"?"+q+":"+st]++
		body := strings.TrimSpace(string(env.lastBody))
		if len(body) > 120 {
			body = body[:120]
		}
		switch {
		case st == "status=200" || m != "GET":
		case st == "status=400" && strings.Contains(q, "seconds=") && (strings.Contains(body, "seconds")):
		case st == "status=500" && p == "/debug/pprof/profile" && bg && strings.HasPrefix(body, "Could not enable CPU profiling"):
		default:
			fmt.Printf("E4-ORACLE pprof-undocumented-answer %s %s?%s -> %s %q | %s\n", m, p, q, st, body, line)
		}
		if bg {
			cls[fmt.Sprintf("pprof:background-profile:%d", <-done)]++
		}
	}
	oddq := []string{"", "seconds=x", "seconds=0", "seconds=-1", "seconds=", "seconds=99999999999999999999", "seconds=1&debug=1", "debug=1", "debug=2",
		"debug=x", "gc=1", "gc=x&debug=1", "%zz", "seconds=x&seconds=1"}
	for _, p := range []string{"/debug/pprof/heap", "/debug/pprof/goroutine", "/debug/pprof/block", "/debug/pprof/threadcreate"} {
		for _, q := range oddq {
			pp("GET", p, q, false)
		}
	}
	for _, p := range []string{"/debug/pprof/cmdline", "/debug/pprof/symbol"} {
		for _, q := range []string{"", "seconds=x", "debug=1", "0x1"} {
			pp("GET", p, q, false)
		}
	}
	pp("POST", "/debug/pprof/symbol", "", false)
	pp("GET", "/debug/pprof/heap", "seconds=1", false)    // a real delta profile (1 s)
	pp("GET", "/debug/pprof/profile", "seconds=1", true)  // while another CPU profile runs: 500 is the documented answer
	pp("GET", "/debug/pprof/profile", "seconds=1", false) // undisturbed: 200
	vfE4PrintHist("sweep-classes", cls)
	fmt.Printf("E4-SWEEP requests=%d lines=%d\n", count, out.N)
	vfE4PrintHist("sweep", env.hist)
}
