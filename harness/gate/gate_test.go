package nsqd

// Correspondence + direct-oracle harness for property C11 (engine `gate`): the TLS-required gate
// and the AUTH gate of nsqd, driven through real TCP connections (real crypto/tls, the repo's
// test certificates) against in-process nsqd instances, one per policy configuration, each
// with its own stub auth server whose answer is scripted per command.
//
// Streams written (see lean/DriverGate.lean for the line grammar):
//   gate.ops / gate.impl      cfg, http, conn, c, cx, x lines
//   gateia.ops / gateia.impl  ia (auth.State.IsAllowed) and rx (regexp family) lines
// Direct oracle lines on stdout: ORACLE-FAIL <key> | <detail>   and   ORACLE-OK checks=<n>

import (
	"bytes"
	"crypto/tls"
	"encoding/binary"
	"encoding/hex"
	"encoding/json"
	"fmt"
	"io"
	"net"
	"net/http"
	"net/http/httptest"
	"os"
	"path/filepath"
	"regexp"
	"sort"
	"strings"
	"sync"
	"sync/atomic"
	"testing"
	"time"

	"github.com/nsqio/nsq/internal/auth"
)

// ---------------------------------------------------------------------------- small helpers

// small limits so that no command body outgrows a socket buffer (a rejected command is answered
// before its body is read)
const vfGateMaxMsg = 1024
const vfGateMaxBody = 8192

type vfGateNullLogger struct{}

func (vfGateNullLogger) Output(int, string) error { return nil }

func vfGateHexS(s string) string { return vfHex([]byte(s)) }

func vfGateList(xs []string) string {
	if len(xs) == 0 {
		return "~"
	}
	h := make([]string, len(xs))
	for i, x := range xs {
		h[i] = vfGateHexS(x)
	}
	return strings.Join(h, ",")
}

func vfGateB(b bool) string {
	if b {
		return "1"
	}
	return "0"
}

// ---------------------------------------------------------------------------- auth answers

type vfGateGrant struct {
	Topic    string
	Channels []string
	Perms    []string
}

type vfGateAns struct {
	Err      int // 0 = a 200 answer, 1 = HTTP 500, 2 = 200 with a body that is not JSON
	TTL      int
	Identity string
	URL      string
	Grants   []vfGateGrant
}

func vfGateGrantsLine(gs []vfGateGrant) string {
	if len(gs) == 0 {
		return "~"
	}
	parts := make([]string, len(gs))
	for i, g := range gs {
		parts[i] = vfGateHexS(g.Topic) + "/" + vfGateList(g.Channels) + "/" + vfGateList(g.Perms)
	}
	return strings.Join(parts, ";")
}

func (a vfGateAns) Line() string {
	if a.Err != 0 {
		return "E"
	}
	return fmt.Sprintf("A:%d:%s:%s:%s", a.TTL, vfGateHexS(a.Identity), vfGateHexS(a.URL), vfGateGrantsLine(a.Grants))
}

// valid as auth.QueryAuthd documents it (evaluated with the real regexp package, not the model)
func (a vfGateAns) Valid() bool {
	if a.Err != 0 || a.TTL <= 0 {
		return false
	}
	for _, g := range a.Grants {
		for _, p := range g.Perms {
			if p != "subscribe" && p != "publish" {
				return false
			}
		}
		if _, err := regexp.Compile(g.Topic); err != nil {
			return false
		}
		for _, c := range g.Channels {
			if _, err := regexp.Compile(c); err != nil {
				return false
			}
		}
	}
	return true
}

// the property's reading of "the grants allow (permission, topic, channel)"
func vfGateSpecAllowed(gs []vfGateGrant, topic, channel string) bool {
	need := "publish"
	if channel != "" {
		need = "subscribe"
	}
	for _, g := range gs {
		has := false
		for _, p := range g.Perms {
			if p == need {
				has = true
			}
		}
		if !has {
			continue
		}
		if ok, _ := regexp.MatchString(g.Topic, topic); !ok {
			continue
		}
		for _, c := range g.Channels {
			if ok, _ := regexp.MatchString(c, channel); ok {
				return true
			}
		}
	}
	return false
}

type vfGateSeen struct {
	TLS, CN, Secret, IP string
	Method              string
}

type vfGateStub struct {
	mu   sync.Mutex
	ans  vfGateAns
	seen []vfGateSeen
	srv  *httptest.Server
}

func vfGateNewStub() *vfGateStub {
	s := &vfGateStub{}
	s.srv = vfUnstartedServer(http.HandlerFunc(func(w http.ResponseWriter, r *http.Request) {
		r.ParseForm()
		s.mu.Lock()
		s.seen = append(s.seen, vfGateSeen{r.Form.Get("tls"), r.Form.Get("common_name"), r.Form.Get("secret"), r.Form.Get("remote_ip"), r.Method})
		a := s.ans
		s.mu.Unlock()
		switch a.Err {
		case 1:
			w.WriteHeader(500)
			io.WriteString(w, `{"message":"boom"}`)
			return
		case 2:
			io.WriteString(w, `{{{not json`)
			return
		}
		type authz struct {
			Topic       string   `json:"topic"`
			Channels    []string `json:"channels"`
			Permissions []string `json:"permissions"`
		}
		out := struct {
			TTL            int     `json:"ttl"`
			Identity       string  `json:"identity"`
			IdentityURL    string  `json:"identity_url"`
			Authorizations []authz `json:"authorizations"`
		}{TTL: a.TTL, Identity: a.Identity, IdentityURL: a.URL}
		for _, g := range a.Grants {
			out.Authorizations = append(out.Authorizations, authz{g.Topic, g.Channels, g.Perms})
		}
		json.NewEncoder(w).Encode(out)
	}))
	s.srv.Config.SetKeepAlivesEnabled(false)
	s.srv.Start()
	return s
}

func (s *vfGateStub) Script(a vfGateAns) {
	s.mu.Lock()
	s.ans = a
	s.seen = nil
	s.mu.Unlock()
}

func (s *vfGateStub) Seen() []vfGateSeen {
	s.mu.Lock()
	defer s.mu.Unlock()
	return append([]vfGateSeen(nil), s.seen...)
}

// ---------------------------------------------------------------------------- broker snapshot

type vfGateTopicSnap struct {
	Msgs  uint64
	Chans map[string]int
}

func vfGateSnap(n *NSQD) map[string]vfGateTopicSnap {
	n.RLock()
	topics := make([]*Topic, 0, len(n.topicMap))
	for _, t := range n.topicMap {
		topics = append(topics, t)
	}
	n.RUnlock()
	out := map[string]vfGateTopicSnap{}
	for _, t := range topics {
		s := vfGateTopicSnap{Msgs: atomic.LoadUint64(&t.messageCount), Chans: map[string]int{}}
		t.RLock()
		chans := make([]*Channel, 0, len(t.channelMap))
		for _, c := range t.channelMap {
			chans = append(chans, c)
		}
		t.RUnlock()
		for _, c := range chans {
			c.RLock()
			s.Chans[c.name] = len(c.clients)
			c.RUnlock()
		}
		out[t.name] = s
	}
	return out
}

func vfGateSnapLine(m map[string]vfGateTopicSnap) string {
	if len(m) == 0 {
		return "-"
	}
	var ts []string
	for name, s := range m {
		var cs []string
		for c, k := range s.Chans {
			cs = append(cs, fmt.Sprintf("%s:%d", c, k))
		}
		sort.Strings(cs)
		ts = append(ts, fmt.Sprintf("%s(%d)[%s]", name, s.Msgs, strings.Join(cs, ",")))
	}
	sort.Strings(ts)
	return strings.Join(ts, ";")
}

// grew: a topic / channel / message / subscription appeared
func vfGateGrew(a, b map[string]vfGateTopicSnap) bool {
	for name, sb := range b {
		sa, ok := a[name]
		if !ok || sb.Msgs > sa.Msgs {
			return true
		}
		for c, k := range sb.Chans {
			ka, ok := sa.Chans[c]
			if !ok || k > ka {
				return true
			}
		}
	}
	return false
}

// ---------------------------------------------------------------------------- one nsqd instance

type vfGateCfg struct {
	TLSReq int    // the --tls-required flag: 0 false, 1 tcp-https, 2 true
	Policy string // --tls-client-auth-policy
	Cert   bool
	Auth   bool
	Auth2  bool // two --auth-http-address entries, one of which refuses connections
}

func (c vfGateCfg) Line() string {
	a := 0
	if c.Auth {
		a = 1
		if c.Auth2 {
			a = 2
		}
	}
	return fmt.Sprintf("cfg %d %s %s %d %d %d", c.TLSReq, vfGateHexS(c.Policy), vfGateB(c.Cert), a, vfGateMaxBody, vfGateMaxMsg)
}

// what the documentation says: TLS is required if the flag says so or a client-cert policy is set
func (c vfGateCfg) DocTLSRequired() int {
	if c.TLSReq == 0 && c.Policy != "" {
		return 2
	}
	return c.TLSReq
}

type vfGateLines struct {
	ops, impl []string
	oracle    []string
	checks    int
	hist      map[string]int
}

func (l *vfGateLines) Case(op, impl string) {
	l.ops = append(l.ops, op)
	l.impl = append(l.impl, impl)
}

// Fail records an oracle failure; "@n" is the index of the op line it is about (the line being
// produced right now), made global when the instance's lines are written out.
func (l *vfGateLines) Fail(key, detail string) {
	l.oracle = append(l.oracle, fmt.Sprintf("ORACLE-FAIL %s @%d | %s", key, len(l.ops), detail))
}

type vfGateInst struct {
	cfg     vfGateCfg
	nsqd    *NSQD
	stub    *vfGateStub
	certs   string
	r       *vfRand
	out     *vfGateLines
	nextID  int
	fresh   int
	tag     string
	tcpAddr string
}

func vfGateStart(cfg vfGateCfg, certs string, stub *vfGateStub, dataDir string) (*NSQD, error) {
	opts := NewOptions()
	opts.Logger = vfGateNullLogger{}
	opts.LogLevel = LOG_FATAL
	opts.TCPAddress, opts.HTTPAddress, opts.HTTPSAddress = vfLoop3()
	opts.DataPath = dataDir
	opts.MaxMsgSize = vfGateMaxMsg
	opts.MaxBodySize = vfGateMaxBody
	opts.TLSRequired = cfg.TLSReq
	opts.TLSClientAuthPolicy = cfg.Policy
	if cfg.Policy == "require-verify" {
		// (with a CA list in the CertificateRequest a Go client would not even offer the self-signed
		// certificate, so the list is configured only where it is needed)
		opts.TLSRootCAFile = filepath.Join(certs, "ca.pem")
	}
	if cfg.Cert {
		opts.TLSCert = filepath.Join(certs, "server.pem")
		opts.TLSKey = filepath.Join(certs, "server.key")
	}
	if cfg.Auth {
		opts.AuthHTTPAddresses = []string{strings.TrimPrefix(stub.srv.URL, "http://")}
		if cfg.Auth2 {
			// a port nobody listens on: QueryAnyAuthd must fall through to the live server whatever
			// the (random) order in which it tries them
			// (a process-private loopback IP, port 1: dead for every process of the host — vfLoopDead)
			opts.AuthHTTPAddresses = append(opts.AuthHTTPAddresses, vfLoopDead())
		}
	}
	n, err := New(opts)
	if err != nil {
		return nil, err
	}
	go func() { n.Main() }()
	return n, nil
}

// ---------------------------------------------------------------------------- client connection

type vfGateConn struct {
	inst    *vfGateInst
	id      int
	raw     net.Conn
	cur     net.Conn // raw or the TLS layer
	tlsDone bool     // the client completed a handshake and then read the server's OK over it
	client  *clientV2
	closed  bool
	// what the harness knows independently of the implementation
	vnow     int64
	expV     int64
	inForce  *vfGateAns // last valid answer served to this connection
	authOK   bool       // a successful AUTH reply was seen
	deep     bool
	secret   string
	identTLS bool
	tap      *vfGateTap // every byte read off the raw socket (what travels underneath TLS)
	poisoned bool       // audit A2: the server answered in cleartext underneath TLS; the client gives the connection up
}

// vfGateTap records what is read off the raw socket.
type vfGateTap struct {
	net.Conn
	mu  sync.Mutex
	got []byte
}

func (t *vfGateTap) Read(p []byte) (int, error) {
	n, err := t.Conn.Read(p)
	if n > 0 {
		t.mu.Lock()
		t.got = append(t.got, p[:n]...)
		t.mu.Unlock()
	}
	return n, err
}

func (t *vfGateTap) mark() int {
	t.mu.Lock()
	defer t.mu.Unlock()
	return len(t.got)
}

func (t *vfGateTap) since(m int) []byte {
	t.mu.Lock()
	defer t.mu.Unlock()
	return append([]byte(nil), t.got[m:]...)
}

// vfGateParseFrame: a complete protocol frame at the start of raw bytes, or nil.
func vfGateParseFrame(b []byte) *vfGateFrame {
	if len(b) < 8 {
		return nil
	}
	size := int32(binary.BigEndian.Uint32(b[:4]))
	typ := int32(binary.BigEndian.Uint32(b[4:8]))
	if size < 4 || size > 1<<16 || typ < 0 || typ > 2 || len(b) < int(size)+4 {
		return nil
	}
	return &vfGateFrame{typ, append([]byte(nil), b[8:4+size]...)}
}

func (in *vfGateInst) dial() (*vfGateConn, error) {
	raw, err := net.DialTimeout("tcp", in.tcpAddr, 5*time.Second)
	if err != nil {
		return nil, err
	}
	if _, err := raw.Write([]byte("  V2")); err != nil {
		return nil, err
	}
	c := &vfGateConn{inst: in, raw: raw, cur: raw, vnow: 1000, tap: &vfGateTap{Conn: raw}}
	in.nextID++
	c.id = in.nextID
	me := raw.LocalAddr().String()
	deadline := time.Now().Add(5 * time.Second)
	for c.client == nil {
		in.nsqd.tcpServer.conns.Range(func(k, v interface{}) bool {
			if k.(net.Addr).String() == me {
				// (since F23 the bare net.Conn is registered first, the client object once the magic is read)
				if cl, ok := v.(*clientV2); ok {
					c.client = cl
				}
				return false
			}
			return true
		})
		if c.client == nil {
			if time.Now().After(deadline) {
				return nil, fmt.Errorf("server never registered the connection")
			}
			time.Sleep(100 * time.Microsecond)
		}
	}
	return c, nil
}

func (c *vfGateConn) waitGone() {
	me := c.raw.LocalAddr().String()
	deadline := time.Now().Add(5 * time.Second)
	for {
		found := false
		c.inst.nsqd.tcpServer.conns.Range(func(k, v interface{}) bool {
			if k.(net.Addr).String() == me {
				found = true
				return false
			}
			return true
		})
		if !found || time.Now().After(deadline) {
			return
		}
		time.Sleep(100 * time.Microsecond)
	}
}

type vfGateFrame struct {
	typ  int32
	data []byte
}

// readFrame: (frame, nil) | (nil, io.EOF-like error) ; a timeout is reported as errTimeout
func (c *vfGateConn) readFrame(d time.Duration) (*vfGateFrame, error) {
	c.cur.SetReadDeadline(time.Now().Add(d))
	var hdr [8]byte
	if _, err := io.ReadFull(c.cur, hdr[:]); err != nil {
		return nil, err
	}
	size := int32(binary.BigEndian.Uint32(hdr[:4]))
	typ := int32(binary.BigEndian.Uint32(hdr[4:]))
	if size < 4 || size > 1<<20 {
		return nil, fmt.Errorf("bad frame size %d", size)
	}
	data := make([]byte, size-4)
	if _, err := io.ReadFull(c.cur, data); err != nil {
		return nil, err
	}
	return &vfGateFrame{typ, data}, nil
}

func vfGateMin(a, b int) int {
	if a < b {
		return a
	}
	return b
}

func vfGateIsTimeout(err error) bool {
	ne, ok := err.(net.Error)
	return ok && ne.Timeout()
}

func (c *vfGateConn) exitClosed() bool {
	select {
	case <-c.client.ExitChan:
		return true
	default:
		return false
	}
}

// after an error frame: does the server close the connection? (no sleep in the fatal case)
func (c *vfGateConn) closesAfterError() bool {
	for i := 0; i < 2; i++ {
		d := 300 * time.Millisecond
		if i == 1 {
			d = 5 * time.Second
		}
		_, err := c.readFrame(d)
		if err == nil {
			return false // something else arrived: certainly still open
		}
		if !vfGateIsTimeout(err) {
			return true
		}
		if !c.exitClosed() {
			return false
		}
	}
	return true
}

// ---------------------------------------------------------------------------- command plans

type vfGateCmd struct {
	Name   string
	Args   []string // params[1:]
	Size   int      // declared body size
	Body   []byte   // bytes actually sent after the size (nil: nothing is sent)
	Secret string
	// IDENTIFY
	BodyOK, FN, TLSv1, HbOff bool
	HbOn                     bool // a permitted positive heartbeat_interval (audit B24: re-enables heartbeats)
	Ob                       int  // output_buffer_size, 0 = absent (audit A2: IDENTIFY again after the TLS upgrade)
	Cert                     string // nohs | nocert | untrusted | trusted
	// MPUB
	Count int
	Sizes []int
	Unk   string
}

var vfGateCN = map[string]string{"untrusted": "test.local", "trusted": "nsq.io"}

func (k vfGateCmd) Line() string {
	switch k.Name {
	case "IDENTIFY":
		cert := k.Cert
		if cn, ok := vfGateCN[cert]; ok {
			cert += ":" + vfGateHexS(cn)
		}
		hb := vfGateB(k.HbOff)
		if k.HbOn {
			hb = "2"
		}
		l := fmt.Sprintf("IDENTIFY %s %s %s %s %s", vfGateB(k.BodyOK), vfGateB(k.FN), vfGateB(k.TLSv1), hb, cert)
		if k.Ob != 0 {
			l += fmt.Sprintf(" ob=%d", k.Ob)
		}
		return l
	case "AUTH":
		return fmt.Sprintf("AUTH %s %d %s", vfGateList(k.Args), k.Size, vfGateHexS(k.Secret))
	case "PUB", "DPUB":
		return fmt.Sprintf("%s %s %d", k.Name, vfGateList(k.Args), k.Size)
	case "MPUB":
		ss := "~"
		if len(k.Sizes) > 0 {
			p := make([]string, len(k.Sizes))
			for i, s := range k.Sizes {
				p[i] = fmt.Sprint(s)
			}
			ss = strings.Join(p, ",")
		}
		return fmt.Sprintf("MPUB %s %d %d %s", vfGateList(k.Args), k.Size, k.Count, ss)
	case "SUB", "RDY", "FIN", "REQ", "TOUCH":
		return k.Name + " " + vfGateList(k.Args)
	case "CLS", "NOP":
		return k.Name
	}
	return "UNK " + vfGateHexS(k.Unk)
}

// identBody builds the IDENTIFY JSON from the op's fields (one place: generator, forced plans, replay).
func (k *vfGateCmd) identBody() {
	if !k.BodyOK {
		k.Body = []byte("{{")
	} else {
		m := map[string]interface{}{"client_id": "v", "hostname": "h", "feature_negotiation": k.FN, "tls_v1": k.TLSv1}
		if k.HbOn {
			m["heartbeat_interval"] = 60000 // the permitted maximum: no heartbeat frame within a scenario's life
		} else if k.HbOff {
			m["heartbeat_interval"] = -1
		}
		if k.Ob != 0 {
			m["output_buffer_size"] = k.Ob
		}
		k.Body, _ = json.Marshal(m)
	}
	k.Size = len(k.Body)
}

func (k vfGateCmd) Wire() []byte {
	var b bytes.Buffer
	name := k.Name
	if name == "UNK" {
		name = k.Unk
	}
	b.WriteString(name)
	for _, a := range k.Args {
		b.WriteByte(' ')
		b.WriteString(a)
	}
	b.WriteByte('\n')
	switch k.Name {
	case "IDENTIFY", "AUTH", "PUB", "DPUB":
		binary.Write(&b, binary.BigEndian, int32(k.Size))
		b.Write(k.Body)
	case "MPUB":
		binary.Write(&b, binary.BigEndian, int32(k.Size))
		if k.Body != nil {
			b.Write(k.Body)
		}
	}
	return b.Bytes()
}

func (k vfGateCmd) silent() bool { return k.Name == "NOP" || k.Name == "RDY" }

func (k vfGateCmd) gated() bool {
	return k.Name == "PUB" || k.Name == "MPUB" || k.Name == "DPUB" || k.Name == "SUB"
}

// ---------------------------------------------------------------------------- executing one command

func vfGateErrCode(data []byte) string {
	s := string(data)
	if i := strings.IndexByte(s, ' '); i >= 0 {
		s = s[:i]
	}
	return s
}

func (c *vfGateConn) clientTLSConfig(kind string) *tls.Config {
	cfg := &tls.Config{InsecureSkipVerify: true}
	var cf, kf string
	switch kind {
	case "untrusted":
		cf, kf = "cert.pem", "key.pem"
	case "trusted":
		cf, kf = "client.pem", "client.key"
	default:
		return cfg
	}
	cert, err := tls.LoadX509KeyPair(filepath.Join(c.inst.certs, cf), filepath.Join(c.inst.certs, kf))
	if err != nil {
		panic(err)
	}
	cfg.Certificates = []tls.Certificate{cert}
	return cfg
}

// run executes one planned command and returns the implementation's canonical line.
// last: the client half-closes after sending (used for commands that may legitimately be silent).
func (c *vfGateConn) run(k vfGateCmd, ans vfGateAns, last bool) (op string, impl string) {
	in := c.inst
	in.stub.Script(ans)
	if c.client.AuthState != nil {
		// time is an input: make the cached authorization expire (or not) as the virtual clock says
		c.client.AuthState.Expires = time.Now().Add(time.Duration(c.expV-c.vnow) * time.Hour)
	}
	before := vfGateSnap(in.nsqd)
	wall0 := time.Now()
	verb := "c"
	if last {
		verb = "cx"
	}
	op = fmt.Sprintf("%s %d %d %s %s", verb, c.id, c.vnow, ans.Line(), k.Line())

	var replies []string
	closed := false
	firstErr := ""
	c.cur.SetWriteDeadline(time.Now().Add(5 * time.Second))
	tapMark := c.tap.mark()
	_, werr := c.cur.Write(k.Wire())
	if werr != nil {
		replies = append(replies, "WRITE-ERR")
		closed = true
		c.closed = true
	} else if last {
		if tc, ok := c.cur.(*tls.Conn); ok {
			tc.CloseWrite()
		} else {
			c.raw.(*net.TCPConn).CloseWrite()
		}
		for {
			f, err := c.readFrame(5 * time.Second)
			if err != nil {
				if vfGateIsTimeout(err) {
					replies = append(replies, "TIMEOUT")
				}
				break
			}
			if f.typ == frameTypeError {
				code := vfGateErrCode(f.data)
				if firstErr == "" {
					firstErr = code
				}
				replies = append(replies, code+":fatal")
				closed = true
			} else {
				replies = append(replies, string(f.data))
			}
		}
		c.waitGone()
		c.closed = true
	} else {
		f, err := c.readFrame(5 * time.Second)
		if err != nil && !vfGateIsTimeout(err) && c.tlsDone && k.Name == "IDENTIFY" && k.Ob != 0 {
			// audit A2 (finding second-identify-cleartext, fixed by F30 = /repo d6aa4e3): the answer to an IDENTIFY with an
			// output_buffer_size sent inside TLS arrived underneath it, as a plain frame on the raw socket
			// (with output_buffer_size -1 the frame leaves in three TCP writes: read the rest off the raw socket)
			pf := vfGateParseFrame(c.tap.since(tapMark))
			for dl := time.Now().Add(5 * time.Second); pf == nil && time.Now().Before(dl); pf = vfGateParseFrame(c.tap.since(tapMark)) {
				var b [256]byte
				c.raw.SetReadDeadline(time.Now().Add(200 * time.Millisecond))
				if _, rerr := c.tap.Read(b[:]); rerr != nil && !vfGateIsTimeout(rerr) {
					break
				}
			}
			if pf != nil {
				in.out.Fail("second-identify-cleartext", fmt.Sprintf("IDENTIFY with output_buffer_size %d sent inside TLS (tls-required=%d) was answered by a CLEARTEXT frame on the raw socket (%q; the TLS layer says: %v): the output writer was re-created on the raw connection [%s]",
					k.Ob, in.cfg.DocTLSRequired(), pf.data[:vfGateMin(len(pf.data), 24)], err, op))
				f, err = pf, nil
				c.poisoned = true // the line continues as the answer the server did send; the client then gives up
			}
		}
		switch {
		case err != nil && vfGateIsTimeout(err):
			replies = append(replies, "TIMEOUT")
			closed = true
		case err != nil:
			closed = true
		case f.typ == frameTypeError:
			code := vfGateErrCode(f.data)
			firstErr = code
			if c.closesAfterError() {
				replies = append(replies, code+":fatal")
				closed = true
			} else {
				replies = append(replies, code+":nonfatal")
			}
		case k.Name == "IDENTIFY" && len(f.data) > 0 && f.data[0] == '{':
			var r struct {
				TLSv1        bool `json:"tls_v1"`
				AuthRequired bool `json:"auth_required"`
			}
			json.Unmarshal(f.data, &r)
			replies = append(replies, fmt.Sprintf("ident:tls=%s:auth=%s", vfGateB(r.TLSv1), vfGateB(r.AuthRequired)))
			if r.TLSv1 {
				okTLS := false
				if k.Cert == "nohs" {
					c.cur.Write([]byte("GET / HTTP/1.0\r\n\r\n"))
				} else {
					tc := tls.Client(c.tap, c.clientTLSConfig(k.Cert))
					tc.SetDeadline(time.Now().Add(5 * time.Second))
					if err := tc.Handshake(); err == nil {
						tc.SetDeadline(time.Time{})
						c.cur = tc
						f2, err := c.readFrame(5 * time.Second)
						if err == nil && f2.typ == frameTypeResponse && string(f2.data) == "OK" {
							okTLS = true
						}
					}
				}
				if okTLS {
					replies = append(replies, "OK")
					if c.tlsDone {
						in.out.hist["tls-second-handshake-ok"]++
					}
					c.tlsDone = true
				} else {
					// the server's complaint is written in plaintext into what the client reads as a TLS
					// stream (or after garbage): all that is observable is that the connection dies
					replies = append(replies, "E_IDENTIFY_FAILED:fatal")
					firstErr = "E_IDENTIFY_FAILED"
					closed = true
				}
			}
		case k.Name == "AUTH" && len(f.data) > 0 && f.data[0] == '{':
			var r struct {
				Identity        string `json:"identity"`
				IdentityURL     string `json:"identity_url"`
				PermissionCount int    `json:"permission_count"`
			}
			json.Unmarshal(f.data, &r)
			replies = append(replies, fmt.Sprintf("auth:%s:%s:%d", vfGateHexS(r.Identity), vfGateHexS(r.IdentityURL), r.PermissionCount))
			c.authOK = true
		default:
			replies = append(replies, string(f.data))
		}
		if closed {
			c.waitGone()
			c.closed = true
		}
	}
	after := vfGateSnap(in.nsqd)
	wall1 := time.Now()
	seen := in.stub.Seen()
	impl = c.implLine(replies, closed, seen, after)
	// audit B11: the expiry the code really stored (the virtual clock above overwrites it before every command, so
	// without this nothing observes `Expires = now + ttl seconds`), and the parts of the request nobody compared
	if len(seen) > 0 && ans.Valid() && !closed {
		if as := c.client.AuthState; as == nil {
			in.out.Fail("ttl-expiry:"+k.Name, fmt.Sprintf("a valid auth answer (ttl %d) was served but the connection holds no authorization state [%s]", ans.TTL, op))
		} else {
			lo, hi := wall0.Add(time.Duration(ans.TTL)*time.Second), wall1.Add(time.Duration(ans.TTL)*time.Second)
			if as.Expires.Before(lo) || as.Expires.After(hi) {
				in.out.Fail("ttl-expiry:"+k.Name, fmt.Sprintf("auth answer with ttl %d s obtained between %s and %s is stored as expiring at %s (%.0f s after the query): not query time + ttl [%s]",
					ans.TTL, wall0.Format("15:04:05.000"), wall1.Format("15:04:05.000"), as.Expires.Format("2006-01-02 15:04:05.000"), as.Expires.Sub(wall0).Seconds(), op))
			} else {
				in.out.hist["oracle:ttl-expiry-checked"]++
			}
		}
	}
	for _, s := range seen {
		if host, _, err := net.SplitHostPort(c.raw.LocalAddr().String()); err == nil && s.IP != host {
			in.out.Fail("query-ip:"+k.Name, fmt.Sprintf("auth server was told remote_ip=%q, the client connected from %q [%s]", s.IP, host, op))
		}
		if s.Method != "GET" {
			in.out.Fail("query-method:"+k.Name, fmt.Sprintf("auth server was asked with HTTP method %s, --auth-http-request-method is the default (get) [%s]", s.Method, op))
		}
	}

	// ------------------------------------------------ direct oracle (the property on the implementation's own outputs)
	o := in.out
	o.checks++
	grew := vfGateGrew(before, after)
	expired := c.inForce != nil && c.vnow > c.expV
	if in.cfg.DocTLSRequired() != 0 && !c.tlsDone && k.Name != "IDENTIFY" {
		if len(replies) != 1 || replies[0] != "E_INVALID:fatal" || !closed {
			o.Fail("tls-gate:"+k.Name, fmt.Sprintf("%s on a plaintext connection with TLS required was answered %v (closed=%v) [%s]", k.Name, replies, closed, op))
		}
		if vfGateSnapLine(before) != vfGateSnapLine(after) {
			o.Fail("tls-gate-effect:"+k.Name, fmt.Sprintf("%s on a plaintext connection with TLS required changed the broker %s -> %s [%s]", k.Name, vfGateSnapLine(before), vfGateSnapLine(after), op))
		}
	}
	if in.cfg.Auth && k.gated() && grew {
		topic, channel := "", ""
		if len(k.Args) > 0 {
			topic = k.Args[0]
		}
		if k.Name == "SUB" && len(k.Args) > 1 {
			channel = k.Args[1]
		}
		var force *vfGateAns
		if expired {
			if len(seen) > 0 && ans.Valid() {
				a := ans
				force = &a
			}
		} else {
			force = c.inForce
		}
		switch {
		case !c.authOK:
			o.Fail("auth-gate-first:"+k.Name, fmt.Sprintf("%s had an effect (%s -> %s) before any successful AUTH [%s]", k.Name, vfGateSnapLine(before), vfGateSnapLine(after), op))
		case force == nil:
			o.Fail("auth-gate-expired:"+k.Name, fmt.Sprintf("%s had an effect after the TTL without a fresh valid answer [%s]", k.Name, op))
		case !vfGateSpecAllowed(force.Grants, topic, channel):
			o.Fail("auth-gate-grant:"+k.Name, fmt.Sprintf("%s on (%q,%q) had an effect although the grants in force %s do not allow it [%s]", k.Name, topic, channel, vfGateGrantsLine(force.Grants), op))
		}
	}
	if in.cfg.Auth && k.gated() && (firstErr == "E_AUTH_FIRST" || firstErr == "E_AUTH_FAILED" || firstErr == "E_UNAUTHORIZED") {
		// the documented code for the reason of the denial
		want := "E_UNAUTHORIZED"
		switch {
		case !c.authOK:
			want = "E_AUTH_FIRST"
		case expired && !ans.Valid():
			want = "E_AUTH_FAILED"
		}
		if firstErr != want {
			o.Fail("deny-code:"+k.Name, fmt.Sprintf("%s denied with %s, the documented code for this situation is %s [%s]", k.Name, firstErr, want, op))
		}
	}
	if firstErr == "E_AUTH_FIRST" || firstErr == "E_AUTH_FAILED" || firstErr == "E_UNAUTHORIZED" || firstErr == "E_AUTH_DISABLED" {
		if grew {
			o.Fail("deny-trace:"+k.Name, fmt.Sprintf("%s denied with %s left a trace: %s -> %s [%s]", k.Name, firstErr, vfGateSnapLine(before), vfGateSnapLine(after), op))
		}
		if !closed {
			o.Fail("deny-nonfatal:"+k.Name, fmt.Sprintf("%s denied with %s but the connection stayed open [%s]", k.Name, firstErr, op))
		}
	}
	if in.cfg.Auth && k.gated() && c.authOK && len(replies) == 1 &&
		(replies[0] == "OK" || firstErr == "E_UNAUTHORIZED" || firstErr == "E_AUTH_FAILED") {
		// CheckAuth was reached: re-query exactly when the cached answer is past its TTL
		// (asking more often than needed is not a bypass: that direction is left to the correspondence)
		if expired && len(seen) == 0 {
			o.Fail("requery:"+k.Name, fmt.Sprintf("%s with cached authorization past its TTL (now=%d, expires=%d): the auth server was not asked again [%s]", k.Name, c.vnow, c.expV, op))
		}
		for _, s := range seen {
			if s.Secret != c.secret {
				o.Fail("requery-secret:"+k.Name, fmt.Sprintf("re-query carried secret %q, AUTH gave %q [%s]", s.Secret, c.secret, op))
			}
		}
	}
	for _, s := range seen {
		if (s.TLS == "true") != c.tlsDone {
			o.Fail("query-tls:"+k.Name, fmt.Sprintf("auth server was told tls=%s, the connection's TLS state is %v [%s]", s.TLS, c.tlsDone, op))
		}
	}
	// harness bookkeeping (independent of the implementation's state)
	if k.Name == "AUTH" && len(seen) > 0 {
		c.secret = k.Secret
	}
	if len(seen) > 0 && ans.Valid() {
		a := ans
		c.inForce = &a
		c.expV = c.vnow + int64(ans.TTL)
	}
	o.hist["cmd:"+k.Name]++
	for _, r := range replies {
		if strings.HasPrefix(r, "E_") || r == "OK" || r == "CLOSE_WAIT" || r == "TIMEOUT" {
			o.hist["reply:"+r]++
		}
	}
	if len(replies) == 0 {
		o.hist["reply:(silent)"]++
	}
	if len(seen) > 0 {
		o.hist["authd-queries"] += len(seen)
		if k.Name != "AUTH" {
			o.hist["authd-requeries"] += len(seen)
		}
	}
	return op, impl
}


// implLine: the canonical observation of one command (replies and closure as seen by the client; requests seen by
// the stub auth server; white-box flags of the server's client object; the broker)
func (c *vfGateConn) implLine(replies []string, closed bool, seen []vfGateSeen, after map[string]vfGateTopicSnap) string {
	q := "none"
	if len(seen) > 0 {
		parts := make([]string, len(seen))
		for i, s := range seen {
			t := "0"
			if s.TLS == "true" {
				t = "1"
			}
			parts[i] = t + ":" + vfGateHexS(s.CN) + ":" + vfGateHexS(s.Secret)
		}
		q = strings.Join(parts, "+")
	}
	st := "init"
	switch atomic.LoadInt32(&c.client.State) {
	case stateSubscribed:
		st = "sub"
	case stateClosing:
		st = "closing"
	}
	return fmt.Sprintf("%s close=%s q=%s tls=%s st=%s authed=%s broker=%s", strings.Join(replies, "|"), vfGateB(closed),
		q, vfGateB(atomic.LoadInt32(&c.client.TLS) == 1), st, vfGateB(c.client.HasAuthorizations()), vfGateSnapLine(after))
}

// runPipelined: the STARTTLS-injection attempt. ONE plaintext write carries the TLS-negotiating IDENTIFY `k` and,
// right behind it, the command lines `behind` — so that they are already in the buffer of the server's plaintext
// reader when the handshake starts. Then the regular handshake (CA-signed client certificate), then a barrier inside
// the TLS stream: an IDENTIFY with feature negotiation and without tls_v1, whose JSON answer is unmistakable — every
// frame that arrives between the handshake's OK and that JSON is an answer to one of the plaintext lines.
// Lines emitted: cp (the IDENTIFY), one cb per pipelined line (reader generation 0), cz (the barrier).
func (c *vfGateConn) runPipelined(k vfGateCmd, behind []vfGateCmd, ans vfGateAns) {
	in := c.inst
	o := in.out
	in.stub.Script(ans)
	before := vfGateSnap(in.nsqd)
	var wire []byte
	wire = append(wire, k.Wire()...)
	for _, b := range behind {
		wire = append(wire, b.Wire()...)
	}
	cpOp := fmt.Sprintf("cp %d %d %s %s", c.id, c.vnow, ans.Line(), k.Line())
	var replies []string
	closed := false
	c.cur.SetWriteDeadline(time.Now().Add(5 * time.Second))
	if _, err := c.cur.Write(wire); err != nil {
		replies, closed = []string{"WRITE-ERR"}, true
	} else if f, err := c.readFrame(5 * time.Second); err != nil {
		if vfGateIsTimeout(err) {
			replies = append(replies, "TIMEOUT")
		}
		closed = true
	} else if f.typ == frameTypeError {
		code := vfGateErrCode(f.data)
		if c.closesAfterError() {
			replies, closed = append(replies, code+":fatal"), true
		} else {
			replies = append(replies, code+":nonfatal")
		}
	} else if len(f.data) > 0 && f.data[0] == '{' {
		var r struct {
			TLSv1        bool `json:"tls_v1"`
			AuthRequired bool `json:"auth_required"`
		}
		json.Unmarshal(f.data, &r)
		replies = append(replies, fmt.Sprintf("ident:tls=%s:auth=%s", vfGateB(r.TLSv1), vfGateB(r.AuthRequired)))
		if r.TLSv1 {
			okTLS := false
			tc := tls.Client(c.tap, c.clientTLSConfig(k.Cert))
			tc.SetDeadline(time.Now().Add(5 * time.Second))
			if err := tc.Handshake(); err == nil {
				tc.SetDeadline(time.Time{})
				c.cur = tc
				if f2, err := c.readFrame(5 * time.Second); err == nil && f2.typ == frameTypeResponse && string(f2.data) == "OK" {
					okTLS = true
				}
			}
			if okTLS {
				replies = append(replies, "OK")
				c.tlsDone = true
			} else {
				replies, closed = append(replies, "E_IDENTIFY_FAILED:fatal"), true
			}
		}
	} else {
		replies = append(replies, string(f.data))
	}
	if closed {
		c.waitGone()
		c.closed = true
	}
	o.checks++
	o.hist["cmd:IDENTIFY+pipelined"]++
	o.Case(cpOp, c.implLine(replies, closed, in.stub.Seen(), vfGateSnap(in.nsqd)))

	// the barrier, and what arrives before its answer
	var extras, barrier []string
	extrasFatal := false
	bclosed := closed
	bk := vfGateCmd{Name: "IDENTIFY", BodyOK: true, FN: true, Cert: "nocert"}
	bk.Body, _ = json.Marshal(map[string]interface{}{"client_id": "v", "hostname": "h", "feature_negotiation": true, "tls_v1": false})
	bk.Size = len(bk.Body)
	if !closed {
		c.cur.SetWriteDeadline(time.Now().Add(5 * time.Second))
		if _, err := c.cur.Write(bk.Wire()); err != nil {
			barrier, bclosed = []string{"WRITE-ERR"}, true
		}
		for !bclosed {
			f, err := c.readFrame(5 * time.Second)
			if err != nil {
				if vfGateIsTimeout(err) {
					barrier = append(barrier, "TIMEOUT")
				}
				bclosed = true
				break
			}
			if f.typ == frameTypeResponse && len(f.data) > 0 && f.data[0] == '{' {
				var r struct {
					TLSv1        bool `json:"tls_v1"`
					AuthRequired bool `json:"auth_required"`
				}
				json.Unmarshal(f.data, &r)
				barrier = append(barrier, fmt.Sprintf("ident:tls=%s:auth=%s", vfGateB(r.TLSv1), vfGateB(r.AuthRequired)))
				break
			}
			if f.typ == frameTypeError {
				code := vfGateErrCode(f.data)
				if c.closesAfterError() {
					extras, bclosed, extrasFatal = append(extras, code+":fatal"), true, true
				} else {
					extras = append(extras, code+":nonfatal")
				}
			} else {
				extras = append(extras, string(f.data))
			}
		}
		if bclosed {
			c.waitGone()
			c.closed = true
		}
	}
	after := vfGateSnap(in.nsqd)
	seen := in.stub.Seen()
	for i, b := range behind {
		op := fmt.Sprintf("cb %d %d %s 0 %s", c.id, c.vnow, ans.Line(), b.Line())
		var rs []string
		if i == 0 {
			rs = extras // (which of the plaintext lines a frame answers is not decidable from outside: all go to the first)
		}
		o.checks++
		o.hist["cmd:pipelined-"+b.Name]++
		if in.cfg.DocTLSRequired() != 0 {
			if len(rs) > 0 {
				o.Fail("plaintext-injected:"+b.Name, fmt.Sprintf("plaintext sent before the TLS handshake (behind IDENTIFY) was answered inside the TLS session: %v [%s]", rs, op))
			}
			if i == 0 && vfGateGrew(before, after) {
				o.Fail("plaintext-injected-effect:"+b.Name, fmt.Sprintf("plaintext sent before the TLS handshake (behind IDENTIFY) was executed: %s -> %s [%s]", vfGateSnapLine(before), vfGateSnapLine(after), op))
			}
		}
		o.Case(op, c.implLine(rs, i == 0 && extrasFatal, seen, after))
	}
	if !closed {
		o.checks++
		o.hist["cmd:IDENTIFY"]++
		o.Case(fmt.Sprintf("cz %d %d %s %s", c.id, c.vnow, ans.Line(), bk.Line()),
			c.implLine(barrier, bclosed, seen, after))
	}
}

// ---------------------------------------------------------------------------- generators

var vfGateTopics = []string{"t0", "t1", "t2", "orders", "orders.eu", "a-b_c"}
var vfGateChans = []string{"c0", "c1", "workers", "c.x"}
var vfGateBadNames = []string{"", "bad\tname", "bad!", "#ephemeral", "x#ephemeralx", strings.Repeat("n", 65), "t0#ephemeral#ephemeral"}
var vfGatePats = []string{".*", ".*", "^t0$", "^t.$", "^orders", "orders", "^orders\\.eu$", "t0|t1", "^t0$|^orders$", "^c0$", "^c.*",
	"^$", "", "c0", "^workers$", "x+", "^f.*", "^f.+$", "t1?", "^c\\.x$", ".+", "^.*$", "work", "^a-b_c$"}
var vfGateBadPats = []string{"[", "(", "*a", "a**", "a)"}
var vfGateSecrets = []string{"s3cret", "k", "tok-en_1", "with space", "ünï"}

func (in *vfGateInst) pick(xs []string) string { return xs[in.r.Intn(len(xs))] }

func (in *vfGateInst) topicName() string {
	switch in.r.Intn(10) {
	case 0, 1, 2:
		in.fresh++
		return fmt.Sprintf("f%d", in.fresh)
	case 3:
		return "eph#ephemeral"
	}
	return in.pick(vfGateTopics)
}

func (in *vfGateInst) subTopicName() string {
	if in.r.Intn(3) == 0 {
		in.fresh++
		return fmt.Sprintf("f%d", in.fresh)
	}
	return in.pick(vfGateTopics)
}

func vfGateRxQuote(s string) string { return "^" + strings.Replace(s, ".", "\\.", -1) + "$" }

// an answer; topic/channel are what the next command is about (so that a good share of the
// answers is relevant to it)
func (in *vfGateInst) answer(topic, channel string) vfGateAns {
	r := in.r
	switch r.Intn(20) {
	case 0:
		return vfGateAns{Err: 1}
	case 1:
		return vfGateAns{Err: 2}
	}
	a := vfGateAns{TTL: []int{1, 10, 60, 3600}[r.Intn(4)], Identity: in.pick([]string{"", "bob", "svc-7"}), URL: in.pick([]string{"", "http://id/bob"})}
	switch r.Intn(25) {
	case 0:
		a.TTL = 0
	case 1:
		a.TTL = -5
	}
	n := 1 + r.Intn(3)
	if r.Intn(15) == 0 {
		n = 0
	}
	for i := 0; i < n; i++ {
		var g vfGateGrant
		switch r.Intn(10) {
		case 0, 1, 2:
			g.Topic = vfGateRxQuote(topic)
		case 3:
			g.Topic = vfGateRxQuote(in.pick(vfGateTopics))
		default:
			g.Topic = in.pick(vfGatePats)
		}
		nc := 1 + r.Intn(2)
		if r.Intn(12) == 0 {
			nc = 0
		}
		for j := 0; j < nc; j++ {
			switch r.Intn(10) {
			case 0, 1:
				g.Channels = append(g.Channels, vfGateRxQuote(channel))
			case 2:
				g.Channels = append(g.Channels, vfGateRxQuote(in.pick(vfGateChans)))
			default:
				g.Channels = append(g.Channels, in.pick(vfGatePats))
			}
		}
		switch r.Intn(12) {
		case 0, 1, 2:
			g.Perms = []string{"publish"}
		case 3, 4, 5:
			g.Perms = []string{"subscribe"}
		case 6:
			g.Perms = nil
		case 7:
			g.Perms = []string{"subscribe", "publish", "publish"}
		default:
			g.Perms = []string{"publish", "subscribe"}
		}
		if r.Intn(40) == 0 {
			g.Perms = append(g.Perms, "admin")
		}
		if r.Intn(40) == 0 {
			g.Topic = in.pick(vfGateBadPats)
		}
		if r.Intn(40) == 0 {
			g.Channels = append(g.Channels, in.pick(vfGateBadPats))
		}
		a.Grants = append(a.Grants, g)
	}
	return a
}

func (in *vfGateInst) body(n int) []byte {
	b := make([]byte, n)
	for i := range b {
		b[i] = 'a' + byte(i%26)
	}
	return b
}

func (in *vfGateInst) identify(c *vfGateConn) vfGateCmd {
	r := in.r
	k := vfGateCmd{Name: "IDENTIFY", BodyOK: true, FN: true, Cert: "nocert"}
	switch r.Intn(20) {
	case 0:
		k.FN = false
	case 1:
		k.BodyOK = false
	}
	k.TLSv1 = r.Intn(4) != 0
	k.HbOff = r.Intn(12) == 0
	switch r.Intn(12) {
	case 0:
		k.Cert = "nohs"
	case 1, 2, 3:
		k.Cert = "nocert"
	case 4, 5, 6:
		k.Cert = "untrusted"
	default:
		k.Cert = "trusted"
	}
	if c.tlsDone && r.Intn(2) == 0 {
		// half of the time no second handshake is attempted; otherwise (audit B24) the client handshakes AGAIN, on the
		// raw socket underneath its first TLS session — that is where the server runs tls.Server(c.Conn)
		k.Cert = "nohs"
	}
	if !k.HbOff && r.Intn(6) == 0 {
		k.HbOn = true // audit B24: a positive interval after `-1` re-enables heartbeats, SUB is accepted again
	}
	if c.tlsDone && r.Intn(2) == 0 {
		// audit A2: IDENTIFY again, with an output_buffer_size, after the TLS upgrade — the answer (and everything
		// after it) must still come through TLS
		k.BodyOK, k.FN, k.TLSv1 = true, r.Intn(3) == 0, false
		k.Ob = []int{-1, 64, 4096}[r.Intn(3)]
	}
	k.identBody()
	return k
}

func (in *vfGateInst) authCmd() vfGateCmd {
	r := in.r
	k := vfGateCmd{Name: "AUTH", Secret: in.pick(vfGateSecrets)}
	k.Body = []byte(k.Secret)
	k.Size = len(k.Body)
	switch r.Intn(30) {
	case 0:
		k.Args = []string{"extra"}
	case 1:
		k.Size, k.Body, k.Secret = 0, nil, ""
	case 2:
		k.Size, k.Body, k.Secret = -1, nil, ""
	case 3:
		k.Size, k.Body, k.Secret = vfGateMaxBody+1, nil, ""
	}
	return k
}

func (in *vfGateInst) command(c *vfGateConn) vfGateCmd {
	r := in.r
	w := r.Intn(100)
	if c.deep && r.Intn(3) != 0 {
		w = r.Intn(62) // PUB / DPUB / MPUB / SUB (a SUB ends the publishing only if it is refused)
		if w >= 48 && atomic.LoadInt32(&c.client.State) != stateInit {
			w = r.Intn(48)
		}
	}
	switch {
	case w < 24:
		k := vfGateCmd{Name: "PUB", Args: []string{in.topicName()}, Size: 1 + r.Intn(40)}
		switch r.Intn(30) {
		case 0:
			k.Args = nil
		case 1:
			k.Args = []string{in.pick(vfGateBadNames)}
		case 2:
			k.Size = 0
		case 3:
			k.Size = vfGateMaxMsg + 1
		case 4:
			k.Args = append(k.Args, "ignored")
		case 5:
			k.Size = vfGateMaxMsg
		}
		if k.Size > 0 && k.Size <= vfGateMaxMsg {
			k.Body = in.body(k.Size)
		}
		return k
	case w < 36:
		k := vfGateCmd{Name: "DPUB", Args: []string{in.topicName(), fmt.Sprint(r.Intn(5000))}, Size: 1 + r.Intn(40)}
		switch r.Intn(30) {
		case 0:
			k.Args = k.Args[:1]
		case 1:
			k.Args[0] = in.pick(vfGateBadNames)
		case 2:
			k.Args[1] = "12x"
		case 3:
			k.Args[1] = "3600001"
		case 4:
			k.Args[1] = "3600000"
		case 5:
			k.Size = 0
		case 6:
			k.Args[1] = "18446744073709551616"
		case 7:
			k.Args[1] = ""
		}
		if k.Size > 0 {
			k.Body = in.body(k.Size)
		}
		return k
	case w < 48:
		n := 1 + r.Intn(4)
		k := vfGateCmd{Name: "MPUB", Args: []string{in.topicName()}, Count: n}
		for i := 0; i < n; i++ {
			k.Sizes = append(k.Sizes, 1+r.Intn(20))
		}
		variant := r.Intn(30)
		switch variant {
		case 0:
			k.Args = nil
		case 1:
			k.Args = []string{in.pick(vfGateBadNames)}
		case 2:
			k.Sizes[r.Intn(n)] = 0
		case 3:
			k.Sizes[r.Intn(n)] = vfGateMaxMsg + 1
		}
		var b bytes.Buffer
		binary.Write(&b, binary.BigEndian, int32(k.Count))
		for _, s := range k.Sizes {
			binary.Write(&b, binary.BigEndian, int32(s))
			if s <= 0 || s > vfGateMaxMsg {
				break
			}
			b.Write(in.body(s))
		}
		k.Body = b.Bytes()
		k.Size = b.Len()
		switch variant {
		case 4:
			k.Size, k.Body, k.Count, k.Sizes = 0, nil, 0, nil
		case 5:
			k.Size, k.Body, k.Count, k.Sizes = vfGateMaxBody+1, nil, 0, nil
		case 6:
			k.Count, k.Sizes = 0, nil
			k.Body = []byte{0, 0, 0, 0}
			k.Size = 4
		case 7:
			k.Count, k.Sizes = -3, nil
			k.Body = []byte{0xff, 0xff, 0xff, 0xfd}
			k.Size = 4
		}
		return k
	case w < 68:
		k := vfGateCmd{Name: "SUB", Args: []string{in.subTopicName(), in.pick(vfGateChans)}}
		switch r.Intn(30) {
		case 0:
			k.Args = k.Args[:1]
		case 1:
			k.Args[0] = in.pick(vfGateBadNames)
		case 2:
			k.Args[1] = in.pick(vfGateBadNames)
		case 3:
			k.Args = append(k.Args, "ignored")
		}
		return k
	case w < 74:
		return in.authCmd()
	case w < 79:
		return in.identify(c)
	case w < 82:
		return vfGateCmd{Name: "NOP"}
	case w < 86:
		k := vfGateCmd{Name: "RDY", Args: []string{in.pick([]string{"0", "0", "x", "2501", "99999999999999999999"})}}
		if r.Intn(4) == 0 {
			k.Args = nil
			if atomic.LoadInt32(&c.client.State) == stateSubscribed {
				k.Args = []string{"0"} // never make the server push messages at this client
			}
		}
		return k
	case w < 95:
		name := in.pick([]string{"FIN", "REQ", "TOUCH"})
		k := vfGateCmd{Name: name, Args: []string{"0123456789abcdef"}}
		if name == "REQ" {
			k.Args = append(k.Args, in.pick([]string{"0", "100", "x1"}))
		}
		switch r.Intn(8) {
		case 0:
			k.Args[0] = "short"
		case 1:
			k.Args = nil
		}
		return k
	case w < 97:
		return vfGateCmd{Name: "CLS"}
	}
	return vfGateCmd{Name: "UNK", Unk: in.pick([]string{"PING", "pub", "", "IDENTIFYX", "AUTHX"})}
}

func (k vfGateCmd) subject() (string, string) {
	t, ch := "", ""
	if k.gated() && len(k.Args) > 0 {
		t = k.Args[0]
	}
	if k.Name == "SUB" && len(k.Args) > 1 {
		ch = k.Args[1]
	}
	return t, ch
}

func (in *vfGateInst) advance(c *vfGateConn) {
	r := in.r
	if c.inForce == nil {
		c.vnow += int64(r.Intn(50))
		return
	}
	if c.vnow > c.expV || r.Intn(5) < 2 {
		// past the TTL
		base := c.expV
		if c.vnow > base {
			base = c.vnow
		}
		c.vnow = base + 1 + int64(r.Intn(100))
		return
	}
	room := c.expV - c.vnow - 1
	if room > 0 {
		c.vnow += int64(r.Intn(int(room) + 1))
	}
	if c.vnow == c.expV { // the instant `now == expires` cannot be reproduced against a real clock
		c.vnow--
	}
}

// scenario: one connection's life
func (in *vfGateInst) scenario() {
	c, err := in.dial()
	if err != nil {
		in.out.Fail("harness", "dial: "+err.Error())
		return
	}
	defer c.raw.Close()
	in.out.Case(fmt.Sprintf("conn %d", c.id), "conn")
	r := in.r
	var plan []vfGateCmd
	deep := r.Intn(2) == 0 // half of the connections try hard to get past both gates and stay there
	c.deep = deep
	if deep || r.Intn(10) < 7 {
		plan = append(plan, in.identify(c))
		if in.cfg.DocTLSRequired() != 0 && (deep || r.Intn(4) != 0) { // mostly get through the TLS gate when there is one
			k := &plan[0]
			k.BodyOK, k.FN, k.TLSv1 = true, true, true
			if deep || r.Intn(3) != 0 {
				k.Cert = "trusted"
			}
			if deep {
				k.HbOff = false
			}
			if deep {
				k.HbOn = false
			}
			k.Ob = 0
			k.identBody()
		}
	}
	if pipe := vfEnvInt("VERIF_GATE_PIPE", 8); in.cfg.Cert && pipe > 0 && r.Intn(pipe) == 0 {
		// the injection attempt: plaintext command lines in the same write as the TLS-negotiating IDENTIFY
		k := vfGateCmd{Name: "IDENTIFY", BodyOK: true, FN: true, TLSv1: true, Cert: "trusted"}
		k.Body, _ = json.Marshal(map[string]interface{}{"client_id": "v", "hostname": "h", "feature_negotiation": true, "tls_v1": true})
		k.Size = len(k.Body)
		var behind []vfGateCmd
		for n := 1 + r.Intn(3); len(behind) < n; {
			b := in.command(c)
			if b.Name == "IDENTIFY" || len(b.Wire()) > 2048 {
				continue
			}
			behind = append(behind, b)
		}
		in.advance(c)
		t, ch := behind[0].subject()
		if t == "" {
			t = in.pick(vfGateTopics)
		}
		t0 := time.Now()
		c.runPipelined(k, behind, in.answer(t, ch))
		if os.Getenv("VERIF_GATE_TIMING") != "" {
			fmt.Fprintf(os.Stderr, "pipelined %v closed=%v\n", time.Since(t0), c.closed)
		}
		plan = nil
	}
	auths := 65
	if !in.cfg.Auth {
		auths = 15
	}
	if (deep && in.cfg.Auth) || r.Intn(100) < auths {
		k := in.authCmd()
		if deep {
			k = vfGateCmd{Name: "AUTH", Secret: in.pick(vfGateSecrets)}
			k.Body = []byte(k.Secret)
			k.Size = len(k.Body)
		}
		plan = append(plan, k)
	}
	steps := 1 + r.Intn(5)
	if deep {
		steps = 3 + r.Intn(6)
	}
	for i := 0; i < len(plan)+steps && !c.closed && !c.poisoned; i++ {
		var k vfGateCmd
		if i < len(plan) {
			k = plan[i]
		} else {
			k = in.command(c)
		}
		in.advance(c)
		t, ch := k.subject()
		if t == "" {
			t = in.pick(vfGateTopics)
		}
		if ch == "" && r.Intn(2) == 0 {
			ch = in.pick(vfGateChans)
		}
		ans := in.answer(t, ch)
		if deep && r.Intn(4) != 0 {
			// a valid answer that is often, but not always, enough for the command at hand
			ans = vfGateAns{TTL: []int{1, 10, 60}[r.Intn(3)], Identity: "svc-7", URL: ""}
			gt, gc := in.pick([]string{".*", vfGateRxQuote(t), vfGateRxQuote(t), in.pick(vfGatePats)}), in.pick([]string{".*", vfGateRxQuote(ch), in.pick(vfGatePats)})
			ans.Grants = append(ans.Grants, vfGateGrant{Topic: gt, Channels: []string{gc}, Perms: [][]string{{"publish", "subscribe"}, {"publish", "subscribe"}, {"publish"}, {"subscribe"}}[r.Intn(4)]})
			if r.Intn(3) == 0 {
				ans.Grants = append(ans.Grants, vfGateGrant{Topic: in.pick(vfGatePats), Channels: []string{in.pick(vfGatePats), in.pick(vfGatePats)}, Perms: []string{"subscribe", "publish"}})
			}
		}
		if k.Name == "AUTH" && (deep || r.Intn(3) != 0) {
			// most AUTHs should succeed with something useful
			ans = vfGateAns{TTL: []int{1, 10, 3600}[r.Intn(3)], Identity: "bob", URL: "http://id/bob",
				Grants: []vfGateGrant{{Topic: in.pick(vfGatePats), Channels: []string{in.pick(vfGatePats)}, Perms: []string{"publish", "subscribe"}}}}
			if r.Intn(2) == 0 {
				ans.Grants = append(ans.Grants, vfGateGrant{Topic: ".*", Channels: []string{".*"}, Perms: []string{"publish", "subscribe"}})
			}
		}
		last := k.silent()
		op, impl := c.run(k, ans, last)
		in.out.Case(op, impl)
	}
	if !c.closed {
		c.raw.Close()
		c.waitGone()
		c.closed = true
		in.out.Case(fmt.Sprintf("x %d", c.id), "x broker="+vfGateSnapLine(vfGateSnap(in.nsqd)))
	}
}

// httpCheck: the TLS gate of the HTTP listeners
func (in *vfGateInst) httpCheck() {
	httpAddr := in.nsqd.RealHTTPAddr().String()
	do := func(client *http.Client, method, url string) int {
		req, _ := http.NewRequest(method, url, strings.NewReader("x"))
		resp, err := client.Do(req)
		if err != nil {
			return -1
		}
		io.Copy(io.Discard, resp.Body)
		resp.Body.Close()
		return resp.StatusCode
	}
	plain := &http.Client{Timeout: 5 * time.Second, Transport: &http.Transport{DisableKeepAlives: true}}
	show := func(code int) string {
		switch code {
		case 403:
			return "403"
		case 200:
			return "routed"
		}
		return fmt.Sprintf("status-%d", code)
	}
	code := do(plain, "GET", "http://"+httpAddr+"/ping")
	in.out.Case("http 0", show(code))
	// the gate sits in front of the router: every route (and every non-route) of the plaintext listener
	// is refused or none is. (Requests chosen so that a routed one has no effect: missing arguments.)
	for _, rt := range [][2]string{{"GET", "/info"}, {"GET", "/stats"}, {"POST", "/pub"}, {"POST", "/mpub"},
		{"POST", "/topic/create"}, {"POST", "/topic/delete"}, {"POST", "/topic/empty"}, {"POST", "/topic/pause"},
		{"POST", "/channel/create"}, {"POST", "/channel/delete"}, {"POST", "/channel/empty"}, {"POST", "/channel/unpause"},
		{"GET", "/config/nsqlookupd_tcp_addresses"}, {"PUT", "/config/log_level"}, {"GET", "/debug/pprof/cmdline"},
		{"GET", "/no/such/route"}, {"DELETE", "/ping"}} {
		rc := do(plain, rt[0], "http://"+httpAddr+rt[1])
		res := "routed"
		if rc == 403 {
			res = "403"
		} else if rc < 0 {
			res = "error"
		}
		in.out.Case("http 0", res)
		in.out.checks++
		if (rc == 403) != (in.cfg.DocTLSRequired() == 2) {
			in.out.Fail("http-gate:"+rt[1], fmt.Sprintf("plaintext %s %s answered %d with tls-required=%d policy=%q", rt[0], rt[1], rc, in.cfg.TLSReq, in.cfg.Policy))
		}
	}
	in.fresh++
	probe := fmt.Sprintf("httpprobe%d", in.fresh)
	before := vfGateSnap(in.nsqd)
	pcode := do(plain, "POST", "http://"+httpAddr+"/pub?topic="+probe)
	after := vfGateSnap(in.nsqd)
	in.out.checks++
	want403 := in.cfg.DocTLSRequired() == 2
	if (code == 403) != want403 || (pcode == 403) != want403 {
		in.out.Fail("http-gate", fmt.Sprintf("plaintext HTTP answered %d / %d with tls-required=%d policy=%q", code, pcode, in.cfg.TLSReq, in.cfg.Policy))
	}
	if pcode == 403 && vfGateGrew(before, after) {
		in.out.Fail("http-gate-effect", fmt.Sprintf("a refused plaintext /pub left a trace: %s -> %s", vfGateSnapLine(before), vfGateSnapLine(after)))
	}
	if pcode == 200 {
		in.nsqd.DeleteExistingTopic(probe)
	}
	if in.cfg.Cert {
		cert, err := tls.LoadX509KeyPair(filepath.Join(in.certs, "client.pem"), filepath.Join(in.certs, "client.key"))
		if err != nil {
			panic(err)
		}
		secure := &http.Client{Timeout: 5 * time.Second, Transport: &http.Transport{DisableKeepAlives: true,
			TLSClientConfig: &tls.Config{InsecureSkipVerify: true, Certificates: []tls.Certificate{cert}}}}
		code := do(secure, "GET", "https://"+in.nsqd.RealHTTPSAddr().String()+"/ping")
		in.out.Case("http 1", show(code))
		// the HTTPS listener shares the TLS configuration: the client-certificate policy applies to it too
		for _, kind := range []string{"nocert", "untrusted", "trusted"} {
			tc := &tls.Config{InsecureSkipVerify: true}
			cn := ""
			switch kind {
			case "untrusted":
				cert, _ := tls.LoadX509KeyPair(filepath.Join(in.certs, "cert.pem"), filepath.Join(in.certs, "key.pem"))
				tc.Certificates = []tls.Certificate{cert}
				cn = ":" + vfGateHexS("test.local")
			case "trusted":
				tc.Certificates = []tls.Certificate{cert}
				cn = ":" + vfGateHexS("nsq.io")
			}
			cl := &http.Client{Timeout: 5 * time.Second, Transport: &http.Transport{DisableKeepAlives: true, TLSClientConfig: tc}}
			code := do(cl, "GET", "https://"+in.nsqd.RealHTTPSAddr().String()+"/ping")
			res := show(code)
			if code == -1 {
				res = "hsfail"
			}
			in.out.Case("https "+kind+cn, res)
		}
	}
	in.out.hist["http-checks"]++
}

func vfGateConfigs(thorough bool) []vfGateCfg {
	var out []vfGateCfg
	for _, auth := range []bool{true, false} {
		for _, pol := range []string{"", "require", "require-verify", "bogus"} {
			for req := 0; req < 3; req++ {
				out = append(out, vfGateCfg{TLSReq: req, Policy: pol, Cert: true, Auth: auth})
			}
		}
		out = append(out, vfGateCfg{TLSReq: 0, Policy: "", Cert: false, Auth: auth})
	}
	out = append(out, vfGateCfg{TLSReq: 0, Policy: "", Cert: true, Auth: true, Auth2: true},
		vfGateCfg{TLSReq: 2, Policy: "require", Cert: true, Auth: true, Auth2: true})
	// configurations New() must refuse
	out = append(out, vfGateCfg{TLSReq: 2, Policy: "", Cert: false, Auth: true},
		vfGateCfg{TLSReq: 1, Policy: "", Cert: false, Auth: false},
		vfGateCfg{TLSReq: 0, Policy: "require", Cert: false, Auth: true})
	return out
}

func TestVerifGateCorr(t *testing.T) {
	certs := os.Getenv("VERIF_CERTS")
	if certs == "" {
		t.Fatal("VERIF_CERTS not set")
	}
	total := vfEnvInt("VERIF_N", 1200)
	workers := vfEnvInt("VERIF_WORKERS", 8)
	cfgs := vfGateConfigs(false)
	perInst := total / len(cfgs)
	if perInst < 4 {
		perInst = 4
	}
	results := make([]*vfGateLines, len(cfgs))
	var wg sync.WaitGroup
	sem := make(chan struct{}, workers)
	for i := range cfgs {
		wg.Add(1)
		go func(i int) {
			defer wg.Done()
			sem <- struct{}{}
			defer func() { <-sem }()
			cfg := cfgs[i]
			out := &vfGateLines{hist: map[string]int{}}
			results[i] = out
			stub := vfGateNewStub()
			defer stub.srv.Close()
			dir, _ := os.MkdirTemp(os.Getenv("VERIF_OUT"), "gate-data-")
			defer os.RemoveAll(dir)
			n, err := vfGateStart(cfg, certs, stub, dir)
			if err != nil {
				out.Case(cfg.Line(), "cfg err")
				out.checks++
				if cfg.Cert || cfg.DocTLSRequired() == 0 {
					out.Fail("cfg", fmt.Sprintf("New refused %+v: %v", cfg, err))
				}
				return
			}
			defer n.Exit()
			o := n.getOpts()
			pol := "none"
			if n.tlsConfig != nil {
				switch n.tlsConfig.ClientAuth {
				case tls.RequireAnyClientCert:
					pol = "require"
				case tls.RequireAndVerifyClientCert:
					pol = "verify"
				}
			}
			out.Case(cfg.Line(), fmt.Sprintf("cfg ok eff=%d pol=%s tls=%s auth=%s", o.TLSRequired, pol, vfGateB(n.tlsConfig != nil), vfGateB(n.IsAuthEnabled())))
			out.checks++
			if !cfg.Cert && cfg.DocTLSRequired() != 0 {
				out.Fail("cfg", fmt.Sprintf("New accepted TLS-required without a certificate: %+v", cfg))
			}
			in := &vfGateInst{cfg: cfg, nsqd: n, stub: stub, certs: certs, r: vfNewRand(uint64(1000 + i)), out: out,
				tag: fmt.Sprintf("req=%d/pol=%s/auth=%v", cfg.TLSReq, cfg.Policy, cfg.Auth), tcpAddr: n.RealTCPAddr().String()}
			in.httpCheck()
			for s := 0; s < perInst; s++ {
				in.scenario()
			}
		}(i)
	}
	wg.Wait()
	out := vfOpen("gate")
	defer out.Close()
	checks := 0
	hist := map[string]int{}
	for _, r := range results {
		base := out.N
		for j := range r.ops {
			out.Case(r.ops[j], r.impl[j])
		}
		for _, l := range r.oracle {
			fmt.Println(vfGateGlobalIndex(l, base))
		}
		checks += r.checks
		for k, v := range r.hist {
			hist[k] += v
		}
	}
	keys := make([]string, 0, len(hist))
	for k := range hist {
		keys = append(keys, k)
	}
	sort.Strings(keys)
	for _, k := range keys {
		fmt.Printf("HIST %s %d\n", k, hist[k])
	}
	fmt.Printf("ORACLE-OK checks=%d\n", checks)
}

// TestVerifGateAllowed: auth.State.IsAllowed and the regexp family against the model.
func TestVerifGateAllowed(t *testing.T) {
	out := vfOpen("gateia")
	defer out.Close()
	r := vfNewRand(77)
	in := &vfGateInst{r: r}
	n := vfEnvInt("VERIF_N", 20000)
	texts := append(append([]string{"", "f1", "f22", "workers2", "xx", "t", "t01"}, vfGateTopics...), vfGateChans...)
	pats := append(append([]string{}, vfGatePats...), vfGateBadPats...)
	fails := 0
	for _, p := range pats {
		for _, s := range texts {
			re, err := regexp.Compile(p)
			m := false
			if err == nil {
				m = re.MatchString(s)
			}
			out.Case(fmt.Sprintf("rx %s %s", vfGateHexS(p), vfGateHexS(s)), fmt.Sprintf("c=%s m=%s", vfGateB(err == nil), vfGateB(m)))
		}
	}
	for i := 0; i < n; i++ {
		topic := in.pick(texts[1:])
		channel := ""
		if r.Intn(2) == 0 {
			channel = in.pick(texts)
		}
		a := in.answer(topic, channel)
		if a.Err != 0 {
			continue
		}
		ok := true
		for _, g := range a.Grants {
			if _, err := regexp.Compile(g.Topic); err != nil {
				ok = false
			}
			for _, c := range g.Channels {
				if _, err := regexp.Compile(c); err != nil {
					ok = false
				}
			}
		}
		if !ok {
			continue // IsAllowed uses MustCompile: QueryAuthd never lets such an answer through
		}
		st := &auth.State{}
		for _, g := range a.Grants {
			st.Authorizations = append(st.Authorizations, auth.Authorization{Topic: g.Topic, Channels: g.Channels, Permissions: g.Perms})
		}
		got := st.IsAllowed(topic, channel)
		out.Case(fmt.Sprintf("ia %s %s %s", vfGateGrantsLine(a.Grants), vfGateHexS(topic), vfGateHexS(channel)), vfGateB(got))
		if got != vfGateSpecAllowed(a.Grants, topic, channel) {
			fails++
			fmt.Printf("ORACLE-FAIL isallowed | State.IsAllowed(%q,%q) = %v with grants %s, the specification says %v\n",
				topic, channel, got, vfGateGrantsLine(a.Grants), !got)
		}
	}
	fmt.Printf("ORACLE-OK checks=%d\n", out.N)
	_ = hex.EncodeToString
}

func vfGateGlobalIndex(line string, base int) string {
	w := strings.SplitN(line, " ", 4)
	if len(w) == 4 && strings.HasPrefix(w[2], "@") {
		var n int
		fmt.Sscanf(w[2], "@%d", &n)
		w[2] = fmt.Sprintf("@%d", n+base)
		return strings.Join(w, " ")
	}
	return line
}

// ---------------------------------------------------------------------------- replay of recorded op lines

func vfGateUnhex(s string) (string, error) {
	if s == "-" {
		return "", nil
	}
	b, err := hex.DecodeString(s)
	return string(b), err
}

func vfGateUnlist(s string) ([]string, error) {
	if s == "~" {
		return nil, nil
	}
	var out []string
	for _, h := range strings.Split(s, ",") {
		x, err := vfGateUnhex(h)
		if err != nil {
			return nil, err
		}
		out = append(out, x)
	}
	return out, nil
}

func vfGateParseAns(s string) (vfGateAns, error) {
	if s == "E" {
		return vfGateAns{Err: 1}, nil
	}
	w := strings.Split(s, ":")
	if len(w) != 5 || w[0] != "A" {
		return vfGateAns{}, fmt.Errorf("bad answer %q", s)
	}
	var a vfGateAns
	if _, err := fmt.Sscanf(w[1], "%d", &a.TTL); err != nil {
		return a, err
	}
	var err error
	if a.Identity, err = vfGateUnhex(w[2]); err != nil {
		return a, err
	}
	if a.URL, err = vfGateUnhex(w[3]); err != nil {
		return a, err
	}
	if w[4] != "~" {
		for _, gs := range strings.Split(w[4], ";") {
			f := strings.Split(gs, "/")
			if len(f) != 3 {
				return a, fmt.Errorf("bad grant %q", gs)
			}
			var g vfGateGrant
			if g.Topic, err = vfGateUnhex(f[0]); err != nil {
				return a, err
			}
			if g.Channels, err = vfGateUnlist(f[1]); err != nil {
				return a, err
			}
			if g.Perms, err = vfGateUnlist(f[2]); err != nil {
				return a, err
			}
			a.Grants = append(a.Grants, g)
		}
	}
	return a, nil
}

func (in *vfGateInst) parseCmd(w []string) (vfGateCmd, error) {
	bad := fmt.Errorf("bad command %v", w)
	atoi := func(s string) int {
		var n int
		fmt.Sscanf(s, "%d", &n)
		return n
	}
	var err error
	k := vfGateCmd{Name: w[0]}
	switch w[0] {
	case "IDENTIFY":
		if len(w) != 6 && len(w) != 7 {
			return k, bad
		}
		k.BodyOK, k.FN, k.TLSv1, k.HbOff, k.HbOn = w[1] == "1", w[2] == "1", w[3] == "1", w[4] == "1", w[4] == "2"
		k.Cert = strings.SplitN(w[5], ":", 2)[0]
		if len(w) == 7 {
			if !strings.HasPrefix(w[6], "ob=") {
				return k, bad
			}
			k.Ob = atoi(w[6][3:])
		}
		k.identBody()
	case "AUTH":
		if len(w) != 4 {
			return k, bad
		}
		if k.Args, err = vfGateUnlist(w[1]); err != nil {
			return k, err
		}
		k.Size = atoi(w[2])
		if k.Secret, err = vfGateUnhex(w[3]); err != nil {
			return k, err
		}
		if k.Size > 0 && k.Size <= vfGateMaxBody {
			k.Body = []byte(k.Secret)
		}
	case "PUB", "DPUB":
		if len(w) != 3 {
			return k, bad
		}
		if k.Args, err = vfGateUnlist(w[1]); err != nil {
			return k, err
		}
		k.Size = atoi(w[2])
		if k.Size > 0 && k.Size <= vfGateMaxMsg {
			k.Body = in.body(k.Size)
		}
	case "MPUB":
		if len(w) != 5 {
			return k, bad
		}
		if k.Args, err = vfGateUnlist(w[1]); err != nil {
			return k, err
		}
		k.Size, k.Count = atoi(w[2]), atoi(w[3])
		if w[4] != "~" {
			for _, x := range strings.Split(w[4], ",") {
				k.Sizes = append(k.Sizes, atoi(x))
			}
		}
		if k.Size > 0 && k.Size <= vfGateMaxBody {
			var b bytes.Buffer
			binary.Write(&b, binary.BigEndian, int32(k.Count))
			for _, sz := range k.Sizes {
				binary.Write(&b, binary.BigEndian, int32(sz))
				if sz <= 0 || sz > vfGateMaxMsg {
					break
				}
				b.Write(in.body(sz))
			}
			k.Body = b.Bytes()
		}
	case "SUB", "RDY", "FIN", "REQ", "TOUCH":
		if len(w) != 2 {
			return k, bad
		}
		if k.Args, err = vfGateUnlist(w[1]); err != nil {
			return k, err
		}
	case "CLS", "NOP":
	case "UNK":
		if len(w) != 2 {
			return k, bad
		}
		if k.Unk, err = vfGateUnhex(w[1]); err != nil {
			return k, err
		}
	default:
		return k, bad
	}
	return k, nil
}

// TestVerifGateReplay re-executes recorded op lines (VERIF_REPLAY: one file, or a directory of
// *.ops files) against the current tree: same streams and oracle lines as the generated run.
// Lines that are not cfg / conn / c / cx / x ops are ignored (http lines are re-issued at cfg).
func TestVerifGateReplay(t *testing.T) {
	certs := os.Getenv("VERIF_CERTS")
	path := os.Getenv("VERIF_REPLAY")
	var files []string
	if st, err := os.Stat(path); err == nil && st.IsDir() {
		files, _ = filepath.Glob(filepath.Join(path, "*.ops"))
		sort.Strings(files)
	} else {
		files = []string{path}
	}
	out := vfOpen("gaterp")
	defer out.Close()
	checks := 0
	for _, f := range files {
		raw, err := os.ReadFile(f)
		if err != nil {
			t.Fatal(err)
		}
		lines := &vfGateLines{hist: map[string]int{}}
		var in *vfGateInst
		var stub *vfGateStub
		conns := map[int]*vfGateConn{}
		stop := func() {
			for _, c := range conns {
				c.raw.Close()
			}
			conns = map[int]*vfGateConn{}
			if in != nil {
				in.nsqd.Exit()
				stub.srv.Close()
				in = nil
			}
		}
		allLines := strings.Split(string(raw), "\n")
		for li, line := range allLines {
			w := strings.Fields(line)
			if len(w) == 0 {
				continue
			}
			switch {
			case w[0] == "cfg" && len(w) == 7:
				stop()
				var cfg vfGateCfg
				var a int
				fmt.Sscanf(w[1], "%d", &cfg.TLSReq)
				cfg.Policy, _ = vfGateUnhex(w[2])
				cfg.Cert = w[3] == "1"
				fmt.Sscanf(w[4], "%d", &a)
				cfg.Auth = a != 0
				cfg.Auth2 = a == 2
				stub = vfGateNewStub()
				dir, _ := os.MkdirTemp(os.Getenv("VERIF_OUT"), "gate-replay-")
				defer os.RemoveAll(dir)
				n, err := vfGateStart(cfg, certs, stub, dir)
				if err != nil {
					lines.Case(cfg.Line(), "cfg err")
					stub.srv.Close()
					continue
				}
				pol := "none"
				if n.tlsConfig != nil {
					switch n.tlsConfig.ClientAuth {
					case tls.RequireAnyClientCert:
						pol = "require"
					case tls.RequireAndVerifyClientCert:
						pol = "verify"
					}
				}
				lines.Case(cfg.Line(), fmt.Sprintf("cfg ok eff=%d pol=%s tls=%s auth=%s", n.getOpts().TLSRequired, pol, vfGateB(n.tlsConfig != nil), vfGateB(n.IsAuthEnabled())))
				in = &vfGateInst{cfg: cfg, nsqd: n, stub: stub, certs: certs, r: vfNewRand(1), out: lines,
					tag: filepath.Base(f), tcpAddr: n.RealTCPAddr().String()}
				in.httpCheck()
			case in == nil:
				continue
			case w[0] == "conn" && len(w) == 2:
				c, err := in.dial()
				if err != nil {
					t.Fatal(err)
				}
				fmt.Sscanf(w[1], "%d", &c.id)
				conns[c.id] = c
				lines.Case(fmt.Sprintf("conn %d", c.id), "conn")
			case w[0] == "cz" || w[0] == "cb":
				continue // regenerated by the cp line they belong to
			case w[0] == "cp" && len(w) >= 5:
				var id int
				fmt.Sscanf(w[1], "%d", &id)
				c := conns[id]
				if c == nil || c.closed || c.poisoned {
					continue
				}
				fmt.Sscanf(w[2], "%d", &c.vnow)
				ans, err := vfGateParseAns(w[3])
				if err != nil {
					t.Fatal(err)
				}
				k, err := in.parseCmd(w[4:])
				if err != nil {
					t.Fatal(err)
				}
				var behind []vfGateCmd
				for _, l2 := range allLines[li+1:] {
					w2 := strings.Fields(l2)
					if len(w2) >= 6 && w2[0] == "cb" && w2[1] == w[1] {
						b, err := in.parseCmd(w2[5:])
						if err != nil {
							t.Fatal(err)
						}
						behind = append(behind, b)
						continue
					}
					if len(w2) > 0 && strings.HasPrefix(w2[0], "#") {
						continue
					}
					break
				}
				c.runPipelined(k, behind, ans)
			case (w[0] == "c" || w[0] == "cx") && len(w) >= 5:
				var id int
				fmt.Sscanf(w[1], "%d", &id)
				c := conns[id]
				if c == nil || c.closed || c.poisoned {
					continue
				}
				fmt.Sscanf(w[2], "%d", &c.vnow)
				ans, err := vfGateParseAns(w[3])
				if err != nil {
					t.Fatal(err)
				}
				k, err := in.parseCmd(w[4:])
				if err != nil {
					t.Fatal(err)
				}
				op, impl := c.run(k, ans, w[0] == "cx")
				lines.Case(op, impl)
			case w[0] == "x" && len(w) == 2:
				var id int
				fmt.Sscanf(w[1], "%d", &id)
				c := conns[id]
				if c == nil || c.closed || c.poisoned {
					continue
				}
				c.raw.Close()
				c.waitGone()
				c.closed = true
				lines.Case(fmt.Sprintf("x %d", c.id), "x broker="+vfGateSnapLine(vfGateSnap(in.nsqd)))
			}
		}
		stop()
		base := out.N
		for j := range lines.ops {
			out.Case(lines.ops[j], lines.impl[j])
		}
		for _, l := range lines.oracle {
			fmt.Println(vfGateGlobalIndex(l, base))
		}
		checks += lines.checks
	}
	fmt.Printf("ORACLE-OK checks=%d\n", checks)
}
