package auth

// C11 (round 6) — the request side of internal/auth: the real QueryAuthd / QueryAnyAuthd against
// recording HTTP servers. Ops (replayed through Nsq.Model.AuthQuery by drv_gate):
//
//	aq <authd> <ip> <tls> <cn> <secret> <method>   what the server received (method, path, decoded parameters)
//	anyq <n> <start> <okbits>                      which servers were asked, in which order, who answered
//	ttlq <ttl>                                     Expires - now, rounded to seconds
//
// Direct oracle (model-free): the server decodes exactly the four parameters that were passed in.

import (
	"encoding/json"
	"fmt"
	"io"
	"net/http"
	"net/http/httptest"
	"net/url"
	"sort"
	"strings"
	"sync"
	"testing"
	"time"
)

type vfAQSeen struct {
	method string
	path   string
	rawq   string
	body   []byte
	ctype  string
}

type vfAQServer struct {
	mu     sync.Mutex
	seen   []vfAQSeen
	answer func() (int, string)
	srv    *httptest.Server
	order  *[]int
	idx    int
	omu    *sync.Mutex
}

func vfAQNew(answer func() (int, string)) *vfAQServer {
	s := &vfAQServer{answer: answer}
	s.srv = vfHTTPServer(http.HandlerFunc(func(w http.ResponseWriter, r *http.Request) {
		b, _ := io.ReadAll(r.Body)
		s.mu.Lock()
		s.seen = append(s.seen, vfAQSeen{r.Method, r.URL.Path, r.URL.RawQuery, b, r.Header.Get("Content-Type")})
		s.mu.Unlock()
		if s.order != nil {
			s.omu.Lock()
			*s.order = append(*s.order, s.idx)
			s.omu.Unlock()
		}
		code, body := s.answer()
		w.WriteHeader(code)
		io.WriteString(w, body)
	}))
	return s
}

func (s *vfAQServer) host() string { return strings.TrimPrefix(s.srv.URL, "http://") }

const vfAQGood = `{"ttl":60,"identity":"i","authorizations":[{"topic":".*","channels":[".*"],"permissions":["subscribe","publish"]}]}`

func vfAQValue(r *vfRand) string {
	pick := func(xs ...string) string { return xs[r.Intn(len(xs))] }
	switch r.Intn(8) {
	case 0:
		return ""
	case 1:
		return pick("10.0.0.1", "::1", "client.example", "secret", "s3cr3t-._~", "CN=x")
	case 2:
		return pick("a&tls=true", "x&common_name=admin", "a=b", "a;b", "100%", "%41", "a+b", "a b", "a#frag", "a?b", "/path/..", "a&&b", "&", "=", "%zz", "é", "\x00", "\xff\xfe", "a\nb", "a\r\nHost: evil")
	default:
		n := 1 + r.Intn(12)
		b := make([]byte, n)
		for i := range b {
			switch r.Intn(4) {
			case 0:
				b[i] = byte(r.Intn(256))
			case 1:
				b[i] = "&=;%+ #?/\\\"'<>{}[]|^`~"[r.Intn(22)]
			default:
				b[i] = "abcxyzABCXYZ0189-_."[r.Intn(19)]
			}
		}
		return string(b)
	}
}

func TestVerifAuthQuery(t *testing.T) {
	N := vfEnvInt("VERIF_N", 600)
	out := vfOpen("authq")
	defer out.Close()
	var fails []string
	fail := func(f string, a ...interface{}) {
		if len(fails) < 20 {
			fails = append(fails, fmt.Sprintf(f, a...))
		}
	}
	hist := map[string]int{}
	good := vfAQNew(func() (int, string) { return 200, vfAQGood })
	defer good.srv.Close()
	for i := 0; i < N; i++ {
		r := vfNewRand(uint64(2100000 + i))
		switch r.Intn(10) {
		case 0, 1, 2, 3, 4, 5: // aq
			ip, cn, secret := vfAQValue(r), vfAQValue(r), vfAQValue(r)
			tls := r.Intn(2) == 0
			method := []string{"get", "get", "post", "", "POST", "Get", "put"}[r.Intn(7)]
			authdT := []string{"HOST", "HOST", "http://HOST/auth", "http://HOST/custom/path", "http://HOST/", "http://HOST"}[r.Intn(6)]
			authd := strings.Replace(authdT, "HOST", good.host(), 1)
			if method == "post" {
				// post mode sends the parameters as JSON strings: json.Marshal replaces every byte that is not valid
				// UTF-8 by U+FFFD (noted in docs/C11.md); the model covers valid UTF-8 there
				ip, cn, secret = strings.ToValidUTF8(ip, "?"), strings.ToValidUTF8(cn, "?"), strings.ToValidUTF8(secret, "?")
			}
			good.mu.Lock()
			good.seen = nil
			good.mu.Unlock()
			st, err := QueryAuthd(authd, ip, tls, cn, secret, nil, 5*time.Second, 5*time.Second, method)
			good.mu.Lock()
			seen := append([]vfAQSeen(nil), good.seen...)
			good.mu.Unlock()
			op := fmt.Sprintf("aq %s %s %d %s %s %s", vfHex([]byte(authdT)), vfHex([]byte(ip)), vfBool(tls), vfHex([]byte(cn)), vfHex([]byte(secret)), vfHex([]byte(method)))
			if err != nil || st == nil || len(seen) != 1 {
				out.Case(op, fmt.Sprintf("ERR %v seen=%d", err, len(seen)))
				fail("ORACLE-FAIL key=authq-request op=%s what=QueryAuthd against an answering server failed: %v (requests seen: %d)", strings.ReplaceAll(op, " ", "|"), err, len(seen))
				continue
			}
			s := seen[0]
			pairs := map[string][]string{}
			post := s.method == "POST"
			if post {
				if json.Unmarshal(s.body, &pairs) != nil || s.ctype != "application/json" {
					fail("ORACLE-FAIL key=authq-request op=%s what=POST body is not the JSON form: %q (%s)", strings.ReplaceAll(op, " ", "|"), s.body, s.ctype)
				}
			} else {
				for k, v := range mustQuery(s.rawq) {
					pairs[k] = v
				}
			}
			keys := make([]string, 0, len(pairs))
			for k := range pairs {
				keys = append(keys, k)
			}
			sort.Strings(keys)
			var fs []string
			for _, k := range keys {
				for _, v := range pairs[k] {
					fs = append(fs, vfHex([]byte(k))+"="+vfHex([]byte(v)))
				}
			}
			f := "-"
			if len(fs) > 0 {
				f = strings.Join(fs, ",")
			}
			out.Case(op, fmt.Sprintf("P=%d U=%s F=%s", vfBool(post), vfHex([]byte(s.path)), f))
			hist["aq:"+s.method+":"+authdT]++
			// model-free: exactly the four parameters, with exactly the values passed in
			want := map[string]string{"remote_ip": ip, "common_name": cn, "secret": secret, "tls": fmt.Sprint(tls)}
			okp := len(pairs) == 4
			for k, v := range want {
				if len(pairs[k]) != 1 || pairs[k][0] != v {
					okp = false
				}
			}
			if !okp {
				fail("ORACLE-FAIL key=authq-injection op=%s what=the auth server decoded %v, nsqd meant %v", strings.ReplaceAll(op, " ", "|"), pairs, want)
			}
		case 6, 7, 8: // anyq
			n := r.Intn(5)
			bits := make([]byte, n)
			var order []int
			var omu sync.Mutex
			var srvs []*vfAQServer
			var addrs []string
			for k := 0; k < n; k++ {
				okk := r.Intn(3) == 0
				bits[k] = '0'
				if okk {
					bits[k] = '1'
				}
				kind := r.Intn(4)
				s := vfAQNew(func() (int, string) {
					if okk {
						return 200, vfAQGood
					}
					switch kind {
					case 0:
						return 500, `{"message":"down"}`
					case 1:
						return 200, `{"ttl":0,"authorizations":[]}`
					case 2:
						return 200, `not json`
					default:
						return 200, `{"ttl":60,"authorizations":[{"topic":"(","channels":[".*"],"permissions":["publish"]}]}`
					}
				})
				s.order, s.omu, s.idx = &order, &omu, k
				srvs = append(srvs, s)
				addrs = append(addrs, s.host())
			}
			st, err := QueryAnyAuthd(addrs, "1.2.3.4", false, "", "s", nil, 5*time.Second, 5*time.Second, "get")
			for _, s := range srvs {
				s.srv.Close()
			}
			start := 0
			if len(order) > 0 {
				start = order[0]
			}
			got := "none"
			if err == nil && st != nil && len(order) > 0 {
				got = fmt.Sprint(order[len(order)-1])
			}
			var os []string
			for _, x := range order {
				os = append(os, fmt.Sprint(x))
			}
			asked := "-"
			if len(os) > 0 {
				asked = strings.Join(os, ",")
			}
			bs := string(bits)
			if bs == "" {
				bs = "-"
			}
			out.Case(fmt.Sprintf("anyq %d %d %s", n, start, bs), fmt.Sprintf("asked=%s got=%s", asked, got))
			hist[fmt.Sprintf("anyq:n=%d:%s", n, map[bool]string{true: "ok", false: "fail"}[got != "none"])]++
			// model-free: success iff some server is acceptable; nobody asked twice
			any1 := strings.Contains(string(bits), "1")
			dup := map[int]bool{}
			for _, x := range order {
				if dup[x] {
					fail("ORACLE-FAIL key=authq-any op=anyq|%d|%d|%s what=server %d asked twice (%v)", n, start, bs, x, order)
				}
				dup[x] = true
			}
			if n == 0 {
				// no server configured: (nil, nil) — unreachable from the protocol (AUTH answers E_AUTH_DISABLED first)
				if err != nil || st != nil {
					fail("ORACLE-FAIL key=authq-any op=anyq|0|0|- what=QueryAnyAuthd without servers returned %v, %v", st, err)
				}
			} else if any1 != (err == nil) {
				fail("ORACLE-FAIL key=authq-any op=anyq|%d|%d|%s what=acceptable server present=%v but QueryAnyAuthd returned err=%v", n, start, bs, any1, err)
			}
		default: // ttlq
			ttl := []int64{1, 2, 59, 60, 3600, 86400, 31536000, 9223372036, 9223372037, 9223372038, 18446744073, 18446744074, 
				4611686018427387904, 9223372036854775807, 1000000000, 7, 123456789012}[r.Intn(17)]
			s := vfAQNew(func() (int, string) {
				return 200, fmt.Sprintf(`{"ttl":%d,"authorizations":[]}`, ttl)
			})
			var delta time.Duration
			okm := false
			for try := 0; try < 6 && !okm; try++ {
				t0 := time.Now()
				st, err := QueryAuthd(s.host(), "", false, "", "", nil, 5*time.Second, 5*time.Second, "get")
				t1 := time.Now()
				if err != nil || st == nil {
					break
				}
				el := t1.Sub(t0)
				if el < 300*time.Millisecond {
					// Expires = now + ttl for a `now` between t0 and t1 (wall clock arithmetic, as IsExpired compares)
					delta = st.Expires.Round(0).Sub(t0.Round(0)) - el/2
					okm = true
				}
			}
			s.srv.Close()
			if !okm {
				hist["ttlq:skipped"]++
				continue
			}
			sec := (int64(delta) + 500000000)
			q := sec / 1000000000
			if sec < 0 && sec%1000000000 != 0 {
				q--
			}
			out.Case(fmt.Sprintf("ttlq %d", ttl), fmt.Sprintf("s=%d", q))
			hist["ttlq"]++
		}
	}
	keys := make([]string, 0, len(hist))
	for k := range hist {
		keys = append(keys, k)
	}
	sort.Strings(keys)
	for _, k := range keys {
		fmt.Printf("HIST %s %d\n", k, hist[k])
	}
	for _, f := range fails {
		fmt.Println(f)
	}
	if len(fails) == 0 {
		fmt.Printf("ORACLE-OK cases=%d lines=%d\n", N, out.N)
	}
}

func vfBool(b bool) int {
	if b {
		return 1
	}
	return 0
}

func mustQuery(raw string) map[string][]string {
	q, _ := url.ParseQuery(raw) // what a server's r.URL.Query() yields (the error is dropped there too)
	return q
}
