package nsqd

// C09, audit round 7 — correspondence and direct oracles for the answers that do NOT come from the
// connection's own bytes (Lean model Nsq.Model.ProtoEnv, driver op `iox`):
//
//	L  --max-channel-consumers 2: connections held open occupy a channel, the next SUB is E_SUB_FAILED
//	F  --mem-queue-size 0 and a topic backend whose k-th write fails: E_PUB/MPUB/DPUB_FAILED, the
//	   prefix PutMessages had written stays enqueued (open finding mpub-partial-on-backend-fault)
//	A  a real auth server: E_AUTH_FIRST / E_UNAUTHORIZED / E_AUTH_FAILED, AUTH twice, per-topic gate
//	C  snappy + deflate enabled with room for an IDENTIFY body (the Z node's max-body-size 23 answers
//	   E_BAD_BODY first): E_IDENTIFY_FAILED and the negotiated upgrades (plain `io` ops)
//
// plus a bystander producer/consumer pair that runs CONCURRENTLY with the connections under test, and
// the subprocess child for the option values messagePump hands to time.NewTicker (B8).

import (
	"bufio"
	"errors"
	"fmt"
	"net"
	"net/http"
	"net/http/httptest"
	"os"
	"path/filepath"
	"strings"
	"sync"
	"sync/atomic"
	"testing"
	"time"

	"github.com/nsqio/nsq/internal/lg"
)

// ---------------------------------------------------------------- write-failing backend

type vfA9Fault struct {
	mu   sync.Mutex
	left int // writes that still succeed; < 0: no fault
	hits int
}

func (f *vfA9Fault) set(n int) { f.mu.Lock(); f.left = n; f.mu.Unlock() }

type vfA9Backend struct {
	BackendQueue
	f *vfA9Fault
}

func (b *vfA9Backend) Put(p []byte) error {
	b.f.mu.Lock()
	if b.f.left == 0 {
		b.f.hits++
		b.f.mu.Unlock()
		return errors.New("verif: injected backend write failure")
	}
	if b.f.left > 0 {
		b.f.left--
	}
	b.f.mu.Unlock()
	return b.BackendQueue.Put(p)
}

// ---------------------------------------------------------------- auth server

type vfA9Authd struct {
	mu   sync.Mutex
	seen map[string]string // secret -> the rest of its `authd` table line
	srv  *httptest.Server
}

var vfA9Grants = map[string][]string{"good": {"t0", "t1"}, "eph": {"x#ephemeral"}}

func vfA9NewAuthd() *vfA9Authd {
	a := &vfA9Authd{seen: map[string]string{}}
	a.srv = vfHTTPServer(http.HandlerFunc(func(w http.ResponseWriter, r *http.Request) {
		r.ParseForm()
		secret := r.Form.Get("secret")
		line := "fail"
		if topics, ok := vfA9Grants[secret]; ok {
			var hx, alt []string
			for _, t := range topics {
				hx = append(hx, vfHex([]byte(t)))
				alt = append(alt, t)
			}
			line = fmt.Sprintf("1 %s", strings.Join(hx, ","))
			fmt.Fprintf(w, `{"ttl":3600,"identity":"verif","authorizations":[{"topic":"^(%s)$","channels":[".*"],"permissions":["subscribe","publish"]}]}`,
				strings.Join(alt, "|"))
		} else if secret == "none" {
			line = "0 -"
			fmt.Fprint(w, `{"ttl":3600,"identity":"verif","authorizations":[]}`)
		} else {
			w.WriteHeader(403)
			fmt.Fprint(w, `{"message":"FORBIDDEN"}`)
		}
		a.mu.Lock()
		a.seen[secret] = line
		a.mu.Unlock()
	}))
	return a
}

// Lines returns (and forgets) the `authd` table lines for the secrets queried since the last call.
func (a *vfA9Authd) Lines() []string {
	a.mu.Lock()
	defer a.mu.Unlock()
	var out []string
	for s, l := range a.seen {
		out = append(out, fmt.Sprintf("authd %s %s", vfHex([]byte(s)), l))
	}
	a.seen = map[string]string{}
	sortStrings(out)
	return out
}

// ---------------------------------------------------------------- nodes

func vfA9Start(id string, authAddr string) *vfE3Node {
	opts := NewOptions()
	lgr := &vfE3Logger{}
	opts.Logger = lgr
	opts.LogLevel = lg.ERROR
	opts.DataPath = vfE3DataDir()
	opts.QueueScanInterval = 24 * time.Hour
	opts.QueueScanRefreshInterval = 24 * time.Hour
	opts.DeflateEnabled = false
	opts.SnappyEnabled = false
	opts.MaxMsgSize = 48
	opts.MaxBodySize = 200
	opts.MaxRdyCount = 7
	opts.MaxReqTimeout = 90 * time.Second
	opts.MaxHeartbeatInterval = 5 * time.Second
	opts.MaxOutputBufferSize = 300
	opts.MaxOutputBufferTimeout = 2 * time.Second
	opts.MinOutputBufferTimeout = 30 * time.Millisecond
	opts.MaxMsgTimeout = 70 * time.Second
	switch id {
	case "L":
		opts.MaxChannelConsumers = 2
	case "F":
		opts.MemQueueSize = 0
	case "A":
		opts.AuthHTTPAddresses = []string{authAddr}
	case "C":
		opts.DeflateEnabled = true
		opts.SnappyEnabled = true
	}
	opts.TCPAddress, opts.HTTPAddress, opts.HTTPSAddress = vfLoop3()
	n, err := New(opts)
	if err != nil {
		panic(err)
	}
	go func() {
		if err := n.Main(); err != nil {
			panic(err)
		}
	}()
	return &vfE3Node{id: id, n: n, log: lgr, opts0: n.getOpts(),
		http: newHTTPServer(n, false, false), tcp: n.RealTCPAddr()}
}

type vfA9Held struct {
	hold chan struct{}
	done chan interface{}
}

type vfA9 struct {
	nodes    map[string]*vfE3Node
	authd    *vfA9Authd
	fault    *vfA9Fault
	held     map[string][]vfA9Held
	out      *vfOut
	hist     map[string]int
	json     map[string]bool
	jsonSeen map[string]bool
	fails    []string
}

func (a *vfA9) fail(f string, args ...interface{}) {
	if len(a.fails) < 20 {
		a.fails = append(a.fails, fmt.Sprintf(f, args...))
	}
}

func (a *vfA9) confxLine(id string) string {
	o := a.nodes[id].n.getOpts()
	return fmt.Sprintf("confx %s %d %d", id, o.MaxChannelConsumers, vfE3Bool(len(o.AuthHTTPAddresses) != 0))
}

// reset releases the connections held open on the node, waits for their handlers and deletes every topic.
func (a *vfA9) reset(id string) {
	v := a.nodes[id]
	for _, h := range a.held[id] {
		close(h.hold)
		select {
		case <-h.done:
		case <-time.After(10 * time.Second):
			a.fail("ORACLE-FAIL key=hang stream=- conf=%s what=a held connection did not end within 10 s of its EOF", id)
		}
	}
	a.held[id] = nil
	v.Reset()
}

func (a *vfA9) queues(v *vfE3Node) string {
	v.n.RLock()
	var ts []string
	for _, t := range v.n.topicMap {
		if strings.HasPrefix(t.name, "gc.") {
			continue
		}
		d := t.Depth()
		t.RLock()
		for _, c := range t.channelMap {
			d += c.Depth()
		}
		t.RUnlock()
		ts = append(ts, fmt.Sprintf("%s:%d:%d", vfHex([]byte(t.name)), atomic.LoadUint64(&t.messageCount), d))
	}
	v.n.RUnlock()
	sortStrings(ts)
	return vfE3JoinOr("/", ts)
}

func (a *vfA9) mkt(id, topic string) {
	v := a.nodes[id]
	t := v.n.GetTopic(topic)
	if id == "F" {
		if _, ok := t.backend.(*vfA9Backend); !ok {
			t.backend = &vfA9Backend{BackendQueue: t.backend, f: a.fault}
		}
	}
	a.out.Case(fmt.Sprintf("mkt %s %s", id, vfHex([]byte(topic))), "ok")
}

func (a *vfA9) emitJSON(stream []byte) {
	// IDENTIFY bodies the generator put into the stream (exact sizes only; anything else is asked for by the
	// driver through `need-json`)
	for body := range a.json {
		if !a.jsonSeen[body] {
			a.jsonSeen[body] = true
			a.out.Case(vfE3JsonLine([]byte(body)), "ok")
		}
		delete(a.json, body)
	}
}

// iox runs one connection and writes its op / answer. fault < 0: no injected fault.
func (a *vfA9) iox(id string, stream []byte, keep bool, fault int, rnd *vfRand) vfE3Result {
	v := a.nodes[id]
	view := "b"
	if id == "F" {
		view = "q"
		a.fault.set(fault)
	}
	var hold chan struct{}
	if keep {
		hold = make(chan struct{})
	}
	vfE3NoteLast(id, stream)
	res := v.RunConnHold(stream, rnd, hold)
	if id == "F" {
		a.fault.set(-1)
	}
	if keep {
		if res.end == "eof" {
			res.end = "open"
			a.held[id] = append(a.held[id], vfA9Held{hold, res.done})
		} else {
			close(hold)
		}
	}
	snap := ""
	if view == "q" {
		snap = a.queues(v)
	} else {
		snap = v.Snapshot()
	}
	a.emitJSON(stream)
	if a.authd != nil {
		for _, l := range a.authd.Lines() {
			a.out.Case(l, "ok")
		}
	}
	fs := "-"
	if fault >= 0 {
		fs = fmt.Sprint(fault)
	}
	a.out.Case(fmt.Sprintf("iox %s %s %d %s %s", id, vfHex(stream), vfE3Bool(keep), fs, view), vfE3ImplLine(res, snap))
	a.hist[id+":end:"+res.end]++
	for _, r := range res.replies {
		a.hist[id+":reply:"+r]++
	}
	if res.end == "panic" || res.end == "hang" {
		a.fail("ORACLE-FAIL key=%s stream=%s conf=%s what=the connection handler ended in a %s: %v", res.end, vfHex(stream), id, res.end, res.replies)
	}
	return res
}

func vfA9Frame(cmd string, body []byte) []byte {
	b := append([]byte(cmd+"\n"), vfE3BE32(uint32(len(body)))...)
	return append(b, body...)
}

// ---------------------------------------------------------------- class L: the consumer limit

func (a *vfA9) classLimit(g *vfE3Gen) {
	id := "L"
	a.out.Case("reset", "ok")
	a.reset(id)
	chans := []string{"c0", "c1", "x#ephemeral"}
	nh := g.r.Intn(4)
	for i := 0; i < nh; i++ {
		c := chans[g.r.Intn(len(chans))]
		if g.r.Intn(3) > 0 {
			c = "c0"
		}
		res := a.iox(id, []byte("  V2SUB t0 "+c+"\n"), true, -1, g.r)
		if res.end == "open" {
			a.hist["limit:held"]++
		}
	}
	for k := 1 + g.r.Intn(3); k > 0; k-- {
		var s []byte
		switch g.r.Intn(4) {
		case 0:
			s, _ = g.stream()
		default:
			s = []byte("  V2")
			if g.r.Intn(4) == 0 {
				body := []byte(`{"heartbeat_interval":` + g.pick("1000", "0", "-1") + `}`)
				a.json[string(body)] = true
				s = append(s, vfA9Frame("IDENTIFY", body)...)
			}
			c := chans[g.r.Intn(len(chans))]
			if g.r.Intn(2) == 0 {
				c = "c0"
			}
			s = append(s, []byte("SUB "+g.pick("t0", "t0", "t0", "t1")+" "+c+"\n")...)
			for j := g.r.Intn(3); j > 0; j-- {
				b, _, _ := g.command()
				s = append(s, b...)
			}
		}
		for body := range g.json {
			a.json[body] = true
			delete(g.json, body)
		}
		res := a.iox(id, s, false, -1, g.r)
		for _, r := range res.replies {
			if r == "E_SUB_FAILED" {
				a.hist["limit:hit"]++
			}
		}
	}
}

// ---------------------------------------------------------------- class F: a failing backend write

// publish command on a pre-created topic; k = messages it carries when accepted
func (a *vfA9) publishCmd(g *vfE3Gen, topic string) (b []byte, kind string, k int) {
	o := g.v.n.getOpts()
	switch g.r.Intn(5) {
	case 0:
		decl, act := g.sizes(o.MaxMsgSize)
		b = append(append([]byte("PUB "+topic+"\n"), vfE3BE32(decl)...), g.body(act)...)
		return b, "PUB", 1
	case 1:
		decl, act := uint32(3), 3
		if g.r.Intn(4) == 0 {
			decl, act = g.sizes(o.MaxMsgSize)
		}
		b = append(append([]byte("DPUB "+topic+" "+g.pick("0", "5", "90000", "90001")+"\n"), vfE3BE32(decl)...), g.body(act)...)
		return b, "DPUB", 1
	default:
		n := 1 + g.r.Intn(5)
		var batch []byte
		for i := 0; i < n; i++ {
			sz := 1 + g.r.Intn(5)
			decl := uint32(sz)
			if g.r.Intn(14) == 0 {
				decl = []uint32{0, 49, 0xFFFFFFFF}[g.r.Intn(3)] // a bad size somewhere in the batch
			}
			batch = append(append(batch, vfE3BE32(decl)...), g.body(sz)...)
		}
		full := append(vfE3BE32(uint32(n)), batch...)
		b = append(append([]byte("MPUB "+topic+"\n"), vfE3BE32(uint32(len(full)))...), full...)
		return b, "MPUB", n
	}
}

func (a *vfA9) faultOracle(v *vfE3Node, stream []byte, res vfE3Result, kind string, prefix, k int, c0 uint64, d0 int64, c1 uint64, d1 int64) {
	last := ""
	if len(res.replies) > 0 {
		last = res.replies[len(res.replies)-1]
	}
	dc, dd := int64(c1-c0), d1-d0
	all, none := int64(prefix+k), int64(prefix)
	switch {
	case dc != dd:
		a.fail("ORACLE-FAIL key=fault-count-depth-skew stream=%s conf=F what=%s with an injected write failure answered %v: message_count moved by %d, depth by %d", vfHex(stream), kind, res.replies, dc, dd)
	case last == "OK" && len(res.replies) == prefix+1:
		if dd != all {
			a.fail("ORACLE-FAIL key=fault-ok-but-missing stream=%s conf=F what=%s answered OK but %d of %d messages are enqueued", vfHex(stream), kind, dd-none, k)
		}
	case strings.HasSuffix(last, "PUB_FAILED"):
		a.hist["fault:fired:"+kind]++
		if dd > none && dd < all && kind == "MPUB" {
			a.hist["fault:partial"]++
			a.fail("ORACLE-FAIL key=mpub-partial-on-backend-fault stream=%s conf=F what=MPUB of %d messages answered the fatal %s and %d of them stay enqueued (message_count +%d): not all-or-nothing",
				vfHex(stream), k, last, dd-none, dc-none)
		} else if dd != none {
			a.fail("ORACLE-FAIL key=fault-enqueued stream=%s conf=F what=%s answered %s but depth moved by %d (expected %d)", vfHex(stream), kind, last, dd, none)
		}
	default:
		if dd != none && dd != all {
			a.fail("ORACLE-FAIL key=fault-enqueued stream=%s conf=F what=%s answered %v and depth moved by %d (expected %d or %d)", vfHex(stream), kind, res.replies, dd, none, all)
		}
	}
}

func (a *vfA9) counts(v *vfE3Node) (uint64, int64) { return v.Counts() }

func (a *vfA9) classFault(g *vfE3Gen) {
	id := "F"
	v := a.nodes[id]
	a.out.Case("reset", "ok")
	a.reset(id)
	a.mkt(id, "t0")
	a.mkt(id, "t1")
	if g.r.Intn(3) == 0 {
		s := []byte("  V2")
		for j := 1 + g.r.Intn(2); j > 0; j-- {
			s = append(s, []byte("PUB "+g.pick("t0", "t1")+"\n\x00\x00\x00\x02hi")...)
		}
		a.iox(id, s, false, -1, g.r)
	}
	s := []byte("  V2")
	prefix := g.r.Intn(3)
	for j := 0; j < prefix; j++ {
		s = append(s, []byte("PUB "+g.pick("t0", "t1")+"\n\x00\x00\x00\x02hi")...)
	}
	b, kind, k := a.publishCmd(g, g.pick("t0", "t1"))
	s = append(s, b...)
	fault := g.r.Intn(prefix + k + 2)
	if g.r.Intn(8) == 0 {
		fault = -1
	}
	c0, d0 := a.counts(v)
	res := a.iox(id, s, false, fault, g.r)
	c1, d1 := a.counts(v)
	a.hist["fault:"+kind]++
	if fault >= 0 && fault >= prefix {
		a.faultOracle(v, s, res, kind, prefix, k, c0, d0, c1, d1)
	}
	if g.r.Intn(2) == 0 {
		// the daemon keeps serving after the fault
		res := a.iox(id, []byte("  V2PUB t1\n\x00\x00\x00\x02ok"), false, -1, g.r)
		if len(res.replies) != 1 || res.replies[0] != "OK" {
			a.fail("ORACLE-FAIL key=fault-aftermath stream=%s conf=F what=a PUB after the injected write failure was answered %v", vfHex(s), res.replies)
		}
	}
}

// ---------------------------------------------------------------- class A: the authorization gate

func (a *vfA9) classAuth(g *vfE3Gen) {
	id := "A"
	a.out.Case("reset", "ok")
	a.reset(id)
	for k := 1 + g.r.Intn(2); k > 0; k-- {
		var s []byte
		if g.r.Intn(5) == 0 {
			s, _ = g.stream()
		} else {
			s = []byte("  V2")
			if g.r.Intn(8) == 0 {
				s = append(s, []byte("PUB t0\n\x00\x00\x00\x02hi")...)
			}
			secret := g.pick("good", "good", "good", "good", "good", "eph", "none", "bad", string(g.r.Bytes(1+g.r.Intn(4))))
			if g.r.Intn(10) > 0 {
				s = append(s, vfA9Frame("AUTH", []byte(secret))...)
			}
			topics := []string{"t0", "t1", "t0", "a.b-c_D9", "x#ephemeral", "bad!"}
			for j := 1 + g.r.Intn(4); j > 0; j-- {
				t := topics[g.r.Intn(len(topics))]
				switch g.r.Intn(8) {
				case 0, 1:
					s = append(s, []byte("PUB "+t+"\n\x00\x00\x00\x02hi")...)
				case 2:
					b, _, _ := a.publishCmd(g, t)
					s = append(s, b...)
				case 3:
					s = append(s, []byte("SUB "+t+" "+g.pick("c0", "x#ephemeral", "bad!")+"\n")...)
				case 4:
					s = append(s, vfA9Frame("AUTH", []byte(g.pick("good", "eph", "bad")))...)
				case 5:
					s = append(s, []byte("NOP\n")...)
				default:
					b, _, _ := g.command()
					s = append(s, b...)
				}
			}
		}
		for body := range g.json {
			a.json[body] = true
			delete(g.json, body)
		}
		a.iox(id, s, false, -1, g.r)
	}
}

// ---------------------------------------------------------------- class C: compression negotiation

func (a *vfA9) classCompress(g *vfE3Gen) {
	id := "C"
	v := a.nodes[id]
	a.out.Case("reset", "ok")
	a.reset(id)
	body := []byte(`{"feature_negotiation":true,` + g.pick(`"snappy":true,"deflate":true`, `"snappy":true`, `"deflate":true`,
		`"deflate":true,"deflate_level":9`, `"snappy":true,"deflate":false`, `"snappy":true,"deflate":true,"heartbeat_interval":1000`,
		`"tls_v1":true`, `"snappy":true,"deflate":true,"sample_rate":100`) + `}`)
	s := append([]byte("  V2"), vfA9Frame("IDENTIFY", body)...)
	s = append(s, []byte(g.pick("NOP\n", "PUB t0\n\x00\x00\x00\x02hi", ""))...)
	if !a.jsonSeen[string(body)] {
		a.jsonSeen[string(body)] = true
		a.out.Case(vfE3JsonLine(body), "ok")
	}
	vfE3NoteLast(id, s)
	res := v.RunConn(s, g.r)
	a.out.Case(fmt.Sprintf("io %s %s", id, vfHex(s)), vfE3ImplLine(res, v.Snapshot()))
	a.hist["C:end:"+res.end]++
	for _, r := range res.replies {
		a.hist["C:reply:"+r]++
	}
	if res.cl != nil {
		if atomic.LoadInt32(&res.cl.Snappy) == 1 {
			a.hist["C:snappy-installed"]++
		}
		if atomic.LoadInt32(&res.cl.Deflate) == 1 {
			a.hist["C:deflate-installed"]++
		}
	}
	if res.end == "panic" || res.end == "hang" {
		a.fail("ORACLE-FAIL key=%s stream=%s conf=%s what=the connection handler ended in a %s: %v", res.end, vfHex(s), id, res.end, res.replies)
	}
}

// ---------------------------------------------------------------- replay of committed .xops files

func (a *vfA9) replay(path string) {
	f, err := os.Open(path)
	if err != nil {
		return
	}
	defer f.Close()
	sc := bufio.NewScanner(f)
	sc.Buffer(make([]byte, 1<<20), 64<<20)
	rnd := vfNewRand(77)
	var c0 uint64
	var d0 int64
	for sc.Scan() {
		line := strings.TrimSpace(sc.Text())
		w := strings.Fields(line)
		if len(w) == 0 || strings.HasPrefix(line, "#") {
			continue
		}
		switch w[0] {
		case "reset":
			a.out.Case("reset", "ok")
			for id := range a.nodes {
				a.reset(id)
			}
		case "mkt":
			if len(w) == 3 && a.nodes[w[1]] != nil {
				a.mkt(w[1], string(vfE3Unhex(w[2])))
			}
		case "iox":
			if len(w) != 6 || a.nodes[w[1]] == nil {
				continue
			}
			fault := -1
			if w[4] != "-" {
				fmt.Sscan(w[4], &fault)
			}
			v := a.nodes[w[1]]
			c0, d0 = v.Counts()
			stream := vfE3Unhex(w[2])
			res := a.iox(w[1], stream, w[3] == "1", fault, rnd)
			c1, d1 := v.Counts()
			a.hist["corpus:iox"]++
			if w[1] == "F" && fault >= 0 && strings.HasPrefix(string(stream), "  V2MPUB ") && len(stream) > 20 {
				// a single MPUB: its count is the second length field
				nl := strings.IndexByte(string(stream), '\n')
				k := int(stream[nl+8])
				a.faultOracle(v, stream, res, "MPUB", 0, k, c0, d0, c1, d1)
			}
		}
	}
}

// ---------------------------------------------------------------- the test

func TestVerifE3Audit09(t *testing.T) {
	N := vfEnvInt("VERIF_N", 300)
	if repo := os.Getenv("VERIF_REPO"); repo != "" {
		os.Chdir(filepath.Join(repo, "nsqd"))
	}
	a := &vfA9{nodes: map[string]*vfE3Node{}, fault: &vfA9Fault{left: -1}, held: map[string][]vfA9Held{},
		hist: map[string]int{}, json: map[string]bool{}, jsonSeen: map[string]bool{}}
	a.authd = vfA9NewAuthd()
	defer a.authd.srv.Close()
	a.nodes["L"] = vfA9Start("L", "")
	a.nodes["F"] = vfA9Start("F", "")
	a.nodes["A"] = vfA9Start("A", strings.TrimPrefix(a.authd.srv.URL, "http://"))
	a.nodes["C"] = vfA9Start("C", "")
	a.out = vfOpen("audit")
	defer a.out.Close()
	ids := []string{"A", "C", "F", "L"}
	for _, id := range ids {
		a.out.Case(a.nodes[id].ConfLine(), "ok")
		a.out.Case(a.confxLine(id), "ok")
	}
	// the bystander pairs run concurrently with everything below
	var stop int32
	var wg sync.WaitGroup
	var ticks int64
	var bmu sync.Mutex
	for _, id := range []string{"C", "F", "L"} {
		gd, err := vfE3NewGood(a.nodes[id])
		if err != nil {
			a.fail("ORACLE-FAIL key=bystander stream=- what=well-behaved client on %s: %v", id, err)
			continue
		}
		wg.Add(1)
		go func(id string, gd *vfE3Good) {
			defer wg.Done()
			defer gd.Close()
			for atomic.LoadInt32(&stop) == 0 {
				if err := gd.Tick(); err != nil {
					bmu.Lock()
					a.fail("ORACLE-FAIL key=bystander stream=- what=%v (concurrent bystander on %s after %d rounds)", err, id, gd.n)
					bmu.Unlock()
					return
				}
				atomic.AddInt64(&ticks, 1)
				time.Sleep(500 * time.Microsecond)
			}
		}(id, gd)
	}
	if cp := os.Getenv("VERIF_CORPUS"); cp != "" {
		files, _ := filepath.Glob(filepath.Join(cp, "*.xops"))
		sortStrings(files)
		for _, f := range files {
			a.replay(f)
		}
	}
	for i := 0; i < N; i++ {
		cls := i % 10
		var v *vfE3Node
		switch {
		case cls < 4:
			v = a.nodes["L"]
		case cls < 7:
			v = a.nodes["F"]
		case cls < 9:
			v = a.nodes["A"]
		default:
			v = a.nodes["C"]
		}
		g := &vfE3Gen{r: vfNewRand(uint64(500000 + i)), v: v, hist: map[string]int{}, json: map[string]bool{}}
		bmu.Lock()
		switch v.id {
		case "L":
			a.classLimit(g)
		case "F":
			a.classFault(g)
		case "A":
			a.classAuth(g)
		default:
			a.classCompress(g)
		}
		bmu.Unlock()
	}
	atomic.StoreInt32(&stop, 1)
	wg.Wait()
	a.hist["bystander:concurrent-rounds"] = int(atomic.LoadInt64(&ticks))
	a.hist["fault:injected-failures"] = a.fault.hits
	for _, id := range ids {
		a.reset(id)
	}
	keys := make([]string, 0, len(a.hist))
	for k := range a.hist {
		keys = append(keys, k)
	}
	sortStrings(keys)
	for _, k := range keys {
		fmt.Printf("HIST %s %d\n", k, a.hist[k])
	}
	for _, f := range a.fails {
		fmt.Println(f)
	}
	if len(a.fails) == 0 {
		fmt.Printf("ORACLE-OK cases=%d lines=%d\n", N, a.out.N)
	}
	for _, v := range a.nodes {
		v.Stop()
	}
}

// TestVerifE3TickerChild runs in a SUBPROCESS (it may die): an nsqd with the option values of the
// environment (VERIF_OBT, VERIF_CT: nanoseconds; empty = default), one TCP connection that sends the
// magic and NOP. Prints `TICKER refused <error>` when nsqd.New rejects the options, `TICKER alive …`
// when the daemon still accepts connections half a second later (served / unserved: whether a PUB was answered); a daemon killed by
// messagePump's time.NewTicker ends the process with "panic: non-positive interval for NewTicker".
func TestVerifE3TickerChild(t *testing.T) {
	if os.Getenv("VERIF_TICKER_CHILD") == "" {
		t.Skip("subprocess only")
	}
	opts := NewOptions()
	opts.Logger = &vfE3Logger{}
	opts.LogLevel = lg.ERROR
	opts.DataPath = vfE3DataDir()
	defer os.RemoveAll(opts.DataPath)
	opts.TCPAddress, opts.HTTPAddress = vfLoop2()
	opts.HTTPSAddress = ""
	if s := os.Getenv("VERIF_OBT"); s != "" {
		var n int64
		fmt.Sscan(s, &n)
		opts.OutputBufferTimeout = time.Duration(n)
	}
	if s := os.Getenv("VERIF_CT"); s != "" {
		var n int64
		fmt.Sscan(s, &n)
		opts.ClientTimeout = time.Duration(n)
	}
	n, err := New(opts)
	if err != nil {
		fmt.Printf("TICKER refused %v\n", err)
		return
	}
	go n.Main()
	c, err := net.DialTimeout("tcp", n.RealTCPAddr().String(), 5*time.Second)
	if err != nil {
		fmt.Printf("TICKER dial %v\n", err)
		return
	}
	c.Write([]byte("  V2NOP\n"))
	time.Sleep(500 * time.Millisecond)
	c2, err := net.DialTimeout("tcp", n.RealTCPAddr().String(), 5*time.Second)
	if err != nil {
		fmt.Printf("TICKER dead %v\n", err)
		return
	}
	c2.Write([]byte("  V2PUB t\n\x00\x00\x00\x02hi"))
	ft, data, err := vfE3ReadFrame(c2)
	if err != nil || ft != frameTypeResponse || string(data) != "OK" {
		// a client timeout of a few nanoseconds drops every connection at once: the daemon itself must survive
		time.Sleep(300 * time.Millisecond)
		c3, err3 := net.DialTimeout("tcp", n.RealTCPAddr().String(), 5*time.Second)
		if err3 != nil {
			fmt.Printf("TICKER dead %v\n", err3)
			return
		}
		c3.Close()
		fmt.Printf("TICKER alive unserved %d %q %v\n", ft, data, err)
	} else {
		fmt.Println("TICKER alive served")
	}
	c.Close()
	c2.Close()
	n.Exit()
}
