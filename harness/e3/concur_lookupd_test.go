package nsqlookupd

// C10 concurrency leg on nsqlookupd (it answers through the same internal/http_api envelope: Decorate, V1,
// PlainText, RespondV1, the NotFound / MethodNotAllowed handlers). Machinery and oracle: concur_core.go.tmpl.
// A stand-alone nsqlookupd whose registration DB holds ONE node with one topic and one channel (lists of one
// element: the order of /topics, /nodes … is then not a matter of map iteration), and requests that do not
// change it. C15 is another builder's property; this leg belongs to C10's check only.

import (
	"testing"
	"time"

	"github.com/nsqio/nsq/internal/lg"
)

type vfE3CCNull struct{}

func (vfE3CCNull) Output(int, string) error { return nil }

func TestVerifE3HTTPConcurrentLookupd(t *testing.T) {
	g := vfCCNewRun()
	r := vfNewRand(0xC10D)
	opts := NewOptions()
	opts.Logger = vfE3CCNull{}
	opts.LogLevel = lg.FATAL
	opts.TCPAddress, opts.HTTPAddress = vfLoop2()
	opts.BroadcastAddress = vfLoopHost(opts.TCPAddress)
	l, err := New(opts)
	if err != nil {
		t.Fatal(err)
	}
	go func() {
		if err := l.Main(); err != nil {
			panic(err)
		}
	}()
	pi := &PeerInfo{id: "127.0.0.1:41500", RemoteAddress: "127.0.0.1:41500", Hostname: "cc-host", BroadcastAddress: "127.0.0.1",
		TCPPort: 4150, HTTPPort: 4151, Version: "1.3.0", lastUpdate: time.Now().UnixNano()}
	l.DB.AddProducer(Registration{"client", "", ""}, &Producer{peerInfo: pi})
	l.DB.AddProducer(Registration{"topic", "cc_topic", ""}, &Producer{peerInfo: pi})
	l.DB.AddProducer(Registration{"channel", "cc_topic", "ch"}, &Producer{peerInfo: pi})

	reqs := []vfCCReq{
		{Method: "GET", URL: "/info"},
		{Method: "GET", URL: "/topics"},
		{Method: "GET", URL: "/channels?topic=cc_topic"},
		{Method: "GET", URL: "/lookup?topic=cc_topic"},
		{Method: "GET", URL: "/nodes"},
		{Method: "GET", URL: "/debug"},
		{Method: "GET", URL: "/ping"},
		{Method: "POST", URL: "/topic/create?topic=cc_topic"},
		{Method: "GET", URL: "/channels"},
		{Method: "GET", URL: "/lookup"},
		{Method: "GET", URL: "/lookup?topic=%zz"},
		{Method: "POST", URL: "/topic/create?topic=bad%21name"},
		{Method: "POST", URL: "/topic/tombstone?topic=cc_topic"},
		{Method: "POST", URL: "/channel/create?topic=cc_topic"},
		{Method: "GET", URL: "/lookup?topic=cc_nosuch"},
		{Method: "POST", URL: "/channel/delete?topic=cc_topic&channel=nosuch"},
		{Method: "GET", URL: "/no/such/path"},
		{Method: "POST", URL: "/topics"},
		{Method: "GET", URL: "/topic/create?topic=cc_topic"},
	}
	tg := &vfCCTarget{Name: "nsqlookupd", Handler: newHTTPServer(l), Base: "http://" + l.RealHTTPAddr().String(), Reqs: reqs,
		DirectEach: 500, ListenEach: 500}
	g.target(tg, r)

	exited := make(chan struct{})
	go func() { l.Exit(); close(exited) }()
	select {
	case <-exited:
	case <-time.After(30 * time.Second):
		g.fail("http-concurrent-exit-hangs-nsqlookupd", "", "NSQLookupd.Exit did not return within 30 s after the concurrent HTTP leg")
	}
	g.report("nsqlookupd")
}
