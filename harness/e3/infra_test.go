package nsqd

// Engine E3 (proto) — shared harness infrastructure for C09 (TCP protocol) and C10 (HTTP API).
// Compiled into package nsqd through `go test -overlay`; nothing is written into the repo.

import (
	"bytes"
	"encoding/binary"
	"encoding/hex"
	"encoding/json"
	"fmt"
	"hash/fnv"
	"io"
	"net"
	"os"
	"reflect"
	"sort"
	"strings"
	"sync"
	"sync/atomic"
	"time"

	"github.com/nsqio/nsq/internal/lg"
)

// ---------------------------------------------------------------- logger (captures ERROR lines)

type vfE3Logger struct {
	mu    sync.Mutex
	lines []string
}

func (l *vfE3Logger) Output(depth int, s string) error {
	l.mu.Lock()
	if len(l.lines) < 4096 {
		l.lines = append(l.lines, s)
	}
	l.mu.Unlock()
	return nil
}
func (l *vfE3Logger) Reset() { l.mu.Lock(); l.lines = l.lines[:0]; l.mu.Unlock() }
func (l *vfE3Logger) Has(sub string) bool {
	l.mu.Lock()
	defer l.mu.Unlock()
	for _, x := range l.lines {
		if strings.Contains(x, sub) {
			return true
		}
	}
	return false
}

// ---------------------------------------------------------------- one nsqd per configuration

type vfE3Node struct {
	id     string
	n      *NSQD
	log    *vfE3Logger
	http   *httpServer
	opts0  *Options
	tcp    net.Addr
	connID int
}

func vfE3DataDir() string {
	base := ""
	if st, err := os.Stat("/dev/shm"); err == nil && st.IsDir() {
		base = "/dev/shm"
	}
	d, err := os.MkdirTemp(base, "nsq-vf-e3-")
	if err != nil {
		panic(err)
	}
	return d
}

// vfE3Start starts an in-process nsqd for configuration `id`:
//
//	S  small limits (boundaries are cheap to reach)        D  the default options
//	T  tls-required (every command but IDENTIFY is refused) Z  snappy+deflate enabled, tiny limits
func vfE3Start(id string) *vfE3Node {
	opts := NewOptions()
	lgr := &vfE3Logger{}
	opts.Logger = lgr
	opts.LogLevel = lg.ERROR
	opts.DataPath = vfE3DataDir()
	opts.QueueScanInterval = 24 * time.Hour // own the clock: deferred / in-flight timers never fire
	opts.QueueScanRefreshInterval = 24 * time.Hour
	opts.DeflateEnabled = false
	opts.SnappyEnabled = false
	switch id {
	case "S":
		opts.MaxMsgSize = 48
		opts.MaxBodySize = 200
		opts.MaxRdyCount = 7
		opts.MaxReqTimeout = 90 * time.Second
		opts.MaxHeartbeatInterval = 5 * time.Second
		opts.MaxOutputBufferSize = 300
		opts.MaxOutputBufferTimeout = 2 * time.Second
		opts.MinOutputBufferTimeout = 30 * time.Millisecond
		opts.MaxMsgTimeout = 70 * time.Second
	case "D":
	case "T":
		opts.MaxMsgSize = 48
		opts.MaxBodySize = 200
		opts.TLSRequired = TLSRequired
		opts.TLSCert = "./test/certs/server.pem"
		opts.TLSKey = "./test/certs/server.key"
	case "Z":
		opts.MaxMsgSize = 16
		opts.MaxBodySize = 23
		opts.DeflateEnabled = true
		opts.SnappyEnabled = true
		opts.MaxReqTimeout = time.Duration(9223372036854775807)
	}
	opts.TCPAddress, opts.HTTPAddress, opts.HTTPSAddress = vfLoop3()
	n, err := New(opts)
	if err != nil {
		panic(err)
	}
	go func() {
		if err := n.Main(); err != nil {
			panic(err)
		}
	}()
	return &vfE3Node{id: id, n: n, log: lgr, opts0: n.getOpts(),
		http: newHTTPServer(n, false, n.getOpts().TLSRequired == TLSRequired), tcp: n.RealTCPAddr()}
}

func (v *vfE3Node) Stop() {
	v.n.Exit()
	os.RemoveAll(v.opts0.DataPath)
}

func vfE3Bool(b bool) int {
	if b {
		return 1
	}
	return 0
}

// vfE3CfgNames lists the names getOptByCfgName can find (same walk over the struct tags).
func vfE3CfgNames(opts *Options) []string {
	var out []string
	typ := reflect.TypeOf(opts).Elem()
	for i := 0; i < typ.NumField(); i++ {
		f := typ.Field(i)
		flagName := f.Tag.Get("flag")
		cfgName := f.Tag.Get("cfg")
		if flagName == "" {
			continue
		}
		if cfgName == "" {
			cfgName = strings.Replace(flagName, "-", "_", -1)
		}
		out = append(out, cfgName)
	}
	return out
}

// ConfLine is the `conf` op the Lean driver reads (all limits are read off the live options).
func (v *vfE3Node) ConfLine() string {
	o := v.n.getOpts()
	ms := func(d time.Duration) int64 { return int64(int(d / time.Millisecond)) }
	return fmt.Sprintf("conf %s %d %d %d %d %d %d %d %d %d %d %d %d %d %d %d %d %d %s",
		v.id, o.MaxMsgSize, o.MaxBodySize, o.MaxRdyCount, int64(o.MaxReqTimeout),
		ms(o.MaxHeartbeatInterval), ms(o.MinOutputBufferTimeout), ms(o.MaxOutputBufferTimeout),
		int64(int(o.MaxOutputBufferSize)), ms(o.MaxMsgTimeout),
		vfE3Bool(o.TLSRequired == TLSNotRequired), vfE3Bool(v.n.tlsConfig != nil),
		vfE3Bool(o.DeflateEnabled), vfE3Bool(o.SnappyEnabled),
		int64(o.ClientTimeout/2), int64(o.OutputBufferTimeout), int64(o.MsgTimeout),
		vfE3Bool(o.TLSRequired == TLSRequired), strings.Join(vfE3CfgNames(o), ","))
}

// vfE3NoteLast records the stream about to be served (synchronously, outside the buffered ops file): if
// the process dies while serving it (a panic in a goroutine nobody recovers) the check still has the
// exact input.
func vfE3NoteLast(conf string, stream []byte) {
	dir := os.Getenv("VERIF_OUT")
	if dir == "" {
		return
	}
	os.WriteFile(dir+"/last.ops", []byte("reset\nio "+conf+" "+vfHex(stream)+"\n"), 0o644)
}

// ---------------------------------------------------------------- in-memory connection

type vfE3Addr struct{ s string }

func (a vfE3Addr) Network() string { return "tcp" }
func (a vfE3Addr) String() string  { return a.s }

// vfE3Conn serves a fixed byte stream to the server (in random chunk sizes) followed by EOF and
// records everything the server writes. No sockets, no timers.
type vfE3Conn struct {
	mu     sync.Mutex
	in     []byte
	off    int
	out    bytes.Buffer
	closed bool
	rnd    *vfRand
	addr   vfE3Addr
	srv    *tcpServer
	client *clientV2
	settle func() // called before EOF is delivered and before every write: let the topic pumps finish
	// audit09 (held connections): when hold is non-nil EOF is delivered only after hold is closed;
	// drained is closed once the server asks for more bytes than the stream has
	hold      chan struct{}
	drained   chan struct{}
	drainOnce sync.Once
}

func (c *vfE3Conn) Read(p []byte) (int, error) {
	c.mu.Lock()
	defer c.mu.Unlock()
	if c.client == nil && c.srv != nil {
		if v, ok := c.srv.conns.Load(net.Addr(c.addr)); ok {
			c.client, _ = v.(*clientV2)
		}
	}
	if c.closed {
		return 0, io.ErrClosedPipe
	}
	if c.off >= len(c.in) {
		if c.settle != nil {
			c.mu.Unlock()
			c.settle()
			c.mu.Lock()
		}
		if c.hold != nil {
			c.drainOnce.Do(func() { close(c.drained) })
			c.mu.Unlock()
			<-c.hold
			c.mu.Lock()
		}
		return 0, io.EOF
	}
	n := len(p)
	if rem := len(c.in) - c.off; n > rem {
		n = rem
	}
	switch c.rnd.Intn(4) {
	case 0:
		if n > 1 {
			n = 1 + c.rnd.Intn(n)
		}
	case 1:
		if n > 7 {
			n = 1 + c.rnd.Intn(7)
		}
	}
	copy(p, c.in[c.off:c.off+n])
	c.off += n
	return n, nil
}

func (c *vfE3Conn) Write(p []byte) (int, error) {
	if c.settle != nil {
		c.settle()
	}
	c.mu.Lock()
	defer c.mu.Unlock()
	if c.closed {
		return 0, io.ErrClosedPipe
	}
	c.out.Write(p)
	return len(p), nil
}
func (c *vfE3Conn) Close() error                       { c.mu.Lock(); c.closed = true; c.mu.Unlock(); return nil }
func (c *vfE3Conn) LocalAddr() net.Addr                { return vfE3Addr{"127.0.0.1:4150"} }
func (c *vfE3Conn) RemoteAddr() net.Addr               { return c.addr }
func (c *vfE3Conn) SetDeadline(t time.Time) error      { return nil }
func (c *vfE3Conn) SetReadDeadline(t time.Time) error  { return nil }
func (c *vfE3Conn) SetWriteDeadline(t time.Time) error { return nil }

type vfE3Result struct {
	replies  []string
	end      string
	conn     string
	msgs     int // message frames seen (not part of the comparison)
	hb       int
	upgraded bool
	json     []byte    // payload of the last JSON response frame (IDENTIFY / AUTH document)
	cl       *clientV2 // the connection's client object (white-box reads after the run)
	done     chan interface{} // audit09: receives once tcpServer.Handle has returned (held connections)
}

// vfE3RunConn feeds one byte stream to the real tcpServer.Handle (magic + IOLoop) and reports the
// frames answered, how the connection ended (from the error tcp.go logs when IOLoop fails) and
// the final state of the clientV2.
func (v *vfE3Node) RunConn(stream []byte, rnd *vfRand) vfE3Result {
	return v.RunConnHold(stream, rnd, nil)
}

// RunConnHold is RunConn; with a non-nil hold the connection stays open after its bytes (the server
// blocks in Read until hold is closed): the result is taken when the server has consumed the stream.
func (v *vfE3Node) RunConnHold(stream []byte, rnd *vfRand, hold chan struct{}) vfE3Result {
	v.connID++
	addr := vfE3Addr{fmt.Sprintf("127.0.0.1:%d", 20000+v.connID)}
	c := &vfE3Conn{in: stream, rnd: rnd, addr: addr, srv: v.n.tcpServer, settle: v.SettleAll, hold: hold}
	if hold != nil {
		c.drained = make(chan struct{})
	}
	v.log.Reset()
	done := make(chan interface{}, 1)
	go func() {
		defer func() { done <- recover() }()
		v.n.tcpServer.Handle(c)
	}()
	var res vfE3Result
	res.done = done
	select {
	case <-c.drained: // nil (blocks for ever) unless the connection is held open
	case p := <-done:
		done <- p
		if p != nil {
			res.end = "panic"
			res.conn = "-"
			res.replies = []string{fmt.Sprintf("PANIC(%v)", p)}
			return res
		}
	case <-time.After(20 * time.Second):
		res.end = "hang"
		res.conn = "-"
		return res
	}
	c.mu.Lock()
	out := append([]byte(nil), c.out.Bytes()...)
	cl := c.client
	c.mu.Unlock()
	upgraded := cl != nil && (atomic.LoadInt32(&cl.Snappy) == 1 || atomic.LoadInt32(&cl.Deflate) == 1 || atomic.LoadInt32(&cl.TLS) == 1)
	for len(out) >= 8 {
		size := int(binary.BigEndian.Uint32(out[:4]))
		ft := int32(binary.BigEndian.Uint32(out[4:8]))
		if size < 4 || len(out) < 4+size {
			if !upgraded {
				res.replies = append(res.replies, "GARBLED")
			}
			break
		}
		data := out[8 : 4+size]
		out = out[4+size:]
		switch ft {
		case frameTypeResponse:
			switch {
			case bytes.Equal(data, []byte("OK")):
				res.replies = append(res.replies, "OK")
			case bytes.Equal(data, []byte("CLOSE_WAIT")):
				res.replies = append(res.replies, "CLOSE_WAIT")
			case bytes.Equal(data, heartbeatBytes):
				res.hb++
			case len(data) > 0 && data[0] == '{':
				res.replies = append(res.replies, "JSON")
				res.json = append([]byte(nil), data...)
			default:
				res.replies = append(res.replies, "RESP("+vfHex(data)+")")
			}
		case frameTypeError:
			w := strings.SplitN(string(data), " ", 2)
			res.replies = append(res.replies, w[0])
		case frameTypeMessage:
			res.msgs++
		default:
			res.replies = append(res.replies, fmt.Sprintf("FRAME(%d)", ft))
		}
		if upgraded && len(res.replies) > 0 && res.replies[len(res.replies)-1] == "JSON" {
			break // what follows is compressed / encrypted
		}
	}
	for i := 0; i+1 < len(res.replies); i++ {
		// a TLS / compression upgrade that was negotiated (JSON sent) and then failed on the garbage
		// that follows is still "upgraded" for the model: what happens after the negotiation is outside it
		if res.replies[i] == "JSON" && res.replies[i+1] == "E_IDENTIFY_FAILED" {
			res.replies = res.replies[:i+1]
			upgraded = true
		}
	}
	switch {
	case upgraded:
		res.end = "upgraded"
	case v.log.Has("client("+addr.s+") - ") || v.log.Has("client("+addr.s+") bad protocol magic"):
		res.end = "closed"
	default:
		res.end = "eof"
	}
	res.upgraded = upgraded
	res.cl = cl
	res.conn = "-"
	if res.end == "eof" && cl != nil {
		st := "init"
		switch atomic.LoadInt32(&cl.State) {
		case stateSubscribed:
			st = "subscribed"
		case stateClosing:
			st = "closing"
		case stateInit:
		default:
			st = fmt.Sprintf("state%d", cl.State)
		}
		cl.writeLock.RLock()
		res.conn = fmt.Sprintf("%s,%d,%d,%d,%d,%d,%d", st, int64(cl.HeartbeatInterval), cl.OutputBufferSize,
			int64(cl.OutputBufferTimeout), atomic.LoadInt32(&cl.SampleRate), int64(cl.MsgTimeout),
			atomic.LoadInt64(&cl.ReadyCount))
		cl.writeLock.RUnlock()
	} else if res.end == "eof" {
		// the connection ended before a client object existed (short magic)
		o := v.n.getOpts()
		res.conn = fmt.Sprintf("init,%d,%d,%d,0,%d,0", int64(o.ClientTimeout/2), defaultBufferSize,
			int64(o.OutputBufferTimeout), int64(o.MsgTimeout))
	}
	// teardown quiescence: an ephemeral channel that lost its last client deletes itself (and an
	// ephemeral topic left without channels follows) in a goroutine; wait for it.
	if cl != nil && cl.Channel != nil && !upgraded {
		v.waitEphemeral(cl.Channel)
	}
	return res
}

func (v *vfE3Node) waitEphemeral(ch *Channel) {
	if !ch.ephemeral {
		return
	}
	deadline := time.Now().Add(10 * time.Second)
	for time.Now().Before(deadline) {
		ch.RLock()
		nc := len(ch.clients)
		ch.RUnlock()
		if nc > 0 {
			return
		}
		t, err := v.n.GetExistingTopic(ch.topicName)
		if err != nil {
			return // topic gone (ephemeral topic followed its last channel)
		}
		t.RLock()
		cur, ok := t.channelMap[ch.name]
		nch := len(t.channelMap)
		t.RUnlock()
		if !ok || cur != ch {
			if t.ephemeral && nch == 0 {
				// the topic is deleting itself too
				time.Sleep(200 * time.Microsecond)
				continue
			}
			return
		}
		time.Sleep(200 * time.Microsecond)
	}
}

// ---------------------------------------------------------------- broker snapshot (white-box)

func vfE3ShowBytes(b []byte) string {
	if len(b) > 48 {
		h := fnv.New32a()
		h.Write(b)
		return fmt.Sprintf("#%d.%d", len(b), h.Sum32())
	}
	return vfHex(b)
}

func vfE3ShowMsg(m *Message) string {
	return fmt.Sprintf("%s~%d", vfE3ShowBytes(m.Body), int64(m.deferred))
}

func vfE3JoinOr(sep string, xs []string) string {
	if len(xs) == 0 {
		return "-"
	}
	return strings.Join(xs, sep)
}

func vfE3DrainChan(ch chan *Message) []*Message {
	var ms []*Message
	for {
		select {
		case m := <-ch:
			ms = append(ms, m)
		default:
			for _, m := range ms {
				ch <- m
			}
			return ms
		}
	}
}

// quiesce waits until the topic's messagePump has handed every pending message to the channels
// (only when it is supposed to: unpaused and at least one channel) and is back in its select.
func vfE3Quiesce(t *Topic) string {
	t.RLock()
	nch := len(t.channelMap)
	t.RUnlock()
	if nch == 0 || t.IsPaused() || t.Exiting() {
		return ""
	}
	deadline := time.Now().Add(10 * time.Second)
	for {
		for t.Depth() > 0 {
			if time.Now().After(deadline) {
				return "!pump-stuck"
			}
			time.Sleep(100 * time.Microsecond)
		}
		select {
		case t.channelUpdateChan <- 1: // barrier: received only at the top of the pump's loop
		case <-t.exitChan:
			return ""
		case <-time.After(5 * time.Second):
			return "!pump-barrier"
		}
		if t.Depth() == 0 {
			return ""
		}
	}
}

// SettleAll waits until every topic's messagePump is idle. The connection under test calls it before
// the server sees EOF and before every frame it writes, so that what a command published has reached
// the channels before the next step (in particular before the teardown of an ephemeral channel):
// the model describes the quiescent outcome, the harness makes the run quiescent.
func (v *vfE3Node) SettleAll() {
	v.n.RLock()
	var topics []*Topic
	for _, t := range v.n.topicMap {
		if !strings.HasPrefix(t.name, "gc.") {
			topics = append(topics, t)
		}
	}
	v.n.RUnlock()
	for _, t := range topics {
		vfE3Quiesce(t)
	}
}

// Snapshot renders the broker exactly like the Lean driver's `showBroker`. Topics whose name
// starts with "gc." belong to the concurrent well-behaved client and are left out.
func (v *vfE3Node) Snapshot() string {
	v.n.RLock()
	var topics []*Topic
	for _, t := range v.n.topicMap {
		if !strings.HasPrefix(t.name, "gc.") {
			topics = append(topics, t)
		}
	}
	v.n.RUnlock()
	var ts []string
	for _, t := range topics {
		warn := vfE3Quiesce(t)
		t.RLock()
		var chans []*Channel
		for _, c := range t.channelMap {
			chans = append(chans, c)
		}
		t.RUnlock()
		var ms []string
		for _, m := range vfE3DrainChan(t.memoryMsgChan) {
			ms = append(ms, vfE3ShowMsg(m))
		}
		if d := t.backend.Depth(); d > 0 {
			ms = append(ms, fmt.Sprintf("!backend%d", d))
		}
		var cs []string
		for _, c := range chans {
			seen := map[MessageID]bool{}
			var cm []string
			add := func(m *Message) {
				if !seen[m.ID] {
					seen[m.ID] = true
					cm = append(cm, vfE3ShowMsg(m))
				}
			}
			c.deferredMutex.Lock()
			for _, it := range c.deferredMessages {
				add(it.Value.(*Message))
			}
			c.deferredMutex.Unlock()
			c.inFlightMutex.Lock()
			for _, m := range c.inFlightMessages {
				add(m)
			}
			c.inFlightMutex.Unlock()
			for _, m := range vfE3DrainChan(c.memoryMsgChan) {
				add(m)
			}
			if d := c.backend.Depth(); d > 0 {
				cm = append(cm, fmt.Sprintf("!backend%d", d))
			}
			sort.Strings(cm)
			c.RLock()
			ncl := len(c.clients)
			c.RUnlock()
			cs = append(cs, fmt.Sprintf("%s;%d;%d;%s", vfHex([]byte(c.name)), vfE3Bool(c.IsPaused()), ncl, vfE3JoinOr(",", cm)))
		}
		sort.Strings(cs)
		ts = append(ts, fmt.Sprintf("%s:%d:%d:%s:%s%s", vfHex([]byte(t.name)), vfE3Bool(t.IsPaused()),
			atomic.LoadUint64(&t.messageCount), vfE3JoinOr(",", ms), vfE3JoinOr("+", cs), warn))
	}
	sort.Strings(ts)
	return vfE3JoinOr("/", ts)
}

// Counts returns message_count and depth per topic (the observables of GET /stats) for the
// direct "a rejected publish enqueues nothing" oracle.
func (v *vfE3Node) Counts() (count uint64, depth int64) {
	v.n.RLock()
	defer v.n.RUnlock()
	for _, t := range v.n.topicMap {
		if strings.HasPrefix(t.name, "gc.") {
			continue
		}
		count += atomic.LoadUint64(&t.messageCount)
		depth += t.Depth()
		t.RLock()
		for _, c := range t.channelMap {
			depth += c.Depth()
			c.deferredMutex.Lock()
			depth += int64(len(c.deferredMessages))
			c.deferredMutex.Unlock()
			c.inFlightMutex.Lock()
			depth += int64(len(c.inFlightMessages))
			c.inFlightMutex.Unlock()
		}
		t.RUnlock()
	}
	return
}

// Reset deletes every topic (except the well-behaved client's).
func (v *vfE3Node) Reset() {
	v.n.RLock()
	var names []string
	for name := range v.n.topicMap {
		if !strings.HasPrefix(name, "gc.") {
			names = append(names, name)
		}
	}
	v.n.RUnlock()
	for _, name := range names {
		v.n.DeleteExistingTopic(name)
	}
}

// ---------------------------------------------------------------- encoding/json oracle

// vfE3JsonLine is the `json` op: what the real decoder makes of an IDENTIFY body.
func vfE3JsonLine(body []byte) string {
	var d identifyDataV2
	if err := json.Unmarshal(body, &d); err != nil {
		return fmt.Sprintf("json %s bad", vfHex(body))
	}
	return fmt.Sprintf("json %s %d %d %d %d %d %d %d %d %d", vfHex(body), d.HeartbeatInterval, d.OutputBufferSize,
		d.OutputBufferTimeout, d.MsgTimeout, d.SampleRate, vfE3Bool(d.FeatureNegotiation), vfE3Bool(d.TLSv1),
		vfE3Bool(d.Deflate), vfE3Bool(d.Snappy))
}

func vfE3Unhex(s string) []byte {
	if s == "-" {
		return nil
	}
	b, err := hex.DecodeString(s)
	if err != nil {
		panic(err)
	}
	return b
}

func vfE3BE32(n uint32) []byte {
	b := make([]byte, 4)
	binary.BigEndian.PutUint32(b, n)
	return b
}

// ---------------------------------------------------------------- concurrent well-behaved client

// vfE3Good is a real TCP producer + consumer pair on the node's listener. Every Tick publishes
// one message and expects to receive and finish it: it must stay connected and served whatever
// the other connections send.
type vfE3Good struct {
	prod, cons net.Conn
	n          int
}

func vfE3ReadFrame(c net.Conn) (int32, []byte, error) {
	c.SetReadDeadline(time.Now().Add(10 * time.Second))
	var hdr [8]byte
	if _, err := io.ReadFull(c, hdr[:]); err != nil {
		return 0, nil, err
	}
	size := binary.BigEndian.Uint32(hdr[:4])
	data := make([]byte, size-4)
	if _, err := io.ReadFull(c, data); err != nil {
		return 0, nil, err
	}
	return int32(binary.BigEndian.Uint32(hdr[4:])), data, nil
}

func vfE3NewGood(v *vfE3Node) (*vfE3Good, error) {
	g := &vfE3Good{}
	var err error
	if g.prod, err = net.DialTimeout("tcp", v.tcp.String(), 5*time.Second); err != nil {
		return nil, err
	}
	if g.cons, err = net.DialTimeout("tcp", v.tcp.String(), 5*time.Second); err != nil {
		return nil, err
	}
	g.prod.Write([]byte("  V2"))
	g.cons.Write([]byte("  V2SUB gc.good ch\nRDY 1\n"))
	ft, data, err := vfE3ReadFrame(g.cons)
	if err != nil || ft != frameTypeResponse || string(data) != "OK" {
		return nil, fmt.Errorf("SUB answered %d %q %v", ft, data, err)
	}
	return g, nil
}

func (g *vfE3Good) Tick() error {
	g.n++
	body := []byte(fmt.Sprintf("good-%d", g.n))
	g.prod.Write(append(append([]byte("PUB gc.good\n"), vfE3BE32(uint32(len(body)))...), body...))
	ft, data, err := vfE3ReadFrame(g.prod)
	for err == nil && ft == frameTypeResponse && string(data) == "_heartbeat_" {
		g.prod.Write([]byte("NOP\n")) // long runs: answer the server's heartbeats like a real client
		ft, data, err = vfE3ReadFrame(g.prod)
	}
	if err != nil || ft != frameTypeResponse || string(data) != "OK" {
		return fmt.Errorf("well-behaved producer: PUB #%d answered %d %q %v", g.n, ft, data, err)
	}
	for {
		ft, data, err = vfE3ReadFrame(g.cons)
		if err != nil {
			return fmt.Errorf("well-behaved consumer: message #%d not delivered: %v", g.n, err)
		}
		if ft == frameTypeResponse && string(data) == "_heartbeat_" {
			g.cons.Write([]byte("NOP\n"))
			continue
		}
		break
	}
	if ft != frameTypeMessage || len(data) < 26 || !bytes.Equal(data[26:], body) {
		return fmt.Errorf("well-behaved consumer: expected message %q, got frame %d %q", body, ft, data)
	}
	g.cons.Write(append(append([]byte("FIN "), data[10:26]...), []byte("\nRDY 1\n")...))
	return nil
}

func (g *vfE3Good) Close() { g.prod.Close(); g.cons.Close() }
