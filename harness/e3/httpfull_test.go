package nsqd

// C10 (round 6) — the whole HTTP table: every registered route with its decorator, the response
// envelope (status, Content-Type, X-NSQ-Content-Type, kind of body), /stats arguments and content,
// /info, /config GET/PUT (log_level, nsqlookupd_tcp_addresses), /debug/setblockrate, /debug/freememory.
// Op lines `httpx …` are replayed through `Nsq.Model.HttpFull.serve` by the Lean driver.

import (
	"bytes"
	"encoding/json"
	"errors"
	"fmt"
	"io"
	"net/http"
	"net/http/httptest"
	"net/url"
	"os"
	"path/filepath"
	"reflect"
	"regexp"
	"sort"
	"strconv"
	"strings"
	"testing"
)

var vfE3InfoKeys = []string{"broadcast_address", "hostname", "http_port", "max_deflate_level", "max_heartbeat_interval",
	"max_output_buffer_size", "max_output_buffer_timeout", "start_time", "tcp_port", "topology_region", "topology_zone", "version"}

var vfE3ErrBodyRe = regexp.MustCompile(`^\{"message":"([A-Z_]+)"\}$`)
var vfE3RateRe = regexp.MustCompile(`^[+-]?[0-9]+$`)

func vfE3ASCII(b []byte) bool {
	for _, c := range b {
		if c >= 0x80 {
			return false
		}
	}
	return true
}

var vfE3TLSBodyRe = regexp.MustCompile(`^\{"message": "TLS_REQUIRED", "https_port": -?[0-9]+\}$`)

type vfE3Wire struct {
	status string
	ct     string
	x      string
	kind   string
}

func (w vfE3Wire) String() string { return fmt.Sprintf("W=%s CT=%s X=%s K=%s", w.status, w.ct, w.x, w.kind) }

// vfE3StatsKind renders the JSON document of /stats?format=json the way the driver renders Doc.stats.
func vfE3StatsKind(body []byte) string {
	var d struct {
		Topics []struct {
			Name     string `json:"topic_name"`
			Depth    int64  `json:"depth"`
			Count    uint64 `json:"message_count"`
			Paused   bool   `json:"paused"`
			Channels []struct {
				Name     string           `json:"channel_name"`
				Depth    int64            `json:"depth"`
				InFlight int              `json:"in_flight_count"`
				Deferred int              `json:"deferred_count"`
				Paused   bool             `json:"paused"`
				Clients  *json.RawMessage `json:"clients"`
				NClients int              `json:"client_count"`
			} `json:"channels"`
		} `json:"topics"`
		Memory *json.RawMessage `json:"memory"`
	}
	if err := json.Unmarshal(body, &d); err != nil {
		return "stats-bad:" + err.Error()
	}
	clients := "-"
	var ts []string
	for _, t := range d.Topics {
		var cs []string
		for _, c := range t.Channels {
			fl := "0"
			if c.Clients != nil && string(*c.Clients) != "null" {
				fl = "1"
			}
			if clients == "-" {
				clients = fl
			} else if clients != fl {
				clients = "mixed"
			}
			cs = append(cs, fmt.Sprintf("%s;%d;%d;%d", vfHex([]byte(c.Name)), vfE3Bool(c.Paused), c.NClients, c.Depth+int64(c.InFlight)+int64(c.Deferred)))
		}
		ts = append(ts, fmt.Sprintf("%s:%d:%d:%d:%s", vfHex([]byte(t.Name)), vfE3Bool(t.Paused), t.Count, t.Depth, vfE3JoinOr("+", cs)))
	}
	return fmt.Sprintf("stats:%s:%d:%s", clients, vfE3Bool(d.Memory != nil), vfE3JoinOr("/", ts))
}

// vfE3CanonWire maps the recorded response to the model's vocabulary. It decides by what was written,
// not by the route — except for the content of 200 bodies, where the path says which document to expect.
func vfE3CanonWire(method, path, query string, rec *httptest.ResponseRecorder) vfE3Wire {
	code, body := rec.Code, rec.Body.Bytes()
	w := vfE3Wire{status: strconv.Itoa(code), ct: "0", x: "0"}
	switch ct := rec.Header().Get("Content-Type"); ct {
	case "":
	case "application/json; charset=utf-8":
		w.ct = "1"
	default:
		w.ct = "other(" + ct + ")"
	}
	switch x := rec.Header().Get("X-NSQ-Content-Type"); x {
	case "":
	case "nsq; version=1.0":
		w.x = "1"
	default:
		w.x = "other"
	}
	if strings.HasPrefix(path, "/debug/pprof/") && method != "OPTIONS" && code == 200 {
		return vfE3Wire{"external", "0", "0", "external"}
	}
	if code == 301 || code == 307 || code == 308 {
		return vfE3Wire{"404/3xx", "1", "1", "err:NOT_FOUND"}
	}
	switch {
	case w.ct == "0" && strings.HasPrefix(path, "/config/") && code == 200 && method != "OPTIONS":
		w.kind = "str"
	case len(body) == 0:
		w.kind = "empty"
	case code != 200 && vfE3ErrBodyRe.Match(body):
		w.kind = "err:" + string(vfE3ErrBodyRe.FindSubmatch(body)[1])
		if code == 404 && w.kind == "err:NOT_FOUND" {
			w.status = "404/3xx"
		}
	case code == 403 && vfE3TLSBodyRe.Match(body):
		w.kind = "tls"
	case code != 200:
		w.kind = "free"
	case string(body) == "OK":
		w.kind = "text:OK"
	case w.ct == "0" && strings.HasPrefix(path, "/config/") && code == 200 && method != "OPTIONS":
		w.kind = "str"
	case w.ct == "1" && path == "/info":
		var m map[string]interface{}
		keys := []string{}
		if json.Unmarshal(body, &m) == nil {
			for k := range m {
				keys = append(keys, k)
			}
		}
		sort.Strings(keys)
		if strings.Join(keys, ",") == strings.Join(vfE3InfoKeys, ",") {
			w.kind = "info"
		} else {
			w.kind = "info-bad:" + strings.Join(keys, ",")
		}
	case w.ct == "1" && path == "/stats":
		w.kind = vfE3StatsKind(body)
	case w.ct == "1" && path == "/config/log_level" && method == "PUT":
		w.kind = "level:" + string(body)
	case w.ct == "1" && strings.HasPrefix(path, "/config/"):
		if json.Valid(body) {
			w.kind = "cfg"
		} else {
			w.kind = "cfg-bad"
		}
	case w.ct == "1":
		w.kind = "json?"
	default:
		w.kind = "free"
	}
	return w
}

// vfE3WellFormed is the model-free oracle of "every request gets a well-formed response":
// a documented status; JSON content type ⇒ valid JSON; a V1 error ⇒ exactly {"message":"<CODE>"}.
func vfE3WellFormed(path string, rec *httptest.ResponseRecorder) string {
	code, body := rec.Code, rec.Body.Bytes()
	switch code {
	case 200, 400, 403, 404, 405, 413, 500, 301, 307, 308:
	default:
		return fmt.Sprintf("undocumented status %d", code)
	}
	isJSON := strings.HasPrefix(rec.Header().Get("Content-Type"), "application/json")
	if isJSON && !json.Valid(body) {
		return fmt.Sprintf("Content-Type says JSON but the body is not: %q", vfE3Clip(body))
	}
	if rec.Header().Get("X-NSQ-Content-Type") != "" && code >= 400 {
		if !isJSON {
			return "a V1 error without the JSON content type"
		}
		var m map[string]interface{}
		if json.Unmarshal(body, &m) != nil || m["message"] == nil || m["message"] == "" {
			return fmt.Sprintf("a V1 error whose body has no message: %q", vfE3Clip(body))
		}
	}
	return ""
}

func vfE3Clip(b []byte) string {
	if len(b) > 120 {
		return string(b[:120]) + "…"
	}
	return string(b)
}

// vfE3HTTPXOp executes one `httpx` op. It returns the answer line and the oracle failures.
func vfE3HTTPXOp(v *vfE3Node, w []string) (string, []string) {
	method, path, query := w[2], string(vfE3Unhex(w[3])), string(vfE3Unhex(w[4]))
	cl, _ := strconv.ParseInt(w[5], 10, 64)
	body := vfE3Unhex(w[6])
	healthy := w[7] == "1"
	var fails []string
	if !healthy {
		v.n.SetHealth(errors.New("verif: injected backend fault"))
		defer v.n.SetHealth(nil)
	}
	opts := v.n.getOpts()
	req := &http.Request{
		Method: method, URL: &url.URL{Path: path, RawQuery: query},
		Proto: "HTTP/1.1", ProtoMajor: 1, ProtoMinor: 1, Header: http.Header{},
		Body: io.NopCloser(bytes.NewReader(body)), ContentLength: cl, Host: "verif", RemoteAddr: "127.0.0.1:9",
	}
	rec := httptest.NewRecorder()
	v.http.ServeHTTP(rec, req)
	if v.n.getOpts() != opts {
		// PUT /config took effect: undo it (the log capture needs its level; the lookup loop must forget
		// the addresses) — the model does not carry option changes from one op to the next
		v.n.swapOpts(opts)
		v.n.triggerOptsNotification()
	}
	line := strings.ReplaceAll(strings.Join(w, " "), " ", "|")
	if msg := vfE3WellFormed(path, rec); msg != "" {
		fails = append(fails, fmt.Sprintf("ORACLE-FAIL key=http-malformed-response req=%s what=%s %s?%s: %s", line, method, path, query, msg))
	}
	// model-free: "400 for bad arguments" on the two routes whose argument grammar is standard-library
	if rec.Code == 200 && method == "PUT" {
		if path == "/config/nsqlookupd_tcp_addresses" && !json.Valid(body) {
			fails = append(fails, fmt.Sprintf("ORACLE-FAIL key=config-bad-value-accepted req=%s what=PUT %s accepted a body that is not JSON: %q", line, path, vfE3Clip(body)))
		}
		if path == "/config/log_level" && vfE3ASCII(body) {
			switch strings.ToLower(string(body)) {
			case "debug", "info", "warn", "error", "fatal":
			default:
				fails = append(fails, fmt.Sprintf("ORACLE-FAIL key=config-bad-value-accepted req=%s what=PUT %s accepted %q, not one of the documented levels", line, path, vfE3Clip(body)))
			}
		}
		if path == "/debug/setblockrate" {
			if q, err := url.ParseQuery(query); err == nil && !vfE3RateRe.MatchString(q.Get("rate")) {
				fails = append(fails, fmt.Sprintf("ORACLE-FAIL key=setblockrate-bad-rate-accepted req=%s what=PUT %s?%s answered 200 although rate is not an integer", line, path, query))
			}
		}
	}
	wire := vfE3CanonWire(method, path, query, rec)
	if rec.Code == 500 && !(path == "/ping" && !healthy) {
		nilResult := path == "/debug/freememory" || path == "/debug/setblockrate"
		if nilResult && method != "OPTIONS" && wire.kind == "err:INTERNAL_ERROR" {
			// finding F24: PlainText panics on a handler that returns (nil, nil); the action itself was
			// performed. Reported under its own key; the line continues as the repaired behaviour.
			fails = append(fails, fmt.Sprintf("ORACLE-FAIL key=debug-nil-500 req=%s what=%s %s?%s is a complete, valid request and was answered 500 INTERNAL_ERROR (http_api.PlainText panics on a nil result)", line, method, path, query))
			wire = vfE3Wire{"200", "0", "0", "empty"}
		} else {
			fails = append(fails, fmt.Sprintf("ORACLE-FAIL key=http-500 req=%s what=complete request answered 500: %s", line, wire))
		}
	}
	return fmt.Sprintf("%s B=%s", wire, v.Snapshot()), fails
}

// vfE3CfgStrNames lists the option names whose Go type is string (RespondV1 writes those raw).
func vfE3CfgStrNames(opts *Options) []string {
	var out []string
	typ := reflect.TypeOf(opts).Elem()
	for i := 0; i < typ.NumField(); i++ {
		f := typ.Field(i)
		flagName, cfgName := f.Tag.Get("flag"), f.Tag.Get("cfg")
		if flagName == "" || f.Type != reflect.TypeOf("") {
			continue
		}
		if cfgName == "" {
			cfgName = strings.Replace(flagName, "-", "_", -1)
		}
		out = append(out, cfgName)
	}
	return out
}

type vfE3XGen struct {
	*vfE3HGen
}

// jsonish: bodies for PUT /config/nsqlookupd_tcp_addresses — valid arrays of strings / nulls with
// every escape and white-space form, and near misses (type errors and syntax errors).
func (g *vfE3XGen) jsonish() []byte {
	ws := func() string { return g.pick("", "", " ", "\t", "\n", "\r\n ", "  ") }
	str := func() string {
		var sb strings.Builder
		sb.WriteString(`"`)
		for i, n := 0, g.r.Intn(4); i < n; i++ {
			sb.WriteString(g.pick("a", "127.0.0.1:1", "Z", `\"`, `\\`, `\/`, `\b`, `\f`, `\n`, `\r`, `\t`, `\u00e9`, `\uD83D\uDE00`, `\ud800`,
				"é", "\xff", "\x7f", " ", "[", ",", "]", "null"))
		}
		sb.WriteString(`"`)
		return sb.String()
	}
	arr := func() string {
		var sb strings.Builder
		sb.WriteString(ws() + "[" + ws())
		n := g.r.Intn(4)
		for i := 0; i < n; i++ {
			if i > 0 {
				sb.WriteString(ws() + "," + ws())
			}
			if g.r.Intn(5) == 0 {
				sb.WriteString("null")
			} else {
				sb.WriteString(str())
			}
		}
		sb.WriteString(ws() + "]" + ws())
		return sb.String()
	}
	switch g.r.Intn(10) {
	case 0:
		return []byte(g.pick("null", " null ", "nul", "nulll", "NULL", "null null", "[]", "[ ]", "[null]", "[null,null]", "\"a\"", "1", "true",
			"{}", "[[]]", "[{}]", "[1]", "[\"a\",1]", "[true]", "[\"a\" \"b\"]", "[,]", "[\"a\",]", "[", "]", "[\"a\"", "[\"a]", "[\"\\x\"]",
			"[\"\\u12\"]", "[\"\\u12G4\"]", "[\"\\uABCD\"]", "[\"\x01\"]", "[\"\x1f\"]", "[\"a\"]x", "x[\"a\"]", "[\"a\"] []", "[\"a\"],", "[nul]",
			"[nullx]", "[\"\\\"]", "[\"\\\\\"]", "\xef\xbb\xbf[]", "[\"a\"]\x00", "[\"a\"]\f", "[\"a\"\v]", "[ \"127.0.0.1:1\" ]"))
	case 1, 2:
		// a valid array, then one byte changed / dropped / inserted
		b := []byte(arr())
		if len(b) > 0 {
			i := g.r.Intn(len(b))
			switch g.r.Intn(3) {
			case 0:
				b[i] = g.pick("\"", "\\", ",", "[", "]", "n", " ", "u", "x", "\x00")[0]
			case 1:
				b = append(b[:i:i], b[i+1:]...)
			default:
				b = append(b[:i:i], append([]byte(g.pick("\"", "\\", ",", "]", "[", "n", "1")), b[i:]...)...)
			}
		}
		return b
	default:
		return []byte(arr())
	}
}

func (g *vfE3XGen) level() []byte {
	base := g.pick("debug", "info", "warn", "error", "fatal")
	switch g.r.Intn(8) {
	case 0:
		return []byte(strings.ToUpper(base))
	case 1:
		b := []byte(base)
		i := g.r.Intn(len(b))
		b[i] = b[i] - 32
		return b
	case 2:
		// the two non-ASCII runes whose lower case is ASCII: İ (U+0130) → i, K (U+212A) → k
		return []byte(strings.NewReplacer("i", "\u0130", "I", "\u0130").Replace(g.pick("info", "iNFO", "infO")))
	case 3:
		return []byte(g.pick("warning", "inf", "infoo", " info", "info\n", "\u212a", "\u0130", "\xc4info", "\xc4\xb0", "inf\xc4\xb0", "ınfo", "ſatal", "İNFO", "deb\u212aug",
			"\xe2\x84", "\xe2\x84\xaa", "loud", "0", "2", "DEBUG ", "\xb0nfo", "\xc4\xc4\xb0nfo", "\xe2\xc4\xb0nfo"))
	default:
		return []byte(base)
	}
}

func (g *vfE3XGen) statsQuery() string {
	var parts []string
	add := func(k string, vs ...string) {
		if g.r.Intn(2) == 0 {
			parts = append(parts, k+"="+g.esc(g.pick(vs...)))
		}
	}
	if g.r.Intn(5) != 0 {
		parts = append(parts, "format=json")
	} else {
		add("format", "text", "JSON", "", "json ", "json")
	}
	add("topic", "t0", "t1", "t2", "", "zz", "t0#ephemeral", "bad!")
	add("channel", "c0", "c1", "", "zz", "c0#ephemeral")
	add("include_clients", "true", "1", "false", "0", "", "no", "TRUE", "False", "00")
	add("include_mem", "true", "1", "false", "0", "", "no", "TRUE", "False", "00")
	if g.r.Intn(12) == 0 {
		parts = append(parts, g.pick("x=%zz", "a;b", "format=json;topic=t0", "%", "=", "&&", "format=text&format=json", "topic=&topic=t0"))
	}
	for i := len(parts) - 1; i > 0; i-- {
		j := g.r.Intn(i + 1)
		parts[i], parts[j] = parts[j], parts[i]
	}
	return strings.Join(parts, "&")
}

// one request of the widened surface
func (g *vfE3XGen) requestX() (method, path, query string, cl int64, body []byte, healthy int) {
	o := g.v.n.getOpts()
	healthy = 1
	chunk := func() {
		cl = int64(len(body))
		if g.r.Intn(3) == 0 {
			cl = -1
		}
	}
	switch g.r.Intn(20) {
	case 0, 1, 2: // set-up: topics, channels, messages, pauses
		method = "POST"
		path = g.pick("/pub", "/pub", "/pub", "/pub", "/topic/create", "/topic/create", "/channel/create", "/channel/create", "/channel/create", "/topic/pause", "/channel/pause", "/topic/unpause",
			"/channel/unpause", "/channel/delete", "/topic/delete", "/topic/empty", "/channel/empty")
		query = "topic=" + g.pick("t0", "t1", "t2", "t0#ephemeral")
		if strings.HasPrefix(path, "/channel/") {
			query += "&channel=" + g.pick("c0", "c1", "c0#ephemeral")
		}
		if path == "/pub" {
			body = []byte(g.pick("m", "msg", "x"))
		}
		chunk()
		g.count("httpx:setup")
	case 3, 4, 5, 6, 7:
		method, path, query = "GET", "/stats", g.statsQuery()
		g.count("httpx:stats")
	case 8, 9, 10:
		method, path = "PUT", "/config/nsqlookupd_tcp_addresses"
		body = g.jsonish()
		if g.r.Intn(12) == 0 {
			body = append(body, bytes.Repeat([]byte(" "), int(o.MaxMsgSize))...)
		}
		chunk()
		g.count("httpx:config-lookupd")
	case 11, 12:
		method, path = "PUT", "/config/log_level"
		body = g.level()
		chunk()
		g.count("httpx:config-level")
	case 13:
		method = g.pick("GET", "GET", "PUT", "POST", "OPTIONS")
		path = "/config/" + g.pick("log_level", "nsqlookupd_tcp_addresses", "max_msg_size", "mem_queue_size", "nope", "tls_cert", "data_path", "broadcast_address", "tls_required", "tls_min_version", "", "a/b", "LOG_LEVEL", "log-level", "verbose", "e2e_processing_latency_percentiles")
		if method == "PUT" {
			body = []byte(g.pick("1", "[]", "info", ""))
		}
		chunk()
		g.count("httpx:config-any")
	case 14:
		method, path = g.pick("PUT", "PUT", "PUT", "POST", "GET", "OPTIONS"), "/debug/setblockrate"
		query = g.pick("%zz&rate=1", "rate=1&%zz", "a;b&rate=2", "rate=%zz&rate=1", "rate=1;x&rate=x", "=1&rate=3", "rate", "&&rate=4&&", "rate=0", "rate=1", "rate=-1", "rate=+5", "rate=100", "rate=", "", "rate=x", "rate=1.5", "rate=1_0", "rate=99999999999999999999",
			"rate=9223372036854775807", "rate=9223372036854775808", "rate=-9223372036854775808", "rate=0&rate=x", "rate=x&rate=0", "rate=%31", "rate=1+", "Rate=1", "rate=0x10", "rate=007")
		g.count("httpx:setblockrate")
	case 15:
		method, path = g.pick("POST", "POST", "GET", "PUT", "OPTIONS"), "/debug/freememory"
		query = g.pick("", "x=1", "%zz")
		g.count("httpx:freememory")
	case 16:
		// the pprof registrations: only cheap ones are executed with their own method
		path = g.pick("/debug/pprof/cmdline", "/debug/pprof/", "/debug/pprof/threadcreate", "/debug/pprof/symbol", "/debug/pprof/heap", "/debug/pprof/goroutine", "/debug/pprof/block", "/debug/pprof/profile")
		method = g.pick("POST", "PUT", "DELETE", "OPTIONS")
		if g.r.Intn(2) == 0 && path != "/debug/pprof/profile" && path != "/debug/pprof/heap" {
			method = "GET"
		}
		if path == "/debug/pprof/symbol" && g.r.Intn(2) == 0 {
			method = "POST"
		}
		g.count("httpx:pprof")
	case 17:
		method, path = "GET", g.pick("/ping", "/info")
		query = g.pick("", "x=1", "%zz", "format=json")
		if path == "/ping" && g.r.Intn(3) == 0 {
			healthy = 0
		}
		g.count("httpx:ping-info")
	case 18:
		method = vfE3Methods[g.r.Intn(len(vfE3Methods))]
		path = g.pick(append([]string{"/debug/setblockrate", "/debug/freememory", "/debug/pprof/heap", "/debug/pprof/"}, vfE3Routes...)...)
		query = g.query(g.r.Intn(2) == 0, g.r.Intn(2) == 0)
		g.count("httpx:route-x-method")
	default:
		method = vfE3Methods[g.r.Intn(3)]
		path = g.pick("/", "/nope", "/stats/", "/info/", "/debug", "/debug/", "/debug/pprof", "/debug/pprof/nope", "/debug/freememory/", "/debug/setblockrate/", "/config", "/config/", "/Stats", "/PING", "/debug/pprof/Heap")
		g.count("httpx:unknown-path")
	}
	return
}

// TestVerifE3HTTPFull — correspondence stream `httpx` + model-free oracles (well-formed response, no 500).
func TestVerifE3HTTPFull(t *testing.T) {
	N := vfEnvInt("VERIF_N", 1500)
	nodes := vfE3Nodes(t)
	out := vfOpen("httpx")
	defer out.Close()
	var fails []string
	seen := map[string]bool{}
	fail := func(l string) {
		key := strings.Fields(l)[1]
		if key == "key=debug-nil-500" {
			if seen[key] {
				return
			}
			seen[key] = true
		}
		if len(fails) < 20 {
			fails = append(fails, l)
		}
	}
	ids := make([]string, 0, len(nodes))
	for id := range nodes {
		ids = append(ids, id)
	}
	sortStrings(ids)
	hist := map[string]int{}
	for _, id := range ids {
		out.Case(nodes[id].ConfLine(), "ok")
		out.Case("cfgstr "+id+" "+strings.Join(vfE3CfgStrNames(nodes[id].n.getOpts()), ","), "ok")
	}
	do := func(v *vfE3Node, line string) {
		ans, fs := vfE3HTTPXOp(v, strings.Fields(line))
		out.Case(line, ans)
		for _, f := range fs {
			fail(f)
		}
		f := strings.Fields(ans)
		hist["xstatus:"+strings.TrimPrefix(f[0], "W=")]++
		k := strings.TrimPrefix(f[3], "K=")
		if i := strings.IndexByte(k, ':'); i > 0 && !strings.HasPrefix(k, "err:") && !strings.HasPrefix(k, "text:") {
			k = k[:i]
		}
		hist["xkind:"+k]++
	}
	if cp := strings.TrimSpace(os.Getenv("VERIF_CORPUS")); cp != "" {
		files, _ := filepath.Glob(filepath.Join(cp, "*.opsx"))
		sortStrings(files)
		for _, f := range files {
			data, _ := os.ReadFile(f)
			for _, line := range strings.Split(string(data), "\n") {
				w := strings.Fields(line)
				if len(w) == 0 || strings.HasPrefix(line, "#") {
					continue
				}
				if w[0] == "reset" {
					for _, v := range nodes {
						v.Reset()
					}
					out.Case("reset", "ok")
				} else if w[0] == "httpx" && len(w) == 8 && nodes[w[1]] != nil {
					do(nodes[w[1]], strings.Join(w, " "))
					hist["corpus:httpx"]++
				}
			}
		}
	}
	for i := 0; i < N; i++ {
		id := ids[i%len(ids)]
		if _, ok := nodes["S"]; ok && i%10 < 6 {
			id = "S"
		}
		v := nodes[id]
		g := &vfE3XGen{&vfE3HGen{&vfE3Gen{r: vfNewRand(uint64(900000 + i)), v: v, hist: hist, json: map[string]bool{}}}}
		out.Case("reset", "ok")
		v.Reset()
		steps := 3 + g.r.Intn(10)
		for s := 0; s < steps; s++ {
			method, path, query, cl, body, healthy := g.requestX()
			do(v, fmt.Sprintf("httpx %s %s %s %s %d %s %d", v.id, method, vfHex([]byte(path)), vfHex([]byte(query)), cl, vfHex(body), healthy))
		}
		v.Reset()
	}
	keys := make([]string, 0, len(hist))
	for k := range hist {
		keys = append(keys, k)
	}
	sortStrings(keys)
	for _, k := range keys {
		fmt.Printf("HIST %s %d\n", k, hist[k])
	}
	for _, f := range fails {
		fmt.Println(f)
	}
	if len(fails) == 0 || (len(fails) == 1 && seen["key=debug-nil-500"]) {
		fmt.Printf("ORACLE-OK cases=%d lines=%d\n", N, out.N)
	}
	for _, v := range nodes {
		v.Stop()
	}
}
