package nsqd

// C10 concurrency leg, nsqd targets (machinery and oracle: concur_core.go.tmpl).
// A quiescent nsqd — 12 topics x 2 channels, some with messages, a paused topic and a paused channel — and a
// list of state-preserving requests that covers every kind of answer the response path produces: JSON
// documents of very different sizes (/stats?format=json with and without filters, /info, /config/<opt>),
// every error status as {"message":…} (400 bad / missing arguments, 404 unknown path / topic / channel,
// 405 wrong method, 413 oversize), raw-text answers (string options, text /stats, /ping, the 400 of
// /debug/setblockrate) and empty 200s. A second target is the same daemon behind a TLS-required httpServer
// (every request 403 TLS_REQUIRED, handler value only).

import (
	"fmt"
	"os"
	"strings"
	"sync"
	"testing"
	"time"
)

type vfE3CCLog struct {
	mu     sync.Mutex
	panics []string
}

func (l *vfE3CCLog) Output(maxdepth int, s string) error {
	if strings.Contains(strings.ToLower(s), "panic") {
		l.mu.Lock()
		if len(l.panics) < 5 {
			l.panics = append(l.panics, s)
		}
		l.mu.Unlock()
	}
	return nil
}

func vfE3CCRequests(maxMsg int) []vfCCReq {
	big := strings.Repeat("x", maxMsg+1)
	return []vfCCReq{
		// 200, JSON documents
		{Method: "GET", URL: "/info"},
		{Method: "GET", URL: "/no/such/path"}, // 404; second in the list so that the first pair reported is a short one
		{Method: "GET", URL: "/stats?format=json&include_mem=false"},
		{Method: "GET", URL: "/stats?format=json&include_mem=false&include_clients=false"},
		{Method: "GET", URL: "/stats?format=json&include_mem=0&topic=cc_t03"},
		{Method: "GET", URL: "/stats?format=json&include_mem=false&topic=cc_t05&channel=b"},
		{Method: "GET", URL: "/stats?format=json&include_mem=false&topic=cc_nosuch"},
		{Method: "GET", URL: "/stats?format=json", Canon: "drop-memory"},
		{Method: "GET", URL: "/config/max_msg_size"},
		{Method: "GET", URL: "/config/nsqlookupd_tcp_addresses"},
		{Method: "GET", URL: "/config/e2e_processing_latency_percentiles"},
		{Method: "GET", URL: "/config/msg_timeout"},
		{Method: "GET", URL: "/config/log_level"},
		{Method: "GET", URL: "/config/snappy"},
		// 200, not JSON
		{Method: "GET", URL: "/config/broadcast_address"},
		{Method: "GET", URL: "/config/statsd_prefix"},
		{Method: "GET", URL: "/stats?include_mem=false", Canon: "uptime"},
		{Method: "GET", URL: "/stats?include_mem=false&topic=cc_t01", Canon: "uptime"},
		{Method: "GET", URL: "/ping"},
		{Method: "POST", URL: "/topic/create?topic=cc_t00"},
		{Method: "POST", URL: "/channel/create?topic=cc_t00&channel=a"},
		// 400
		{Method: "GET", URL: "/stats?format=json&topic=%zz"},
		{Method: "GET", URL: "/config/no_such_option"},
		{Method: "PUT", URL: "/config/log_level", Body: "nonsense"},
		{Method: "PUT", URL: "/config/no_such_option", Body: "1"},
		{Method: "PUT", URL: "/config/nsqlookupd_tcp_addresses", Body: "{"},
		{Method: "POST", URL: "/topic/pause"},
		{Method: "POST", URL: "/topic/create?topic=bad%21name"},
		{Method: "POST", URL: "/channel/pause?topic=cc_t00"},
		{Method: "POST", URL: "/channel/create?topic=cc_t00&channel=bad%21name"},
		{Method: "POST", URL: "/pub", Body: "x"},
		{Method: "POST", URL: "/pub?topic=cc_t00"},
		{Method: "POST", URL: "/pub?topic=cc_t00&defer=abc", Body: "x"},
		{Method: "PUT", URL: "/debug/setblockrate?rate=abc"},
		// 404
		{Method: "GET", URL: "/statsx"},
		{Method: "POST", URL: "/topic/delete?topic=cc_nosuch"},
		{Method: "POST", URL: "/topic/empty?topic=cc_nosuch"},
		{Method: "POST", URL: "/channel/delete?topic=cc_t00&channel=nosuch"},
		{Method: "POST", URL: "/channel/empty?topic=cc_nosuch&channel=a"},
		// 405
		{Method: "GET", URL: "/pub?topic=cc_t00"},
		{Method: "POST", URL: "/stats?format=json"},
		{Method: "DELETE", URL: "/info"},
		{Method: "GET", URL: "/topic/create?topic=cc_t00"},
		// 413
		{Method: "POST", URL: "/pub?topic=cc_t00", Body: big},
		{Method: "POST", URL: "/mpub?topic=cc_t00", Body: big},
		{Method: "PUT", URL: "/config/log_level", Body: big},
	}
}

func TestVerifE3HTTPConcurrent(t *testing.T) {
	g := vfCCNewRun()
	r := vfNewRand(0xC10C)
	lg := &vfE3CCLog{}
	opts := NewOptions()
	opts.Logger = lg
	opts.LogLevel = LOG_ERROR
	opts.MaxMsgSize = 1000
	opts.MaxBodySize = 4000
	opts.DataPath = t.TempDir()
	_, httpAddr, nsqd := vfStartNSQD(opts)
	defer os.RemoveAll(opts.DataPath)

	for i := 0; i < 12; i++ {
		topic := nsqd.GetTopic(fmt.Sprintf("cc_t%02d", i))
		a := topic.GetChannel("a")
		topic.GetChannel("b")
		for k := 0; k < i%4; k++ {
			topic.PutMessage(NewMessage(topic.GenerateID(), []byte(fmt.Sprintf("m%d", k))))
		}
		if i == 7 {
			topic.Pause()
		}
		if i == 9 {
			a.Pause()
		}
	}
	// the paused topic keeps its messages in the topic queue; the others hand them to both channels
	deadline := time.Now().Add(10 * time.Second)
	for time.Now().Before(deadline) {
		left := int64(0)
		for i := 0; i < 12; i++ {
			if i != 7 {
				left += nsqd.GetTopic(fmt.Sprintf("cc_t%02d", i)).Depth()
			}
		}
		if left == 0 {
			break
		}
		time.Sleep(5 * time.Millisecond)
	}

	reqs := vfE3CCRequests(int(opts.MaxMsgSize))
	plain := &vfCCTarget{Name: "nsqd", Handler: newHTTPServer(nsqd, false, false), Base: "http://" + httpAddr.String(), Reqs: reqs}
	g.target(plain, r)

	tlsreq := &vfCCTarget{Name: "nsqd-tlsreq", Handler: newHTTPServer(nsqd, false, true), Reqs: []vfCCReq{
		{Method: "GET", URL: "/info"}, {Method: "GET", URL: "/stats?format=json&include_mem=false"}, {Method: "GET", URL: "/ping"},
		{Method: "POST", URL: "/topic/pause"}, {Method: "GET", URL: "/no/such/path"}, {Method: "GET", URL: "/pub?topic=cc_t00"},
		{Method: "POST", URL: "/pub?topic=cc_t00", Body: "x"}}}
	g.target(tlsreq, r)

	exited := make(chan struct{})
	go func() { nsqd.Exit(); close(exited) }()
	select {
	case <-exited:
	case <-time.After(30 * time.Second):
		g.fail("http-concurrent-exit-hangs", "", "NSQD.Exit did not return within 30 s after the concurrent HTTP leg")
	}
	if len(lg.panics) > 0 {
		g.fail("http-concurrent-panic-log", "", "the daemon logged a panic while serving concurrent HTTP requests: %s", lg.panics[0])
	}
	g.report("nsqd")
}
