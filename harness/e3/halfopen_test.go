package nsqd

// C10 (no_500 / status_documented) and C09 ("other clients are unaffected"): TCP connections that have
// connected but not (yet) completed the 4-byte protocol magic, while /stats is requested in every format
// and filter and a normal producer / consumer pair works.
//
// Background (integrator's lesson, /repo b3a615a → 919b356): a fix had stored the bare net.Conn of such a
// connection in tcpServer.conns; NSQD.GetStats asserts every value of that map to be a Client, so
// GET /stats (with clients) panicked → 500 as long as any half-open connection existed. No check saw it.
//
// Half-open classes: (a) nothing sent; (b) 1–3 bytes of "  V2"; (c) a wrong magic, sent slowly (3 bytes,
// the 4th later); (d) a full magic and nothing else (this one IS a client: it must be listed as a producer).
// Oracles (model-free): no /stats answer ≥ 500 and every JSON answer parses (`halfopen-stats-500`,
// `halfopen-stats-malformed`); no "panic" line in the daemon's log (`halfopen-panic-log`); no half-open
// connection of classes a–c appears in `producers` or in a channel's `clients`, the publishing and the
// subscribed normal client do (`halfopen-listed`, `halfopen-missing`); the normal pair publishes and receives
// (`halfopen-bystander`); completing (b) gives a working connection, completing (c) gives E_BAD_PROTOCOL
// and a close (`halfopen-complete`); Exit returns although class (a) connections are still open
// (`halfopen-exit-hangs`). Nothing depends on timing on a correct tree; a defect of the b3a615a kind shows
// on the first /stats request after the server has accepted the connections.
//
// Output: `HIST k v`, `ORACLE-FAIL key=<k> req=- what=<text>`, `ORACLE-OK halfopen requests=<n> ...`.

import (
	"bytes"
	"encoding/binary"
	"encoding/json"
	"fmt"
	"io"
	"net"
	"net/http"
	"sort"
	"strings"
	"sync"
	"testing"
	"time"
)

type vfE3HOLog struct {
	mu    sync.Mutex
	lines []string
}

func (l *vfE3HOLog) Output(maxdepth int, s string) error {
	l.mu.Lock()
	l.lines = append(l.lines, s)
	l.mu.Unlock()
	return nil
}

func (l *vfE3HOLog) grep(sub string) []string {
	l.mu.Lock()
	defer l.mu.Unlock()
	var out []string
	for _, s := range l.lines {
		if strings.Contains(strings.ToLower(s), sub) {
			out = append(out, s)
		}
	}
	return out
}

type vfE3HORun struct {
	t     *testing.T
	hist  map[string]int
	fails []string
}

func (g *vfE3HORun) fail(key, format string, a ...interface{}) {
	msg := strings.ReplaceAll(fmt.Sprintf(format, a...), "\n", " ")
	if len(g.fails) < 20 {
		g.fails = append(g.fails, fmt.Sprintf("ORACLE-FAIL key=%s req=- what=%s", key, msg))
	}
	g.hist["fail:"+key]++
}

func vfE3HOFrame(c net.Conn, d time.Duration) (int32, []byte, error) {
	c.SetReadDeadline(time.Now().Add(d))
	var hdr [8]byte
	if _, err := io.ReadFull(c, hdr[:]); err != nil {
		return 0, nil, err
	}
	size := int32(binary.BigEndian.Uint32(hdr[:4]))
	if size < 4 || size > 1<<20 {
		return 0, nil, fmt.Errorf("frame size %d", size)
	}
	data := make([]byte, size-4)
	if _, err := io.ReadFull(c, data); err != nil {
		return 0, nil, err
	}
	return int32(binary.BigEndian.Uint32(hdr[4:])), data, nil
}

func vfE3HOTimeout(err error) bool {
	ne, ok := err.(net.Error)
	return ok && ne.Timeout()
}

// vfE3HOStatsDoc is what /stats?format=json shows of connections.
type vfE3HOStatsDoc struct {
	Topics []struct {
		Name     string `json:"topic_name"`
		Channels []struct {
			Name    string `json:"channel_name"`
			Clients []struct {
				Remote string `json:"remote_address"`
			} `json:"clients"`
		} `json:"channels"`
	} `json:"topics"`
	Producers []struct {
		Remote string `json:"remote_address"`
	} `json:"producers"`
}

func TestVerifE3HalfOpen(t *testing.T) {
	g := &vfE3HORun{t: t, hist: map[string]int{}}
	r := vfNewRand(0x4A1F)
	rounds := vfEnvInt("VERIF_N", 3)
	requests := 0
	for round := 0; round < rounds; round++ {
		lg := &vfE3HOLog{}
		opts := NewOptions()
		opts.Logger = lg
		opts.LogLevel = LOG_INFO
		opts.DataPath = t.TempDir()
		tcpAddr, httpAddr, nsqd := vfStartNSQD(opts)
		base := "http://" + httpAddr.String()
		hc := &http.Client{Timeout: 20 * time.Second}

		// --- the normal pair: a producer connection and a consumer connection -----------------------------
		dial := func() net.Conn {
			c, err := net.DialTimeout("tcp", tcpAddr.String(), 5*time.Second)
			if err != nil {
				t.Fatalf("dial: %v", err)
			}
			return c
		}
		cmdOK := func(c net.Conn, what string, p []byte) bool {
			c.SetWriteDeadline(time.Now().Add(10 * time.Second))
			c.Write(p)
			ft, data, err := vfE3HOFrame(c, 20*time.Second)
			if err != nil || ft != frameTypeResponse || string(data) != "OK" {
				g.fail("halfopen-bystander", "round %d: %s answered frame %d %q err=%v while half-open connections exist", round, what, ft, data, err)
				return false
			}
			return true
		}
		identify := func(c net.Conn) bool {
			js := `{"client_id":"vfho","hostname":"vfho","heartbeat_interval":60000}`
			var b bytes.Buffer
			b.WriteString("IDENTIFY\n")
			binary.Write(&b, binary.BigEndian, int32(len(js)))
			b.WriteString(js)
			return cmdOK(c, "IDENTIFY", b.Bytes())
		}
		pubc, subc := dial(), dial()
		pubc.Write([]byte("  V2"))
		subc.Write([]byte("  V2"))
		okSetup := identify(pubc) && identify(subc) && cmdOK(subc, "SUB", []byte("SUB vfho ch\n"))
		subc.Write([]byte("RDY 100\n"))

		// --- the half-open connections ------------------------------------------------------------------
		type ho struct {
			c     net.Conn
			class string
			sent  int
		}
		var hos []*ho
		for i, n := 0, 6+r.Intn(8); i < n; i++ {
			cls := []string{"a", "b", "c", "d"}
			h := &ho{c: dial(), class: cls[r.Intn(4)]}
			if i < 4 {
				h.class = cls[i] // every class at least once per round
			}
			switch h.class {
			case "b":
				h.sent = 1 + r.Intn(3)
				h.c.Write([]byte("  V2")[:h.sent])
			case "c":
				h.sent = 3
				h.c.Write([]byte("  V9")[:3])
			case "d":
				h.sent = 4
				h.c.Write([]byte("  V2"))
			}
			hos = append(hos, h)
			g.hist["halfopen:"+h.class]++
		}
		// a later connection that is served implies the listener has accepted (and spawned handlers for) the
		// earlier ones: one more normal round trip
		probe := dial()
		probe.Write([]byte("  V2"))
		probeOK := identify(probe) && cmdOK(probe, "PUB", append([]byte("PUB vfhoP\n\x00\x00\x00\x01"), 'x'))

		local := func(c net.Conn) string { return c.LocalAddr().String() }
		halfAddrs := map[string]string{}
		for _, h := range hos {
			if h.class != "d" {
				halfAddrs[local(h.c)] = h.class
			}
		}

		// --- /stats in every format and filter, interleaved with publishes ----------------------------------
		published := 0
		for pass := 0; pass < 2; pass++ {
			for _, format := range []string{"", "format=json", "format=text"} {
				for _, topic := range []string{"", "topic=vfho", "topic=nosuch"} {
					for _, channel := range []string{"", "channel=ch", "channel=nosuch"} {
						for _, inc := range []string{"", "include_clients=true", "include_clients=false", "include_clients=1&include_mem=false", "include_mem=true"} {
							var q []string
							for _, x := range []string{format, topic, channel, inc} {
								if x != "" {
									q = append(q, x)
								}
							}
							url := base + "/stats"
							if len(q) > 0 {
								url += "?" + strings.Join(q, "&")
							}
							resp, err := hc.Get(url)
							requests++
							if err != nil {
								g.fail("halfopen-stats-500", "round %d: GET %s failed: %v", round, url, err)
								continue
							}
							body, _ := io.ReadAll(resp.Body)
							resp.Body.Close()
							g.hist[fmt.Sprintf("stats:%d", resp.StatusCode)]++
							if resp.StatusCode >= 500 {
								g.fail("halfopen-stats-500", "round %d: GET %s answered %d %q while %d TCP connections had not completed the protocol magic", round, url, resp.StatusCode, body, len(halfAddrs))
								continue
							}
							if format == "format=json" && resp.StatusCode == 200 {
								var doc vfE3HOStatsDoc
								if err := json.Unmarshal(body, &doc); err != nil {
									g.fail("halfopen-stats-malformed", "round %d: GET %s: not JSON: %v", round, url, err)
									continue
								}
								withClients := !strings.Contains(inc, "include_clients=false")
								listed := map[string]bool{}
								for _, p := range doc.Producers {
									listed[p.Remote] = true
								}
								for _, tp := range doc.Topics {
									for _, ch := range tp.Channels {
										for _, cl := range ch.Clients {
											listed[cl.Remote] = true
										}
									}
								}
								for a := range listed {
									if cls, bad := halfAddrs[a]; bad {
										g.fail("halfopen-listed", "round %d: GET %s lists %s, a connection of class %s that has not completed the protocol magic", round, url, a, cls)
									}
								}
								if withClients && topic != "topic=nosuch" {
									// (a connection counts as a producer once it has published: clientV2.Type)
									if published > 0 && !listed[local(pubc)] {
										g.fail("halfopen-missing", "round %d: GET %s does not list the publishing client %s among the producers", round, url, local(pubc))
									}
									if probeOK && !listed[local(probe)] {
										g.fail("halfopen-missing", "round %d: GET %s does not list the second publishing client %s among the producers", round, url, local(probe))
									}
									if channel != "channel=nosuch" && okSetup && !listed[local(subc)] {
										g.fail("halfopen-missing", "round %d: GET %s does not list the subscribed client %s", round, url, local(subc))
									}
								}
								g.hist["stats:json-checked"]++
							}
						}
					}
				}
				// a publish through the normal producer, received by the normal consumer
				body := fmt.Sprintf("m-%d-%d", round, published)
				var b bytes.Buffer
				b.WriteString("PUB vfho\n")
				binary.Write(&b, binary.BigEndian, int32(len(body)))
				b.WriteString(body)
				if okSetup && cmdOK(pubc, "PUB", b.Bytes()) {
					published++
					ft, data, err := vfE3HOFrame(subc, 20*time.Second)
					if err != nil || ft != frameTypeMessage || len(data) < 26 || string(data[26:]) != body {
						g.fail("halfopen-bystander", "round %d: the consumer did not receive %q (frame %d, %d bytes, err=%v)", round, body, ft, len(data), err)
					} else {
						subc.Write([]byte("FIN " + string(data[10:26]) + "\n"))
						g.hist["bystander:delivered"]++
					}
				}
			}
		}

		// --- completing the half-open connections -----------------------------------------------------------
		for _, h := range hos {
			switch h.class {
			case "b":
				h.c.Write([]byte("  V2")[h.sent:])
				if !identify(h.c) {
					g.fail("halfopen-complete", "round %d: a connection that completed the magic late does not work", round)
				} else {
					g.hist["complete:b-ok"]++
				}
			case "c":
				h.c.Write([]byte("9"))
				ft, data, err := vfE3HOFrame(h.c, 20*time.Second)
				if err != nil || ft != frameTypeError || string(data) != "E_BAD_PROTOCOL" {
					g.fail("halfopen-complete", "round %d: wrong magic answered frame %d %q err=%v, expected E_BAD_PROTOCOL", round, ft, data, err)
				} else if _, _, err := vfE3HOFrame(h.c, 20*time.Second); err == nil || vfE3HOTimeout(err) {
					g.fail("halfopen-complete", "round %d: connection still open after E_BAD_PROTOCOL (%v)", round, err)
				} else {
					g.hist["complete:c-refused"]++
				}
			}
		}
		if p := lg.grep("panic"); len(p) > 0 {
			g.fail("halfopen-panic-log", "round %d: the daemon logged %d panic line(s), first: %s", round, len(p), p[0])
		}
		// --- Exit with class (a) connections still open --------------------------------------------------------
		done := make(chan struct{})
		go func() { nsqd.Exit(); close(done) }()
		select {
		case <-done:
			g.hist["exit:returned"]++
		case <-time.After(60 * time.Second):
			g.fail("halfopen-exit-hangs", "round %d: NSQD.Exit did not return within 60 s while connections that never sent the protocol magic are open", round)
		}
		for _, h := range hos {
			h.c.Close()
		}
		pubc.Close()
		subc.Close()
		probe.Close()
		if p := lg.grep("panic"); len(p) > 0 {
			g.fail("halfopen-panic-log", "round %d (after Exit): the daemon logged %d panic line(s), first: %s", round, len(p), p[0])
		}
	}
	keys := make([]string, 0, len(g.hist))
	for k := range g.hist {
		keys = append(keys, k)
	}
	sort.Strings(keys)
	for _, k := range keys {
		fmt.Printf("HIST %s %d\n", k, g.hist[k])
	}
	for _, f := range g.fails {
		fmt.Println(f)
	}
	if len(g.fails) == 0 {
		fmt.Printf("ORACLE-OK halfopen requests=%d rounds=%d\n", requests, rounds)
	} else {
		t.Fail()
	}
}
