package nsqd

// C10, audit round 7.
//   * `httpb` stream (item B16): how many bytes of the request body each handler consumes. The body is
//     handed to the real httpServer.ServeHTTP through a counting reader; large bodies (many times
//     max-body-size) are generated on every endpoint, the admin and /stats endpoints above all. Replayed
//     by the Lean driver through Nsq.Model.HttpBody.bodyRead (+ HttpFull.serve for status and broker).
//     Model-free oracle `admin-body-unbounded` / `http-body-unbounded`: no handler of nsqd's own consumes
//     more than max(max-msg-size, max-body-size)+1 bytes of body.
//   * interrupted requests on the real listener (item B20): a request whose body stops before the
//     declared Content-Length. /pub, text /mpub and PUT /config answer 500 INTERNAL_ERROR (the read
//     error branch the theorems exclude by `Complete rq`), binary /mpub 413; recorded in the histogram
//     and checked against this table.

import (
	"bytes"
	"errors"
	"fmt"
	"io"
	"net"
	"net/http"
	"net/http/httptest"
	"net/url"
	"os"
	"path/filepath"
	"strconv"
	"strings"
	"testing"
	"time"
)

type vfE3CountReader struct {
	r io.Reader
	n int64
}

func (c *vfE3CountReader) Read(p []byte) (int, error) {
	n, err := c.r.Read(p)
	c.n += int64(n)
	return n, err
}

// vfE3BodySpec expands `rep:<hex>:<count>` (or plain hex / `-`).
func vfE3BodySpec(s string) []byte {
	if strings.HasPrefix(s, "rep:") {
		f := strings.Split(s, ":")
		if len(f) == 3 {
			n, _ := strconv.Atoi(f[2])
			return bytes.Repeat(vfE3Unhex(f[1]), n)
		}
	}
	return vfE3Unhex(s)
}

func vfE3ReqParamsPath(path string) bool {
	switch path {
	case "/stats", "/topic/empty", "/topic/delete", "/topic/pause", "/topic/unpause",
		"/channel/create", "/channel/delete", "/channel/empty", "/channel/pause", "/channel/unpause":
		return true
	}
	return false
}

// vfE3HTTPBOp executes one `httpb` op: answer line `W=<status> R=<bytes consumed> B=<broker>`.
func vfE3HTTPBOp(v *vfE3Node, w []string) (string, []string) {
	method, path, query := w[2], string(vfE3Unhex(w[3])), string(vfE3Unhex(w[4]))
	cl, _ := strconv.ParseInt(w[5], 10, 64)
	body := vfE3BodySpec(w[6])
	healthy := w[7] == "1"
	var fails []string
	if !healthy {
		v.n.SetHealth(errors.New("verif: injected backend fault"))
		defer v.n.SetHealth(nil)
	}
	opts := v.n.getOpts()
	cr := &vfE3CountReader{r: bytes.NewReader(body)}
	req := &http.Request{
		Method: method, URL: &url.URL{Path: path, RawQuery: query},
		Proto: "HTTP/1.1", ProtoMajor: 1, ProtoMinor: 1, Header: http.Header{},
		Body: io.NopCloser(cr), ContentLength: cl, Host: "verif", RemoteAddr: "127.0.0.1:9",
	}
	rec := httptest.NewRecorder()
	v.http.ServeHTTP(rec, req)
	if v.n.getOpts() != opts {
		v.n.swapOpts(opts)
		v.n.triggerOptsNotification()
	}
	wire := vfE3CanonWire(method, path, query, rec)
	if rec.Code == 500 && wire.kind == "err:INTERNAL_ERROR" && (path == "/debug/freememory" || path == "/debug/setblockrate") {
		wire.status = "200" // F24 (fixed): tolerated here, reported by the httpx leg
	}
	limit := opts.MaxMsgSize
	if opts.MaxBodySize > limit {
		limit = opts.MaxBodySize
	}
	limit++
	line := strings.ReplaceAll(strings.Join(w, " "), " ", "|")
	if cr.n > limit && !strings.HasPrefix(path, "/debug/pprof/") {
		key := "http-body-unbounded"
		if vfE3ReqParamsPath(path) {
			key = "admin-body-unbounded"
		}
		fails = append(fails, fmt.Sprintf("ORACLE-FAIL key=%s req=%s what=%s %s read %d bytes of request body into memory (answer %d); max-msg-size %d, max-body-size %d: no handler should consume more than %d",
			key, line, method, path, cr.n, rec.Code, opts.MaxMsgSize, opts.MaxBodySize, limit))
	}
	return fmt.Sprintf("W=%s R=%d B=%s", wire.status, cr.n, v.Snapshot()), fails
}

type vfE3BGen struct {
	*vfE3HGen
}

// bigBody: a body spec of `n` bytes.
func (g *vfE3BGen) bodyOf(n int) string {
	if n <= 0 {
		return "-"
	}
	if n <= 64 && g.r.Intn(2) == 0 {
		return vfHex(bytes.Repeat([]byte{byte('a' + g.r.Intn(26))}, n))
	}
	chunk := g.pick("78", "0a", "6d0a", "00000001", "2578")
	k := len(chunk) / 2
	if n > 100000 {
		chunk, k = "78", 1 // one long line: a megabyte of two-byte lines would be half a million messages (beyond mem-queue-size)
	}
	if n%k != 0 {
		chunk, k = "78", 1
	}
	return fmt.Sprintf("rep:%s:%d", chunk, n/k)
}

func (g *vfE3BGen) size(o *Options) int {
	lim := int(o.MaxBodySize)
	if lim > 100000 {
		// the default configuration (5 MiB): stay small, now and then a body beyond max-msg-size
		if g.r.Intn(40) == 0 {
			return int(o.MaxMsgSize) + 1 + g.r.Intn(3)
		}
		return g.r.Intn(300)
	}
	switch g.r.Intn(8) {
	case 0:
		return 0
	case 1:
		return 1 + g.r.Intn(8)
	case 2:
		return int(o.MaxMsgSize) + g.r.Intn(3) - 1
	case 3:
		return lim + g.r.Intn(4) - 1
	case 4:
		return lim*2 + g.r.Intn(50)
	case 5:
		return lim * (10 + g.r.Intn(90))
	default:
		return g.r.Intn(lim + 2)
	}
}

func (g *vfE3BGen) requestB() (method, path, query string, cl int64, body string) {
	o := g.v.n.getOpts()
	n := g.size(o)
	body = g.bodyOf(n)
	cl = int64(n)
	if g.r.Intn(3) == 0 {
		cl = -1
	}
	tq := "topic=" + g.pick("t0", "t0", "t1", "bad!", "t0#ephemeral")
	switch g.r.Intn(20) {
	case 0, 1, 2, 3, 4, 5, 6:
		method = "POST"
		path = g.pick("/topic/create", "/topic/empty", "/topic/delete", "/topic/pause", "/topic/unpause",
			"/channel/create", "/channel/create", "/channel/delete", "/channel/empty", "/channel/pause", "/channel/unpause")
		query = tq
		if strings.HasPrefix(path, "/channel/") {
			query += "&channel=" + g.pick("c0", "c0", "c1", "bad!")
		}
		if g.r.Intn(10) == 0 {
			query = g.pick("%zz", "a;b", "", "channel=c0")
		}
		g.count("httpb:admin")
	case 7, 8, 9:
		method, path = "GET", "/stats"
		query = g.pick("", "format=json", "format=json&topic=t0", "%zz", "topic=t0&channel=c0")
		g.count("httpb:stats")
	case 10, 11, 12:
		method, path, query = "POST", "/pub", tq
		g.count("httpb:pub")
	case 13, 14:
		method, path, query = "POST", "/mpub", tq+g.pick("", "", "&binary=true", "&binary=0")
		g.count("httpb:mpub")
	case 15:
		method, path = g.pick("PUT", "PUT", "GET"), "/config/"+g.pick("log_level", "nsqlookupd_tcp_addresses", "max_msg_size", "nope")
		g.count("httpb:config")
	case 16:
		method, path = g.pick("GET", "GET", "POST"), g.pick("/ping", "/info", "/debug/freememory")
		if path == "/debug/freememory" {
			method = "POST"
		}
		g.count("httpb:read")
	case 17:
		method, path, query = "PUT", "/debug/setblockrate", g.pick("rate=1", "rate=x", "")
		g.count("httpb:setblockrate")
	case 18:
		method = vfE3Methods[g.r.Intn(len(vfE3Methods))]
		path = vfE3Routes[g.r.Intn(len(vfE3Routes))]
		query = tq
		g.count("httpb:route-x-method")
	default:
		method = vfE3Methods[g.r.Intn(3)]
		path = g.pick("/", "/nope", "/pub/", "/stats/", "/topic", "/channel/create/x")
		query = tq
		g.count("httpb:unknown-path")
	}
	return
}

// vfE3Interrupted sends a request whose body stops short of its Content-Length to the real listener and
// returns the status line's code (0: the server closed the connection without an answer).
func vfE3Interrupted(addr, method, target string, declared int, sent []byte) int {
	c, err := net.DialTimeout("tcp", addr, 5*time.Second)
	if err != nil {
		return -1
	}
	defer c.Close()
	fmt.Fprintf(c, "%s %s HTTP/1.1\r\nHost: verif\r\nContent-Length: %d\r\nConnection: close\r\n\r\n", method, target, declared)
	c.Write(sent)
	if tc, ok := c.(*net.TCPConn); ok {
		tc.CloseWrite()
	}
	c.SetReadDeadline(time.Now().Add(10 * time.Second))
	rb, _ := io.ReadAll(c)
	if bytes.HasPrefix(rb, []byte("HTTP/1.1 ")) && len(rb) >= 12 {
		code, _ := strconv.Atoi(string(rb[9:12]))
		return code
	}
	return 0
}

// TestVerifE3HTTPAudit — `httpb` correspondence stream + the body-consumption oracle + interrupted requests.
func TestVerifE3HTTPAudit(t *testing.T) {
	N := vfEnvInt("VERIF_N", 600)
	nodes := vfE3Nodes(t)
	out := vfOpen("httpb")
	defer out.Close()
	var fails []string
	seen := map[string]bool{}
	fail := func(l string) {
		key := strings.Fields(l)[1]
		if key == "key=admin-body-unbounded" {
			if seen[key] {
				return
			}
			seen[key] = true
		}
		if len(fails) < 20 {
			fails = append(fails, l)
		}
	}
	ids := make([]string, 0, len(nodes))
	for id := range nodes {
		ids = append(ids, id)
	}
	sortStrings(ids)
	hist := map[string]int{}
	for _, id := range ids {
		out.Case(nodes[id].ConfLine(), "ok")
	}
	do := func(v *vfE3Node, line string) {
		ans, fs := vfE3HTTPBOp(v, strings.Fields(line))
		out.Case(line, ans)
		for _, f := range fs {
			fail(f)
		}
		f := strings.Fields(ans)
		hist["bstatus:"+strings.TrimPrefix(f[0], "W=")]++
		if n, _ := strconv.Atoi(strings.TrimPrefix(f[1], "R=")); n == 0 {
			hist["bread:0"]++
		} else if int64(n) <= v.n.getOpts().MaxBodySize+1 {
			hist["bread:within-limit"]++
		} else {
			hist["bread:beyond-limit"]++
		}
	}
	if cp := strings.TrimSpace(os.Getenv("VERIF_CORPUS")); cp != "" {
		files, _ := filepath.Glob(filepath.Join(cp, "*.opsb"))
		sortStrings(files)
		for _, f := range files {
			data, _ := os.ReadFile(f)
			for _, line := range strings.Split(string(data), "\n") {
				w := strings.Fields(line)
				if len(w) == 0 || strings.HasPrefix(line, "#") {
					continue
				}
				if w[0] == "reset" {
					for _, v := range nodes {
						v.Reset()
					}
					out.Case("reset", "ok")
				} else if w[0] == "httpb" && len(w) == 8 && nodes[w[1]] != nil {
					do(nodes[w[1]], strings.Join(w, " "))
					hist["corpus:httpb"]++
				}
			}
		}
	}
	for i := 0; i < N; i++ {
		id := ids[i%len(ids)]
		if _, ok := nodes["S"]; ok && i%10 < 5 {
			id = "S"
		} else if _, ok := nodes["Z"]; ok && i%10 < 8 {
			id = "Z"
		}
		v := nodes[id]
		g := &vfE3BGen{&vfE3HGen{&vfE3Gen{r: vfNewRand(uint64(1300000 + i)), v: v, hist: hist, json: map[string]bool{}}}}
		out.Case("reset", "ok")
		v.Reset()
		// set-up through the API itself: a topic with a channel, so that the admin endpoints reach their 200 branch
		if g.r.Intn(4) > 0 {
			do(v, fmt.Sprintf("httpb %s POST %s %s 0 - 1", v.id, vfHex([]byte("/topic/create")), vfHex([]byte("topic=t0"))))
			if g.r.Intn(3) > 0 {
				do(v, fmt.Sprintf("httpb %s POST %s %s 0 - 1", v.id, vfHex([]byte("/channel/create")), vfHex([]byte("topic=t0&channel=c0"))))
			}
		}
		steps := 3 + g.r.Intn(8)
		for s := 0; s < steps; s++ {
			method, path, query, cl, body := g.requestB()
			do(v, fmt.Sprintf("httpb %s %s %s %s %d %s 1", v.id, method, vfHex([]byte(path)), vfHex([]byte(query)), cl, body))
		}
		v.Reset()
	}
	// interrupted requests on the real listener: the declared length is never reached
	for _, id := range ids {
		if id == "T" {
			continue
		}
		v := nodes[id]
		v.Reset()
		addr := v.n.RealHTTPAddr().String()
		for _, tc := range []struct {
			name, method, target string
			declared             int
			sent                 string
			want                 []int
		}{
			{"pub", "POST", "/pub?topic=ti", 5, "abc", []int{500}},
			{"mpub-text", "POST", "/mpub?topic=ti", 9, "ab\ncd", []int{500}},
			{"mpub-binary", "POST", "/mpub?topic=ti&binary=true", 14, "\x00\x00\x00\x01\x00\x00\x00\x06ab", []int{413}},
			{"config-put", "PUT", "/config/log_level", 5, "inf", []int{500}},
			{"topic-pause", "POST", "/topic/pause?topic=ti", 5, "abc", []int{200, 400}}, // 400 INVALID_REQUEST before F33 (NewReqParams read error), 200 with it
		} {
			code := vfE3Interrupted(addr, tc.method, tc.target, tc.declared, []byte(tc.sent))
			hist[fmt.Sprintf("interrupted:%s:%d", tc.name, code)]++
			ok := false
			for _, wc := range tc.want {
				ok = ok || wc == code
			}
			if !ok {
				fail(fmt.Sprintf("ORACLE-FAIL key=http-interrupted req=- what=%s %s with Content-Length %d of which only %d bytes arrive was answered %d (conf %s), expected one of %v", tc.method, tc.target, tc.declared, len(tc.sent), code, id, tc.want))
			}
		}
		// nothing of an interrupted publish may have been enqueued
		if view := vfE3TopicView(v.Snapshot(), "ti"); view != "absent" && !strings.HasPrefix(view, "0:0:") && !strings.HasPrefix(view, "1:0:") {
			fail(fmt.Sprintf("ORACLE-FAIL key=http-interrupted req=- what=interrupted publishes left messages in topic ti: %s (conf %s)", view, id))
		}
		v.Reset()
	}
	keys := make([]string, 0, len(hist))
	for k := range hist {
		keys = append(keys, k)
	}
	sortStrings(keys)
	for _, k := range keys {
		fmt.Printf("HIST %s %d\n", k, hist[k])
	}
	for _, f := range fails {
		fmt.Println(f)
	}
	if len(fails) == 0 || (len(fails) == 1 && seen["key=admin-body-unbounded"]) {
		fmt.Printf("ORACLE-OK cases=%d lines=%d\n", N, out.N)
	}
	for _, v := range nodes {
		v.Stop()
	}
}
