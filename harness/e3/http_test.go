package nsqd

// C10 — correspondence and direct-oracle harness for the nsqd HTTP API. Requests are handed to
// the real httpServer.ServeHTTP (router, decorators, handlers); a few go through the node's real
// listener (net/http parsing included) as a smoke test of the direct path.

import (
	"bytes"
	"encoding/json"
	"errors"
	"fmt"
	"io"
	"net"
	"net/http"
	"net/http/httptest"
	"net/url"
	"os"
	"path/filepath"
	"strconv"
	"strings"
	"testing"
	"time"
)

// vfE3HTTPOp executes one `http` op (w = fields of the op line) and renders the answer.
func vfE3HTTPOp(v *vfE3Node, w []string) string {
	method, path, query := w[2], string(vfE3Unhex(w[3])), string(vfE3Unhex(w[4]))
	cl, _ := strconv.ParseInt(w[5], 10, 64)
	body := vfE3Unhex(w[6])
	healthy := w[7] == "1"
	if !healthy {
		v.n.SetHealth(errors.New("verif: injected backend fault"))
		defer v.n.SetHealth(nil)
	}
	opts := v.n.getOpts()
	defer v.n.swapOpts(opts) // PUT /config/log_level must not silence the log capture
	status, msg := vfE3Serve(v, method, path, query, cl, body)
	if path == "/channel/delete" && status == "200" {
		// an ephemeral topic that lost its last channel deletes itself in a goroutine: wait for it
		if q, err := url.ParseQuery(query); err == nil {
			if tn := q.Get("topic"); strings.HasSuffix(tn, "#ephemeral") {
				deadline := time.Now().Add(10 * time.Second)
				for time.Now().Before(deadline) {
					t, err := v.n.GetExistingTopic(tn)
					if err != nil {
						break
					}
					t.RLock()
					nch := len(t.channelMap)
					t.RUnlock()
					if nch > 0 {
						break
					}
					time.Sleep(200 * time.Microsecond)
				}
			}
		}
	}
	return fmt.Sprintf("H=%s M=%s B=%s", status, msg, v.Snapshot())
}

func vfE3Serve(v *vfE3Node, method, path, query string, cl int64, body []byte) (string, string) {
	req := &http.Request{
		Method: method, URL: &url.URL{Path: path, RawQuery: query},
		Proto: "HTTP/1.1", ProtoMajor: 1, ProtoMinor: 1, Header: http.Header{},
		Body: io.NopCloser(bytes.NewReader(body)), ContentLength: cl, Host: "verif", RemoteAddr: "127.0.0.1:9",
	}
	rec := httptest.NewRecorder()
	v.http.ServeHTTP(rec, req)
	return vfE3Canon(method, path, rec.Code, rec.Body.Bytes())
}

func vfE3Canon(method, path string, code int, body []byte) (string, string) {
	status := strconv.Itoa(code)
	msg := "*"
	if code == 200 {
		switch {
		case method != "OPTIONS" && (strings.HasPrefix(path, "/config/") || path == "/stats" || path == "/info"):
			msg = "*"
		case string(body) == "OK":
			msg = "OK"
		case len(body) == 0:
			msg = "-"
		}
		return status, msg
	}
	var m struct {
		Message string `json:"message"`
	}
	if json.Unmarshal(body, &m) == nil && m.Message != "" {
		msg = m.Message
	}
	if code == 301 || code == 307 || code == 308 || (code == 404 && msg == "NOT_FOUND") {
		return "404/3xx", "NOT_FOUND"
	}
	if path == "/ping" && code == 500 {
		msg = "*"
	}
	return status, msg
}

type vfE3HGen struct {
	*vfE3Gen
}

var vfE3Routes = []string{"/ping", "/info", "/pub", "/mpub", "/stats", "/topic/create", "/topic/delete",
	"/topic/empty", "/topic/pause", "/topic/unpause", "/channel/create", "/channel/delete", "/channel/empty",
	"/channel/pause", "/channel/unpause", "/config/log_level", "/config/max_msg_size", "/config/nope"}

var vfE3Methods = []string{"GET", "POST", "PUT", "DELETE", "HEAD", "OPTIONS", "PATCH"}

func (g *vfE3HGen) esc(s string) string {
	switch g.r.Intn(8) {
	case 0:
		return url.QueryEscape(s)
	case 1:
		// escape everything
		var sb strings.Builder
		for i := 0; i < len(s); i++ {
			fmt.Fprintf(&sb, "%%%02X", s[i])
		}
		return sb.String()
	}
	if strings.ContainsAny(s, "&=%+;# ") || s == "" {
		return url.QueryEscape(s)
	}
	return s
}

// query builds the raw query from arguments that are each present / missing / invalid.
func (g *vfE3HGen) query(topic, channel bool, extra ...string) string {
	var parts []string
	arg := func(key string, val func() string) {
		switch g.r.Intn(9) {
		case 0: // missing
		case 1: // empty
			parts = append(parts, key+"=")
		case 2: // duplicated: first wins
			parts = append(parts, key+"="+g.esc(val()), key+"="+g.esc(val()))
		default:
			parts = append(parts, key+"="+g.esc(val()))
		}
	}
	if topic {
		arg("topic", g.topic)
	}
	if channel {
		arg("channel", g.channel)
	}
	parts = append(parts, extra...)
	if g.r.Intn(12) == 0 {
		parts = append(parts, g.pick("x=%zz", "a;b=1", "%", "x=%4", "&&", "=v", "topic", "y=%41"))
	}
	for i := len(parts) - 1; i > 0; i-- { // shuffle
		j := g.r.Intn(i + 1)
		parts[i], parts[j] = parts[j], parts[i]
	}
	return strings.Join(parts, "&")
}

func (g *vfE3HGen) textBody(o *Options) []byte {
	var b []byte
	n := g.r.Intn(6)
	for i := 0; i < n; i++ {
		switch g.r.Intn(8) {
		case 0:
			b = append(b, '\n')
		case 1:
			b = append(b, bytes.Repeat([]byte("m"), int(o.MaxMsgSize)+g.r.Intn(3)-1)...)
			b = append(b, '\n')
		case 2:
			b = append(b, '\r', '\n')
		default:
			b = append(b, []byte(fmt.Sprintf("m%d", g.r.Intn(100)))...)
			if g.r.Intn(5) > 0 || i < n-1 {
				b = append(b, '\n')
			}
		}
	}
	if o.MaxBodySize < 100000 && g.r.Intn(12) == 0 {
		// exactly max-body-size+1 (or ±1) bytes whose last line is longer than max-msg-size
		tail := bytes.Repeat([]byte("m"), int(o.MaxMsgSize)+1)
		if g.r.Intn(2) == 0 {
			tail = append(tail, '\n')
		}
		target := int(o.MaxBodySize) + g.r.Intn(3)
		for len(b)+len(tail) < target {
			b = append(b, []byte("x\n")[:1+g.r.Intn(2)]...)
		}
		return append(b, tail...)
	}
	big := g.r.Intn(10)
	if o.MaxBodySize > 100000 && g.r.Intn(6) > 0 {
		big = 1 // multi-megabyte bodies only now and then
	}
	switch big {
	case 0: // around max-body-size
		target := int(o.MaxBodySize) + g.r.Intn(3) - 1
		for len(b) < target {
			line := 1 + g.r.Intn(int(o.MaxMsgSize))
			if len(b)+line+1 > target {
				line = target - len(b) - 1
			}
			if line < 0 {
				b = append(b, '\n')
				continue
			}
			b = append(b, bytes.Repeat([]byte("x"), line)...)
			b = append(b, '\n')
		}
		if len(b) > target {
			b = b[:target]
		}
	}
	return b
}

// one HTTP request: (method, path, query, declared length, body)
func (g *vfE3HGen) request() (method, path, query string, cl int64, body []byte) {
	o := g.v.n.getOpts()
	declared := func() {
		cl = int64(len(body))
		if g.r.Intn(3) == 0 {
			cl = -1 // chunked
		}
	}
	switch g.r.Intn(20) {
	case 0, 1, 2, 3, 4:
		method, path = "POST", "/pub"
		decl, act := g.sizes(o.MaxMsgSize)
		_ = decl
		body = g.body(act)
		var extra []string
		if g.r.Intn(3) == 0 {
			extra = append(extra, "defer="+g.esc(g.number(int64(o.MaxReqTimeout/1e6))))
		}
		query = g.query(true, false, extra...)
		declared()
		g.count("http:pub")
	case 5, 6, 7:
		method, path = "POST", "/mpub"
		body = g.textBody(o)
		var extra []string
		if g.r.Intn(6) == 0 {
			extra = append(extra, "binary="+g.pick("false", "0"))
		}
		query = g.query(true, false, extra...)
		declared()
		g.count("http:mpub-text")
	case 8, 9, 10:
		method, path = "POST", "/mpub"
		full, _ := g.mpub()
		// strip "MPUB name\n" + 4-byte body size: the HTTP body is count + messages
		if i := bytes.IndexByte(full, '\n'); i >= 0 && len(full) >= i+5 {
			body = full[i+5:]
		}
		query = g.query(true, false, "binary="+g.pick("true", "1", "yes", ""))
		declared()
		g.count("http:mpub-binary")
	case 11, 12, 13, 14, 15:
		method = "POST"
		path = vfE3Routes[5+g.r.Intn(10)]
		query = g.query(true, strings.HasPrefix(path, "/channel/"))
		if g.r.Intn(8) == 0 {
			body = []byte("ignored")
		}
		declared()
		g.count("http:admin")
	case 16:
		method, path = g.pick("GET", "PUT"), g.pick("/config/log_level", "/config/max_msg_size", "/config/nope", "/config/", "/config/a/b", "/config/mem_queue_size")
		if method == "PUT" {
			body = []byte(g.pick("debug", "INFO", "Warn", "error", "fatal", "loud", "", strings.Repeat("x", int(o.MaxMsgSize)+1), strings.Repeat("x", int(o.MaxMsgSize))))
		}
		declared()
		g.count("http:config")
	case 17:
		method, path = "GET", g.pick("/ping", "/info", "/stats")
		query = g.pick("", "format=json", "format=json&topic=t0", "x=%zz", "include_clients=0")
		cl = 0
		g.count("http:read")
	case 18:
		method = vfE3Methods[g.r.Intn(len(vfE3Methods))]
		path = vfE3Routes[g.r.Intn(len(vfE3Routes))]
		query = g.query(g.r.Intn(2) == 0, g.r.Intn(2) == 0)
		cl = 0
		g.count("http:route-x-method")
	default:
		method = vfE3Methods[g.r.Intn(3)]
		path = g.pick("/", "/nope", "/pub/", "/PUB", "/topic", "/topic/create/", "/channel/create/x", "//pub", "/pub/../pub", "/Ping", "", "/config")
		query = g.query(true, false)
		cl = 0
		g.count("http:unknown-path")
	}
	return
}

// topicView is the white-box content of one topic (for the twin-topic oracle).
func vfE3TopicView(snap, name string) string {
	key := vfHex([]byte(name)) + ":"
	for _, t := range strings.Split(snap, "/") {
		if strings.HasPrefix(t, key) {
			return t[len(key):]
		}
	}
	return "absent"
}

// TestVerifE3HTTP — correspondence stream for C10 plus the direct oracles:
//   - no complete request is answered 500 (only /ping under the injected fault) and none panics;
//   - twin topics: HTTP /pub[?defer=] vs TCP PUB/DPUB, binary /mpub vs TCP MPUB, text /mpub vs
//     TCP MPUB of the non-empty lines leave identical queues or are both rejected.
func TestVerifE3HTTP(t *testing.T) {
	N := vfEnvInt("VERIF_N", 1500)
	nodes := vfE3Nodes(t)
	out := vfOpen("http")
	defer out.Close()
	var fails []string
	fail := func(f string, a ...interface{}) {
		if len(fails) < 20 {
			fails = append(fails, fmt.Sprintf(f, a...))
		}
	}
	ids := make([]string, 0, len(nodes))
	for id := range nodes {
		ids = append(ids, id)
	}
	sortStrings(ids)
	hist := map[string]int{}
	jsonSeen := map[string]bool{}
	for _, id := range ids {
		out.Case(nodes[id].ConfLine(), "ok")
	}
	if cp := strings.TrimSpace(os.Getenv("VERIF_CORPUS")); cp != "" {
		files, _ := filepath.Glob(filepath.Join(cp, "*.ops"))
		sortStrings(files)
		for _, f := range files {
			vfE3Replay(f, nodes, out, jsonSeen, hist, fail)
		}
	}
	lastHTTP := ""
	httpOp := func(v *vfE3Node, method, path, query string, cl int64, body []byte, healthy int) (string, string) {
		line := fmt.Sprintf("http %s %s %s %s %d %s %d", v.id, method, vfHex([]byte(path)), vfHex([]byte(query)), cl, vfHex(body), healthy)
		ans := vfE3HTTPOp(v, strings.Fields(line))
		lastHTTP = line
		out.Case(line, ans)
		f := strings.Fields(ans)
		status := strings.TrimPrefix(f[0], "H=")
		hist["status:"+status]++
		hist["msg:"+strings.TrimPrefix(f[1], "M=")]++
		if status == "500" && !(path == "/ping" && healthy == 0) {
			fail("ORACLE-FAIL key=http-500 req=%s what=complete request answered 500: %s", line, ans)
		}
		return status, strings.TrimPrefix(f[2], "B=")
	}
	ioOp := func(v *vfE3Node, g *vfE3Gen, stream []byte) (vfE3Result, string) {
		res := v.RunConn(stream, g.r)
		snap := v.Snapshot()
		out.Case(fmt.Sprintf("io %s %s", v.id, vfHex(stream)), vfE3ImplLine(res, snap))
		return res, snap
	}
	for i := 0; i < N; i++ {
		id := ids[i%len(ids)]
		if _, ok := nodes["S"]; ok && i%10 < 7 {
			id = "S"
		}
		v := nodes[id]
		g := &vfE3HGen{&vfE3Gen{r: vfNewRand(uint64(500000 + i)), v: v, hist: hist, json: map[string]bool{}}}
		o := v.n.getOpts()
		out.Case("reset", "ok")
		v.Reset()
		steps := 2 + g.r.Intn(8)
		for s := 0; s < steps; s++ {
			twH, twT := fmt.Sprintf("twH%d", s), fmt.Sprintf("twT%d", s)
			switch g.r.Intn(12) {
			case 0: // a TCP connection in the middle of the history (creates channels with clients, publishes)
				stream, _ := g.stream()
				for body := range g.json {
					if !jsonSeen[body] {
						jsonSeen[body] = true
						out.Case(vfE3JsonLine([]byte(body)), "ok")
					}
				}
				g.json = map[string]bool{}
				ioOp(v, g.vfE3Gen, stream)
				hist["step:io"]++
			case 1: // twin-topic oracle: /pub[?defer] vs PUB/DPUB
				if id == "T" {
					continue
				}
				_, act := g.sizes(o.MaxMsgSize)
				body := g.body(act)
				num := g.number(int64(o.MaxReqTimeout / 1e6))
				useDefer := g.r.Intn(2) == 0
				q := "topic="+twH+""
				tcp := append([]byte("  V2PUB "+twT+"\n"), vfE3BE32(uint32(len(body)))...)
				if useDefer {
					q += "&defer=" + url.QueryEscape(num)
					tcp = append([]byte("  V2DPUB "+twT+" "+num+"\n"), vfE3BE32(uint32(len(body)))...)
				}
				tcp = append(tcp, body...)
				hs, _ := httpOp(v, "POST", "/pub", q, int64(len(body)), body, 1)
				res, snap := ioOp(v, g.vfE3Gen, tcp)
				canonical := num != "" && strings.Trim(num, "0123456789") == ""
				if int64(o.MaxReqTimeout) == 9223372036854775807 && len(num) >= 13 {
					canonical = false // hypothesis of pub_equiv_tcp: max-req-timeout below the saturation point
				}
				if !useDefer || canonical {
					hOK := hs == "200"
					tOK := len(res.replies) == 1 && res.replies[0] == "OK"
					a, b := vfE3TopicView(snap, twH), vfE3TopicView(snap, twT)
					if hOK != tOK || (hOK && a != b) {
						fail("ORACLE-FAIL key=pub-equiv req=%s what=/pub?%s answered %s but TCP answered %v; queues %s vs %s", strings.ReplaceAll(lastHTTP, " ", "|")+"||io|"+v.id+"|"+vfHex(tcp), q, hs, res.replies, a, b)
					}
					hist["twin:pub"]++
				}
			case 2: // twin-topic oracle: binary /mpub vs MPUB
				if id == "T" {
					continue
				}
				full, _ := g.mpub()
				i := bytes.IndexByte(full, '\n')
				if i < 0 || len(full) < i+5 || !bytes.HasPrefix(full, []byte("MPUB ")) {
					continue
				}
				batch := full[i+5:]
				if int64(len(batch)) > o.MaxBodySize || len(batch) == 0 {
					continue // the declared-size checks differ by design (Content-Length vs body size field)
				}
				tcp := append([]byte("  V2MPUB "+twT+"\n"), vfE3BE32(uint32(len(batch)))...)
				tcp = append(tcp, batch...)
				bcl := int64(len(batch))
				if g.r.Intn(2) == 0 {
					bcl = -1 // chunked: no declared length
					hist["twin:mpub-binary-chunked"]++
				}
				hs, _ := httpOp(v, "POST", "/mpub", "topic="+twH+"&binary=true", bcl, batch, 1)
				lastHTTPb := lastHTTP
				res, snap := ioOp(v, g.vfE3Gen, tcp)
				hOK := hs == "200"
				tOK := len(res.replies) >= 1 && res.replies[0] == "OK"
				a, b := vfE3TopicView(snap, twH), vfE3TopicView(snap, twT)
				if hOK != tOK || (hOK && a != b) {
					fail("ORACLE-FAIL key=mpub-binary-equiv req=%s what=binary /mpub answered %s but TCP MPUB answered %v; queues %s vs %s", strings.ReplaceAll(lastHTTPb, " ", "|")+"||io|"+v.id+"|"+vfHex(tcp), hs, res.replies, a, b)
				}
				hist["twin:mpub-binary"]++
			case 3: // twin-topic oracle: text /mpub vs MPUB of the non-empty lines
				if id == "T" {
					continue
				}
				text := g.textBody(o)
				if o.MaxBodySize < 100000 {
					switch g.r.Intn(8) {
					case 0, 1: // many short lines: around the message-count limit of the binary format
						k := int((o.MaxBodySize-4)/5) + g.r.Intn(5) - 2
						text = bytes.Repeat([]byte("a\n"), k)
						if len(text) > 0 && g.r.Intn(2) == 0 {
							text = text[:len(text)-1]
						}
					case 2: // one message padded with newlines up to / beyond max-body-size
						text = append([]byte("m"), bytes.Repeat([]byte("\n"), int(o.MaxBodySize)+g.r.Intn(3)-2)...)
					case 3: // no message at all
						text = bytes.Repeat([]byte("\n"), g.r.Intn(4))
					}
				}
				var blocks [][]byte
				for _, l := range bytes.Split(text, []byte("\n")) {
					if len(l) > 0 {
						blocks = append(blocks, l)
					}
				}
				hs, hsnap := httpOp(v, "POST", "/mpub", "topic="+twH+"", int64(len(text)), text, 1)
				lastHTTPt := lastHTTP
				// Exact acceptance of both formats, computed from the options alone (theorems mpub_text_exact,
				// mpub_text_vs_tcp, mpub_tcp_vs_text of Nsq.Props.C10Char): text mode needs body <= max-body-size and
				// every non-empty line <= max-msg-size; TCP MPUB of the lines needs 1 <= count <= (max-body-size-4)/5
				// and the framed batch <= max-body-size. The divergent cases are checked, not skipped (audit B15).
				textOK := int64(len(text)) <= o.MaxBodySize
				batch := vfE3BE32(uint32(len(blocks)))
				for _, b := range blocks {
					textOK = textOK && int64(len(b)) <= o.MaxMsgSize
					batch = append(append(batch, vfE3BE32(uint32(len(b)))...), b...)
				}
				tcpOK := len(blocks) >= 1 && int64(len(blocks)) <= (o.MaxBodySize-4)/5 && int64(len(batch)) <= o.MaxBodySize
				for _, b := range blocks {
					tcpOK = tcpOK && int64(len(b)) <= o.MaxMsgSize
				}
				hOK := hs == "200"
				if hOK != textOK {
					fail("ORACLE-FAIL key=mpub-text-limits req=%s what=text /mpub (%d bytes, %d non-empty lines, max-msg-size %d, max-body-size %d) answered %s; by the limits of the text format it must be %v", strings.ReplaceAll(lastHTTPt, " ", "|"), len(text), len(blocks), o.MaxMsgSize, o.MaxBodySize, hs, textOK)
				}
				if hOK {
					var ms []string
					for _, b := range blocks {
						ms = append(ms, vfE3ShowBytes(b)+"~0")
					}
					if want, got := fmt.Sprintf("0:%d:%s:-", len(blocks), vfE3JoinOr(",", ms)), vfE3TopicView(hsnap, twH); got != want {
						fail("ORACLE-FAIL key=mpub-text-limits req=%s what=text /mpub answered 200 and topic %s holds %s, expected exactly its non-empty lines %s", strings.ReplaceAll(lastHTTPt, " ", "|"), twH, got, want)
					}
				}
				if int64(len(batch)) > 1<<20 {
					continue
				}
				tcp := append(append([]byte("  V2MPUB "+twT+"\n"), vfE3BE32(uint32(len(batch)))...), batch...)
				res, snap := ioOp(v, g.vfE3Gen, tcp)
				tOK := len(res.replies) >= 1 && res.replies[0] == "OK"
				a, b := vfE3TopicView(snap, twH), vfE3TopicView(snap, twT)
				if tOK != tcpOK || (hOK && tOK && a != b) {
					fail("ORACLE-FAIL key=mpub-text-equiv req=%s what=text /mpub answered %s (predicted %v), TCP MPUB of its %d lines answered %v (predicted %v); queues %s vs %s", strings.ReplaceAll(lastHTTPt, " ", "|")+"||io|"+v.id+"|"+vfHex(tcp), hs, textOK, len(blocks), res.replies, tcpOK, a, b)
				}
				switch {
				case hOK && !tOK:
					hist["twin:mpub-text-divergent:text-only"]++
				case !hOK && tOK:
					hist["twin:mpub-text-divergent:tcp-only"]++
				case hOK && tOK:
					hist["twin:mpub-text-both"]++
				default:
					hist["twin:mpub-text-neither"]++
				}
				hist["twin:mpub-text"]++
			case 5, 6: // admin scenario on a small universe: cross-object effects, pause + publish + empty
				topics := []string{"ta", "tb#ephemeral"}
				chans := []string{"c1", "c2#ephemeral"}
				if g.r.Intn(3) == 0 { // names that contain the word the pause handlers look for in the PATH
					topics = []string{g.pick("unpause_x", "x.unpause", "jobs_unpaused"), "tb#ephemeral"}
					chans = []string{g.pick("unpause-worker", "c.unpause.d"), "c2#ephemeral"}
				}
				if g.r.Intn(2) == 0 { // setup: a paused topic that has a channel and holds messages itself
					tn := topics[g.r.Intn(2)]
					httpOp(v, "POST", "/channel/create", "topic="+url.QueryEscape(tn)+"&channel="+url.QueryEscape(chans[g.r.Intn(2)]), 0, nil, 1)
					httpOp(v, "POST", "/pub", "topic="+url.QueryEscape(tn), 2, []byte("s1"), 1)
					httpOp(v, "POST", "/topic/pause", "topic="+url.QueryEscape(tn), 0, nil, 1)
					httpOp(v, "POST", "/pub", "topic="+url.QueryEscape(tn), 2, []byte("s2"), 1)
				}
				for k := 3 + g.r.Intn(6); k > 0; k-- {
					tn, cn := topics[g.r.Intn(2)], chans[g.r.Intn(2)]
					if g.r.Intn(6) == 0 {
						cn = g.channel() // sometimes an invalid / unusual channel name on an existing topic
					}
					if g.r.Intn(12) == 0 {
						tn = g.topic()
					}
					switch g.r.Intn(12) {
					case 0:
						httpOp(v, "POST", "/topic/create", "topic="+url.QueryEscape(tn), 0, nil, 1)
					case 1, 2:
						httpOp(v, "POST", "/channel/create", "topic="+url.QueryEscape(tn)+"&channel="+url.QueryEscape(cn), 0, nil, 1)
					case 3:
						httpOp(v, "POST", "/topic/"+g.pick("pause", "pause", "unpause"), "topic="+url.QueryEscape(tn)+g.pick("", "", "&x=unpause", "&unpause=1"), 0, nil, 1)
					case 4:
						httpOp(v, "POST", "/channel/"+g.pick("pause", "pause", "unpause"), "topic="+url.QueryEscape(tn)+"&channel="+url.QueryEscape(cn)+g.pick("", "", "&x=unpause"), 0, nil, 1)
					case 5, 6, 7:
						body := []byte(fmt.Sprintf("a%d", g.r.Intn(100)))
						q := "topic=" + url.QueryEscape(tn)
						if g.r.Intn(4) == 0 {
							q += "&defer=600000"
						}
						httpOp(v, "POST", "/pub", q, int64(len(body)), body, 1)
					case 8:
						httpOp(v, "POST", "/topic/empty", "topic="+url.QueryEscape(tn), 0, nil, 1)
					case 9:
						httpOp(v, "POST", "/channel/empty", "topic="+url.QueryEscape(tn)+"&channel="+url.QueryEscape(cn), 0, nil, 1)
					case 10:
						httpOp(v, "POST", "/channel/delete", "topic="+url.QueryEscape(tn)+"&channel="+url.QueryEscape(cn), 0, nil, 1)
					default:
						httpOp(v, "POST", "/topic/delete", "topic="+url.QueryEscape(tn), 0, nil, 1)
					}
				}
				hist["step:admin-scenario"]++
			case 4:
				healthy := 1
				if g.r.Intn(3) == 0 {
					healthy = 0
				}
				httpOp(v, "GET", "/ping", "", 0, nil, healthy)
			default:
				m, p, q, cl, body := g.request()
				httpOp(v, m, p, q, cl, body, 1)
			}
		}
	}
	// concurrent leg: two binary /mpub requests overlap on the real listener; A's first length prefix
	// arrives split across two reads while B is served completely in between. Each must be answered 200
	// and enqueue exactly its own bodies (no state shared between requests).
	for _, id := range ids {
		if id == "T" {
			continue
		}
		v := nodes[id]
		o := v.n.getOpts()
		if o.MaxMsgSize < 70000 {
			continue // the interference needs a length prefix with non-zero high bytes
		}
		for round := 0; round < 3; round++ {
			v.Reset()
			splitAt := 1 + round%3
			bodiesA := [][]byte{[]byte("a1"), []byte("a-two")}
			bodiesB := [][]byte{bytes.Repeat([]byte("B"), 65536+257*round+1), bytes.Repeat([]byte("b"), 66000)}
			enc := func(bs [][]byte) []byte {
				out := vfE3BE32(uint32(len(bs)))
				for _, b := range bs {
					out = append(append(out, vfE3BE32(uint32(len(b)))...), b...)
				}
				return out
			}
			ba, bb := enc(bodiesA), enc(bodiesB)
			addr := v.n.RealHTTPAddr().String()
			ca, errA := net.DialTimeout("tcp", addr, 5*time.Second)
			cb, errB := net.DialTimeout("tcp", addr, 5*time.Second)
			if errA != nil || errB != nil {
				fail("ORACLE-FAIL key=http-concurrent req=- what=cannot connect to the HTTP listener: %v %v", errA, errB)
				break
			}
			hdr := func(topic string, n int) string {
				return fmt.Sprintf("POST /mpub?topic=%s&binary=true HTTP/1.1\r\nHost: verif\r\nContent-Length: %d\r\nConnection: close\r\n\r\n", topic, n)
			}
			ca.Write([]byte(hdr("conA", len(ba))))
			ca.Write(ba[:splitAt])
			time.Sleep(30 * time.Millisecond) // let the handler of A block inside its first 4-byte read
			cb.Write([]byte(hdr("conB", len(bb))))
			cb.Write(bb)
			cb.SetReadDeadline(time.Now().Add(10 * time.Second))
			rb, _ := io.ReadAll(cb)
			ca.Write(ba[splitAt:])
			ca.SetReadDeadline(time.Now().Add(10 * time.Second))
			ra, _ := io.ReadAll(ca)
			ca.Close()
			cb.Close()
			snap := v.Snapshot()
			want := func(bs [][]byte) string {
				var ms []string
				for _, b := range bs {
					ms = append(ms, vfE3ShowBytes(b)+"~0")
				}
				return fmt.Sprintf("0:%d:%s:-", len(bs), strings.Join(ms, ","))
			}
			okA := bytes.HasPrefix(ra, []byte("HTTP/1.1 200")) && vfE3TopicView(snap, "conA") == want(bodiesA)
			okB := bytes.HasPrefix(rb, []byte("HTTP/1.1 200")) && vfE3TopicView(snap, "conB") == want(bodiesB)
			hist["concurrent:mpub-pair"]++
			if !okA || !okB {
				first := func(b []byte) string {
					if i := bytes.IndexByte(b, '\r'); i > 0 {
						return string(b[:i])
					}
					return string(b)
				}
				fail("ORACLE-FAIL key=http-concurrent req=- what=two overlapping binary /mpub requests (A: 2 small messages, its count prefix split after %d byte(s); B: %d+66000 bytes served in between) interfered: A answered %q and topic conA holds %s (expected %s); B answered %q and conB holds %s",
					splitAt, len(bodiesB[0]), first(ra), vfE3TopicView(snap, "conA"), want(bodiesA), first(rb), vfE3TopicView(snap, "conB")[:40])
				break
			}
		}
		v.Reset()
	}
	// smoke: the same server behind the real listener (net/http parsing, chunked encoding)
	for _, id := range ids {
		v := nodes[id]
		if id == "T" {
			continue
		}
		v.Reset()
		base := "http://" + v.n.RealHTTPAddr().String()
		for _, tc := range []struct{ method, path, body string }{
			{"POST", "/pub?topic=smoke", "hello"}, {"POST", "/pub?topic=smoke", ""}, {"GET", "/pub?topic=smoke", ""},
			{"POST", "/mpub?topic=smoke", "a\nb\n"}, {"GET", "/ping", ""}, {"GET", "/nope", ""},
			{"POST", "/pub?topic=bad!", "x"},
		} {
			req, _ := http.NewRequest(tc.method, base+tc.path, io.NopCloser(strings.NewReader(tc.body))) // unknown length → chunked
			resp, err := http.DefaultClient.Do(req)
			if err != nil {
				fail("ORACLE-FAIL key=http-listener req=%s what=%v", tc.path, err)
				continue
			}
			rb, _ := io.ReadAll(resp.Body)
			resp.Body.Close()
			u, _ := url.Parse(base + tc.path)
			s1, m1 := vfE3Canon(tc.method, u.Path, resp.StatusCode, rb)
			v.Reset()
			s2, m2 := vfE3Serve(v, tc.method, u.Path, u.RawQuery, -1, []byte(tc.body))
			v.Reset()
			if s1 != s2 || m1 != m2 {
				fail("ORACLE-FAIL key=http-listener req=%s what=listener answered %s %s, direct ServeHTTP %s %s", tc.path, s1, m1, s2, m2)
			}
			hist["smoke:listener"]++
		}
	}
	keys := make([]string, 0, len(hist))
	for k := range hist {
		keys = append(keys, k)
	}
	sortStrings(keys)
	for _, k := range keys {
		fmt.Printf("HIST %s %d\n", k, hist[k])
	}
	for _, f := range fails {
		fmt.Println(f)
	}
	if len(fails) == 0 {
		fmt.Printf("ORACLE-OK cases=%d lines=%d\n", N, out.N)
	}
	for _, v := range nodes {
		v.Stop()
	}
}
