package nsqadmin

// C10 concurrency leg on nsqadmin (same internal/http_api envelope). Machinery and oracle: concur_core.go.tmpl.
// A cluster of one nsqlookupd, one nsqd (one topic, one channel, registered with the lookupd) and one nsqadmin
// with generous upstream time-outs; requests that change nothing. nsqadmin's answers are computed from upstream
// HTTP calls to the other two daemons, whose listeners are thereby exercised concurrently as well.
// C18 is another builder's property; this leg belongs to C10's check only.

import (
	"os"
	"testing"
	"time"

	"github.com/nsqio/nsq/internal/lg"
	"github.com/nsqio/nsq/nsqd"
	"github.com/nsqio/nsq/nsqlookupd"
)

type vfE3CCNull struct{}

func (vfE3CCNull) Output(int, string) error { return nil }

func TestVerifE3HTTPConcurrentAdmin(t *testing.T) {
	g := vfCCNewRun()
	r := vfNewRand(0xC10E)

	lo := nsqlookupd.NewOptions()
	lo.Logger = vfE3CCNull{}
	lo.LogLevel = lg.FATAL
	lo.TCPAddress, lo.HTTPAddress = vfLoop2()
	lo.BroadcastAddress = vfLoopHost(lo.TCPAddress)
	lookupd, err := nsqlookupd.New(lo)
	if err != nil {
		t.Fatal(err)
	}
	go func() {
		if err := lookupd.Main(); err != nil {
			panic(err)
		}
	}()

	no := nsqd.NewOptions()
	no.Logger = vfE3CCNull{}
	no.LogLevel = lg.FATAL
	no.TCPAddress, no.HTTPAddress = vfLoop2()
	no.BroadcastAddress = vfLoopHost(no.TCPAddress)
	no.NSQLookupdTCPAddresses = []string{lookupd.RealTCPAddr().String()}
	no.DataPath = t.TempDir()
	d, err := nsqd.New(no)
	if err != nil {
		t.Fatal(err)
	}
	go func() {
		if err := d.Main(); err != nil {
			panic(err)
		}
	}()
	defer os.RemoveAll(no.DataPath)
	d.GetTopic("cc_topic").GetChannel("ch")

	ao := NewOptions()
	ao.Logger = vfE3CCNull{}
	ao.LogLevel = lg.FATAL
	ao.HTTPAddress = vfLoopAddr()
	ao.NSQLookupdHTTPAddresses = []string{lookupd.RealHTTPAddr().String()}
	ao.HTTPClientConnectTimeout = 60 * time.Second
	ao.HTTPClientRequestTimeout = 120 * time.Second
	admin, err := New(ao)
	if err != nil {
		t.Fatal(err)
	}
	go func() {
		if err := admin.Main(); err != nil {
			panic(err)
		}
	}()

	// the nsqd registers its topic and channel with the lookupd asynchronously
	deadline := time.Now().Add(15 * time.Second)
	for time.Now().Before(deadline) {
		if len(lookupd.DB.FindProducers("channel", "cc_topic", "ch")) == 1 && len(lookupd.DB.FindProducers("client", "", "")) == 1 {
			break
		}
		time.Sleep(10 * time.Millisecond)
	}

	node := d.RealHTTPAddr().String()
	reqs := []vfCCReq{
		{Method: "GET", URL: "/api/topics"},
		{Method: "GET", URL: "/api/topics?inactive=true"},
		{Method: "GET", URL: "/api/topics/cc_topic"},
		{Method: "GET", URL: "/api/topics/cc_topic/ch"},
		{Method: "GET", URL: "/api/nodes"},
		{Method: "GET", URL: "/api/nodes/" + node},
		{Method: "GET", URL: "/api/counter"},
		{Method: "GET", URL: "/config/log_level"},
		{Method: "GET", URL: "/ping"},
		{Method: "GET", URL: "/api/nodes/127.0.0.1:1"},
		{Method: "GET", URL: "/config/no_such_option"},
		{Method: "POST", URL: "/api/topics", Body: "{"},
		{Method: "POST", URL: "/api/topics/cc_topic", Body: `{"action":"nonsense"}`},
		{Method: "GET", URL: "/api/no/such/path"},
		{Method: "PUT", URL: "/api/topics"},
		{Method: "GET", URL: "/static/no_such_asset"},
	}
	tg := &vfCCTarget{Name: "nsqadmin", Handler: NewHTTPServer(admin), Base: "http://" + admin.RealHTTPAddr().String(), Reqs: reqs,
		DirectEach: 100, ListenEach: 150}
	g.target(tg, r)

	// the lookupd of the cluster, through its listener only (its httpServer type is not visible from here)
	lreqs := []vfCCReq{
		{Method: "GET", URL: "/info"},
		{Method: "GET", URL: "/topics"},
		{Method: "GET", URL: "/channels?topic=cc_topic"},
		{Method: "GET", URL: "/lookup?topic=cc_topic"},
		{Method: "GET", URL: "/nodes"},
		{Method: "GET", URL: "/lookup?topic=cc_nosuch"},
		{Method: "GET", URL: "/channels"},
		{Method: "GET", URL: "/no/such/path"},
		{Method: "POST", URL: "/topics"},
	}
	g.target(&vfCCTarget{Name: "nsqlookupd-cluster", Base: "http://" + lookupd.RealHTTPAddr().String(), Reqs: lreqs, ListenEach: 400}, r)

	exited := make(chan struct{})
	go func() { admin.Exit(); d.Exit(); lookupd.Exit(); close(exited) }()
	select {
	case <-exited:
	case <-time.After(60 * time.Second):
		g.fail("http-concurrent-exit-hangs-nsqadmin", "", "Exit of the nsqadmin / nsqd / nsqlookupd cluster did not return within 60 s after the concurrent HTTP leg")
	}
	g.report("nsqadmin")
}
