package nsqd

// C09 (round 6) — IDENTIFY field by field: the decoded identifyDataV2 is the op (`idn …`), the real
// connection is run with the JSON body, compared: outcome class, every clientV2 field Identify
// writes (also after a failing setter: partial effect), the response document field by field, the
// upgrade flags. Replayed through Nsq.Model.Identify.identifyFull by the Lean driver.

import (
	"encoding/json"
	"fmt"
	"sort"
	"strings"
	"sync/atomic"
	"testing"
	"time"
)

type vfE3IdDoc struct {
	MaxRdyCount         int64 `json:"max_rdy_count"`
	MaxMsgTimeout       int64 `json:"max_msg_timeout"`
	MsgTimeout          int64 `json:"msg_timeout"`
	TLSv1               bool  `json:"tls_v1"`
	Deflate             bool  `json:"deflate"`
	DeflateLevel        int64 `json:"deflate_level"`
	MaxDeflateLevel     int64 `json:"max_deflate_level"`
	Snappy              bool  `json:"snappy"`
	SampleRate          int64 `json:"sample_rate"`
	AuthRequired        bool  `json:"auth_required"`
	OutputBufferSize    int64 `json:"output_buffer_size"`
	OutputBufferTimeout int64 `json:"output_buffer_timeout"`
}

var vfE3IdDocKeys = []string{"auth_required", "deflate", "deflate_level", "max_deflate_level", "max_msg_timeout", "max_rdy_count",
	"msg_timeout", "output_buffer_size", "output_buffer_timeout", "sample_rate", "snappy", "tls_v1", "topology_region", "topology_zone", "version"}

func (g *vfE3Gen) identifyFields() string {
	o := g.v.n.getOpts()
	iv := func(lo, hi int64) string {
		switch g.r.Intn(24) {
		case 0, 1:
			return "-1"
		case 2, 3:
			return "0"
		case 4, 5:
			return fmt.Sprint(lo)
		case 6, 7:
			return fmt.Sprint(hi)
		case 8:
			return fmt.Sprint(lo - 1)
		case 9:
			return fmt.Sprint(hi + 1)
		case 10:
			return g.pick("-2", "1", "63", "64", "65", "999", "1000", "1001", "9223372036854775807", "-9223372036854775808")
		default:
			return fmt.Sprint(lo + int64(g.r.Intn(int(hi-lo+1))))
		}
	}
	var fields []string
	add := func(p int, f string) {
		if g.r.Intn(p) > 0 {
			fields = append(fields, f)
		}
	}
	add(3, `"heartbeat_interval":`+iv(1000, int64(o.MaxHeartbeatInterval/1e6)))
	add(2, `"output_buffer_size":`+iv(64, o.MaxOutputBufferSize))
	add(2, `"output_buffer_timeout":`+iv(int64(o.MinOutputBufferTimeout/1e6), int64(o.MaxOutputBufferTimeout/1e6)))
	add(2, `"msg_timeout":`+iv(1000, int64(o.MaxMsgTimeout/1e6)))
	add(2, `"sample_rate":`+g.pick("0", "1", "99", "50", "98", "7", "33", "0", "1", "99", "100", "-1", "2147483647", "-2147483648"))
	add(4, `"feature_negotiation":`+g.pick("true", "true", "true", "false"))
	add(2, `"snappy":`+g.pick("true", "true", "false"))
	add(2, `"deflate":`+g.pick("true", "true", "false"))
	add(2, `"deflate_level":`+g.pick("-1", "0", "1", "2", "5", "6", "7", "8", "9", "10", "12", "100", "-5", "9223372036854775807"))
	add(2, `"tls_v1":`+g.pick("true", "false", "false"))
	add(2, `"client_id":"`+g.pick("", "c1", "id with space", "é")+`"`)
	add(2, `"hostname":"`+g.pick("", "h", "host.example")+`"`)
	add(2, `"user_agent":"`+g.pick("", "go-nsq/1.1.0", "ua")+`"`)
	add(2, `"topology_region":"`+g.pick("", "eu", "us-east")+`"`)
	add(2, `"topology_zone":"`+g.pick("", "z1", "b")+`"`)
	for i := len(fields) - 1; i > 0; i-- {
		j := g.r.Intn(i + 1)
		fields[i], fields[j] = fields[j], fields[i]
	}
	return "{" + strings.Join(fields, ",") + "}"
}

func vfE3IdnOp(v *vfE3Node, body []byte, rnd *vfRand) (op string, impl string, fails []string) {
	var d identifyDataV2
	if err := json.Unmarshal(body, &d); err != nil {
		return "", "", nil
	}
	o := v.n.getOpts()
	op = fmt.Sprintf("idn %s %d %d %d %d %d %d %d %d %d %d %s %s %s %s %s %d %d", v.id, d.HeartbeatInterval, d.OutputBufferSize,
		d.OutputBufferTimeout, d.MsgTimeout, d.SampleRate, vfE3Bool(d.FeatureNegotiation), vfE3Bool(d.TLSv1), vfE3Bool(d.Deflate),
		vfE3Bool(d.Snappy), d.DeflateLevel, vfHex([]byte(d.ClientID)), vfHex([]byte(d.Hostname)), vfHex([]byte(d.UserAgent)),
		vfHex([]byte(d.TopologyRegion)), vfHex([]byte(d.TopologyZone)), o.MaxDeflateLevel, vfE3Bool(v.n.IsAuthEnabled()))
	stream := append([]byte("  V2IDENTIFY\n"), vfE3BE32(uint32(len(body)))...)
	stream = append(stream, body...)
	res := v.RunConn(stream, rnd)
	cl := res.cl
	if res.end == "panic" || res.end == "hang" || cl == nil {
		return op, "O=" + res.end, []string{fmt.Sprintf("ORACLE-FAIL key=%s stream=%s conf=%s what=IDENTIFY handler ended in a %s", res.end, vfHex(stream), v.id, res.end)}
	}
	outcome := "?" + strings.Join(res.replies, ",")
	switch {
	case len(res.replies) == 1 && res.replies[0] == "E_BAD_BODY":
		outcome = "badbody"
	case len(res.replies) == 1 && res.replies[0] == "OK":
		outcome = "ok"
	case len(res.replies) == 1 && res.replies[0] == "E_IDENTIFY_FAILED":
		outcome = "failed"
	case len(res.replies) >= 1 && res.replies[0] == "JSON":
		outcome = "doc"
	}
	cl.writeLock.RLock()
	cfields := fmt.Sprintf("%d,%d,%d,%d,%d", int64(cl.HeartbeatInterval), cl.OutputBufferSize, int64(cl.OutputBufferTimeout),
		atomic.LoadInt32(&cl.SampleRate), int64(cl.MsgTimeout))
	cl.writeLock.RUnlock()
	cl.metaLock.RLock()
	meta := strings.Join([]string{vfHex([]byte(cl.ClientID)), vfHex([]byte(cl.Hostname)), vfHex([]byte(cl.UserAgent)),
		vfHex([]byte(cl.TopologyRegion)), vfHex([]byte(cl.TopologyZone))}, ",")
	cl.metaLock.RUnlock()
	docS, upS := "-", "-"
	if outcome == "doc" {
		var doc vfE3IdDoc
		var keys map[string]interface{}
		if err := json.Unmarshal(res.json, &doc); err != nil || json.Unmarshal(res.json, &keys) != nil {
			fails = append(fails, fmt.Sprintf("ORACLE-FAIL key=identify-doc stream=%s conf=%s what=the IDENTIFY response is not the documented JSON object: %q", vfHex(stream), v.id, res.json))
		} else {
			ks := make([]string, 0, len(keys))
			for k := range keys {
				ks = append(ks, k)
			}
			sort.Strings(ks)
			if strings.Join(ks, ",") != strings.Join(vfE3IdDocKeys, ",") {
				fails = append(fails, fmt.Sprintf("ORACLE-FAIL key=identify-doc stream=%s conf=%s what=IDENTIFY response keys are %v", vfHex(stream), v.id, ks))
			}
			docS = fmt.Sprintf("%d,%d,%d,%d,%d,%d,%d,%d,%d,%d,%d,%d", doc.MaxRdyCount, doc.MaxMsgTimeout, doc.MsgTimeout, vfE3Bool(doc.TLSv1),
				vfE3Bool(doc.Deflate), doc.DeflateLevel, doc.MaxDeflateLevel, vfE3Bool(doc.Snappy), doc.SampleRate, vfE3Bool(doc.AuthRequired),
				doc.OutputBufferSize, doc.OutputBufferTimeout)
			if !doc.TLSv1 {
				upS = fmt.Sprintf("%d%d", atomic.LoadInt32(&cl.Snappy), atomic.LoadInt32(&cl.Deflate))
			}
			// model-free: the document reflects exactly what was applied to this connection
			bad := func(what string) {
				fails = append(fails, fmt.Sprintf("ORACLE-FAIL key=identify-reflects stream=%s conf=%s what=%s (document %s, client %s)", vfHex(stream), v.id, what, res.json, cfields))
			}
			cl.writeLock.RLock()
			if doc.MsgTimeout != int64(cl.MsgTimeout/time.Millisecond) {
				bad("msg_timeout differs from the connection's MsgTimeout")
			}
			if doc.OutputBufferSize != int64(cl.OutputBufferSize) {
				bad("output_buffer_size differs from the connection's OutputBufferSize")
			}
			if doc.OutputBufferTimeout != int64(cl.OutputBufferTimeout/time.Millisecond) {
				bad("output_buffer_timeout differs from the connection's OutputBufferTimeout")
			}
			cl.writeLock.RUnlock()
			if doc.SampleRate != int64(atomic.LoadInt32(&cl.SampleRate)) {
				bad("sample_rate differs from the connection's SampleRate")
			}
			if doc.MaxRdyCount != o.MaxRdyCount || doc.MaxMsgTimeout != int64(o.MaxMsgTimeout/time.Millisecond) || doc.MaxDeflateLevel != int64(o.MaxDeflateLevel) {
				bad("max_rdy_count / max_msg_timeout / max_deflate_level differ from the options")
			}
			if doc.Deflate && doc.Snappy {
				bad("deflate and snappy both announced")
			}
			if doc.DeflateLevel < 1 || doc.DeflateLevel > int64(o.MaxDeflateLevel) {
				bad("deflate_level outside 1..max_deflate_level")
			}
			if doc.Deflate && d.DeflateLevel >= 1 && d.DeflateLevel <= o.MaxDeflateLevel && doc.DeflateLevel != int64(d.DeflateLevel) {
				bad("a permitted deflate_level was not granted")
			}
			if (doc.Deflate && !(o.DeflateEnabled && d.Deflate)) || (doc.Snappy && !(o.SnappyEnabled && d.Snappy)) || (doc.TLSv1 && !(v.n.tlsConfig != nil && d.TLSv1)) {
				bad("a feature was announced that is disabled or was not asked for")
			}
			if (o.DeflateEnabled && d.Deflate && !doc.Deflate) || (o.SnappyEnabled && d.Snappy && !doc.Snappy) || (v.n.tlsConfig != nil && d.TLSv1 && !doc.TLSv1) {
				bad("an enabled feature that was asked for was not announced")
			}
			if !doc.TLSv1 && (doc.Snappy != (atomic.LoadInt32(&cl.Snappy) == 1) || doc.Deflate != (atomic.LoadInt32(&cl.Deflate) == 1)) {
				bad("the compression announced is not the one installed on the connection")
			}
			if d.MsgTimeout >= 1000 && int64(d.MsgTimeout) <= int64(o.MaxMsgTimeout/time.Millisecond) && doc.MsgTimeout != int64(d.MsgTimeout) {
				bad("a permitted msg_timeout was not echoed")
			}
			if d.OutputBufferSize >= 64 && int64(d.OutputBufferSize) <= o.MaxOutputBufferSize && doc.OutputBufferSize != int64(d.OutputBufferSize) {
				bad("a permitted output_buffer_size was not echoed")
			}
		}
	}
	return op, fmt.Sprintf("O=%s C=%s M=%s D=%s U=%s", outcome, cfields, meta, docS, upS), fails
}

// TestVerifE3Identify — correspondence stream `idn` + the model-free "document reflects what was applied" oracle.
func TestVerifE3Identify(t *testing.T) {
	N := vfEnvInt("VERIF_N", 1500)
	nodes := vfE3Nodes(t)
	out := vfOpen("idn")
	defer out.Close()
	var fails []string
	ids := make([]string, 0, len(nodes))
	for id := range nodes {
		ids = append(ids, id)
	}
	sortStrings(ids)
	hist := map[string]int{}
	for _, id := range ids {
		// every generated body must reach the decoder: max-body-size is not the subject of this leg
		o := *nodes[id].n.getOpts()
		if o.MaxBodySize < 4096 {
			o.MaxBodySize = 4096
			nodes[id].n.swapOpts(&o)
		}
		out.Case(nodes[id].ConfLine(), "ok")
	}
	for i := 0; i < N; i++ {
		id := ids[i%len(ids)]
		if _, ok := nodes["Z"]; ok && i%8 < 3 {
			id = "Z" // the configuration with snappy and deflate enabled
		}
		v := nodes[id]
		g := &vfE3Gen{r: vfNewRand(uint64(1300000 + i)), v: v, hist: hist, json: map[string]bool{}}
		body := []byte(g.identifyFields())
		op, impl, fs := vfE3IdnOp(v, body, g.r)
		if op == "" {
			hist["idn:undecodable"]++
			continue
		}
		out.Case(op, impl)
		hist["idn:"+strings.TrimPrefix(strings.Fields(impl)[0], "O=")+":"+id]++
		for _, f := range fs {
			if len(fails) < 20 {
				fails = append(fails, f)
			}
		}
		v.Reset()
	}
	keys := make([]string, 0, len(hist))
	for k := range hist {
		keys = append(keys, k)
	}
	sortStrings(keys)
	for _, k := range keys {
		fmt.Printf("HIST %s %d\n", k, hist[k])
	}
	for _, f := range fails {
		fmt.Println(f)
	}
	if len(fails) == 0 {
		fmt.Printf("ORACLE-OK cases=%d lines=%d\n", N, out.N)
	}
	for _, v := range nodes {
		v.Stop()
	}
}
