package nsqd

// C09 — correspondence and direct-oracle harness for the nsqd TCP protocol.
//
// Every case is a history on one in-process nsqd: `reset`, then one or more `io` operations
// (one TCP connection each: the whole byte stream, then half-close). For each the real
// tcpServer.Handle/IOLoop answer is recorded: reply frames (type + E_ code), how the
// connection ended, the final clientV2 state and a white-box snapshot of the broker.

import (
	"bufio"
	"fmt"
	"math/big"
	"sync/atomic"
	"time"
	"os"
	"path/filepath"
	"strings"
	"testing"
)

// ---------------------------------------------------------------- generators

type vfE3Gen struct {
	r    *vfRand
	v    *vfE3Node
	hist map[string]int
	json map[string]bool // IDENTIFY bodies handed to the json oracle
}

func (g *vfE3Gen) count(k string) { g.hist[k]++ }

func (g *vfE3Gen) pick(xs ...string) string { return xs[g.r.Intn(len(xs))] }

var vfE3ValidNames = []string{"t0", "t1", "a.b-c_D9", "x#ephemeral", "q1#ephemeral",
	strings.Repeat("n", 64), strings.Repeat("e", 54) + "#ephemeral", "Z", "0", "_", "-.-"}
var vfE3InvalidNames = []string{"", strings.Repeat("n", 65), "bad!", "a#ephemeralx", "#ephemeral", "a#b",
	"\xc3\xa9", "t\x00", strings.Repeat("e", 55) + "#ephemeral", "a#ephemera", "a##ephemeral", "a/b", "t0\t",
	"a#ephemeral#ephemeral", "~", "a@b", "[", "`", "{", "/", ":", "@", "^"}

func (g *vfE3Gen) topic() string {
	switch g.r.Intn(10) {
	case 0:
		g.count("name:invalid")
		return vfE3InvalidNames[g.r.Intn(len(vfE3InvalidNames))]
	case 1:
		// random name over a small alphabet around the class boundaries
		n := 1 + g.r.Intn(4)
		al := ".-_09azAZ#/:@[`{e"
		b := make([]byte, n)
		for i := range b {
			b[i] = al[g.r.Intn(len(al))]
		}
		g.count("name:random")
		return string(b)
	default:
		g.count("name:valid")
		return vfE3ValidNames[g.r.Intn(len(vfE3ValidNames))]
	}
}

func (g *vfE3Gen) channel() string { return g.topic() }

// size field: mostly consistent with the body, sometimes a boundary / hostile value
func (g *vfE3Gen) sizes(limit int64) (declared uint32, actual int) {
	l := int(limit)
	c := g.r.Intn(16)
	if limit > 100000 && c >= 4 && c <= 6 && g.r.Intn(8) > 0 {
		c = 9 // megabyte-sized boundary bodies only now and then (they dominate the run time)
	}
	switch c {
	case 0:
		g.count("size:0")
		return 0, 0
	case 1:
		g.count("size:neg")
		return 0xFFFFFFFF, g.r.Intn(3)
	case 2:
		g.count("size:minint")
		return 0x80000000, 0
	case 3:
		g.count("size:maxint")
		return 0x7FFFFFFF, g.r.Intn(5)
	case 4:
		g.count("size:limit")
		return uint32(l), l
	case 5:
		g.count("size:limit+1")
		return uint32(l + 1), l + 1
	case 6:
		g.count("size:limit-1")
		return uint32(l - 1), l - 1
	case 7:
		g.count("size:truncated")
		n := 2 + g.r.Intn(6)
		return uint32(n), n - 1 - g.r.Intn(n-1)
	case 8:
		g.count("size:1")
		return 1, 1
	default:
		n := 1 + g.r.Intn(12)
		if int64(n) > limit {
			n = int(limit)
		}
		g.count("size:small")
		return uint32(n), n
	}
}

func (g *vfE3Gen) body(n int) []byte {
	if n < 0 {
		n = 0
	}
	if n > 4096 {
		// large bodies: cheap repeating content
		b := make([]byte, n)
		for i := range b {
			b[i] = byte('a' + i%7)
		}
		return b
	}
	b := g.r.Bytes(n)
	return b
}

func (g *vfE3Gen) number(boundary int64) string {
	switch g.r.Intn(18) {
	case 0:
		return ""
	case 1:
		return "0"
	case 2:
		return fmt.Sprint(boundary)
	case 3:
		return fmt.Sprint(boundary + 1)
	case 4:
		return fmt.Sprint(boundary - 1)
	case 5:
		return "007"
	case 6:
		return "18446744073709551615"
	case 7:
		return "18446744073709551616"
	case 8:
		return "18446744073709551621" // = 5 mod 2^64 (fixed finding F1)
	case 9:
		return "9223372036854775807"
	case 10:
		return "9223372036854775808"
	case 11:
		return "9223372036854"
	case 12:
		return "9223372036855"
	case 13:
		return g.pick("-1", "+1", "1a", "0x10", "1.5", "١", "1_0", "18446744073710") // 18446744073710 ms * 1e6 wraps (F1)
	case 14:
		return "99999999999999999999999999999999"
	case 15:
		return "0000000000000000000000000000000000000001"
	default:
		return fmt.Sprint(g.r.Intn(20))
	}
}

func (g *vfE3Gen) msgID() string {
	switch g.r.Intn(6) {
	case 0:
		return "short"
	case 1:
		return "0123456789abcdefX"
	case 2:
		return ""
	default:
		return "0123456789abcdef"
	}
}

func (g *vfE3Gen) eol() string {
	if g.r.Intn(6) == 0 {
		return "\r\n"
	}
	return "\n"
}

func (g *vfE3Gen) identifyBody() []byte {
	o := g.v.n.getOpts()
	iv := func(lo, hi int64) string {
		switch g.r.Intn(10) {
		case 0:
			return "-1"
		case 1, 2, 3:
			return "0"
		case 4:
			return fmt.Sprint(lo)
		case 5:
			return fmt.Sprint(hi)
		case 6:
			return fmt.Sprint(lo - 1)
		case 7:
			return fmt.Sprint(hi + 1)
		case 8:
			if g.r.Intn(2) == 0 {
				return vfE3WrapMs(g.r, lo, hi)
			}
			return g.pick("-2", "1", "9223372036854775807", "-9223372036854775808", "1.5", "\"5\"", "null", "1e3", "9223372036854775808")
		default:
			return fmt.Sprint(lo + int64(g.r.Intn(int(hi-lo+1))))
		}
	}
	var fields []string
	if g.r.Intn(3) > 0 {
		fields = append(fields, `"heartbeat_interval":`+iv(1000, int64(o.MaxHeartbeatInterval/1e6)))
	}
	if g.r.Intn(3) == 0 {
		fields = append(fields, `"output_buffer_size":`+iv(64, o.MaxOutputBufferSize))
	}
	if g.r.Intn(3) == 0 {
		fields = append(fields, `"output_buffer_timeout":`+iv(int64(o.MinOutputBufferTimeout/1e6), int64(o.MaxOutputBufferTimeout/1e6)))
	}
	if g.r.Intn(3) == 0 {
		fields = append(fields, `"msg_timeout":`+iv(1000, int64(o.MaxMsgTimeout/1e6)))
	}
	if g.r.Intn(3) == 0 {
		fields = append(fields, `"sample_rate":`+g.pick("0", "1", "99", "100", "-1", "50", "2147483648"))
	}
	if g.r.Intn(3) == 0 {
		fields = append(fields, `"feature_negotiation":`+g.pick("true", "false", "1"))
	}
	if g.r.Intn(8) == 0 {
		fields = append(fields, `"snappy":`+g.pick("true", "false"))
	}
	if g.r.Intn(8) == 0 {
		fields = append(fields, `"deflate":`+g.pick("true", "false"))
	}
	if g.r.Intn(10) == 0 {
		fields = append(fields, `"tls_v1":true`)
	}
	if g.r.Intn(6) == 0 {
		fields = append(fields, `"client_id":"x","hostname":"h","user_agent":"ua","extra":[1,{"a":null}]`)
	}
	s := "{" + strings.Join(fields, ",") + "}"
	switch g.r.Intn(14) {
	case 0:
		s = g.pick("", "{", "[]", "null", "nope", `{"heartbeat_interval":}`, `{"HEARTBEAT_INTERVAL":1000}`, "{} x", " {} ")
	}
	return []byte(s)
}

// vfE3WrapMs returns a millisecond count far outside [lo, hi] ms whose product with 10^6 ns, computed in
// 64-bit arithmetic, lands inside [lo, hi] ms: v = (t + k*2^64) / 10^6 for a t in the window that makes
// the division exact. A range check done after the conversion to time.Duration accepts it.
func vfE3WrapMs(r *vfRand, lo, hi int64) string {
	two64 := new(big.Int).Lsh(big.NewInt(1), 64)
	mil := big.NewInt(1000000)
	for try := 0; try < 8; try++ {
		k := big.NewInt(int64(1 + r.Intn(400000)))
		if r.Intn(2) == 0 {
			k.Neg(k)
		}
		off := new(big.Int).Mul(k, two64)
		loNs := new(big.Int).Mul(big.NewInt(lo), mil)
		hiNs := new(big.Int).Mul(big.NewInt(hi), mil)
		// t = loNs + ((-off - loNs) mod 10^6)
		m := new(big.Int).Neg(off)
		m.Sub(m, loNs).Mod(m, mil)
		t := new(big.Int).Add(loNs, m)
		span := new(big.Int).Sub(hiNs, t)
		if span.Sign() < 0 {
			continue
		}
		// any t + j*10^6 <= hiNs works too
		if steps := new(big.Int).Div(span, mil); steps.Sign() > 0 && steps.IsInt64() {
			t.Add(t, new(big.Int).Mul(mil, big.NewInt(int64(r.Intn(int(steps.Int64()%1000000+1))))))
		}
		v := new(big.Int).Add(t, off)
		v.Div(v, mil)
		if v.IsInt64() {
			return v.String()
		}
	}
	return "18446744075710"
}

// one command (line + optional body bytes); `k` = messages it publishes if accepted (-1: not a publish)
func (g *vfE3Gen) command() (b []byte, kind string, k int) {
	o := g.v.n.getOpts()
	k = -1
	switch g.r.Intn(24) {
	case 0, 1, 2, 3:
		kind = "PUB"
		decl, act := g.sizes(o.MaxMsgSize)
		line := "PUB " + g.topic()
		if g.r.Intn(12) == 0 {
			line = g.pick("PUB", "PUB ", "PUB  t0", "PUB t0 extra", "pub t0")
		}
		b = append([]byte(line+g.eol()), vfE3BE32(decl)...)
		b = append(b, g.body(act)...)
		k = 1
	case 4, 5, 6:
		kind = "MPUB"
		b, k = g.mpub()
	case 7, 8, 9:
		kind = "DPUB"
		decl, act := g.sizes(o.MaxMsgSize)
		line := "DPUB " + g.topic() + " " + g.number(int64(o.MaxReqTimeout/1e6))
		if g.r.Intn(12) == 0 {
			line = g.pick("DPUB", "DPUB t0", "DPUB t0 5 extra", "DPUB  5")
		}
		b = append([]byte(line+g.eol()), vfE3BE32(decl)...)
		b = append(b, g.body(act)...)
		k = 1
	case 10, 11:
		kind = "IDENTIFY"
		body := g.identifyBody()
		decl := uint32(len(body))
		switch g.r.Intn(12) {
		case 0:
			decl = 0
		case 1:
			decl = 0xFFFFFFFF
		case 2:
			decl = uint32(o.MaxBodySize + 1)
		case 3:
			decl++
		}
		if decl == uint32(len(body)) {
			g.json[string(body)] = true
		}
		b = append([]byte("IDENTIFY"+g.pick("", "", " x")+g.eol()), vfE3BE32(decl)...)
		b = append(b, body...)
	case 12, 13:
		kind = "SUB"
		line := "SUB " + g.topic() + " " + g.channel()
		if g.r.Intn(10) == 0 {
			line = g.pick("SUB", "SUB t0", "SUB t0 c extra")
		}
		b = []byte(line + g.eol())
	case 14, 15:
		kind = "RDY"
		line := "RDY " + g.number(o.MaxRdyCount)
		if g.r.Intn(6) == 0 {
			line = "RDY"
		}
		b = []byte(line + g.eol())
	case 16:
		kind = "FIN"
		b = []byte("FIN " + g.msgID() + g.eol())
		if g.r.Intn(6) == 0 {
			b = []byte("FIN" + g.eol())
		}
	case 17:
		kind = "REQ"
		b = []byte("REQ " + g.msgID() + " " + g.number(int64(o.MaxReqTimeout/1e6)) + g.eol())
		if g.r.Intn(6) == 0 {
			b = []byte(g.pick("REQ", "REQ 0123456789abcdef") + g.eol())
		}
	case 18:
		kind = "TOUCH"
		b = []byte("TOUCH " + g.msgID() + g.eol())
		if g.r.Intn(6) == 0 {
			b = []byte("TOUCH" + g.eol())
		}
	case 19:
		kind = "CLS"
		b = []byte("CLS" + g.pick("", " x") + g.eol())
	case 20:
		kind = "NOP"
		b = []byte("NOP" + g.eol())
	case 21:
		kind = "AUTH"
		decl, act := g.sizes(o.MaxBodySize)
		b = append([]byte("AUTH"+g.pick("", "", " x")+g.eol()), vfE3BE32(decl)...)
		b = append(b, g.body(act)...)
	case 22:
		kind = "unknown"
		b = []byte(g.pick("", " ", "FOO", "PUBX t", "nop", "\r", "IDENTIFYX", "\x00", "P UB t0", "  ") + g.eol())
	default:
		kind = "garbage"
		b = g.r.Bytes(1 + g.r.Intn(24))
	}
	g.count("cmd:" + kind)
	return
}

func (g *vfE3Gen) mpub() ([]byte, int) {
	o := g.v.n.getOpts()
	maxCount := (o.MaxBodySize - 4) / 5
	var count int64
	switch g.r.Intn(10) {
	case 0:
		count = 0
	case 1:
		count = -1
	case 2:
		count = maxCount
		if count > 5000 {
			count = 1 + int64(g.r.Intn(4))
		}
	case 3:
		count = maxCount + 1
	default:
		count = 1 + int64(g.r.Intn(4))
	}
	var batch []byte
	real := 0
	ok := count >= 1 && count <= maxCount
	n := int(count)
	if n > 60 || n < 0 {
		n = 2
	}
	if count == maxCount+1 && count < 60 {
		n = int(count)
	}
	for i := 0; i < n; i++ {
		decl, act := g.sizes(o.MaxMsgSize)
		if g.r.Intn(4) > 0 {
			sz := 1 + g.r.Intn(5)
			if int64(sz) > o.MaxMsgSize {
				sz = int(o.MaxMsgSize)
			}
			decl, act = uint32(sz), sz
		}
		batch = append(batch, vfE3BE32(decl)...)
		batch = append(batch, g.body(act)...)
		real++
	}
	if g.r.Intn(12) == 0 && len(batch) > 0 {
		batch = batch[:g.r.Intn(len(batch))] // truncated batch
	}
	full := append(vfE3BE32(uint32(count)), batch...)
	bodyLen := uint32(len(full))
	switch g.r.Intn(14) {
	case 0:
		bodyLen = 0
	case 1:
		bodyLen = 0xFFFFFFFF
	case 2:
		bodyLen = uint32(o.MaxBodySize + 1)
	case 3:
		bodyLen = uint32(o.MaxBodySize)
	case 4:
		bodyLen = 1 // far below the content
	case 5:
		bodyLen = uint32(4 + 5*count) // the smallest size consistent with the count; the content is larger
	case 6:
		bodyLen = uint32(len(full) - 1 - g.r.Intn(3)) // slightly under-declared
	case 7:
		bodyLen = uint32(len(full) + 1 + g.r.Intn(3)) // slightly over-declared
	case 8:
		if len(full) > 9 {
			bodyLen = uint32(9 + g.r.Intn(len(full)-9)) // anywhere between the minimum and the content
		}
	}
	line := "MPUB " + g.topic()
	if g.r.Intn(14) == 0 {
		line = g.pick("MPUB", "MPUB ")
	}
	b := append([]byte(line+g.eol()), vfE3BE32(bodyLen)...)
	b = append(b, full...)
	_ = ok
	return b, real
}

func (g *vfE3Gen) mutate(s []byte) []byte {
	if len(s) == 0 {
		return s
	}
	s = append([]byte(nil), s...)
	switch g.r.Intn(6) {
	case 0: // bit flip
		i := g.r.Intn(len(s))
		s[i] ^= 1 << uint(g.r.Intn(8))
		g.count("mut:bitflip")
	case 1: // delete a byte
		i := g.r.Intn(len(s))
		s = append(s[:i], s[i+1:]...)
		g.count("mut:delete")
	case 2: // insert a byte
		i := g.r.Intn(len(s) + 1)
		s = append(s[:i], append([]byte{byte(g.r.Next())}, s[i:]...)...)
		g.count("mut:insert")
	case 3: // splice: move a chunk
		i, j := g.r.Intn(len(s)), g.r.Intn(len(s))
		if i > j {
			i, j = j, i
		}
		chunk := append([]byte(nil), s[i:j]...)
		rest := append(append([]byte(nil), s[:i]...), s[j:]...)
		k := g.r.Intn(len(rest) + 1)
		s = append(rest[:k:k], append(chunk, rest[k:]...)...)
		g.count("mut:splice")
	case 4: // off-by-one in a byte that follows a newline + 3 (typically the low length byte)
		for tries := 0; tries < 8; tries++ {
			i := g.r.Intn(len(s))
			if s[i] == '\n' && i+4 < len(s) {
				if g.r.Intn(2) == 0 {
					s[i+4]++
				} else {
					s[i+4]--
				}
				break
			}
		}
		g.count("mut:len-off-by-one")
	default: // truncate
		s = s[:g.r.Intn(len(s))]
		g.count("mut:truncate")
	}
	return s
}

// stream builds one connection's bytes. `oracle` != "" describes a probe for the direct oracle:
// "<prefixMsgs> <k>" — the stream is <prefix of valid single PUBs> + one probe publish command.
func (g *vfE3Gen) stream() (s []byte, class string) {
	magic := []byte("  V2")
	switch g.r.Intn(40) {
	case 0:
		g.count("stream:bad-magic")
		return append([]byte(g.pick("  V1", "  v2", "V2  ", "GET ", "\x00\x00\x00\x00", "  V3")), []byte("NOP\n")...), "bad-magic"
	case 1:
		g.count("stream:short-magic")
		return []byte("  V2")[:g.r.Intn(4)], "short-magic"
	case 2:
		g.count("stream:long-line")
		n := []int{16382, 16383, 16384, 16385, 16386, 20000, 40000}[g.r.Intn(7)]
		line := []byte(strings.Repeat("A", n))
		if g.r.Intn(4) == 0 {
			line = append([]byte("PUB "), line...)[:n]
		}
		if g.r.Intn(4) > 0 {
			line = append(line, '\n')
		}
		pre := []byte{}
		if g.r.Intn(2) == 0 {
			pre = []byte("NOP\n")
		}
		return append(append(append(magic, pre...), line...), []byte("NOP\nFOO\n")...), "long-line"
	case 3:
		g.count("stream:garbage")
		return append(magic, g.r.Bytes(g.r.Intn(200))...), "garbage"
	case 4:
		g.count("stream:garbage-nomagic")
		return g.r.Bytes(g.r.Intn(64)), "garbage"
	}
	if c := g.r.Intn(6); c == 0 {
		// consumer scenario: (IDENTIFY) SUB <valid> <valid>, then the commands of a subscribed connection
		g.count("stream:consumer")
		s = append(s, magic...)
		if g.r.Intn(3) == 0 {
			body := []byte(`{"heartbeat_interval":` + g.pick("1000", "0", "-1", "5000") + `}`)
			g.json[string(body)] = true
			s = append(append(append(s, []byte("IDENTIFY\n")...), vfE3BE32(uint32(len(body)))...), body...)
		}
		s = append(s, []byte("SUB "+vfE3ValidNames[g.r.Intn(len(vfE3ValidNames))]+" "+vfE3ValidNames[g.r.Intn(len(vfE3ValidNames))]+"\n")...)
		o := g.v.n.getOpts()
		for k := 1 + g.r.Intn(5); k > 0; k-- {
			switch g.r.Intn(8) {
			case 0, 1, 2:
				s = append(s, []byte("RDY "+g.number(o.MaxRdyCount)+g.eol())...)
			case 3:
				s = append(s, []byte("FIN "+g.msgID()+g.eol())...)
			case 4:
				s = append(s, []byte("REQ "+g.msgID()+" "+g.number(int64(o.MaxReqTimeout/1e6))+g.eol())...)
			case 5:
				s = append(s, []byte("TOUCH "+g.msgID()+g.eol())...)
			case 6:
				s = append(s, []byte("CLS"+g.eol())...)
			default:
				b, _, _ := g.command()
				s = append(s, b...)
			}
		}
		return s, "consumer"
	}
	s = append(s, magic...)
	n := 1 + g.r.Intn(7)
	for i := 0; i < n; i++ {
		b, _, _ := g.command()
		s = append(s, b...)
	}
	class = "grammar"
	if g.r.Intn(4) == 0 {
		for k := 1 + g.r.Intn(2); k > 0; k-- {
			s = g.mutate(s)
		}
		class = "mutated"
	}
	g.count("stream:" + class)
	return
}

// inflightScenario exercises the success paths of FIN / REQ / TOUCH: messages are put in flight for
// the client id the next connection will get (white-box), the connection SUBscribes to that channel
// and finishes / requeues / touches them. Afterwards the real channel is inspected: a finished message
// is gone, a requeued one sits in the deferred queue with a due time inside
// [t0 + d, t1 + d] where d = min(number x 1 ms, max-req-timeout) is computed here with big integers
// (no Lean, no model), or in the memory queue when d = 0.
func (g *vfE3Gen) inflightScenario(v *vfE3Node) (op string, impl string, fails []string) {
	o := v.n.getOpts()
	topic := v.n.GetTopic("inf")
	ch := topic.GetChannel("ch")
	nextID := atomic.LoadInt64(&v.n.clientIDSequence) + 1
	n := 1 + g.r.Intn(3)
	ids := make([]MessageID, n)
	var idHex []string
	for i := range ids {
		copy(ids[i][:], fmt.Sprintf("m%02d-%012d", i, g.r.Intn(1000000)))
		msg := NewMessage(ids[i], []byte(fmt.Sprintf("body%d", i)))
		ch.StartInFlightTimeout(msg, nextID, time.Hour)
		idHex = append(idHex, vfHex(ids[i][:]))
	}
	stream := []byte("  V2SUB inf ch\n")
	type want struct {
		kind string
		dur  *big.Int
	}
	wants := map[int]want{}
	for k := 1 + g.r.Intn(4); k > 0; k-- {
		i := g.r.Intn(n)
		switch g.r.Intn(5) {
		case 0:
			stream = append(stream, []byte("FIN "+string(ids[i][:])+"\n")...)
			if _, done := wants[i]; !done {
				wants[i] = want{kind: "gone"}
			}
		case 1, 2, 3:
			num := g.number(int64(o.MaxReqTimeout / 1e6))
			stream = append(stream, []byte("REQ "+string(ids[i][:])+" "+num+"\n")...)
			if _, done := wants[i]; !done {
				if v, ok := new(big.Int).SetString(num, 10); ok && num != "" && strings.Trim(num, "0123456789") == "" && v.BitLen() <= 64 {
					d := new(big.Int).Mul(v, big.NewInt(1000000))
					if max := big.NewInt(int64(o.MaxReqTimeout)); d.Cmp(max) > 0 {
						d = max
					}
					wants[i] = want{kind: "req", dur: d}
				} else if num == "" {
					wants[i] = want{kind: "req", dur: big.NewInt(0)}
				} else {
					// unparsable: fatal E_INVALID, the connection ends here
					k = 1
				}
			}
		default:
			stream = append(stream, []byte("TOUCH "+string(ids[i][:])+"\n")...)
		}
	}
	t0 := time.Now().UnixNano()
	res := v.RunConn(stream, g.r)
	t1 := time.Now().UnixNano()
	var states []string
	for i, id := range ids {
		st := "inflight"
		ch.inFlightMutex.Lock()
		_, inF := ch.inFlightMessages[id]
		ch.inFlightMutex.Unlock()
		ch.deferredMutex.Lock()
		item, inD := ch.deferredMessages[id]
		ch.deferredMutex.Unlock()
		inM := false
		for _, m := range vfE3DrainChan(ch.memoryMsgChan) {
			if m.ID == id {
				inM = true
			}
		}
		switch {
		case inF:
			st = "inflight"
		case inD:
			st = fmt.Sprintf("deferred:?%d", item.Priority-t0)
			if w, ok := wants[i]; ok && w.kind == "req" && w.dur.IsInt64() {
				d := w.dur.Int64()
				if item.Priority >= t0+d && item.Priority <= t1+d {
					st = fmt.Sprintf("deferred:%d", d)
				} else {
					fails = append(fails, fmt.Sprintf("ORACLE-FAIL key=req-clamp stream=%s conf=%s what=REQ of %s was deferred by about %d ns; min(number x 1ms, max-req-timeout) = %d ns",
						vfHex(stream), v.id, string(id[:]), item.Priority-t0, d))
				}
			}
		case inM:
			st = "requeued"
		default:
			st = "gone"
		}
		states = append(states, vfHex(id[:])+"="+st)
	}
	op = fmt.Sprintf("iof %s %s %s", v.id, vfHex(stream), strings.Join(idHex, ","))
	impl = fmt.Sprintf("R=%s E=%s S=%s F=%s", vfE3JoinOr(",", res.replies), res.end, res.conn, strings.Join(states, ","))
	return
}

// ---------------------------------------------------------------- the tests

func vfE3Nodes(t *testing.T) map[string]*vfE3Node {
	ids := strings.Split(os.Getenv("VERIF_CONFS"), ",")
	if os.Getenv("VERIF_CONFS") == "" {
		ids = []string{"S", "D", "T", "Z"}
	}
	if repo := os.Getenv("VERIF_REPO"); repo != "" {
		os.Chdir(filepath.Join(repo, "nsqd")) // the T configuration names ./test/certs
	}
	nodes := map[string]*vfE3Node{}
	for _, id := range ids {
		nodes[id] = vfE3Start(id)
	}
	return nodes
}

func vfE3ImplLine(res vfE3Result, snap string) string {
	return fmt.Sprintf("R=%s E=%s S=%s B=%s", vfE3JoinOr(",", res.replies), res.end, res.conn, snap)
}

// TestVerifE3Proto — correspondence stream for C09 plus the direct oracles:
//   - no panic / no hang for any stream;
//   - probe streams: a rejected PUB/MPUB/DPUB leaves message_count and depth unchanged, an
//     accepted one adds exactly its messages (MPUB: all or nothing);
//   - the concurrent well-behaved producer/consumer pair stays connected and served.
func TestVerifE3Proto(t *testing.T) {
	N := vfEnvInt("VERIF_N", 2000)
	nodes := vfE3Nodes(t)
	out := vfOpen("proto")
	defer out.Close()
	var fails []string
	fail := func(f string, a ...interface{}) {
		if len(fails) < 20 {
			fails = append(fails, fmt.Sprintf(f, a...))
		}
	}
	ids := make([]string, 0, len(nodes))
	for id := range nodes {
		ids = append(ids, id)
	}
	sortStrings(ids)
	hist := map[string]int{}
	jsonSeen := map[string]bool{}
	good := map[string]*vfE3Good{}
	for _, id := range ids {
		out.Case(nodes[id].ConfLine(), "ok")
		if id != "T" {
			gd, err := vfE3NewGood(nodes[id])
			if err != nil {
				fail("well-behaved client on %s: %v", id, err)
			} else {
				good[id] = gd
			}
		}
	}
	emitJSON := func(g *vfE3Gen) {
		for body := range g.json {
			if !jsonSeen[body] {
				jsonSeen[body] = true
				out.Case(vfE3JsonLine([]byte(body)), "ok")
			}
		}
		g.json = map[string]bool{}
	}
	// corpus first
	if cp := os.Getenv("VERIF_CORPUS"); cp != "" {
		files, _ := filepath.Glob(filepath.Join(cp, "*.ops"))
		sortStrings(files)
		for _, f := range files {
			vfE3Replay(f, nodes, out, jsonSeen, hist, fail)
		}
	}
	for i := 0; i < N; i++ {
		id := ids[i%len(ids)]
		if _, ok := nodes["S"]; ok && i%10 < 7 { // most of the budget on the small-limits node
			id = "S"
		}
		v := nodes[id]
		g := &vfE3Gen{r: vfNewRand(uint64(1000 + i)), v: v, hist: hist, json: map[string]bool{}}
		out.Case("reset", "ok")
		v.Reset()
		if id != "T" && g.r.Intn(12) == 0 {
			op, impl, fl := g.inflightScenario(v)
			out.Case(op, impl)
			hist["stream:inflight-scenario"]++
			for _, f := range fl {
				fail("%s", f)
			}
			continue
		}
		nconn := 1
		if g.r.Intn(5) == 0 {
			nconn = 2 + g.r.Intn(2)
		}
		for c := 0; c < nconn; c++ {
			var stream []byte
			probe := g.r.Intn(4) == 0
			prefixMsgs, probeK := 0, -1
			if probe {
				stream = []byte("  V2")
				for j := g.r.Intn(3); j > 0; j-- {
					stream = append(stream, []byte("PUB t0\n\x00\x00\x00\x02hi")...)
					prefixMsgs++
				}
				for probeK < 0 {
					var b []byte
					b, _, probeK = g.command()
					if probeK >= 0 {
						stream = append(stream, b...)
					}
				}
				hist["stream:probe"]++
			} else {
				stream, _ = g.stream()
			}
			emitJSON(g)
			c0, d0 := v.Counts()
			vfE3NoteLast(id, stream)
			res := v.RunConn(stream, g.r)
			snap := v.Snapshot()
			c1, d1 := v.Counts()
			out.Case(fmt.Sprintf("io %s %s", id, vfHex(stream)), vfE3ImplLine(res, snap))
			hist["end:"+res.end]++
			for _, r := range res.replies {
				hist["reply:"+r]++
			}
			if res.end == "panic" || res.end == "hang" {
				fail("ORACLE-FAIL key=%s stream=%s conf=%s what=the connection handler ended in a %s: %v (nothing recovers it in nsqd: the daemon dies, every other client is dropped)", res.end, vfHex(stream), id, res.end, res.replies)
			}
			if probe && res.end != "upgraded" {
				// direct oracle on the implementation's own observables
				nOK := 0
				for _, r := range res.replies {
					if r == "OK" {
						nOK++
					}
				}
				want := uint64(prefixMsgs)
				last := ""
				if len(res.replies) > 0 {
					last = res.replies[len(res.replies)-1]
				}
				accepted := nOK == prefixMsgs+1 && last == "OK"
				if len(res.replies) == prefixMsgs+1 && last != "OK" {
					hist["probe:rejected"]++
				} else if accepted {
					want += uint64(probeK)
					hist["probe:accepted"]++
				} else if id == "T" {
					want = 0
				} else {
					hist["probe:other"]++
					want = c1 - c0 // trailing bytes were read as further commands; not judged
				}
				if c1-c0 != want || uint64(d1-d0) != want {
					fail("ORACLE-FAIL key=rejected-publish stream=%s conf=%s what=publish probe answered %v but message_count moved by %d and depth by %d (expected %d: a rejected PUB/MPUB/DPUB must enqueue nothing, an accepted one exactly its messages)",
						vfHex(stream), id, res.replies, c1-c0, d1-d0, want)
				}
			}
		}
		if i%25 == 0 {
			// every bystander pair publishes / consumes regularly (whatever node the cases run on): a
			// well-behaved client also answers the server's heartbeats, which needs traffic within 2 x 30 s
			for gid, gd := range good {
				if err := gd.Tick(); err != nil {
					fail("ORACLE-FAIL key=bystander stream=- what=%v (after case %d on %s)", err, i, gid)
					delete(good, gid)
				}
			}
		}
	}
	for id, gd := range good {
		if err := gd.Tick(); err != nil {
			fail("ORACLE-FAIL key=bystander stream=- what=%v (final, %s)", err, id)
		}
		gd.Close()
	}
	keys := make([]string, 0, len(hist))
	for k := range hist {
		keys = append(keys, k)
	}
	sortStrings(keys)
	for _, k := range keys {
		fmt.Printf("HIST %s %d\n", k, hist[k])
	}
	for _, f := range fails {
		fmt.Println(f)
	}
	if len(fails) == 0 {
		fmt.Printf("ORACLE-OK cases=%d lines=%d\n", N, out.N)
	}
	for _, v := range nodes {
		v.Stop()
	}
}

func sortStrings(xs []string) {
	for i := 1; i < len(xs); i++ {
		for j := i; j > 0 && xs[j] < xs[j-1]; j-- {
			xs[j], xs[j-1] = xs[j-1], xs[j]
		}
	}
}

// vfE3Replay re-executes a committed .ops file (reset / io / http lines; conf and json lines are
// regenerated from the live node / decoder).
func vfE3Replay(path string, nodes map[string]*vfE3Node, out *vfOut, jsonSeen map[string]bool,
	hist map[string]int, fail func(string, ...interface{})) {
	f, err := os.Open(path)
	if err != nil {
		return
	}
	defer f.Close()
	sc := bufio.NewScanner(f)
	sc.Buffer(make([]byte, 1<<20), 64<<20)
	rnd := vfNewRand(77)
	for sc.Scan() {
		line := strings.TrimSpace(sc.Text())
		w := strings.Fields(line)
		if len(w) == 0 || strings.HasPrefix(line, "#") {
			continue
		}
		switch w[0] {
		case "reset":
			for _, v := range nodes {
				v.Reset()
			}
			out.Case("reset", "ok")
		case "json":
			if len(w) >= 2 && !jsonSeen[string(vfE3Unhex(w[1]))] {
				jsonSeen[string(vfE3Unhex(w[1]))] = true
				out.Case(vfE3JsonLine(vfE3Unhex(w[1])), "ok")
			}
		case "io":
			v := nodes[w[1]]
			if v == nil || len(w) != 3 {
				continue
			}
			stream := vfE3Unhex(w[2])
			vfE3NoteLast(w[1], stream)
			res := v.RunConn(stream, rnd)
			out.Case(line, vfE3ImplLine(res, v.Snapshot()))
			hist["corpus:io"]++
			if res.end == "panic" || res.end == "hang" {
				fail("ORACLE-FAIL key=%s stream=%s conf=%s what=the connection handler ended in a %s: %v (corpus %s)", res.end, w[2], w[1], res.end, res.replies, filepath.Base(path))
			}
		case "http":
			v := nodes[w[1]]
			if v == nil || len(w) != 8 {
				continue
			}
			out.Case(line, vfE3HTTPOp(v, w))
			hist["corpus:http"]++
		}
	}
}

// TestVerifE3Json — the encoding/json oracle: one hex body per line of $VERIF_JSON_IN, one
// `json` op per line out.
func TestVerifE3Json(t *testing.T) {
	in, err := os.ReadFile(os.Getenv("VERIF_JSON_IN"))
	if err != nil {
		t.Fatal(err)
	}
	var sb strings.Builder
	for _, l := range strings.Fields(string(in)) {
		sb.WriteString(vfE3JsonLine(vfE3Unhex(l)))
		sb.WriteByte('\n')
	}
	if err := os.WriteFile(os.Getenv("VERIF_JSON_OUT"), []byte(sb.String()), 0o644); err != nil {
		t.Fatal(err)
	}
}
