"""C19, line level (audit round 7, items C5 / C4): replays on the real FileLogger with a line-based oracle,
compared with the Lean model under the COMMITTED shapes (Cfg.oneWrite = fix F46 = /repo 85f4c48, Cfg.sealsTail = fix
F47 = /repo efaf20c, Cfg.sealReadWarns = follow-up F47b = /repo 73f7348: all three `true`; the probes on the real
router()/updateFile() must say so too - audit B12).
Round 11 (F47b committed): `sealTornTail` has exactly ONE accepted shape - a failed READ of the last byte is a warning and
the file is appended to unsealed (Cfg.sealReadWarns = true). The regenerated skeleton (`seal_read_warns_from_gen`,
= Nsq.Tie.ToolsToFile.sealReadWarns) and the probe on the real updateFile() (`vfE8ProbeSealReadWarns`) must both say 1;
the model is always replayed with 1, so a tree with F47b reverted (skeleton 0 = F47 alone: that read failure is fatal)
is named: broken tie, probe 0, and the unreadable-file scenarios disagree with the model.
Harness: harness/e8/tofile_lines_test.go. Theorems: Nsq.Props.C19Lines."""
import os
import re
import framework as fw


def _unhex(h):
    return b"" if h == "-" else bytes.fromhex(h)


def shapes_from_gen():
    """what the regenerated skeletons say (Nsq.Tie.ToolsToFile.routerOneWrite / updateFileSeals)"""
    try:
        txt = open(os.path.join(fw.LEAN, "Nsq", "Gen", "ToolsToFile.lean")).read()
    except OSError:
        return None
    return {"one_write": '"..._, err := f.Write(record)"' in txt, "seals_tail": "f.sealTornTail(absFilename)" in txt,
            "seal_read_warns": seal_read_warns_from_gen(txt)}


SEAL_COMMITTED = ['r, err := os.Open(name)', 'if err != nil', '.return err', 'defer r.Close()', 'last := make([]byte, 1)',
                  '_, err = r.ReadAt(last, f.filesize-1)', 'if err != nil', '.return err', "if last[0] == '\\\\n'", '.return nil',
                  'n, err := f.out.Write([]byte(\\"\\\\n\\"))', 'f.filesize += int64(n)', 'return err']


def seal_read_warns_from_gen(txt=None):
    """1 = the regenerated skeleton of sealTornTail is the committed one (F47b = /repo 73f7348: the two READ failures
    `return nil`), 0 = the one of F47 = /repo efaf20c alone (F47b reverted - no longer accepted, kept so that a revert is
    named), None = neither. Tie.ToolsToFile.updateFile_eq / tree_seal_read_warns hold only for 1."""
    if txt is None:
        try:
            txt = open(os.path.join(fw.LEAN, "Nsq", "Gen", "ToolsToFile.lean")).read()
        except OSError:
            return None
    m = re.search(r"def sealTornTail : List String := \[\n(.*?)\]\n", txt, re.S)
    if not m:
        return None
    got = [l.strip().rstrip(",")[1:-1] for l in m.group(1).splitlines() if l.strip()]
    warns = list(SEAL_COMMITTED)
    warns[2] = warns[7] = ".return nil"
    return 0 if got == SEAL_COMMITTED else 1 if got == warns else None


def committed_shape_ops(src, dst, srw_seen=None):
    """`tf conf … <closeClears> <oneWrite> <sealsTail> [<sealReadWarns>]`: the harness writes what it PROBED on the real code;
    the model is run with the committed values oneWrite = sealsTail = 1 (F46, F47), so a tree that reverts one of them
    disagrees with the model line by line, and (round 11, F47b = /repo 73f7348 committed) with sealReadWarns = 1 whatever
    was probed or regenerated. closeClears (fix F44, NOT committed: a proposal) stays as probed.
    Returns the probed (oneWrite, sealsTail) pairs seen; the probed sealReadWarns values go to `srw_seen`."""
    seen = set()
    with open(dst, "w") as fh:
        for o in open(src).read().splitlines():
            w = o.split(" ")
            if len(w) >= 12 and w[0] == "tf" and w[1] == "conf":
                seen.add((w[10], w[11]))
                w[10], w[11] = "1", "1"
                if len(w) >= 13:
                    if srw_seen is not None:
                        srw_seen.add(w[12])
                    w[12] = "1"
                o = " ".join(w)
            fh.write(o + "\n")
    return seen


def lines_leg(ctx, parent, corr_broken):
    out = os.path.join(ctx.work, "tf_lines")
    os.makedirs(out, exist_ok=True)
    rc, log = ctx.run_cmd([parent, "-test.run", "^TestVerifToFileLines$", "-test.count=1", "-test.timeout=0"], timeout=600,
                          env={"VERIF_SEED": ctx.seed, "VERIF_OUT": out, "VERIF_N": ctx.budget(24, 300)})
    if rc != 0 or "ORACLE-DONE lines" not in log:
        ctx.log("lines harness failed:\n" + log[-1500:])
        corr_broken.append("lines harness exit %s" % rc)
        return
    mp = re.search(r"LINESPROBE one_write=(\d) seals_tail=(\d) seal_read_warns=(-?\d) inject=(\S+)", log)
    one_write, seals = (mp.group(1) == "1", mp.group(2) == "1") if mp else (False, False)
    srw_probe, inject = (int(mp.group(3)), mp.group(4)) if mp else (-1, "?")
    gen = shapes_from_gen()
    srw = gen["seal_read_warns"] if gen else None
    shape = {0: "F47 (/repo efaf20c) alone, F47b reverted: a failed read of the last byte is fatal (NOT accepted)",
             1: "F47b (/repo 73f7348, committed): a failed read is a warning, the file is appended to unsealed"}.get(srw, "unknown")
    ctx.corr["lines_probe"] = {"one_write": one_write, "seals_tail": seals, "seal_read_warns": srw_probe, "unreadable_file_injected_by": inject,
                               "regenerated_skeleton": gen, "sealTornTail_shape": shape}
    if srw_probe == -1 and srw == 1:
        ctx.notes.append("sealTornTail probe unavailable in this environment (%s): regenerated skeleton only" % inject)
    if srw != 1 or srw_probe not in (1, -1):
        corr_broken.append("sealTornTail on an unreadable file: probe on the real updateFile() says %s (%s), regenerated skeleton says %s; "
                           "accepted: only F47b = /repo 73f7348 (1) for both (0 = F47 alone: the tool exits on a file it cannot read)"
                           % (srw_probe, inject, srw))
    if gen is None or not (gen["one_write"] and gen["seals_tail"] and one_write and seals):
        corr_broken.append("line-level shapes: probe on the real router()/updateFile() (one_write=%s seals_tail=%s), regenerated "
                           "skeleton (%s); expected one_write = seals_tail = true everywhere (F46 85f4c48, F47 efaf20c)"
                           % (one_write, seals, gen))
    # correspondence: the same scenarios through the model with the COMMITTED shapes
    ops = open(os.path.join(out, "tflines.ops")).read().splitlines()
    impl = open(os.path.join(out, "tflines.impl")).read().splitlines()
    committed_shape_ops(os.path.join(out, "tflines.ops"), os.path.join(out, "tflines.model.ops"))
    rc, mout = ctx.driver("e8", stdin_path=os.path.join(out, "tflines.model.ops"))
    for o, i in zip(ops, impl):
        ctx.count_case(o + "|" + i, nontrivial=not o.startswith("tf conf"))
    for idx, a, b in ctx.diff_lines(impl, mout.splitlines(), "tofile-lines"):
        ctx.log("lines: model/impl disagree on `%s`:\n   impl =%s\n   model=%s" % (ops[idx][:160], a[:300], b[:300]))
        corr_broken.append("correspondence lines op %s" % " ".join(ops[idx].split()[1:2]))
    rows = []
    for l in log.splitlines():
        if not l.startswith("LINES "):
            continue
        r = dict(kv.split("=", 1) for kv in l.split()[1:])
        rows.append(r)
        ctx.evaluations += 1
        ctx.count_case("lines|" + r["case"] + "|" + r["owns"] + "|" + r["tree"], nontrivial=True)
        fins = _unhex(r["fins"]).decode("latin1")
        missing = _unhex(r["missing"]).decode("latin1")
        notes = _unhex(r["notes"]).decode("latin1").split(",")
        if r["complete"] != "true" or "hang" in r["exits"] or "start-error" in r["exits"]:
            corr_broken.append("lines scenario %s did not complete (exits %s)" % (r["case"], r["exits"]))
            continue
        # ---- round 11 (F47b): the existing file is write-only for the tool ----
        unreadable = "unreadable=true" in notes
        if r["case"].startswith("unreadable-") and not unreadable and srw_probe != -1:
            corr_broken.append("lines scenario %s: the file could not be made unreadable for the tool (%s)" % (r["case"], inject))
            continue
        if "unreadable-not-injected" in notes and srw_probe != -1:
            corr_broken.append("lines scenario %s: the file could not be made unreadable for the tool (%s)" % (r["case"], inject))
        if unreadable:
            nonempty = r["case"] != "unreadable-empty" and "prelen=0" not in notes
            torn = r["case"] == "unreadable-torn" or "torn=true" in notes
            row = {"case": r["case"], "shape": srw, "exits": r["exits"], "fins": fins, "without_own_line": missing, "tree": r["tree"],
                   "warned": "log-WARNING" in notes, "fatal_logged": "log-FATAL" in notes}
            ctx.corr.setdefault("unreadable_file", []).append(row)
            died = r["exits"] == "1" and any(n.startswith("fatal-in=") for n in notes)
            if srw != 1:
                # F47b reverted (or neither shape): no verdict of its own - the tie and the probe are already reported broken,
                # the model (always the F47b shape) disagrees line by line, and a FIN without an own line falls through to
                # the VIOLATION below (no readability hypothesis is in force for a tree that is not the accepted one)
                row["verdict"] = "not the accepted shape of sealTornTail (%s)" % ("fatal exit" if died else "no fatal exit")
                if died:
                    corr_broken.append("lines scenario %s: nsq_to_file exited (os.Exit(1) in updateFile) on an existing file it may write "
                                       "but not read (mode 0222) - the behaviour F47b = /repo 73f7348 repaired; fins=%r tree=%s"
                                       % (r["case"], fins, r["tree"]))
            else:
                if r["exits"] != "0" or (nonempty and "log-WARNING" not in notes and not r["case"].startswith("gen-")):
                    corr_broken.append("lines scenario %s on the F47b shape of sealTornTail: expected a WARN and a normal run, got exits=%s notes=%s"
                                       % (r["case"], r["exits"], notes))
                if torn and r["owns"] != "true":
                    # NOT a violation of what is claimed for this tree: fin_owns_line_this_tree_partial carries ReadsOk
                    row["verdict"] = ("witnessed hypothesis boundary: the torn tail of a file the tool cannot read is appended to "
                                      "(Lean: Props.C19Lines.unreadable_torn_file_witness, fin_owns_line_F47b_full_false); the claim for "
                                      "this tree carries `every existing file the tool appends to is readable by it`")
                    ctx.corr["hypothesis_boundary_ReadsOk_witnessed"] = ctx.corr.get("hypothesis_boundary_ReadsOk_witnessed", 0) + 1
                    continue
                row["verdict"] = "appended unsealed behind an empty / newline-terminated file: every FINished message owns its line (fin_owns_line_unreadable_partial)"
        if r["owns"] == "true":
            continue
        replay = "scenario=%s (harness/e8/tofile_lines_test.go, TestVerifToFileLines)\nfinished=%s\nwithout an own line=%s\ntree=%s\n" % (
            r["case"], fins, missing, r["tree"])
        if r["case"] == "two-routers":
            key = "two-routers-one-file"   # listed fixed (F46): a reproduction is a VIOLATION
            what = ("nsq_to_file: two topics with a --filename-format without <TOPIC> append to one plain file (O_APPEND); router 1 was "
                    "between Write(body) and Write(\"\\n\") when router 2 appended its record: FINished message(s) %s are not a line of "
                    "the file (Lean: Props.C19Lines.shared_file_unfixed_witness; with fix F46 shared_file_lines_fixed)" % missing)
        elif r["case"] == "unreadable-clean" or r["case"] == "unreadable-empty":
            key = "lines-append-to-unreadable-terminated-file"
            what = "nsq_to_file: message(s) %s FINished but not a line of any file after appending to a write-only file that is empty / newline-terminated" % missing
        elif r["case"].startswith("gen-") and "torn=true" not in _unhex(r["notes"]).decode("latin1"):
            key = "lines-generated-append"
            what = ("nsq_to_file: generated plain-append script (initial file absent / empty / newline-terminated): FINished message(s) %r "
                    "have no record of their own at a line start" % missing)
        elif r["case"] == "clean-pre":
            key = "lines-append-to-terminated-file"
            what = "nsq_to_file: message(s) %s FINished but not a line of any file after appending to a newline-terminated file" % missing
        else:
            key = "torn-tail-append"   # listed fixed (F47): a reproduction is a VIOLATION
            what = ("nsq_to_file: an existing plain file that ends inside a record (writer killed between Write(body) and Write(\"\\n\"), "
                    "or a short write) is re-opened with O_APPEND and the next record is appended to the torn tail: FINished message(s) %s "
                    "are not a line of any file (Lean: Props.C19Lines.fin_owns_line_full_false; with fix F47 fin_owns_line_fixed)" % missing)
            if unreadable:
                what += (" [the file is write-only for the tool and the regenerated sealTornTail has %s: no readability hypothesis excuses this]"
                         % ("the shape of F47 alone (F47b reverted)" if srw == 0 else "not the accepted shape"))
        ctx.violation(key, what, replay)
    ctx.corr["lines"] = rows
    nfixed = 7 if srw_probe == -1 else 10   # the three unreadable-file scenarios are left out where the fault cannot be injected
    if len([r for r in rows if not r["case"].startswith("gen-")]) < nfixed:
        corr_broken.append("lines leg: only %d of %d fixed scenarios reported"
                           % (len([r for r in rows if not r["case"].startswith("gen-")]), nfixed))
    gen = [r for r in rows if r["case"].startswith("gen-")]
    ctx.corr["lines_generated"] = {"scripts": len(gen), "torn_initial_file": sum(1 for r in gen if "torn=true" in _unhex(r["notes"]).decode("latin1")),
                                   "without_own_record": sum(1 for r in gen if r["owns"] != "true"),
                                   "unreadable_initial_file": sum(1 for r in gen if "unreadable=true" in _unhex(r["notes"]).decode("latin1"))}
