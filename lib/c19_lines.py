"""C19, line level (audit round 7, items C5 / C4): replays on the real FileLogger with a line-based oracle,
compared with the Lean model under the COMMITTED shapes (Cfg.oneWrite = fix F46 = /repo 85f4c48, Cfg.sealsTail = fix
F47 = /repo efaf20c: both `true`; the probes on the real router()/updateFile() must say so too - audit B12).
Harness: harness/e8/tofile_lines_test.go. Theorems: Nsq.Props.C19Lines."""
import os
import re
import framework as fw


def _unhex(h):
    return b"" if h == "-" else bytes.fromhex(h)


def shapes_from_gen():
    """what the regenerated skeletons say (Nsq.Tie.ToolsToFile.routerOneWrite / updateFileSeals)"""
    try:
        txt = open(os.path.join(fw.LEAN, "Nsq", "Gen", "ToolsToFile.lean")).read()
    except OSError:
        return None
    return {"one_write": '"..._, err := f.Write(record)"' in txt, "seals_tail": "f.sealTornTail(absFilename)" in txt}


def committed_shape_ops(src, dst):
    """`tf conf … <closeClears> <oneWrite> <sealsTail>`: the harness writes what it PROBED on the real code; the model is run
    with the committed values oneWrite = sealsTail = 1 (F46, F47), so a tree that reverts one of them disagrees with the
    model line by line. closeClears (fix F44, NOT committed: a proposal) stays as probed. Returns the probed pairs seen."""
    seen = set()
    with open(dst, "w") as fh:
        for o in open(src).read().splitlines():
            w = o.split(" ")
            if len(w) >= 12 and w[0] == "tf" and w[1] == "conf":
                seen.add((w[10], w[11]))
                w[10], w[11] = "1", "1"
                o = " ".join(w)
            fh.write(o + "\n")
    return seen


def lines_leg(ctx, parent, corr_broken):
    out = os.path.join(ctx.work, "tf_lines")
    os.makedirs(out, exist_ok=True)
    rc, log = ctx.run_cmd([parent, "-test.run", "^TestVerifToFileLines$", "-test.count=1", "-test.timeout=0"], timeout=600,
                          env={"VERIF_SEED": ctx.seed, "VERIF_OUT": out, "VERIF_N": ctx.budget(24, 300)})
    if rc != 0 or "ORACLE-DONE lines" not in log:
        ctx.log("lines harness failed:\n" + log[-1500:])
        corr_broken.append("lines harness exit %s" % rc)
        return
    mp = re.search(r"LINESPROBE one_write=(\d) seals_tail=(\d)", log)
    one_write, seals = (mp.group(1) == "1", mp.group(2) == "1") if mp else (False, False)
    gen = shapes_from_gen()
    ctx.corr["lines_probe"] = {"one_write": one_write, "seals_tail": seals, "regenerated_skeleton": gen}
    if gen is None or not (gen["one_write"] and gen["seals_tail"] and one_write and seals):
        corr_broken.append("line-level shapes: probe on the real router()/updateFile() (one_write=%s seals_tail=%s), regenerated "
                           "skeleton (%s); expected one_write = seals_tail = true everywhere (F46 85f4c48, F47 efaf20c)"
                           % (one_write, seals, gen))
    # correspondence: the same scenarios through the model with the COMMITTED shapes
    ops = open(os.path.join(out, "tflines.ops")).read().splitlines()
    impl = open(os.path.join(out, "tflines.impl")).read().splitlines()
    committed_shape_ops(os.path.join(out, "tflines.ops"), os.path.join(out, "tflines.model.ops"))
    rc, mout = ctx.driver("e8", stdin_path=os.path.join(out, "tflines.model.ops"))
    for o, i in zip(ops, impl):
        ctx.count_case(o + "|" + i, nontrivial=not o.startswith("tf conf"))
    for idx, a, b in ctx.diff_lines(impl, mout.splitlines(), "tofile-lines"):
        ctx.log("lines: model/impl disagree on `%s`:\n   impl =%s\n   model=%s" % (ops[idx][:160], a[:300], b[:300]))
        corr_broken.append("correspondence lines op %s" % " ".join(ops[idx].split()[1:2]))
    rows = []
    for l in log.splitlines():
        if not l.startswith("LINES "):
            continue
        r = dict(kv.split("=", 1) for kv in l.split()[1:])
        rows.append(r)
        ctx.evaluations += 1
        ctx.count_case("lines|" + r["case"] + "|" + r["owns"] + "|" + r["tree"], nontrivial=True)
        fins = _unhex(r["fins"]).decode("latin1")
        missing = _unhex(r["missing"]).decode("latin1")
        if r["complete"] != "true" or "hang" in r["exits"] or "start-error" in r["exits"]:
            corr_broken.append("lines scenario %s did not complete (exits %s)" % (r["case"], r["exits"]))
            continue
        if r["owns"] == "true":
            continue
        replay = "scenario=%s (harness/e8/tofile_lines_test.go, TestVerifToFileLines)\nfinished=%s\nwithout an own line=%s\ntree=%s\n" % (
            r["case"], fins, missing, r["tree"])
        if r["case"] == "two-routers":
            key = "two-routers-one-file"   # listed fixed (F46): a reproduction is a VIOLATION
            what = ("nsq_to_file: two topics with a --filename-format without <TOPIC> append to one plain file (O_APPEND); router 1 was "
                    "between Write(body) and Write(\"\\n\") when router 2 appended its record: FINished message(s) %s are not a line of "
                    "the file (Lean: Props.C19Lines.shared_file_unfixed_witness; with fix F46 shared_file_lines_fixed)" % missing)
        elif r["case"].startswith("gen-") and "torn=true" not in _unhex(r["notes"]).decode("latin1"):
            key = "lines-generated-append"
            what = ("nsq_to_file: generated plain-append script (initial file absent / empty / newline-terminated): FINished message(s) %r "
                    "have no record of their own at a line start" % missing)
        elif r["case"] == "clean-pre":
            key = "lines-append-to-terminated-file"
            what = "nsq_to_file: message(s) %s FINished but not a line of any file after appending to a newline-terminated file" % missing
        else:
            key = "torn-tail-append"   # listed fixed (F47): a reproduction is a VIOLATION
            what = ("nsq_to_file: an existing plain file that ends inside a record (writer killed between Write(body) and Write(\"\\n\"), "
                    "or a short write) is re-opened with O_APPEND and the next record is appended to the torn tail: FINished message(s) %s "
                    "are not a line of any file (Lean: Props.C19Lines.fin_owns_line_full_false; with fix F47 fin_owns_line_fixed)" % missing)
        ctx.violation(key, what, replay)
    ctx.corr["lines"] = rows
    if len([r for r in rows if not r["case"].startswith("gen-")]) < 7:
        corr_broken.append("lines leg: only %d of 7 fixed scenarios reported" % len(rows))
    gen = [r for r in rows if r["case"].startswith("gen-")]
    ctx.corr["lines_generated"] = {"scripts": len(gen), "torn_initial_file": sum(1 for r in gen if "torn=true" in _unhex(r["notes"]).decode("latin1")),
                                   "without_own_record": sum(1 for r in gen if r["owns"] != "true")}
