#!/bin/bash
# integrate.sh <agent-id>: merge /work/<id>/verif main into /verif, regenerate assembled files.
set -u
cd /verif
if ! git diff --quiet || ! git diff --cached --quiet; then echo "working tree not clean: commit your own edits first (a dirty tree once made the merge abort silently and a builder's work was nearly lost)"; exit 1; fi
git fetch -q /work/$1/verif ${2:-main} || exit 1
git merge --no-commit --no-ff FETCH_HEAD > /tmp/merge.log 2>&1
if [ ! -f .git/MERGE_HEAD ] && ! git merge-base --is-ancestor FETCH_HEAD HEAD; then echo "merge did not start:"; cat /tmp/merge.log; exit 1; fi
for f in MANIFEST.json known_findings.json; do git checkout --ours $f 2>/dev/null; done
for f in $(git diff --name-only --diff-filter=U); do
  case $f in
    evidence/*) git checkout --ours $f; git add $f;;
    MANIFEST.json|known_findings.json) ;;
    *) echo "CONFLICT in $f";;
  esac
done
# evidence must come from /verif run against /repo itself: never take an agent's evidence files
git checkout -q ORIG_HEAD -- evidence 2>/dev/null || git checkout -q HEAD -- evidence 2>/dev/null
if git diff --name-only --diff-filter=U | grep -v "^MANIFEST.json$\|^known_findings.json$" | grep -q .; then echo "unresolved conflicts (resolve by hand, then: python3 lib/mkmanifest.py; git add -A; git commit)"; git diff --name-only --diff-filter=U; exit 1; fi
python3 lib/mkmanifest.py
git add -A
if git diff --name-only --diff-filter=U | grep -q .; then echo "unresolved conflicts"; git status --short | grep "^U\|^AA"; exit 1; fi
git commit -qm "integrate work of builder '$1'" && echo "merged $1: $(git log --oneline | head -1)"
