#!/bin/bash
# sweep.sh <tier> <seed-from> <seed-to> [props...]: soundness sweep on the unchanged tree; prints one line per run.
TIER=$1; A=$2; B=$3; shift 3
PROPS=${@:-$(python3 -c "import json;print(' '.join(c['property_id'] for c in json.load(open('MANIFEST.json'))['checks']))")}
if [ -n "${SWEEP_LOAD:-}" ]; then for i in $(seq $SWEEP_LOAD); do (timeout 6h sh -c 'while :; do :; done' &) ; done; echo "background load: $SWEEP_LOAD busy loops"; fi
./check --setup > setup.log 2>&1 || { echo "SETUP FAILED"; tail -5 setup.log; }
for s in $(seq $A $B); do for p in $PROPS; do
  t0=$(date +%s); VERIF_SEED=$s ./check $p --tier $TIER > run_${p}_${s}.log 2>&1; rc=$?; t1=$(date +%s)
  echo "seed=$s $p rc=$rc $((t1-t0))s $(grep -c '^VIOLATION' run_${p}_${s}.log) violations"
  [ $rc -ne 0 ] && grep -A1 '^VIOLATION' run_${p}_${s}.log | head -6
done; done
pkill -f "while :; do :; done" 2>/dev/null
