"""Shared python for the four E2 checks (C01, C02, C03, C13).

ONE harness run per (seed, tier, repo tree hash, harness/model hash) is executed and cached
under .build/e2cache/<key>/ behind a file lock, so running the four checks back to back costs
one run.  The run consists of
  1. corpus replays (command scripts under corpus/Cxx/{,fixed/,known/}*.ops) on the real code,
  2. the serial generated run (TestVerifE2Serial) — e2.cmds / e2.ops / e2.impl,
  3. the replay of e2.ops through the Lean driver drv_e2 and the line diff,
  4. the concurrent leg (TestVerifE2Concurrent) checked at quiescent points.
Each property check then picks the oracle failures / correspondence diffs that belong to it.
"""
import glob
import hashlib
import json
import os
import shutil
import time

import framework as fw
from framework import REPO, ROOT, BUILD

HARNESS = ["e2/e2_core_test.go", "e2/e2_exec_test.go", "e2/e2_hook_test.go", "e2/e2_conc_test.go", "e2/e2_sched_test.go", "e2/e2_live_test.go", "e2/e2_pump_test.go"]
PROPS_ALL = ["C01", "C02", "C03", "C13"]

# which property an oracle failure key belongs to (a key may belong to several)
ORACLE_OWNER = {
    "double-holder": ["C02"], "after-fin": ["C02"], "attempts": ["C02"], "ownership": ["C02"],
    "errcode": ["C02"], "noop": ["C02"], "holder": ["C02"], "unregistered": ["C02", "C01"],
    "heap": ["C02"], "missed-timeout": ["C02", "C01"], "early-timeout": ["C02"],
    "lost": ["C01"], "phantom": ["C01", "C02"], "body": ["C01"], "pub": ["C01"],
    "settle": PROPS_ALL, "settle-count": ["C13", "C01"], "settle-ledger": ["C01", "C02", "C13"],
    "settle-stall": ["C03", "C01"], "settle-pausedpump": ["C03"], "client-count": ["C13", "C03"], "chan-count": ["C13"],
    "envelope": ["C01"], "late-answer": ["C02"], "fin-final": ["C02"], "fanout-missed": ["C01"], "sched": PROPS_ALL,
    "conc-after-fin": ["C02"], "conc-pub": ["C01"], "conc-sub": ["C03"], "conc-err": ["C02"], "conc-frame": ["C01"], "missed-defer": ["C01"], "early-defer": ["C01"], "req-defer": ["C01"],
    "no-reply": ["C01", "C02", "C03", "C13"], "stray-frame": ["C02", "C03"], "exit-hang": ["C01"],
    "rdy": ["C03"], "rdy-range": ["C03"], "paused-deliver": ["C03"], "topic-pause": ["C03"],
    "pause-http": ["C03"], "sub": ["C03"], "identify": ["C03"],
    "negative": ["C13", "C03"], "topic-count": ["C13"], "conservation": ["C13"], "render": ["C13"],
    "stats-http": ["C13"], "stats-json": ["C13"], "timeout-count": ["C13"], "empty-http": ["C13"],
    "conc-ledger": ["C01"], "conc-dup": ["C02"], "conc-attempts": ["C02"], "conc-rdy": ["C03"],
    "conc-conservation": ["C13"], "conc-negative": ["C13", "C03"], "conc-inv": PROPS_ALL, "race": PROPS_ALL,
    "f8": ["C13", "C03"], "bad-frame": ["C01"], "attempts-wrap-65536": ["C02"],
    "eph-topic-drop": ["C01"], "sample-drop": ["C13", "C01"], "pump-late-flush": ["C03"], "pump-newer": ["C03"], "pump-order": ["C03", "C02"], "pump-lost-frame": ["C03", "C01"],
}


def diff_owner(op, impl, model):
    """which properties a model/implementation disagreement on this line concerns"""
    w = op.split()
    k = w[0] if w else ""
    if k == "P":      # the pump / output-buffer leg (harness/e2/e2_pump_test.go, model Nsq.Model.Pump)
        return ["C03"]
    if k == "deliver":
        if "guard" in model:
            return ["C03"]
        return ["C01", "C02"]
    if k in ("fin", "req", "touch", "finchan", "fincli"):
        return ["C02"]
    if k in ("scanif", "scandf"):
        return ["C01", "C02"]
    if k in ("rdy", "cls"):
        return ["C03"]
    if k in ("pausec", "unpausec", "pauset", "unpauset", "tpause"):   # tpause: leg busypause as a schedule of Nsq.Model.TopicPause (audit A10)
        return ["C03"]
    if k in ("stats", "tdump", "statsq"):
        return ["C13"] + (["C01"] if k == "tdump" else [])
    if k == "dump":
        a = dict(x.split("=", 1) for x in impl.split(" ") if "=" in x and not x.startswith("["))
        b = dict(x.split("=", 1) for x in model.split(" ") if "=" in x and not x.startswith("["))
        out = set()
        for f in set(a) | set(b):
            if a.get(f) != b.get(f):
                if f in ("mc", "rq", "to"):
                    out.add("C13")
                elif f == "depth":
                    out.update(["C01", "C13"])
                elif f == "paused":
                    out.add("C03")
        if impl.split("clients=")[-1] != model.split("clients=")[-1]:
            out.update(["C13", "C03"])
        if impl.split("inflight=")[-1].split("mc=")[0] != model.split("inflight=")[-1].split("mc=")[0]:
            out.update(["C02", "C01"])
        return sorted(out) or PROPS_ALL
    if k in ("pump", "split", "settle", "sdrop", "pub", "mpub", "dpub", "empty", "sub", "disc", "chan", "topic", "teph"):   # teph: leg ephtopic as a run of Nsq.Model.TopicEph (audit A5)
        return ["C01"] + (["C03"] if k in ("pump", "settle") else []) + (["C13"] if k == "empty" else [])
    return PROPS_ALL


def norm_key(f, default):
    """normalised key of a failure that can only arise from the FIN | Empty window (F8): used by the
    hook replay and by the free-running leg (where the window can open by itself); the serialised
    generated run cannot open it and keeps its own key, so a drifting counter there is reported."""
    if f["key"] in ("negative", "conc-negative") and "in_flight_count" in f["what"]:
        return "inflight-negative-after-empty"
    if f["key"] == "attempts-wrap-65536":
        return "attempts-wrap-65536"      # F11: the uint16 attempts field wraps (thorough-tier replay)
    return default


def _hash_files(paths):
    h = hashlib.sha256()
    for p in sorted(paths):
        h.update(p.encode())
        with open(p, "rb") as f:
            h.update(f.read())
    return h.hexdigest()[:12]


def cache_key(ctx):
    mine = glob.glob(os.path.join(ROOT, "harness", "e2", "*.go")) + \
        glob.glob(os.path.join(ROOT, "harness", "common", "*")) + \
        glob.glob(os.path.join(ROOT, "lean", "Nsq", "Model", "Chan*.lean")) + \
        [os.path.join(ROOT, "lean", "Nsq", "Model", "Pump.lean")] + \
        glob.glob(os.path.join(ROOT, "lean", "Nsq", "Model", "Topic*.lean")) + \
        [os.path.join(ROOT, "lean", "DriverE2.lean"), os.path.join(ROOT, "lib", "e2.py")] + \
        glob.glob(os.path.join(ROOT, "corpus", "C*", "**", "*.ops"), recursive=True)
    # (only what package nsqd is built from: other engineers' fixes elsewhere in the tree do not invalidate the run)
    return "s%d-%s-%s-%s" % (ctx.seed, ctx.tier, fw.repo_tree_hash(["nsqd", "internal", "go.mod", "go.sum"]), _hash_files(mine))


def parse_log(out):
    fails, hist, done = [], {}, None
    for l in out.splitlines():
        if l.startswith("ORACLE-FAIL "):
            p = l.split(" ", 4)
            fails.append({"key": p[1], "where": " ".join(p[2:4]), "what": p[4] if len(p) > 4 else ""})
        elif l.startswith("HIST "):
            p = l.rsplit(" ", 1)
            hist[p[0][5:]] = int(p[1])
        elif l.startswith("E2-DONE"):
            done = l
    return fails, hist, done


def episodes(ops):
    """[(start, end)) line ranges of the episodes (each starts with `reset`)"""
    idx = [i for i, l in enumerate(ops) if l == "reset"] + [len(ops)]
    return [(idx[i], idx[i + 1]) for i in range(len(idx) - 1)]


def run_driver(ctx, d, name):
    rc, out = ctx.driver("e2", stdin_path=os.path.join(d, name + ".ops"), timeout=1800)
    with open(os.path.join(d, name + ".model"), "w") as f:
        f.write(out)
    ops = open(os.path.join(d, name + ".ops")).read().splitlines()
    impl = open(os.path.join(d, name + ".impl")).read().splitlines()
    model = out.splitlines()
    diffs = []
    eps = episodes(ops)
    for (a, b) in eps:
        for i in range(a, b):
            mi = model[i] if i < len(model) else "<missing>"
            ii = impl[i] if i < len(impl) else "<missing>"
            if mi != ii:
                diffs.append({"line": i, "ep_start": a, "op": ops[i], "impl": ii, "model": mi,
                              "owners": diff_owner(ops[i], ii, mi)})
                break  # first divergence per episode: everything after it is noise
    return ops, impl, model, diffs, len(eps)


def harness_run(ctx, binp, d, test, env, timeout):
    e = {"VERIF_SEED": ctx.seed, "VERIF_OUT": d}
    e.update(env)
    rc, out = ctx.run_cmd([binp, "-test.run", "^%s$" % test, "-test.count=1", "-test.timeout=%ds" % timeout],
                          timeout=timeout + 30, env=e, cwd=d)
    return rc, out


def replay_script(ctx, binp, d, script, name):
    """execute one command script on the real code; returns (fails, diffs, ops, impl, model)"""
    rc, out = harness_run(ctx, binp, d, "TestVerifE2Replay",
                          {"VERIF_E2_SCRIPT": script, "VERIF_E2_NAME": name}, 120)
    fails, hist, done = parse_log(out)
    if done is None:
        fails.append({"key": "crash", "where": name, "what": "replay harness did not finish (rc=%s): %s" % (rc, out[-400:])})
        return fails, [], [], [], [], {}
    ops, impl, model, diffs, _ = run_driver(ctx, d, name)
    return fails, diffs, ops, impl, model, hist


def shared_run(ctx):
    """Returns the result dict of the shared E2 run for (seed, tier, tree); runs it if needed."""
    key = cache_key(ctx)
    cdir = os.path.join(BUILD, "e2cache", key)
    res_path = os.path.join(cdir, "result.json")
    with fw.Lock("e2run"):
        if os.path.exists(res_path):
            res = json.load(open(res_path))
            res["cached"] = True
            return res
        # keep the cache small
        root = os.path.join(BUILD, "e2cache")
        if os.path.isdir(root):
            old = sorted((os.path.getmtime(os.path.join(root, x)), x) for x in os.listdir(root))
            for _, x in old[:-6]:
                shutil.rmtree(os.path.join(root, x), ignore_errors=True)
        shutil.rmtree(cdir, ignore_errors=True)
        os.makedirs(cdir)
        t0 = time.time()
        res = {"key": key, "dir": cdir, "cached": False, "fails": [], "diffs": [], "hist": {},
               "corpus": [], "notes": [], "build_ok": True}
        if not ctx.build_driver("e2"):
            res["build_ok"] = False
            res["notes"].append("lake build drv_e2 failed")
        binp = ctx.go_test_binary("nsqd", HARNESS, "e2h")
        if not binp:
            res["build_ok"] = False
            res["notes"].append("harness e2/*.go does not compile against the current tree")
            json.dump(res, open(res_path, "w"), indent=1)
            return res
        # keep the binary for the other property checks' replays
        keep = os.path.join(cdir, "e2h.test")
        shutil.copy(binp, keep)
        res["bin"] = keep
        # 1. corpus
        for prop in PROPS_ALL:
            for script in sorted(glob.glob(os.path.join(ROOT, "corpus", prop, "**", "*.ops"), recursive=True)):
                rel = os.path.relpath(script, ROOT)
                if "# tier: thorough" in open(script).read(400) and not ctx.thorough():
                    continue  # long replay (F11: 65 537 deliveries of one message): thorough tier only
                kind = "known" if "/known/" in rel else ("fixed" if "/fixed/" in rel else ("obs" if "/obs/" in rel else "regress"))
                name = "corpus_" + hashlib.md5(rel.encode()).hexdigest()[:8]
                fails, diffs, ops, impl, model, hist = replay_script(ctx, keep, cdir, script, name)
                res["corpus"].append({"prop": prop, "script": rel, "kind": kind, "fails": fails,
                                      "diffs": diffs, "lines": len(ops),
                                      "hooks": {k: v for k, v in hist.items() if k.startswith("hook:")}})
        # 2. serial generated run (+ one re-run of the same seed if anything failed: a failure
        #    that does not reproduce is recorded as a note, not reported)
        secs = ctx.budget(22, 240)
        for attempt in (1, 2):
            rc, out = harness_run(ctx, keep, cdir, "TestVerifE2Serial", {"VERIF_E2_SECONDS": secs}, secs + 120)
            with open(os.path.join(cdir, "serial%d.log" % attempt), "w") as f:
                f.write(out)
            fails, hist, done = parse_log(out)
            if done is None:
                fails.append({"key": "crash", "where": "serial", "what": "serial harness did not finish (rc=%s): %s" % (rc, out[-600:])})
                diffs, nl, neps, ops = [], 0, 0, []
            else:
                ops, impl, model, diffs, neps = run_driver(ctx, cdir, "e2")
                nl = len(ops)
            if attempt == 1:
                first = (fails, diffs)
                res.update({"fails": fails, "diffs": diffs, "hist": hist, "lines": nl, "episodes": neps,
                            "serial_done": done})
                if not fails and not diffs:
                    break
                for n in ("e2.ops", "e2.impl", "e2.model", "e2.cmds"):
                    if os.path.exists(os.path.join(cdir, n)):
                        shutil.copy(os.path.join(cdir, n), os.path.join(cdir, "first_" + n))
            else:
                # the run is deterministic up to goroutine scheduling and nsqd's own math/rand (client
                # sampling), so the second run need not fail at the same operation: a kind of failure
                # (oracle key / kind of diverging line) is kept iff it shows again
                k1 = set(f["key"] for f in first[0]) | set(d["op"].split()[0] + "@diff" for d in first[1])
                k2 = set(f["key"] for f in fails) | set(d["op"].split()[0] + "@diff" for d in diffs)
                gone = k1 - k2
                if gone:
                    res["notes"].append("not reproduced on a second run of the same seed (dropped): %s" % sorted(gone))
                res["fails"] = [f for f in first[0] if f["key"] in k2]
                res["diffs"] = [d for d in first[1] if d["op"].split()[0] + "@diff" in k2]
                for n in ("e2.ops", "e2.impl", "e2.model", "e2.cmds"):
                    if os.path.exists(os.path.join(cdir, "first_" + n)):
                        shutil.copy(os.path.join(cdir, "first_" + n), os.path.join(cdir, n))
        # 3. concurrent leg (thorough: under the race detector)
        csecs = ctx.budget(8, 90)
        cbin = keep
        if ctx.thorough():
            rbin = ctx.go_test_binary("nsqd", HARNESS, "e2hr", race=True, timeout=1800)
            if rbin:
                cbin = os.path.join(cdir, "e2hr.test")
                shutil.copy(rbin, cbin)
                res["race_detector"] = True
            else:
                res["notes"].append("race-detector build of the harness failed; concurrent leg ran without it")
        rc, out = harness_run(ctx, cbin, cdir, "TestVerifE2Concurrent", {"VERIF_E2_SECONDS": csecs}, csecs + 300)
        if "WARNING: DATA RACE" in out:
            i = out.index("WARNING: DATA RACE")
            out += "\nORACLE-FAIL race conc=1 seed=%s %s\n" % (ctx.seed, " | ".join(out[i:i + 1500].splitlines()[:14]))
        with open(os.path.join(cdir, "conc.log"), "w") as f:
            f.write(out)
        cf, chist, cdone = parse_log(out)
        if cdone is None and "no tests to run" not in out:
            cf.append({"key": "crash", "where": "concurrent", "what": "concurrent harness did not finish (rc=%s): %s" % (rc, out[-600:])})
        res["conc_fails"] = cf
        res["conc_hist"] = chist
        res["conc_done"] = cdone
        if os.path.exists(os.path.join(cdir, "e2conc.ops")):
            _, _, _, cdiffs, _ = run_driver(ctx, cdir, "e2conc")
            res["conc_diffs"] = cdiffs
        # 4. pump / output-buffer leg (C03: flusher, forced flush, "nothing newer is sent")
        psecs = ctx.budget(6, 40)
        rc, out = harness_run(ctx, keep, cdir, "TestVerifE2Pump", {"VERIF_E2_SECONDS": psecs}, psecs + 120)
        with open(os.path.join(cdir, "pump.log"), "w") as f:
            f.write(out)
        pf, phist, pdone = parse_log(out)
        if pdone is None:
            pf.append({"key": "crash", "where": "pump", "what": "pump leg did not finish (rc=%s): %s" % (rc, out[-600:])})
        res["pump_fails"], res["pump_hist"], res["pump_done"] = pf, phist, pdone
        if os.path.exists(os.path.join(cdir, "pump.ops")) and pdone is not None:
            pops, _, _, pdiffs, peps = run_driver(ctx, cdir, "pump")
            res["pump_diffs"], res["pump_lines"], res["pump_episodes"] = pdiffs, len(pops), peps
        res["wall_s"] = round(time.time() - t0, 1)
        json.dump(res, open(res_path, "w"), indent=1)
        return res


def episode_text(res, diff):
    """the ops/impl/model lines of the episode that contains a diff (replay material)"""
    d = res["dir"]
    try:
        ops = open(os.path.join(d, "e2.ops")).read().splitlines()
        impl = open(os.path.join(d, "e2.impl")).read().splitlines()
        model = open(os.path.join(d, "e2.model")).read().splitlines()
    except OSError:
        return ""
    a, i = diff["ep_start"], diff["line"]
    lines = ["# episode starting at line %d; first divergence at line %d" % (a, i)]
    for j in range(a, min(i + 1, len(ops))):
        lines.append("%s\t-> impl: %s\t| model: %s" % (ops[j], impl[j] if j < len(impl) else "?", model[j] if j < len(model) else "?"))
    return "\n".join(lines) + "\n"


def cmds_of_episode(res, ep_index):
    """the symbolic command script of one episode of the generated run (replayable)"""
    try:
        cmds = open(os.path.join(res["dir"], "e2.cmds")).read().splitlines()
    except OSError:
        return ""
    idx = [i for i, l in enumerate(cmds) if l.startswith("conf")] + [len(cmds)]
    if ep_index < len(idx) - 1:
        return "\n".join(cmds[idx[ep_index]:idx[ep_index + 1]]) + "\n"
    return ""


def replay_only(ctx, prop):
    """./check Cxx --replay <script>: execute one command script (corpus/*.ops, replay/*.replay, or the
    e2.cmds of an episode) on the real code and print implementation and model side by side."""
    ctx.build_driver("e2")
    binp = ctx.go_test_binary("nsqd", HARNESS, "e2r")
    if not binp:
        ctx.broken_ties.append("harness e2/*.go does not compile against the current tree")
        return
    script = os.path.abspath(ctx.replay_in)
    rc, out = harness_run(ctx, binp, ctx.work, "TestVerifE2Replay",
                          {"VERIF_E2_SCRIPT": script, "VERIF_E2_NAME": "replay"}, 300)
    fails, hist, done = parse_log(out)
    if done is None:
        print(out[-3000:])
        ctx.broken_ties.append("replay harness did not finish (rc=%s)" % rc)
        return
    ops, impl, model, diffs, _ = run_driver(ctx, ctx.work, "replay")
    for i, o in enumerate(ops):
        m = model[i] if i < len(model) else "<missing>"
        flag = "" if m == impl[i] else "   <<< model: " + m
        print("%-58s -> %s%s" % (o[:58], impl[i][:160], flag))
    for f in fails:
        print("ORACLE-FAIL %s %s" % (f["key"], f["what"]))
        if prop in ORACLE_OWNER.get(f["key"], PROPS_ALL):
            ctx.violation(norm_key(f, f["key"]), f["what"], open(script).read())
    ctx.evaluations = len(ops)
    ctx.corr["replay"] = {"script": script, "lines": len(ops), "oracle_failures": [f["key"] for f in fails], "diffs": len(diffs)}


def run_property(ctx, prop, tie, props, spec="e2_chan"):
    """The common pipeline of the four checks. Returns the shared result."""
    if ctx.replay_in:
        replay_only(ctx, prop)
        return {}, []
    ctx.trusted += [
        "Go memory model / runtime: critical sections are atomic, sync/atomic and channel operations are "
        "linearizable, select picks any ready case (DESIGN 4.4)",
        "correspondence harness harness/e2/*.go (generators, white-box dumps, canonicalisation, diff) — trusted not to hide differences",
        "translator tools/go2lean (kinds stmts/errsites/calls/callers/mapwrites) renders the facts of nsqd/{channel,client_v2,protocol_v2}.go; "
        "kind afunc translates the clientV2 counter methods and IsReadyForMessages into Lean definitions (each sync/atomic operation read "
        "as its sequentially consistent effect on the receiver field)",
        "go-diskqueue v1.1.0 modelled as a counted bag (Depth exact, FIFO not assumed); encoding/json, net/http (for /stats)",
    ]
    gen_ok, _ = ctx.gen(spec)
    if "Nsq.Tie.ChanFunc" in tie:
        ctx.gen("e2_chanfunc")     # clientV2 counters / IsReadyForMessages as translated definitions (kind afunc)
    ok, log = ctx.lean_build(tie + props)
    if not ok:
        ctx.lean_obligation_failed("lake build " + " ".join(tie + props), log[-1500:])
    ctx.lean_audit(props, tie)
    if ctx.thorough():
        ctx.leanchecker(props)
    res = shared_run(ctx)
    broken = []
    if not res.get("build_ok", True):
        broken += res["notes"]
    ctx.corr["e2_run"] = {k: res.get(k) for k in ("key", "cached", "lines", "episodes", "serial_done", "conc_done", "wall_s", "notes")}
    ctx.corr["op_histogram"] = res.get("hist", {})
    ctx.corr["concurrent_histogram"] = res.get("conc_hist", {})
    # evaluations: every line both sides answered; distinct: canonical op+answer lines
    try:
        ops = open(os.path.join(res["dir"], "e2.ops")).read().splitlines()
        impl = open(os.path.join(res["dir"], "e2.impl")).read().splitlines()
        for o, i in zip(ops, impl):
            k = o.split(" ", 1)[0]
            trivial = k in ("settle", "inv", "split", "reset", "conf") or "FAILED" in i
            ctx.count_case(o + "|" + i, nontrivial=not trivial)
        for j in (5, 40, 400, 4000):
            if j < len(ops):
                ctx.add_sample({"op": ops[j], "impl": impl[j]})
    except OSError:
        pass
    # known findings / fixed regressions of this property: replayed, not remembered
    for c in res.get("corpus", []):
        if c["prop"] != prop:
            continue
        ctx.corr.setdefault("corpus", []).append({"script": c["script"], "kind": c["kind"], "lines": c["lines"],
                                                  "fails": [f["key"] for f in c["fails"]], "diffs": len(c["diffs"]),
                                                  "hook_schedules": c.get("hooks", {})})
        if c["kind"] == "obs" and c.get("hooks"):
            ctx.notes.append("observation (not a violation) %s: %s" % (c["script"], c["hooks"]))
        for f in c["fails"]:
            key = "%s:%s" % (os.path.basename(c["script"]), f["key"])
            if c["kind"] == "known":
                key = norm_key(f, key)
            ctx.violation(key, "%s (replay of %s)" % (f["what"], c["script"]),
                          open(os.path.join(ROOT, c["script"])).read())
        if c["kind"] != "known":
            for df in c["diffs"]:
                if prop in df["owners"]:
                    broken.append("corpus %s: model/impl differ at `%s`" % (c["script"], df["op"]))
    # oracle failures of the generated and concurrent runs
    mine = [f for f in res.get("fails", []) if prop in ORACLE_OWNER.get(f["key"], PROPS_ALL)]
    for f in mine[:8]:
        ep = 0
        try:
            ep = int(f["where"].split("ep=")[1].split()[0]) - 1
        except (IndexError, ValueError):
            pass
        ctx.violation(f["key"], f["what"], "# %s %s\n%s" % (f["key"], f["where"], cmds_of_episode(res, ep)))
    cmine = [f for f in res.get("conc_fails", []) if prop in ORACLE_OWNER.get(f["key"], PROPS_ALL)]
    for f in cmine[:8]:
        ctx.violation(norm_key(f, f["key"]), f["what"],
                      "# concurrent leg, VERIF_SEED=%s: %s %s\n# re-run: ./check %s (the schedule is the Go runtime's)\n"
                      % (ctx.seed, f["key"], f["where"], prop))
    pmine = [f for f in res.get("pump_fails", []) if prop in ORACLE_OWNER.get(f["key"], PROPS_ALL)]
    for f in pmine[:8]:
        ctx.violation(f["key"], f["what"],
                      "# pump leg (harness/e2/e2_pump_test.go TestVerifE2Pump), VERIF_SEED=%s: %s %s\n"
                      "# re-run: ./check %s ; the op/impl/model lines of the run are in .build/e2cache/%s/pump.*\n"
                      % (ctx.seed, f["key"], f["where"], prop, res.get("key")))
    if prop == "C03":
        ctx.corr["pump_histogram"] = res.get("pump_hist", {})
        ctx.corr.setdefault("streams", []).append({"label": "e2 pump/output buffer", "lines": res.get("pump_lines", 0),
                                                   "episodes": res.get("pump_episodes", 0), "diffs": len(res.get("pump_diffs", []))})
        try:
            pops = open(os.path.join(res["dir"], "pump.ops")).read().splitlines()
            pimpl = open(os.path.join(res["dir"], "pump.impl")).read().splitlines()
            for o, i in zip(pops, pimpl):
                ctx.count_case("pump|" + o + "|" + i, nontrivial=o.startswith("P write") or o.startswith("P recv") or "buf=0" not in i)
        except OSError:
            pass
        for df in res.get("pump_diffs", []):
            try:
                pops = open(os.path.join(res["dir"], "pump.ops")).read().splitlines()
                pimpl = open(os.path.join(res["dir"], "pump.impl")).read().splitlines()
                pmodel = open(os.path.join(res["dir"], "pump.model")).read().splitlines()
                txt = "\n".join("%s\t-> impl: %s\t| model: %s" % (pops[j], pimpl[j], pmodel[j] if j < len(pmodel) else "?")
                                for j in range(df["ep_start"], min(df["line"] + 1, len(pops)))) + "\n"
                ctx.write_replay("pump_line%d.txt" % df["line"], txt)
            except (OSError, IndexError):
                pass
    # correspondence diffs
    for df in res.get("diffs", []) + res.get("conc_diffs", []) + res.get("pump_diffs", []):
        if prop in df["owners"]:
            ctx.log("model/impl disagree on `%s`: impl=%s model=%s" % (df["op"], df["impl"], df["model"]))
            broken.append("correspondence `%s`: impl=%s model=%s" % (df["op"][:80], df["impl"][:120], df["model"][:120]))
            if not df["op"].startswith("P "):
                ctx.write_replay("corr_line%d.txt" % df["line"], episode_text(res, df))
    ctx.corr.setdefault("streams", []).append({"label": "e2 serial", "lines": res.get("lines", 0),
                                               "diffs": len(res.get("diffs", []))})
    for n in res.get("notes", []):
        ctx.notes.append(n)
    return res, broken
