#!/bin/bash
# applyfix.sh <patch> <commit message file>: apply a fix patch to /repo, run the baseline suite, commit as fix:
set -u
export GOFLAGS=-mod=mod GOPROXY=off GOSUMDB=off GOTOOLCHAIN=local
cd /repo || exit 1
git diff --quiet || { echo "/repo not clean"; exit 1; }
git apply --check "$1" || { echo "patch does not apply"; exit 1; }
git apply "$1"
gofmt -l nsqd nsqlookupd nsqadmin internal apps | grep . && { echo "gofmt issues"; }
go build ./... || { git checkout -- .; exit 1; }
go test -vet=off -count=1 ./... > /tmp/applyfix.log 2>&1 || { echo "TESTS FAILED"; grep -v "^ok\|no test files" /tmp/applyfix.log | tail -20; git checkout -- .; exit 1; }
git add -A && git commit -q -F "$2" && git log --oneline | head -1
