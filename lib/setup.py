"""./check --setup : build everything from files on disk (offline).

  1. build the translator, regenerate lean/Nsq/Gen from the current /repo for every spec
  2. full `lake build` (all models, proofs, property modules, all drivers)
  3. axiom audit over every property module
  4. warm the Go build cache for the harness packages
"""
import glob
import json
import os
import sys
import framework as fw


def main():
    os.makedirs(fw.BUILD, exist_ok=True)
    binp = fw.build_go2lean()
    rc_all = 0
    for spec in sorted(glob.glob(os.path.join(fw.ROOT, "specs", "*.json"))):
        rc, out = fw.sh([binp, "-repo", fw.REPO, "-out", os.path.join(fw.LEAN, "Nsq", "Gen"), "-spec", spec],
                        timeout=300)
        print(out.strip())
        if rc != 0:
            rc_all = 1
    rc, out = fw.sh(["lake", "build"], cwd=fw.LEAN, timeout=3600)
    print("\n".join(l for l in out.splitlines() if "error" in l or "Build completed" in l or "✖" in l))
    if rc != 0:
        rc_all = 1
    # warm the go build cache (compiles the packages the harnesses are overlaid into)
    for pkg in ["./nsqd", "./nsqlookupd", "./nsqadmin", "./internal/...", "./apps/..."]:
        fw.sh(["go", "test", "-vet=off", "-tags", "verif", "-count=1", "-run", "^$", pkg], cwd=fw.REPO, timeout=1800)
    print("setup: %s" % ("ok" if rc_all == 0 else "FAILED"))
    return rc_all


if __name__ == "__main__":
    sys.exit(main())
