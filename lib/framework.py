"""Shared machinery for every property check (see DESIGN.md section 2).

A property module props/Cxx.py defines `run(ctx)` and uses the helpers of Ctx:

  ctx.gen(...)            regenerate lean/Nsq/Gen/* from the current /repo tree
  ctx.lean_build([...])   lake build of the tie + property modules (flock'ed)
  ctx.lean_audit([...])   #print-axioms style audit of every theorem of the modules
  ctx.go_test_binary(...) compile an overlay harness into a real /repo package
  ctx.run_cmd(...)        run a subprocess with timeout, capture output
  ctx.driver(...)         run a compiled Lean driver (lean/.lake/build/bin/drv_eN)
  ctx.diff_lines(...)     compare implementation and model output streams
  ctx.violation(...)      record a violation (writes a replay file)
  ctx.known(...)          match a failure against known_findings.json
  ctx.finish()            write evidence/<id>.json, print verdict lines, exit

Nothing here is property specific.
"""
import fcntl
import hashlib
import json
import os
import re
import shutil
import subprocess
import sys
import time

ROOT = os.path.dirname(os.path.dirname(os.path.abspath(__file__)))
REPO = os.environ.get("VERIF_REPO", "/repo")
LEAN = os.path.join(ROOT, "lean")
BUILD = os.path.join(ROOT, ".build")
EVID = os.path.join(ROOT, "evidence")
REPLAY = os.path.join(ROOT, "replay")

ALLOWED_AXIOMS = {"propext", "Classical.choice", "Quot.sound"}
FORBIDDEN_SRC = re.compile(
    r"\bsorry\b|\badmit\b|^\s*axiom\s|native_decide|bv_decide|implemented_by|"
    r"\bunsafe\s|maxHeartbeats\s+0\b|ofReduceBool|\bpartial\s+def\b")

GOENV = {
    "GOFLAGS": "-mod=mod",
    "GOPROXY": "off",
    "GOSUMDB": "off",
    "GOTOOLCHAIN": "local",
    "CGO_ENABLED": os.environ.get("CGO_ENABLED", "1"),
}

KERNEL_TB = ("Lean 4.33.0 kernel; axioms allowed in property theorems: propext, "
             "Classical.choice, Quot.sound (audited on every run; no native_decide, "
             "bv_decide, sorry, admit, own axioms)")


def env_with(extra=None):
    e = dict(os.environ)
    e.update(GOENV)
    if extra:
        e.update({k: str(v) for k, v in extra.items()})
    return e


_LOOP_CTR = [0]


def loopback():
    """A loopback IP "127.x.y.z" private to this python process (the counterpart of vfLoopback in
    harness/common/vf_common.go.tmpl, same formula: y.z encode the pid, x counts the calls). The checks may run in
    parallel: every daemon / stub a python leg starts binds such an address instead of 127.0.0.1, so that no client of
    another check that still reconnects to a recycled 127.0.0.1 port can reach it (all of 127/8 is local on Linux)."""
    p, c = os.getpid(), _LOOP_CTR[0]
    _LOOP_CTR[0] += 1
    return "127.%d.%d.%d" % (1 + (c + 7 * (p // 65024)) % 254, (p // 254) % 256, 1 + p % 254)


def sh(cmd, timeout=600, env=None, cwd=None, stdin=None, stdin_path=None):
    """Run cmd (list or str). Returns (rc, stdout+stderr text). rc=-9 on timeout."""
    fin = None
    try:
        if stdin_path:
            fin = open(stdin_path, "rb")
        p = subprocess.run(
            cmd, shell=isinstance(cmd, str), cwd=cwd, env=env or env_with(),
            input=(stdin.encode() if isinstance(stdin, str) else stdin) if not fin else None,
            stdin=fin, stdout=subprocess.PIPE, stderr=subprocess.STDOUT,
            timeout=timeout)
        return p.returncode, p.stdout.decode("utf-8", "replace")
    except subprocess.TimeoutExpired as ex:
        out = ex.stdout.decode("utf-8", "replace") if ex.stdout else ""
        return -9, out + "\n[timeout after %ss]" % timeout
    finally:
        if fin:
            fin.close()


class Lock:
    def __init__(self, name):
        os.makedirs(BUILD, exist_ok=True)
        self.path = os.path.join(BUILD, name + ".lock")

    def __enter__(self):
        self.f = open(self.path, "w")
        fcntl.flock(self.f, fcntl.LOCK_EX)
        return self

    def __exit__(self, *a):
        fcntl.flock(self.f, fcntl.LOCK_UN)
        self.f.close()


def repo_tree_hash(paths=None):
    """Hash of the current working-tree content of the Go sources (not git HEAD)."""
    h = hashlib.sha256()
    for base, dirs, files in os.walk(REPO):
        dirs[:] = sorted(d for d in dirs if d not in (".git", "node_modules", "static"))
        for f in sorted(files):
            if f.endswith(".go") or f in ("go.mod", "go.sum"):
                p = os.path.join(base, f)
                if paths and not any(p.startswith(os.path.join(REPO, q)) for q in paths):
                    continue
                h.update(p.encode())
                with open(p, "rb") as fh:
                    h.update(fh.read())
    return h.hexdigest()[:16]


class Ctx:
    def __init__(self, prop, tier, seed, replay=None):
        self.prop = prop
        self.tier = tier
        self.seed = seed
        self.replay_in = replay
        self.t0 = time.time()
        self.obligations = []      # dicts {name, kind, ok, detail}
        self.corr = {}             # free-form correspondence measurements
        self.evaluations = 0
        self.distinct = set()      # hashes of distinct non-trivial cases
        self.samples = []
        self.rule = ""
        self.violations = []       # dicts {replay, what, no_input}
        self.known_hits = []       # strings
        self.assumptions = []
        self.trusted = [KERNEL_TB]
        self.notes = []
        self.checker_cmds = []
        self.broken_ties = []      # names of obligations / correspondences that no longer check
        os.makedirs(BUILD, exist_ok=True)
        os.makedirs(EVID, exist_ok=True)
        os.makedirs(REPLAY, exist_ok=True)
        self.work = os.path.join(BUILD, "work", "%s-%s-%d" % (prop, tier, os.getpid()))
        shutil.rmtree(self.work, ignore_errors=True)
        os.makedirs(self.work, exist_ok=True)
        self._kf = None

    # ------------------------------------------------------------------ util
    def log(self, *a):
        print("[%s %6.1fs]" % (self.prop, time.time() - self.t0), *a, flush=True)

    def thorough(self):
        return self.tier == "thorough"

    def budget(self, quick, thorough):
        return thorough if self.thorough() else quick

    # ------------------------------------------------------------- lean side
    def gen(self, spec):
        """Run the translator tools/go2lean (built on demand) on specs/<spec>.json against the
        current tree; writes lean/Nsq/Gen/<Module>.lean (only when its content changed).
        Returns (ok, output). A translator rejection is a broken tie, not a guess."""
        binp = build_go2lean()
        with Lock("gen"):
            rc, out = sh([binp, "-repo", REPO, "-out", os.path.join(LEAN, "Nsq", "Gen"),
                          "-spec", os.path.join(ROOT, "specs", spec + ".json")], timeout=300)
        if rc != 0:
            self.log("go2lean failed:\n" + out)
            self.lean_obligation_failed("go2lean:" + spec, out)
        return rc == 0, out

    def lean_build(self, targets, timeout=1500):
        """lake build of the given modules/targets. Each module is one obligation group;
        on failure the failing declarations are parsed from the log."""
        self.checker_cmds.append("cd lean && lake build " + " ".join(targets))
        with Lock("lake"):
            rc, out = sh(["lake", "build"] + list(targets), cwd=LEAN, timeout=timeout)
        with open(os.path.join(self.work, "lake.log"), "a") as f:
            f.write(out)
        if rc != 0:
            errs = [l for l in out.splitlines() if re.search(r"error", l)]
            self.log("lake build FAILED:\n  " + "\n  ".join(errs[:30]))
        return rc == 0, out

    def lean_audit(self, modules, tie_modules=()):
        """Enumerate every theorem of `modules` (property theorems) and `tie_modules`
        (Gen = Model obligations), collect their axioms, and record one obligation per
        theorem. Also greps the whole lean/ source tree for forbidden constructs."""
        allm = list(modules) + list(tie_modules)
        src = ["import Lean"] + ["import %s" % m for m in allm]
        src.append("open Lean Elab Command in\nrun_cmd do\n  let env ← getEnv\n  for modName in [%s] do\n"
                   "    let some idx := env.getModuleIdx? modName | throwError \"no module {modName}\"\n"
                   "    let md := env.header.moduleData[idx.toNat]!\n"
                   "    for n in md.constNames do\n"
                   "      if let some (.thmInfo _) := env.find? n then\n"
                   "        if !n.isInternal then\n"
                   "          let axs ← collectAxioms n\n"
                   "          IO.println s!\"THEOREM {modName} {n} AXIOMS {axs.toList}\"\n"
                   % ", ".join("`" + m for m in allm))
        f = os.path.join(self.work, "audit.lean")
        with open(f, "w") as fh:
            fh.write("\n".join(src))
        self.checker_cmds.append("lake env lean audit.lean  # collectAxioms over every theorem of " + " ".join(allm))
        rc, out = sh(["lake", "env", "lean", f], cwd=LEAN, timeout=600)
        found = 0
        for line in out.splitlines():
            m = re.match(r"THEOREM (\S+) (\S+) AXIOMS \[(.*)\]", line)
            if not m or not m.group(2).startswith(m.group(1) + "."):
                continue  # (auto-generated equation lemmas of imported definitions are not obligations)
            if re.search(r"\.(eq_\d+|eq_def|eq_unfold|congr_simp|sizeOf_spec|injEq|inj|induct|induct_unfolding|fun_cases|fun_cases_unfolding)$", m.group(2)):
                continue  # equation / induction lemmas Lean generates for a `def` of the module: not obligations
            found += 1
            axs = [a.strip() for a in m.group(3).split(",") if a.strip()]
            bad = [a for a in axs if a not in ALLOWED_AXIOMS]
            kind = "tie" if m.group(1) in tie_modules else "property"
            self.obligations.append({"name": m.group(2), "kind": kind, "ok": not bad,
                                     "axioms": axs})
            if bad:
                self.broken_ties.append("%s uses axioms %s" % (m.group(2), bad))
        if rc != 0 or found == 0:
            self.log("axiom audit failed (rc=%s, %d theorems):\n%s" % (rc, found, out[-2000:]))
            self.broken_ties.append("axiom audit of %s did not run" % " ".join(allm))
            self.obligations.append({"name": "audit:" + ",".join(allm), "kind": "audit", "ok": False})
        # source grep
        hits = []
        for base, _, files in os.walk(os.path.join(LEAN, "Nsq")):
            for fn in files:
                if fn.endswith(".lean"):
                    hits += grep_forbidden(os.path.join(base, fn))
        for fn in os.listdir(LEAN):
            if fn.endswith(".lean"):
                hits += [h for h in grep_forbidden(os.path.join(LEAN, fn)) if "partial def" not in h]
        if hits:
            self.log("forbidden constructs in Lean sources:\n  " + "\n  ".join(hits[:20]))
            self.broken_ties.append("forbidden construct: " + hits[0])
            self.obligations.append({"name": "source-grep", "kind": "audit", "ok": False})
        return rc == 0 and found > 0 and not hits

    def lean_obligation_failed(self, name, detail=""):
        self.obligations.append({"name": name, "kind": "build", "ok": False, "detail": detail[:400]})
        self.broken_ties.append(name)

    def leanchecker(self, modules):
        self.checker_cmds.append("lake env leanchecker " + " ".join(modules))
        with Lock("lake"):
            rc, out = sh(["lake", "env", "leanchecker"] + list(modules), cwd=LEAN, timeout=1800)
        ok = rc == 0
        self.obligations.append({"name": "leanchecker:" + ",".join(modules), "kind": "recheck", "ok": ok})
        if not ok:
            self.log("leanchecker failed:\n" + out[-1500:])
            self.broken_ties.append("leanchecker " + " ".join(modules))
        return ok

    def driver(self, engine, args=(), stdin_path=None, stdin=None, timeout=600):
        binp = os.path.join(LEAN, ".lake", "build", "bin", "drv_" + engine)
        if not os.path.exists(binp):
            with Lock("lake"):
                sh(["lake", "build", "drv_" + engine], cwd=LEAN, timeout=900)
        return sh([binp] + list(args), stdin_path=stdin_path, stdin=stdin, timeout=timeout)

    def build_driver(self, engine):
        """(Re)build a driver so the executable reflects the current Model sources."""
        with Lock("lake"):
            rc, out = sh(["lake", "build", "drv_" + engine], cwd=LEAN, timeout=1200)
        if rc != 0:
            self.log("driver build failed:\n" + out[-3000:])
        return rc == 0

    # --------------------------------------------------------------- go side
    def go_test_binary(self, pkg, files, name, pkgname=None, tags="verif", race=False, timeout=900):
        """Compile the real package `pkg` (path relative to the repo) together with the
        harness files (paths relative to harness/, compiled in as zz_verif_<base>) and the
        shared helpers (harness/common/vf_common.go.tmpl, instantiated for package `pkgname`)
        via `go test -c -overlay`. Nothing is written into the repo. Returns the path of the
        test binary or None."""
        outdir = os.path.join(BUILD, "bin")
        os.makedirs(outdir, exist_ok=True)
        ov = {"Replace": {}}
        files = [f if os.path.isabs(f) else os.path.join(ROOT, "harness", f) for f in files]
        pkgname = pkgname or os.path.basename(pkg)
        common = os.path.join(self.work, "vf_common_%s.go" % name)
        with open(os.path.join(ROOT, "harness", "common", "vf_common.go.tmpl")) as fh:
            txt = fh.read().replace("PKGNAME", pkgname)
        with open(common, "w") as fh:
            fh.write(txt)
        ov["Replace"][os.path.join(REPO, pkg, "zz_verif_common_test.go")] = common
        # optional per-package helpers (harness/common/vf_common_<pkgname>.go.tmpl), e.g. vfStartNSQD for package nsqd:
        # the repo's own mustStartNSQD forces 127.0.0.1:0, the harnesses bind process-private loopback addresses
        pkgtmpl = os.path.join(ROOT, "harness", "common", "vf_common_%s.go.tmpl" % pkgname)
        if os.path.exists(pkgtmpl):
            pcommon = os.path.join(self.work, "vf_common_%s_%s.go" % (pkgname, name))
            with open(pkgtmpl) as fh:
                ptxt = fh.read().replace("PKGNAME", pkgname)
            with open(pcommon, "w") as fh:
                fh.write(ptxt)
            ov["Replace"][os.path.join(REPO, pkg, "zz_verif_common_%s_test.go" % pkgname)] = pcommon
        for src in files:
            # lint (log only): listeners belong on a process-private loopback address (BUILDING.md, "Never listen on 127.0.0.1")
            try:
                with open(src) as fh:
                    stxt = fh.read()
                for pat in ('"127.0.0.1:0"', '"localhost:0"', '"0.0.0.0:', 'httptest.NewServer(', 'httptest.NewTLSServer(',
                            'httptest.NewUnstartedServer(', 'mustStartNSQD(', 'mustStartLookupd(', 'mustStartNSQLookupd('):
                    if pat in stxt:
                        self.log("HARNESS-LINT %s uses %s: bind a private loopback address (vfLoopback/vfListen/vfHTTPServer/"
                                 "vfStartNSQD) - the checks may run in parallel" % (os.path.relpath(src, ROOT), pat))
            except OSError:
                pass
            base = os.path.basename(src)
            if not base.endswith("_test.go"):
                base = base[:-3] + "_test.go"
            ov["Replace"][os.path.join(REPO, pkg, "zz_verif_" + base)] = src
        ovp = os.path.join(self.work, "overlay_%s.json" % name)
        with open(ovp, "w") as f:
            json.dump(ov, f)
        outp = os.path.join(outdir, "%s_%d.test" % (name, os.getpid()))
        cmd = ["go", "test", "-c", "-vet=off", "-overlay", ovp, "-tags", tags, "-o", outp]
        if race:
            cmd.append("-race")
        cmd.append("./" + pkg)
        rc, out = sh(cmd, cwd=REPO, timeout=timeout)
        if rc != 0 or not os.path.exists(outp):
            self.log("go harness build failed (%s):\n%s" % (pkg, out[-3000:]))
            return None
        self._bins = getattr(self, "_bins", []) + [outp]
        return outp

    def run_cmd(self, cmd, timeout=600, env=None, cwd=None, stdin=None):
        return sh(cmd, timeout=timeout, env=env_with(env), cwd=cwd or self.work, stdin=stdin)

    # ------------------------------------------------------- correspondence
    def count_case(self, key, nontrivial=True):
        self.evaluations += 1
        if nontrivial:
            self.distinct.add(hashlib.blake2b(key.encode() if isinstance(key, str) else key,
                                              digest_size=8).digest())

    def add_sample(self, s, limit=8):
        if len(self.samples) < limit:
            self.samples.append(s)

    def diff_lines(self, impl, model, label, ops=None, max_report=5):
        """Compare two lists of canonical lines. Returns list of (index, impl, model)."""
        diffs = []
        n = max(len(impl), len(model))
        for i in range(n):
            a = impl[i] if i < len(impl) else "<missing>"
            b = model[i] if i < len(model) else "<missing>"
            if a != b:
                diffs.append((i, a, b))
                if len(diffs) >= max_report:
                    break
        self.corr.setdefault("streams", []).append({"label": label, "lines": n, "diffs": len(diffs)})
        return diffs

    # ------------------------------------------------------------- verdicts
    def write_replay(self, name, content):
        p = os.path.join(REPLAY, "%s_%s" % (self.prop, name))
        with open(p, "w") as f:
            f.write(content if isinstance(content, str) else json.dumps(content, indent=1))
        return p

    def known_findings(self):
        if self._kf is None:
            p = os.path.join(ROOT, "known_findings.json")
            self._kf = json.load(open(p)) if os.path.exists(p) else {"open": [], "fixed": []}
        return self._kf

    def violation(self, key, what, replay_content, no_input=False):
        """Report a property failure. `key` is the normalised failing input / call site;
        if known_findings.json lists (property,key) as open it is a KNOWN-FINDING."""
        for k in self.known_findings().get("open", []):
            if k["property"] == self.prop and k["key"] == key:
                line = "KNOWN-FINDING: property=%s %s" % (self.prop, k["what"])
                if line not in self.known_hits:
                    self.known_hits.append(line)
                return False
        if any(v["key"] == key for v in self.violations):
            return True  # one VIOLATION line per distinct failing input / call site
        rp = self.write_replay(re.sub(r"[^A-Za-z0-9_.-]", "_", key)[:80] + ".replay", replay_content)
        self.violations.append({"replay": rp, "what": what, "no_input": no_input, "key": key})
        return True

    def broken_without_input(self, names, detail):
        """A proof obligation / correspondence no longer checks and the search found no
        failing input: still a violation, flagged no-failing-input-found."""
        content = {"property": self.prop, "no_longer_checks": names, "detail": detail,
                   "note": "no concrete failing input found by the search phase"}
        rp = self.write_replay("broken_tie.replay.json", content)
        self.violations.append({"replay": rp, "what": "; ".join(names)[:300], "no_input": True,
                                "key": "broken-tie"})

    def finish(self, level="proof", extra_cov=None):
        for b in getattr(self, "_bins", []):
            try:
                os.remove(b)
            except OSError:
                pass
        obl = len(self.obligations)
        dis = sum(1 for o in self.obligations if o.get("ok"))
        cov = {
            "obligations": obl,
            "discharged": dis,
            "checker_cmd": " && ".join(self.checker_cmds) or "none",
            "trusted_base": self.trusted,
            "evaluations": self.evaluations,
            "distinct_nontrivial": len(self.distinct),
            "rule": self.rule,
            "samples": self.samples or [o["name"] for o in self.obligations[:5]],
            "theorems": [{"name": o["name"], "kind": o["kind"], "ok": o["ok"],
                          "axioms": o.get("axioms", [])} for o in self.obligations],
            "correspondence": self.corr,
            "known_findings_reproduced": self.known_hits,
            "broken": self.broken_ties,
            "notes": self.notes,
            "repo_tree_hash": repo_tree_hash(),
        }
        if extra_cov:
            cov.update(extra_cov)
        ev = {
            "property_id": self.prop, "tier": self.tier, "seed": self.seed, "level": level,
            "coverage": cov, "assumptions": self.assumptions,
            "wall_s": round(time.time() - self.t0, 2), "violations": len(self.violations),
        }
        tmp = os.path.join(EVID, self.prop + ".json.tmp")
        with open(tmp, "w") as f:
            json.dump(ev, f, indent=1, default=str)
        os.replace(tmp, os.path.join(EVID, self.prop + ".json"))
        for l in self.known_hits:
            print(l)
        for v in self.violations:
            print("VIOLATION property=%s replay=%s%s" % (
                self.prop, v["replay"], " no-failing-input-found" if v["no_input"] else ""))
            print("  what: " + v["what"])
        shutil.rmtree(self.work, ignore_errors=True)
        if self.violations:
            print("%s: FAIL (%d violation(s)); obligations %d/%d; %d evaluations" % (
                self.prop, len(self.violations), dis, obl, self.evaluations))
            sys.exit(1)
        print("%s: OK obligations %d/%d discharged; %d evaluations (%d distinct non-trivial); %.1fs" % (
            self.prop, dis, obl, self.evaluations, len(self.distinct), time.time() - self.t0))
        sys.exit(0)


def grep_forbidden(path):
    hits = []
    in_block = 0
    with open(path, encoding="utf-8") as f:
        for i, line in enumerate(f, 1):
            s = line
            # strip block comments (/- ... -/) and line comments
            out = ""
            j = 0
            while j < len(s):
                if s.startswith("/-", j):
                    in_block += 1
                    j += 2
                elif s.startswith("-/", j) and in_block:
                    in_block -= 1
                    j += 2
                elif in_block:
                    j += 1
                elif s.startswith("--", j):
                    break
                else:
                    out += s[j]
                    j += 1
            # ignore string literals
            out = re.sub(r'"(\\.|[^"\\])*"', '""', out)
            if FORBIDDEN_SRC.search(out):
                # `partial def` is allowed only in Driver roots (IO loops), never under Nsq/
                hits.append("%s:%d: %s" % (os.path.relpath(path, ROOT), i, line.strip()[:120]))
    return hits


def build_go2lean():
    src = os.path.join(ROOT, "tools", "go2lean")
    outp = os.path.join(BUILD, "bin", "go2lean")
    os.makedirs(os.path.dirname(outp), exist_ok=True)
    newest = max(os.path.getmtime(os.path.join(src, f)) for f in os.listdir(src))
    if not os.path.exists(outp) or os.path.getmtime(outp) < newest:
        with Lock("go2lean"):
            rc, out = sh(["go", "build", "-o", outp, "."], cwd=src, timeout=300)
            if rc != 0:
                raise SystemExit("go2lean build failed:\n" + out)
    return outp


class SplitMix64:
    """The one PRNG every python-side random choice derives from (VERIF_SEED)."""
    def __init__(self, seed):
        self.s = seed & 0xFFFFFFFFFFFFFFFF

    def next(self):
        self.s = (self.s + 0x9E3779B97F4A7C15) & 0xFFFFFFFFFFFFFFFF
        z = self.s
        z = ((z ^ (z >> 30)) * 0xBF58476D1CE4E5B9) & 0xFFFFFFFFFFFFFFFF
        z = ((z ^ (z >> 27)) * 0x94D049BB133111EB) & 0xFFFFFFFFFFFFFFFF
        return z ^ (z >> 31)

    def below(self, n):
        return self.next() % n if n > 0 else 0

    def choice(self, xs):
        return xs[self.below(len(xs))]
