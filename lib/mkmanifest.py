#!/usr/bin/env python3
"""Assemble MANIFEST.json from manifest.d/*.json and known_findings.json from known_findings.d/*.json."""
import glob, json, os
ROOT = os.path.dirname(os.path.dirname(os.path.abspath(__file__)))
base = json.load(open(os.path.join(ROOT, "manifest.d", "_base.json")))
checks, na = [], []
for f in sorted(glob.glob(os.path.join(ROOT, "manifest.d", "C*.json"))):
    d = json.load(open(f))
    if "not_applicable" in d:
        na.append({"property_id": d["property_id"], "reason": d["not_applicable"]})
        continue
    pid = d["property_id"]
    d.setdefault("quick_cmd", "./check %s --tier quick" % pid)
    d.setdefault("thorough_cmd", "./check %s --tier thorough" % pid)
    d.setdefault("evidence_file", "evidence/%s.json" % pid)
    d.setdefault("replay_cmd_template", "./check %s --replay {path}" % pid)
    checks.append(d)
claimed = {c["property_id"] for c in checks} | {n["property_id"] for n in na}
for line in open(os.path.join(ROOT, "properties.jsonl")):
    pid = json.loads(line)["id"]
    if pid not in claimed:
        na.append({"property_id": pid, "reason": "check not built yet (work in progress; see DESIGN.md section 5 for the planned theorem and tie)"})
base["checks"] = checks
base["not_applicable"] = sorted(na, key=lambda x: x["property_id"])
json.dump(base, open(os.path.join(ROOT, "MANIFEST.json"), "w"), indent=1)
kf = {"open": [], "fixed": []}
for f in sorted(glob.glob(os.path.join(ROOT, "known_findings.d", "*.json"))):
    d = json.load(open(f))
    kf["open"] += d.get("open", [])
    kf["fixed"] += d.get("fixed", [])
json.dump(kf, open(os.path.join(ROOT, "known_findings.json"), "w"), indent=1)
print("MANIFEST.json: %d checks, %d not_applicable; known_findings.json: %d open, %d fixed" % (
    len(checks), len(na), len(kf["open"]), len(kf["fixed"])))
