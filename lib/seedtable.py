#!/usr/bin/env python3
"""Write docs/SEEDED.md: every seeded breaking change, what it needs, and which check caught it how."""
import glob, json, os
ROOT = os.path.dirname(os.path.dirname(os.path.abspath(__file__)))
rows = []
for d in sorted(glob.glob(os.path.join(ROOT, "seeded", "*"))):
    mp = os.path.join(d, "meta.json")
    if not os.path.exists(mp):
        continue
    m = json.load(open(mp))
    name = os.path.basename(d)
    verdict, how = "not run", ""
    if m.get("obsolete"):
        verdict, how = "obsolete", "no longer applies since fix commit %s" % m["obsolete"]["since"]
    for tier in ("quick", "thorough"):
        rp = os.path.join(d, "result_%s.json" % tier)
        if not os.path.exists(rp) or m.get("obsolete"):
            continue
        r = json.load(open(rp))
        for x in r["runs"]:
            if x["caught"]:
                concrete = [l for l in x["lines"] if l.startswith("VIOLATION") and "no-failing-input-found" not in l]
                what = [l.strip()[6:] for l in x["lines"] if l.strip().startswith("what:")]
                verdict = "caught (%s, %ss)" % (tier, int(x["wall_s"]))
                how = ("concrete replay: " if concrete else "broken tie/correspondence only (no-failing-input-found): ") + (what[0][:160] if what else "")
                break
            elif verdict in ("not run",):
                verdict = "MISSED (%s)" % tier
        if verdict.startswith("caught"):
            break
    rows.append((name, m.get("what", ""), m.get("needs_to_manifest", ""), verdict, how))
with open(os.path.join(ROOT, "docs", "SEEDED.md"), "w") as f:
    f.write("# Seeded breaking changes and the checks that catch them\n\n"
            "Each change was written by an independent sub-agent that saw only the property text and a scratch worktree\n"
            "(nothing from /verif), compiles, passes the repository's own tests, and comes with a demonstration that fails with\n"
            "it and passes without it (confirmed by `lib/seedconfirm.sh`). Verdicts come from `lib/seedrun.py` (the registered\n"
            "check run against a scratch worktree with the patch applied).\n\n"
            "| id | change | needs to manifest | verdict | how |\n|---|---|---|---|---|\n")
    for r in rows:
        f.write("| %s | %s | %s | %s | %s |\n" % tuple(str(x).replace("|", "/").replace("\n", " ") for x in r))
    c = sum(1 for r in rows if r[3].startswith("caught"))
    f.write("\n%d of %d applicable seeded changes caught.\n" % (c, sum(1 for r in rows if r[3] != "obsolete")))
print("docs/SEEDED.md written (%d rows)" % len(rows))
