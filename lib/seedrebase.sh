#!/bin/bash
# seedrebase.sh <name> <pkg> [flags]: re-create seeded/<name>/patch.diff on current /repo HEAD with a 3-way apply,
# re-confirm (suite passes with it, demo fails with it), store.
set -u
export GOFLAGS=-mod=mod GOPROXY=off GOSUMDB=off GOTOOLCHAIN=local
N=$1; PKG=$2; shift 2; EXTRA="$*"
WT=/tmp/rb_$N; git -C /repo worktree remove --force $WT 2>/dev/null; git -C /repo worktree add -q --detach $WT HEAD || exit 1
cd $WT; git apply -3 /verif/seeded/$N/patch.diff || { echo "3-way apply failed"; exit 1; }
git diff --cached > /tmp/$N.diff; go build ./... || exit 1
DEMOS=$(ls /verif/seeded/$N | grep '_test.go')
for f in $DEMOS; do cp /verif/seeded/$N/$f $PKG/; done
timeout 600 go test -vet=off -count=1 $EXTRA -run 'Demo|demo' ./$PKG > /tmp/$N.demo.log 2>&1; RCD=$?
for f in $DEMOS; do rm -f $PKG/$f; done
timeout 1200 go test -vet=off -count=1 ./nsqd ./nsqlookupd ./nsqadmin ./internal/... ./apps/... > /tmp/$N.suite.log 2>&1; RCS=$?
echo "$N: demo-with-patch rc=$RCD (want !=0) suite rc=$RCS (want 0)"
if [ $RCD -ne 0 ] && [ $RCS -eq 0 ]; then cp /tmp/$N.diff /verif/seeded/$N/patch.diff; python3 - $N <<'PY'
import json,sys,subprocess
p='/verif/seeded/%s/meta.json'%sys.argv[1]; m=json.load(open(p))
head=subprocess.run(['git','-C','/repo','rev-parse','--short','HEAD'],capture_output=True,text=True).stdout.strip()
m['rebased']="patch.diff re-created with `git apply -3` on /repo %s (a fix commit touched the same function); re-confirmed: demo fails with it, suite passes"%head
json.dump(m,open(p,'w'),indent=1)
PY
echo REBASED; fi
cd /; git -C /repo worktree remove --force $WT
