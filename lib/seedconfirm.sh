#!/bin/bash
# seedconfirm.sh <Cxx> <mN> <pkgdir> [extra go test flags]
# Confirms a seeded change in the scratch worktree /tmp/seed/<Cxx>: existing tests pass with the
# patch, the demonstration fails with it and passes without it. On success stores it under
# /verif/seeded/<Cxx>-<mN>/ (patch.diff, demo, README, meta.json).
set -u
export GOFLAGS=-mod=mod GOPROXY=off GOSUMDB=off GOTOOLCHAIN=local
P=$1; M=$2; PKG=$3; shift 3; EXTRA="$*"
WT=/tmp/seed/$P; OUT=$WT/out/$M; LOG=/tmp/seed/confirm_${P}_${M}.log
cd $WT || exit 2
git checkout -q -- . ; git clean -qfd -e out
git apply --check $OUT/patch.diff || { echo "patch does not apply"; exit 2; }
DEMOS=$(ls $OUT | grep -v 'patch.diff\|README' )
run_demo() { for f in $DEMOS; do cp $OUT/$f $WT/$PKG/; done; timeout 600 go test -vet=off -count=1 $EXTRA -run 'Demo|demo' ./$PKG > $LOG.$1 2>&1; rc=$?; for f in $DEMOS; do rm -f $WT/$PKG/$f; done; return $rc; }
run_demo clean; RC_CLEAN=$?
git apply $OUT/patch.diff
timeout 1200 go test -vet=off -count=1 ./nsqd ./nsqlookupd ./nsqadmin ./internal/... ./apps/... > $LOG.suite 2>&1; RC_SUITE=$?
run_demo patched; RC_PATCHED=$?
git checkout -q -- . ; git clean -qfd -e out
echo "$P $M: demo-on-clean rc=$RC_CLEAN (want 0)  suite-with-patch rc=$RC_SUITE (want 0)  demo-with-patch rc=$RC_PATCHED (want !=0)"
if [ $RC_CLEAN -eq 0 ] && [ $RC_SUITE -eq 0 ] && [ $RC_PATCHED -ne 0 ]; then
  D=/verif/seeded/$P-$M; mkdir -p $D; cp $OUT/* $D/
  python3 - "$P" "$M" "$PKG" "$EXTRA" <<'PY'
import json,sys,os
p,m,pkg,extra=sys.argv[1:5]
d="/verif/seeded/%s-%s"%(p,m)
readme=open(os.path.join(d,"README.md")).read() if os.path.exists(os.path.join(d,"README.md")) else ""
meta={"property":p,"id":"%s-%s"%(p,m),"demo_package":pkg,"demo_flags":extra,
      "confirmed":{"suite_passes_with_patch":True,"demo_fails_with_patch":True,"demo_passes_without_patch":True,
                   "how":"lib/seedconfirm.sh %s %s %s %s in scratch worktree /tmp/seed/%s"%(p,m,pkg,extra,p)},
      "needs_to_manifest":"see README.md","checks":[p]}
json.dump(meta,open(os.path.join(d,"meta.json"),"w"),indent=1)
PY
  echo "CONFIRMED -> $D"
else
  echo "NOT CONFIRMED (logs $LOG.*)"; tail -5 $LOG.clean $LOG.patched 2>/dev/null | tail -20
fi
