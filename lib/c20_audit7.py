"""C20 audit round 7, sub-builder c20b (items C22, C14, C23, C31 n2n part): nsq_to_nsq histories / give-up replay on the
real Consumer, independent JSON-filter oracle, to_nsq refused-record leg on the real binary, nsq_to_http GET endpoint leg.
Called from props/C20.py; additive to the existing C20 legs (docs/C20_audit7_b.md)."""
import json
import os
import re
import framework as fw

TIE = ["Nsq.Tie.ToolsAudit7"]
PROPS = ["Nsq.Props.C20N2NTool", "Nsq.Props.C20Refuse", "Nsq.Props.C20Get"]
N2N_FILES = ["e8/n2n_giveup_test.go"]
TONSQ_FILES = ["e8/tonsq_refuse_test.go"]
GIVEUP_KEY = "gives-up-after-max-attempts"
GET_KEY = "get-template-stray-percent"


def unhex(s):
    return b"" if s == "-" else bytes.fromhex(s)


def hexs(b):
    return b.hex() if b else "-"


# ------------------------------------------------------------------ shared: ops/impl through the driver

def _corr(ctx, out, name, label, corr_broken, log, nontrivial=lambda o, i: True, violate=None):
    """diff <name>.impl against the model's answers to <name>.ops; returns (ops, impl, model)"""
    opsf = os.path.join(out, name + ".ops")
    if not os.path.exists(opsf):
        corr_broken.append("%s wrote no ops" % label)
        return [], [], []
    ops = open(opsf).read().splitlines()
    impl = open(os.path.join(out, name + ".impl")).read().splitlines()
    rc, mout = ctx.driver("e8", stdin_path=opsf)
    model = mout.splitlines()
    for o, i in zip(ops, impl):
        ctx.count_case(o + "|" + i, nontrivial=nontrivial(o, i))
    hist = {}
    for l in log.splitlines():
        if l.startswith("HIST "):
            w = l.split()
            hist[" ".join(w[1:-1])] = int(w[-1])
    ctx.corr.setdefault("audit7_b", {})[name] = {"histogram": hist, "lines": len(ops),
                                                  "oracle": [l for l in log.splitlines() if l.startswith("ORACLE-DONE")]}
    if ops:
        ctx.add_sample({"op": ops[0][:160], "impl": impl[0][:160]})
    diffs = ctx.diff_lines(impl, model, name)
    for idx, a, b in diffs[:3]:
        ctx.log("%s model/impl disagree on `%s`:\n   impl =%s\n   model=%s" % (label, ops[idx][:200], a[:240], b[:240]))
        if violate:
            violate(ops[idx], a, b)
    if diffs:
        corr_broken.append("correspondence %s" % label)
    return ops, impl, model


def _oracle_fails(ctx, log, name):
    for l in log.splitlines():
        if l.startswith("ORACLE-FAIL"):
            what = l[len("ORACLE-FAIL "):]
            key = name + "-oracle:" + re.sub(r"[0-9a-f]{8,}|\d+", "N", what)[:70]
            ctx.violation(key, "%s: %s" % (name, what[:500]), "seed %s\n%s\n" % (ctx.seed, what))


# ------------------------------------------------------------------ C31: independent JSON stage over the INPUT body

def _go_marshal(v):
    """encoding/json.Marshal of what nsq_to_nsq's filterMessage builds, for the values the generator produces"""
    def conv(x):
        if isinstance(x, bool) or x is None or isinstance(x, str):
            return x
        if isinstance(x, float) and x == int(x) and abs(x) < 2 ** 53:
            return int(x)          # "avoid printing int as float": int64(tvalue) when exact
        if isinstance(x, dict):
            return {k: convnest(y) for k, y in x.items()}
        if isinstance(x, list):
            return [convnest(y) for y in x]
        return x

    def convnest(x):               # nested values stay float64 for Go: 3 prints as 3, 2.5 as 2.5 (same text here)
        return conv(x)
    return json.dumps({k: conv(x) for k, x in v.items()}, separators=(",", ":"), sort_keys=True, ensure_ascii=False).encode()


def expected_filter(kind, value, body):
    """nsq_to_nsq HandleMessage's JSON stage, written from the tool's documentation (--require-json-field k,
    --require-json-value, --whitelist-json-field k,n) over the input body: 'drop' | 'backoff' | 'pass:<hex>'"""
    if kind == "none":
        return "pass:" + hexs(body)
    try:
        js = json.loads(body.decode("utf-8"))
    except (ValueError, UnicodeDecodeError):
        return "drop"              # not JSON: logged, finished, not forwarded
    if js is None:
        js = {}                    # Go: `null` decodes into a nil map without error
    if not isinstance(js, dict):
        return "drop"
    if kind in ("require", "requireval"):
        if "k" not in js:
            return "backoff" if kind == "requireval" else "drop"
        if kind == "requireval":
            v = js["k"]
            want = value.decode()
            if isinstance(v, str):
                if v != want:
                    return "drop"
            else:
                try:
                    num = float(want)
                except ValueError:
                    return "drop"
                if isinstance(v, bool) or not isinstance(v, (int, float)) or float(v) != num:
                    return "drop"
        return "pass:" + hexs(body)
    if kind == "whitelist":
        return "pass:" + hexs(_go_marshal({k: js[k] for k in ("k", "n") if k in js}))
    return "?"


def filter_oracle(ctx, log, name, corr_broken):
    """FILTER lines of the n2n harnesses: filter configuration + input body + what the implementation did + what the
    harness fed to the model. The expectation is computed here from the INPUT body only."""
    n = bad = 0
    kinds = {}
    for l in log.splitlines():
        if not l.startswith("FILTER "):
            continue
        kv = dict(x.split("=", 1) for x in l.split()[1:])
        body = unhex(kv["body"])
        want = expected_filter(kv["filter"], unhex(kv["value"]) if kv["value"] != "-" else b"", body)
        impl, model = kv["impl"], kv["model"]
        n += 1
        ctx.evaluations += 1
        kinds[kv["filter"] + ":" + want.split(":")[0]] = kinds.get(kv["filter"] + ":" + want.split(":")[0], 0) + 1
        if impl == "unseen":
            continue
        if want.startswith("pass:") and impl == "drop":
            bad += 1
            ctx.violation("n2n-filter-dropped-passing-message",
                          "nsq_to_nsq (%s, filter %s): message %s with body %s passes the configured JSON filter but was "
                          "FINISHED without being published" % (kv["leg"], kv["filter"], kv["id"], kv["body"]), l + "\n")
        elif want.startswith("pass:") and impl.startswith("pass:") and impl != want:
            bad += 1
            if kv["filter"] in ("none", "require", "requireval"):
                ctx.violation("n2n-body-modified", "nsq_to_nsq (%s, filter %s): message %s was published as %s, input body %s"
                              % (kv["leg"], kv["filter"], kv["id"], impl[5:], kv["body"]), l + "\n")
            else:
                corr_broken.append("independent filter oracle (%s): whitelist output %s, expected %s" % (name, impl[5:60], want[5:60]))
        elif not want.startswith("pass:") and impl.startswith("pass:"):
            bad += 1
            corr_broken.append("independent filter oracle (%s): message %s published although the filter says %s" % (name, kv["id"], want))
        elif want == "drop" and impl == "req" or want == "backoff" and impl == "drop":
            bad += 1
            corr_broken.append("independent filter oracle (%s): message %s answered %s, the filter says %s" % (name, kv["id"], impl, want))
        # what the harness fed to the model must be the independent expectation too (unless PublishAsync failed at once)
        if impl != "req" and model.split(":")[0] != want.split(":")[0]:
            corr_broken.append("independent filter oracle (%s): model input %s, expected %s" % (name, model[:40], want[:40]))
    if n:
        ctx.corr.setdefault("audit7_b", {}).setdefault("filter_oracle", {})[name] = {"lines": n, "mismatches": bad, "expected": kinds}


# ------------------------------------------------------------------ C22 / C31: nsq_to_nsq histories and the give-up replay

def n2n_hist(ctx, binp, corr_broken):
    out = os.path.join(ctx.work, "n2n_hist")
    os.makedirs(out, exist_ok=True)
    rc, log = ctx.run_cmd([binp, "-test.run", "^TestVerifN2NHist$", "-test.count=1"], timeout=ctx.budget(300, 1200),
                          env={"VERIF_SEED": ctx.seed, "VERIF_N": ctx.budget(60, 600), "VERIF_OUT": out})
    _oracle_fails(ctx, log, "n2n_hist")
    if "ORACLE-DONE" not in log:
        ctx.log("n2n history harness failed:\n%s" % log[-1500:])
        corr_broken.append("n2n history harness exit %s" % rc)
        return

    def violate(op, a, b):
        fi, fm = set(re.findall(r"fin:(\d+)", a)), set(re.findall(r"fin:(\d+)", b))
        if fi - fm:
            ctx.violation("n2n_hist-corr:early-fin", "nsq_to_nsq finished message(s) %s where the model (finish only the "
                          "transaction the destination accepted) does not (history `%s`)" % (sorted(fi - fm), op[:160]),
                          op + "\nimpl: " + a + "\nmodel: " + b + "\n")
    _corr(ctx, out, "n2n_hist", "n2n histories (several outstanding transactions)", corr_broken, log,
          nontrivial=lambda o, i: ";r," in o, violate=violate)
    filter_oracle(ctx, log, "n2n_hist", corr_broken)


def giveup_n2n(ctx, binp, corr_broken):
    """known finding replay, nsq_to_nsq half: real Consumer (configuration of main(): max_attempts 5) in front of the real
    handler + responder; destination stub answers E_PUB_FAILED"""
    out = os.path.join(ctx.work, "n2n_giveup")
    os.makedirs(out, exist_ok=True)
    rc, log = ctx.run_cmd([binp, "-test.run", "^TestVerifN2NGiveUp$", "-test.count=1"], timeout=180,
                          env={"VERIF_SEED": ctx.seed, "VERIF_OUT": out})
    rows = [dict(kv.split("=") for kv in l.split()[1:]) for l in log.splitlines() if l.startswith("GIVEUP tool=nsq_to_nsq")]
    if len(rows) < 4:
        ctx.log("give-up replay (nsq_to_nsq) did not run:\n" + log[-800:])
        corr_broken.append("give-up replay (TestVerifN2NGiveUp)")
        return
    ctx.corr["give_up_n2n"] = rows
    _corr(ctx, out, "n2n_giveup", "give-up rule nsq_to_nsq (N2N.consume)", corr_broken, log)
    for r in rows:
        mx, att = int(r["max_attempts"]), int(r["attempts"])
        ctx.evaluations += 1
        model_gives_up = mx > 0 and att > mx          # Nsq.Model.Relay.Http.shouldFail, used by N2N.consume
        observed = (r["response"] == "FIN" and r["requests"] == "0")
        if observed != model_gives_up or (not observed and (r["response"] != "REQ" or r["requests"] != "1")):
            corr_broken.append("correspondence give-up rule nsq_to_nsq attempts=%d: %s" % (att, r))
        if r["response"] == "FIN" and r["requests"] != "0":
            ctx.violation("n2n-fin-after-reject", "nsq_to_nsq finished a message although the destination answered E_PUB_FAILED: %s" % r,
                          "%s\n" % r)
        if observed:   # property: a failing destination must lead to Requeue, never to Finish
            ctx.violation(GIVEUP_KEY,
                          "nsq_to_nsq finished a message (attempts=%d, max_attempts=%d) without publishing it while the "
                          "destination answers E_PUB_FAILED" % (att, mx),
                          "tool=nsq_to_nsq max_attempts=%d attempts=%d destination=E_PUB_FAILED\n" % (mx, att))


# ------------------------------------------------------------------ C14: to_nsq against a destination that refuses a record

def tonsq_refuse(ctx, b_tonsq, corr_broken):
    tool = os.path.join(ctx.work, "to_nsq_real")          # built by c20_opts.tonsq_e2e from the tree under test
    if not os.path.exists(tool):
        import c20_opts
        tool = c20_opts.build_tool(ctx, "apps/to_nsq", "to_nsq_real")
        if not tool:
            return
    out = os.path.join(ctx.work, "tonsq_refuse")
    os.makedirs(out, exist_ok=True)
    rc, log = ctx.run_cmd([b_tonsq, "-test.run", "^TestVerifToNsqRefuse$", "-test.count=1"], timeout=ctx.budget(300, 1200),
                          env={"VERIF_SEED": ctx.seed, "VERIF_N": ctx.budget(30, 400), "VERIF_OUT": out, "VF_E8_TONSQ_BIN": tool})
    for l in log.splitlines():
        if l.startswith("ORACLE-FAIL"):
            what = l[len("ORACLE-FAIL "):]
            key = "to_nsq-refusal:" + ("exit-0-after-refusal" if "exit status 0 although" in what else
                                       "records-after-refusal" if "after a refusal" in what else
                                       re.sub(r"[0-9a-f]{6,}|\d+", "N", what)[:40])
            ctx.violation(key, "to_nsq (real binary, refusing destination): " + what[:600], "seed %s\n%s\n" % (ctx.seed, what))
    if "ORACLE-DONE" not in log:
        ctx.log("to_nsq refusal harness failed:\n%s" % log[-1500:])
        corr_broken.append("to_nsq refusal harness exit %s" % rc)
        return
    ctx.corr.setdefault("audit7_b", {})["tonsq_refuse_1MiB"] = [l for l in log.splitlines() if l.startswith("REFUSE-BIG")]
    _corr(ctx, out, "tonsq_refuse", "to_nsq refusal (Nsq.Model.ToNsqRefuse.run)", corr_broken, log,
          nontrivial=lambda o, i: i.startswith("exit=1"))


# ------------------------------------------------------------------ C23: nsq_to_http GET request target

def _py_clean(t):
    """every % of the template is part of %% or of the single %s (scan left to right); returns (clean, pieces)"""
    pieces, i, nargs = [], 0, 0
    while i < len(t):
        if t[i:i + 1] == b"%":
            nxt = t[i + 1:i + 2]
            if nxt == b"s":
                pieces.append(None)
                nargs += 1
            elif nxt == b"%":
                pieces.append(b"%")
            else:
                return False, None
            i += 2
        else:
            pieces.append(t[i:i + 1])
            i += 1
    return nargs == 1, pieces


def n2h_get(ctx, corr_broken):
    import urllib.parse
    b = ctx.go_test_binary("apps/nsq_to_http", ["e8/n2h_get_test.go"], "e8n2hget", pkgname="main")
    if not b:
        ctx.broken_ties.append("harness e8/n2h_get_test.go does not compile against the current tree")
        return
    out = os.path.join(ctx.work, "n2h_get")
    os.makedirs(out, exist_ok=True)
    rc, log = ctx.run_cmd([b, "-test.run", "^TestVerifN2HGet$", "-test.count=1"], timeout=ctx.budget(300, 1200),
                          env={"VERIF_SEED": ctx.seed, "VERIF_N": ctx.budget(150, 3000), "VERIF_OUT": out})
    if "ORACLE-DONE" not in log:
        ctx.log("n2h GET harness failed:\n%s" % log[-1500:])
        corr_broken.append("n2h GET harness exit %s" % rc)
        return
    opsf = os.path.join(out, "n2h_get.ops")
    ops = open(opsf).read().splitlines()
    impl = open(os.path.join(out, "n2h_get.impl")).read().splitlines()
    rc2, mout = ctx.driver("e8", stdin_path=opsf)
    model = mout.splitlines()
    stats = {"clean": 0, "unclean": 0, "unclean_accepted_with_junk": 0, "unclean_error": 0, "byte_values": set()}
    ndiff = 0
    junk = []
    for idx, (o, i) in enumerate(zip(ops, impl)):
        w = o.split()
        tmpl, body = unhex(w[2]), unhex(w[3])
        m = model[idx] if idx < len(model) else "missing"
        ctx.count_case(o, nontrivial=len(body) > 0)
        ok_py, pieces = _py_clean(tmpl)
        saw = i.split("uri=")[1]
        if (m != "main=1 unclean") != ok_py:
            corr_broken.append("GET template cleanliness: model %s, python %s for %r" % (m[:30], ok_py, tmpl))
            continue
        if not ok_py:
            stats["unclean"] += 1
            if saw not in ("none",) and not saw.startswith("many") and b"%!" in unhex(saw):
                stats["unclean_accepted_with_junk"] += 1
                junk.append((tmpl, body, unhex(saw)))
            else:
                stats["unclean_error"] += 1
            continue
        stats["clean"] += 1
        stats["byte_values"].update(body)
        # correspondence (model) and the independent rendering (python urllib)
        if i != m:
            ndiff += 1
            if ndiff <= 3:
                ctx.log("n2h GET model/impl disagree on `%s`:\n   impl =%s\n   model=%s" % (o[:200], i[:240], m[:240]))
        want = b"".join(urllib.parse.quote_plus(body, safe="").encode() if x is None else x for x in pieces)
        got = None if saw == "none" or saw.startswith("many") else unhex(saw)
        if got != want:
            ctx.violation("n2h-get-endpoint", "nsq_to_http GET: template %r, body %s: the destination saw %r, expected %r"
                          % (tmpl.decode("latin1"), hexs(body), got, want), o + "\nimpl: " + i + "\n")
            continue
        # the destination's view: strip the template's fixed text, unquote → the body, byte for byte
        k = pieces.index(None)
        pre, suf = b"".join(pieces[:k]), b"".join(pieces[k + 1:])
        mid = got[len(pre):len(got) - len(suf)] if suf else got[len(pre):]
        if urllib.parse.unquote_to_bytes(mid.replace(b"+", b" ")) != body:
            ctx.violation("n2h-get-body", "nsq_to_http GET: template %r: the destination decodes %r, the body is %s"
                          % (tmpl.decode("latin1"), mid, hexs(body)), o + "\nimpl: " + i + "\n")
    if ndiff:
        corr_broken.append("correspondence n2h GET endpoint (%d lines)" % ndiff)
    stats["byte_values"] = len(stats["byte_values"])
    ctx.corr.setdefault("audit7_b", {})["n2h_get"] = dict(stats, lines=len(ops),
                                                           junk_samples=[(t.decode("latin1"), s.decode("latin1")) for t, _, s in junk[:4]])
    if ops:
        ctx.add_sample({"op": ops[0][:160], "impl": impl[0][:160]})
    # open finding: a template that passes main()'s check, is not clean, and whose junk request the destination ACCEPTED
    # (Publish returned nil → the message is finished)
    for tmpl, body, saw in junk[:1]:
        ctx.violation(GET_KEY, "nsq_to_http --get %r (passes main()'s check): request target %r was sent and accepted for body %s"
                      % (tmpl.decode("latin1"), saw.decode("latin1"), hexs(body)),
                      "template=%s body=%s saw=%s\n" % (tmpl.decode("latin1"), hexs(body), saw.decode("latin1")))


def declare(ctx):
    ctx.trusted += [
        "audit round 7: go-nsq Producer fails every transaction of a dropped connection and answers transactions of one "
        "connection in order; the gated destination stub of harness/e8/n2n_giveup_test.go; python json / urllib.parse as "
        "independent oracles (JSON stage over the input body, query escaping)",
    ]
    ctx.assumptions += [
        "get_endpoint_clean / get_body_recoverable: the --get template is clean (every % belongs to the single %s or to a %%); "
        "main()'s check strings.Count(addr, \"%s\") == 1 does not guarantee it (get_main_check_sufficient_false, open finding "
        "get-template-stray-percent, replayed on the real GetPublisher)",
        "to_nsq_records / to_nsq_records_if_accepted: every destination acknowledges every record (otherwise the tool is "
        "fail-stop: exit status 1 at the first refused record, later records are not published: "
        "to_nsq_published_until_refusal, to_nsq_records_unconditional_false; replayed on the real binary)",
        "n2n_tool_fin_only_after_accept_partial: the consumer library never gave up on a delivery of the history "
        "(max_attempts = 0 or every attempts <= max_attempts); refuted otherwise (n2n_tool_fin_only_after_accept_false, "
        "replayed on the real Consumer by TestVerifN2NGiveUp)",
    ]
