#!/usr/bin/env python3
"""Run the registered checks against the seeded breaking changes in seeded/<id>/.

  lib/seedrun.py [--tier quick|thorough] [name ...]

For each seeded change: a scratch worktree of /repo (outside /repo and /verif) gets the patch,
a scratch clone of /verif (so that evidence/ of the real tree is never overwritten by a
mutated run) runs `VERIF_REPO=<worktree> ./check <property>`, the verdict is recorded in
seeded/<id>/result.json (caught: exit 1 + VIOLATION line; which line), and the scratch trees are
removed. The unchanged-tree behaviour is not touched.
"""
import json
import os
import shutil
import subprocess
import sys
import time

ROOT = os.path.dirname(os.path.dirname(os.path.abspath(__file__)))
SCR = os.environ.get("SEEDRUN_DIR", "/tmp/seedrun")


def sh(cmd, **kw):
    return subprocess.run(cmd, shell=isinstance(cmd, str), stdout=subprocess.PIPE, stderr=subprocess.STDOUT,
                          text=True, **kw)


def main():
    args = sys.argv[1:]
    tier = "quick"
    if args[:1] == ["--tier"]:
        tier = args[1]
        args = args[2:]
    names = args or sorted(d for d in os.listdir(os.path.join(ROOT, "seeded"))
                           if os.path.exists(os.path.join(ROOT, "seeded", d, "patch.diff")))
    os.makedirs(SCR, exist_ok=True)
    vclone = os.path.join(SCR, "verif")
    if os.path.exists(vclone):
        shutil.rmtree(vclone)
    # scratch copy of the committed + uncommitted /verif (without build output), then reuse the
    # Lean build cache by copying it
    sh(["rsync", "-a", "--exclude", ".build", "--exclude", ".git", "--exclude", "lean/.lake", ROOT + "/", vclone + "/"])
    if os.path.exists(os.path.join(ROOT, "lean", ".lake")):
        sh(["cp", "-r", os.path.join(ROOT, "lean", ".lake"), os.path.join(vclone, "lean", ".lake")])
    summary = []
    for name in names:
        d = os.path.join(ROOT, "seeded", name)
        meta = json.load(open(os.path.join(d, "meta.json")))
        props = meta.get("checks") or [meta["property"]]
        if meta.get("obsolete"):
            print("%-28s OBSOLETE (%s)" % (name, meta["obsolete"]["since"]))
            continue
        wt = os.path.join(SCR, "repo_" + name)
        sh(["git", "-C", "/repo", "worktree", "remove", "--force", wt])
        r = sh(["git", "-C", "/repo", "worktree", "add", "--detach", wt, "HEAD"])
        r = sh(["git", "-C", wt, "apply", os.path.join(d, "patch.diff")])
        res = {"name": name, "tier": tier, "applied": r.returncode == 0, "runs": []}
        if r.returncode != 0:
            res["apply_error"] = r.stdout[-500:]
        else:
            for p in props:
                t0 = time.time()
                env = dict(os.environ, VERIF_REPO=wt, VERIF_TIER=tier)
                rr = sh(["./check", p, "--tier", tier], cwd=vclone, env=env, timeout=3600)
                viol = [l for l in rr.stdout.splitlines() if l.startswith("VIOLATION") or l.startswith("  what:")]
                res["runs"].append({"property": p, "exit": rr.returncode, "caught": rr.returncode == 1 and bool(viol),
                                    "lines": viol[:6], "wall_s": round(time.time() - t0, 1)})
        res["caught"] = any(x["caught"] for x in res["runs"])
        json.dump(res, open(os.path.join(d, "result_%s.json" % tier), "w"), indent=1)
        summary.append((name, res["caught"], [(x["property"], x["exit"]) for x in res["runs"]]))
        sh(["git", "-C", "/repo", "worktree", "remove", "--force", wt])
        print("%-28s %s %s" % (name, "CAUGHT" if res["caught"] else "MISSED", summary[-1][2]), flush=True)
    shutil.rmtree(vclone, ignore_errors=True)
    print("caught %d / %d" % (sum(1 for s in summary if s[1]), len(summary)))


if __name__ == "__main__":
    main()
