"""C20 audit round 7, item C3 (builder tools2): nsq_to_http and HTTP redirects.
The REAL nsq_to_http binary (main()'s http.Client, go-nsq's Consumer) between a source stub nsqd and scripted
HTTP endpoints; model Nsq.Model.RelayRedirect (driver op `rd`), theorems Nsq.Props.C20Redirect, tie
Nsq.Tie.ToolsRelayRedirect (go2lean kind `clientlit`). Called from props/C20.py."""
import os
import re
import framework as fw

TIE = ["Nsq.Tie.ToolsRelayRedirect"]
PROPS = ["Nsq.Props.C20Redirect"]
SPEC = "e8_relay_redirect"
KEY = "follows-redirect-drops-body"
CORPUS = os.path.join(fw.ROOT, "corpus", "C20", "known", "redirect_drops_body.txt")


CLIENTS = {0: "checkNever (fix F45 = /repo 2a7fc8c alone, F45b reverted: no redirect is followed)",
           2: "checkSameMethod (fix F45b = /repo 833e42b: redirects that keep the method are followed, at most ten requests)",
           1: "checkDefault (no CheckRedirect: net/http follows everything)", 3: "follows 302 but not 307 (no model)"}
ACCEPTED = (2,)   # F45b = /repo 833e42b is committed: Tie.ToolsRelayRedirect.n2hClient_shape accepts checkSameMethod only


def declare(ctx):
    ctx.trusted += [
        "net/http client redirect rules (Client.do / redirectBehavior: 301/302/303 -> GET without body, 307/308 keep method and "
        "body (GetBody of the bytes.Buffer), the follow-up URL is the Location, no Location -> answer returned, CheckRedirect asked "
        "before every follow-up request with via = the requests made so far, ErrUseLastResponse -> the 3xx answer is returned, "
        "defaultCheckRedirect = 10-redirect stop) as modelled in Nsq.Model.RelayRedirect.doReq - compared with the real client inside "
        "the real nsq_to_http binary on every run; the publishers use only the methods GET and POST (the translated CheckRedirect "
        "sees the method as `is it POST`); go2lean kind `clientlit` (translation of the CheckRedirect function)",
    ]
    ctx.assumptions += [
        "http_fin_only_after_body_accepted_this_tree: the client is Tie.ToolsRelayRedirect.treeCheck, the CheckRedirect function of "
        "main()'s http.Client TRANSLATED by go2lean; n2hClient_shape accepts exactly one function: checkSameMethod (F45b = /repo 833e42b, "
        "committed: follow iff net/http kept the method and fewer than ten requests were made; the client of F45 = 2a7fc8c alone, "
        "checkNever, is no longer accepted: never_is_not_accepted); the real binary is probed (POST answered 307 / 302 with a Location: does a second "
        "request arrive?) and must be the translated client; every `rd` op is replayed with the translated client. POST publisher: "
        "no hypothesis (http_fin_only_after_body_accepted: any method-preserving client, every world). GET publisher: "
        "hypothesis KeepsQuery - every Location answered to a GET repeats its query string, which carries the message "
        "(http_fin_only_after_body_accepted_get_partial; without it ..._get_false: GET ?d=p -> 302 Location: /elsewhere -> 200 -> FIN); "
        "what holds without it is http_fin_chain_accepted (first request of the chain carried the message to the configured "
        "address, every request was a GET, the chain ended in 200) - the harness counts such FINs as `get_fin_by_queryless_redirect` "
        "and they are NOT reported as violations. About the client BEFORE F45: http_fin_only_after_body_accepted_following_false "
        "(finding follows-redirect-drops-body, listed fixed, replayed on every run: a FIN after a followed redirect that CHANGED "
        "the method is a VIOLATION) and ..._following_partial (hypothesis NoLossyRedirect: only 307/308, only for POST)",
    ]


def regenerated_client(ctx):
    """the client of this tree as the tie computes it from the TRANSLATED CheckRedirect function
    (Tie.ToolsRelayRedirect.treeClientCode: 0 = checkNever, 2 = checkSameMethod); None if the tie module is not built"""
    f = os.path.join(ctx.work, "rd_client_eval.lean")
    with open(f, "w") as fh:
        fh.write("import Nsq.Tie.ToolsRelayRedirect\n#eval Nsq.Tie.ToolsRelayRedirect.treeClientCode\n"
                 "#eval Nsq.Gen.ToolsRelayRedirect.n2hClient_CheckRedirect_translated\n")
    rc, out = ctx.run_cmd(["lake", "env", "lean", f], timeout=300, cwd=fw.LEAN)
    ls = [l.strip() for l in out.splitlines() if l.strip()]
    if rc != 0 or len(ls) < 2 or not ls[0].isdigit():
        # the tie module does not build (only the F45b client is accepted since /repo 833e42b): read the same code off the
        # regenerated translation itself, so that a tree with F45b reverted is NAMED (client 0) instead of "untranslatable"
        with open(f, "w") as fh:
            fh.write("import Nsq.Gen.ToolsRelayRedirect\nopen Nsq.Gen.ToolsRelayRedirect in\n"
                     "#eval (if n2hClient_CheckRedirect_fn true true 1 = 0 then 2 else 0 : Nat)\n"
                     "#eval Nsq.Gen.ToolsRelayRedirect.n2hClient_CheckRedirect_translated\n")
        rc, out = ctx.run_cmd(["lake", "env", "lean", f], timeout=300, cwd=fw.LEAN)
        ls = [l.strip() for l in out.splitlines() if l.strip()]
    if rc != 0 or len(ls) < 2 or not ls[0].isdigit() or ls[1] != "true":
        ctx.log("redirect leg: could not evaluate the translated CheckRedirect of this tree: %s" % out[-400:])
        return None
    return int(ls[0])


def accepted(post, status):
    if not status.isdigit():
        return False
    c = int(status)
    return (200 <= c < 300) if post else c == 200


def leg(ctx, binp, tool, corr_broken):
    name = "n2h_redirect"
    if not tool:
        corr_broken.append("apps/nsq_to_http does not build (redirect leg)")
        return
    out = os.path.join(ctx.work, name)
    os.makedirs(out, exist_ok=True)
    rc, log = ctx.run_cmd([binp, "-test.run", "^TestVerifN2HRedirectBin$", "-test.count=1"], timeout=ctx.budget(300, 1200),
                          env={"VERIF_SEED": ctx.seed, "VERIF_N": ctx.budget(180, 3000), "VERIF_OUT": out,
                               "VF_E8_N2H_BIN": tool})
    if "ORACLE-DONE" not in log:
        ctx.log("%s harness failed:\n%s" % (name, log[-1500:]))
        corr_broken.append("%s harness exit %s" % (name, rc))
        return
    ops = open(os.path.join(out, name + ".ops")).read().splitlines()
    impl = open(os.path.join(out, name + ".impl")).read().splitlines()
    probe = None
    for l in log.splitlines():
        if l.startswith("REDIRECT-PROBE"):
            probe = int(l.split("client=")[1].split()[0])
        if l.startswith("REDIRECT-ERROR"):
            corr_broken.append("redirect leg: " + l)
    regen = regenerated_client(ctx)
    if regen not in ACCEPTED or probe != regen:
        corr_broken.append("http.Client shape: the CheckRedirect of main() translates to client %s [%s], the real binary behaves as "
                           "client %s [%s]; accepted: the two must agree and be one of %s" %
                           (regen, CLIENTS.get(regen, "untranslatable / tie not built"), probe, CLIENTS.get(probe, "?"),
                            " / ".join(CLIENTS[k] for k in ACCEPTED)))
    # the model is the TRANSLATED client of this tree, whatever the harness probed (the op carries the probe); if the
    # translation is not an accepted one (the tie is broken anyway) the reference is the accepted client the binary behaves
    # as, else the committed one (F45b)
    mclient = regen if regen in ACCEPTED else (probe if probe in ACCEPTED else ACCEPTED[0])
    mops = os.path.join(out, name + ".model.ops")
    with open(mops, "w") as fh:
        for o in ops:
            fh.write(re.sub(r"^rd \d+ ", "rd %d " % mclient, o) + "\n")
    rc2, mout = ctx.driver("e8", stdin_path=mops)
    model = mout.splitlines()
    hist = {}
    for l in log.splitlines():
        if l.startswith("HIST "):
            w = l.split()
            hist[w[1]] = int(w[2])
    # direct oracle, independent of the model: FIN => enough requests that CARRIED the body (publisher's method) were accepted.
    # GET publisher + a client that follows: the follow-up GET goes to the URL the destination's Location names; when that URL
    # does not repeat the query the message is not in it. Such a FIN is what http_fin_chain_accepted describes (hypothesis
    # KeepsQuery of ..._get_partial violated by the destination): counted, not a violation - but only if every request of the
    # handling was a GET and at least `need` chains started with a GET carrying the message and ended in 200.
    nfind = 0
    nqueryless = 0
    worst = None
    changed_method = []      # requests with another method than the publisher's: a followed 301/302/303 of a POST
    longest = 0              # the longest run of requests made for one address (a chain): at most ten
    for o, i in zip(ops, impl):
        w = o.split()
        mode, naddr, post, body = w[2], int(w[3]), w[4] == "1", w[7]
        resp, _, wire = i.partition(" | ")
        reqs = [x.split(":") for x in wire.split()]
        ctx.count_case(o + "|" + i, nontrivial=len(reqs) > 0)
        if any(q[1] != ("POST" if post else "GET") for q in reqs):
            changed_method.append((o, i))
        if len(reqs) > 10 * (naddr if mode == "all" else 1):
            longest = max(longest, len(reqs))
        if resp != "fin":
            continue
        meth = "POST" if post else "GET"
        delivered = [q for q in reqs if q[2] == body and q[1] == meth and accepted(post, q[3])]
        need = naddr if mode == "all" else 1
        if len(delivered) >= need:
            continue
        if probe == 2 and not post and all(q[1] == "GET" for q in reqs):
            # split the wire into chains: a chain starts at a request to a configured address that carries the message and is
            # not the target of the previous answer's redirect
            chains = []
            for q in reqs:
                if q[2] == body and int(q[0]) < naddr and (not chains or not chains[-1][-1][3].isdigit()
                                                           or not (300 <= int(chains[-1][-1][3]) < 400)):
                    chains.append([q])
                elif chains:
                    chains[-1].append(q)
            okc = [c for c in chains if c[-1][3] == "200"]
            if len(okc) >= need and any(len(c) > 1 for c in okc):
                nqueryless += 1
                continue
        nfind += 1
        if worst is None or len(o) < len(worst[0]):
            worst = (o, i, len(delivered), need, len(reqs))
    if worst:
        o, i, have, need, nreq = worst
        reqs = [x.split(":") for x in i.partition(" | ")[2].split()]
        post = o.split()[4] == "1"
        changed = any(q[1] != ("POST" if post else "GET") for q in reqs)   # a request with another method than the publisher's
        followed = nreq > need or any(q[2] == "none" for q in reqs)
        if changed or followed:
            key = KEY                      # the finding F45 repaired (listed fixed): a reproduction is a VIOLATION
        else:
            key = "fin-without-accepted-body-request"
        ctx.violation(key, "nsq_to_http (real binary) FINished a message although only %d of the %d required requests that carried "
                      "its body were accepted: the http.Client followed a redirect and dropped the body; wire = %s  [%d of %d "
                      "messages]" % (have, need, i, nfind, len(ops)), o + "\nobserved: " + i + "\n")
    if probe in ACCEPTED and changed_method:
        corr_broken.append("redirect leg: the client of this tree sent %d request(s) with another method than the publisher's "
                           "(a redirect that changes the method was followed), e.g. `%s` -> %s" %
                           (len(changed_method), changed_method[0][0][:160], changed_method[0][1][:200]))
    if longest:
        corr_broken.append("redirect leg: %d requests for one handling (the limit is ten per Publish)" % longest)
    ctx.corr[name] = {"requests_with_changed_method": len(changed_method), "over_limit_wire": longest, "client_probe": probe, "client_translated": regen, "client_name": CLIENTS.get(regen), "lines": len(ops),
                      "fin_without_delivery": nfind, "get_fin_by_queryless_redirect": nqueryless,
                      "histogram": hist, "oracle": [l for l in log.splitlines() if l.startswith("ORACLE-DONE")]}
    if ops:
        ctx.add_sample({"op": ops[1][:200] if len(ops) > 1 else ops[0][:200], "impl": impl[1][:200] if len(impl) > 1 else impl[0][:200]})
    diffs = ctx.diff_lines(impl, model, name)
    for idx, a, b in diffs[:3]:
        ctx.log("%s model/impl disagree on `%s`:\n   impl =%s\n   model=%s" % (name, ops[idx][:200], a[:300], b[:300]))
        if a.startswith("fin") and not b.startswith("fin"):
            ctx.violation(name + "-corr:early-fin", "nsq_to_http (real binary) finished a message where the model of the http.Client "
                          "of this tree requeues (op `%s`): %s" % (ops[idx][:200], a[:300]), ops[idx] + "\nimpl: " + a + "\nmodel: " + b + "\n")
    if diffs:
        corr_broken.append("correspondence %s (%d of %d lines)" % (name, len(diffs), len(ops)))
