"""C20 round 6 (sub-builder `relay`): to_nsq main loop end-to-end leg and the option surface of the relays.
Called from props/C20.py; everything here is additive to the existing C20 legs."""
import os
import re
import framework as fw

TIE = ["Nsq.Tie.ToolsRelayOpts"]
PROPS = ["Nsq.Props.C20Loop", "Nsq.Props.C20Opts"]
SPEC = "e8_relay_opts"


def build_tool(ctx, pkg, name):
    """go build of the real tool from the tree under test into the work area (never /tmp, never the repo)"""
    outp = os.path.join(ctx.work, name)
    rc, out = ctx.run_cmd(["go", "build", "-o", outp, "./" + pkg], cwd=fw.REPO, timeout=600)
    if rc != 0 or not os.path.exists(outp):
        ctx.log("go build %s failed:\n%s" % (pkg, out[-1500:]))
        return None
    return outp


def tonsq_e2e(ctx, b_tonsq, corr_broken):
    tool = build_tool(ctx, "apps/to_nsq", "to_nsq_real")
    if not tool:
        ctx.broken_ties.append("apps/to_nsq does not build")
        return
    out = os.path.join(ctx.work, "tonsq_e2e")
    os.makedirs(out, exist_ok=True)
    rc, log = ctx.run_cmd([b_tonsq, "-test.run", "^TestVerifToNsqE2E$", "-test.count=1"], timeout=ctx.budget(300, 1200),
                          env={"VERIF_SEED": ctx.seed, "VERIF_N": ctx.budget(40, 500), "VERIF_NRATE": ctx.budget(6, 40),
                               "VERIF_OUT": out, "VF_E8_TONSQ_BIN": tool})
    if "ORACLE-DONE" not in log:
        ctx.log("to_nsq end-to-end harness failed:\n%s" % log[-1500:])
        corr_broken.append("to_nsq end-to-end harness exit %s" % rc)
        return
    ops = open(os.path.join(out, "tonsq_e2e.ops")).read().splitlines()
    impl = open(os.path.join(out, "tonsq_e2e.impl")).read().splitlines()
    rc2, mout = ctx.driver("e8", stdin_path=os.path.join(out, "tonsq_e2e.ops"))
    model = mout.splitlines()
    for o, i in zip(ops, impl):
        w = o.split()
        ctx.count_case("e2e|" + " ".join(w[:5]), nontrivial=" n=0 " not in i)
    hist = {}
    for l in log.splitlines():
        if l.startswith("HIST "):
            w = l.split()
            hist[" ".join(w[1:-1])] = int(w[-1])
    ctx.corr["to_nsq_e2e"] = {"histogram": hist, "lines": len(ops),
                              "throttle": [l for l in log.splitlines() if l.startswith("THROTTLE")][:8],
                              "sigterm": [l for l in log.splitlines() if l.startswith("SIGTERM-WITNESS")],
                              "oracle": [l for l in log.splitlines() if l.startswith("ORACLE-DONE")]}
    if ops:
        ctx.add_sample({"op": ops[0][:160], "impl": impl[0][:160]})
    for l in log.splitlines():
        if l.startswith("ORACLE-FAIL"):
            what = l[len("ORACLE-FAIL "):]
            key = "to_nsq-e2e:" + re.sub(r"[0-9a-f]{6,}|\d+", "N", what)[:60]
            ctx.violation(key, "to_nsq (real binary): " + what[:600], "seed %s\n%s\n" % (ctx.seed, what))
    diffs = ctx.diff_lines(impl, model, "tonsq_e2e")
    for idx, a, b in diffs[:3]:
        ctx.log("to_nsq e2e model/impl disagree on `%s`:\n   impl =%s\n   model=%s" % (ops[idx][:160], a[:200], b[:200]))
    if diffs:
        corr_broken.append("correspondence to_nsq end-to-end (main-loop model)")


def opts_leg(ctx, binp, test, name, corr_broken, env=None):
    """one option-surface harness: ops through the driver (`opt …`), ORACLE-FAIL lines are violations"""
    out = os.path.join(ctx.work, name)
    os.makedirs(out, exist_ok=True)
    e = {"VERIF_SEED": ctx.seed, "VERIF_N": ctx.budget(300, 3000), "VERIF_NARGS": ctx.budget(40, 300), "VERIF_OUT": out}
    e.update(env or {})
    rc, log = ctx.run_cmd([binp, "-test.run", "^%s$" % test, "-test.count=1"], timeout=ctx.budget(300, 1200), env=e)
    if "ORACLE-DONE" not in log:
        ctx.log("%s harness failed:\n%s" % (name, log[-1500:]))
        corr_broken.append("%s harness exit %s" % (name, rc))
        return
    ops = open(os.path.join(out, name + ".ops")).read().splitlines()
    impl = open(os.path.join(out, name + ".impl")).read().splitlines()
    rc2, mout = ctx.driver("e8", stdin_path=os.path.join(out, name + ".ops"))
    model = mout.splitlines()
    for o, i in zip(ops, impl):
        ctx.count_case(o + "|" + i, nontrivial=(i not in ("err", "keys=-", "marks=")))
    hist = {}
    for l in log.splitlines():
        if l.startswith("HIST "):
            w = l.split()
            hist[" ".join(w[1:-1])] = int(w[-1])
    ctx.corr.setdefault("relay_opts", {})[name] = {
        "histogram": hist, "lines": len(ops), "oracle": [l for l in log.splitlines() if l.startswith("ORACLE-DONE")],
        "notes": [l for l in log.splitlines() if l.startswith("WL-PRECISION")]}
    if ops:
        ctx.add_sample({"op": ops[0][:160], "impl": impl[0][:160]})
    for l in log.splitlines():
        if l.startswith("ORACLE-FAIL"):
            what = l[len("ORACLE-FAIL "):]
            key = name + "-oracle:" + re.sub(r"\d+", "N", what)[:60]
            ctx.violation(key, "%s: %s" % (name, what[:500]), "seed %s\n%s\n" % (ctx.seed, what))
    diffs = ctx.diff_lines(impl, model, name)
    for idx, a, b in diffs[:3]:
        ctx.log("%s model/impl disagree on `%s`:\n   impl =%s\n   model=%s" % (name, ops[idx][:200], a[:200], b[:200]))
        ctx.violation(name + "-corr:" + ops[idx].split()[1], "%s: the real code answers %s where the model of the option surface says %s (op `%s`)"
                      % (name, a[:200], b[:200], ops[idx][:200]), ops[idx] + "\nimpl: " + a + "\nmodel: " + b + "\n")
    if diffs:
        corr_broken.append("correspondence %s" % name)
    # open finding: integers above 2^53 are rewritten by --whitelist-json-field (replayed on every run)
    for l in log.splitlines():
        if l.startswith("WL-PRECISION") and "9007199254740993" in l.split("out=")[0] and l.rstrip().endswith("same=false"):
            ctx.violation("whitelist-rewrites-large-integers", "nsq_to_nsq --whitelist-json-field: " + l, l + "\n")


def declare(ctx):
    ctx.trusted += [
        "to_nsq main loop: Go memory model for sync/atomic (each Load/Add/Store is one atomic step), time.Tick delivers its "
        "k-th tick no earlier than k*interval and time.Sleep(d) lasts at least d (only used for the wall-clock reading of the "
        "counting theorem), producer.Publish returns nil only after the destination answered OK (go-nsq)",
        "go2lean kind `skeleton_deep` (text of main's goroutine closures); the end-to-end harness harness/e8/tonsq_e2e_test.go "
        "driving the real to_nsq binary",
    ]
    ctx.assumptions += [
        "to_nsq_throttle_count_partial: the ticker's AddInt64 and its capping StoreInt64 are not separated by a reader step "
        "(otherwise refuted: to_nsq_throttle_count_false); wall-clock reading: at most 1 + 2*elapsed/interval iterations",
        "to_nsq_exit_flushed_partial: no signal is taken (on SIGTERM the record in flight may reach only some producers: "
        "to_nsq_exit_flushed_false - its antecedent is exit status 0; the LOSS is reproduced on the real binary as "
        "SIGTERM-WITNESS, where the harness accepts exit 0 (main returned) or 1 (log.Fatal of the reader's failed Publish): "
        "the exit-0 run of the witness is not forced)",
        "the to_nsq_loop_* theorems (all schedules) carry the hypothesis built into Model/ToNsqLoop that every Publish on a live "
        "producer is acknowledged (the only publish error modelled there is ErrStopped after SIGTERM; refusing destinations: "
        "Model/ToNsqRefuse)",
    ]
