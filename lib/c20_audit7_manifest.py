"""Applies the audit-round-7 (sub-builder c20b) replacement sentences to manifest.d/C20.json, idempotently.
Usage: python3 lib/c20_audit7_manifest.py && python3 lib/mkmanifest.py   (docs/C20_audit7_b.md lists the sentences)"""
import json
import os

ROOT = os.path.dirname(os.path.dirname(os.path.abspath(__file__)))
P = os.path.join(ROOT, "manifest.d", "C20.json")

REPLACE = [
    # C14: to_nsq_records has the hypothesis "every publish succeeds" built in
    ("to_nsq: to_nsq_records (for all byte strings, all delimiters, every destination: published = the non-empty "
     "delimiter-separated records, byte-exact, in order, including an unterminated final record), to_nsq_records_clean;",
     "to_nsq: to_nsq_records (for all byte strings, all delimiters, every destination: published = the non-empty "
     "delimiter-separated records, byte-exact, in order, including an unterminated final record - UNDER THE HYPOTHESIS "
     "built into the model's `deliver` that every destination acknowledges every record), to_nsq_records_clean;"),
    # C23: http_body_unmodified is what the model hands to Publish
    ("http_reject_implies_requeue, http_body_unmodified, http_no_silent_drop;",
     "http_reject_implies_requeue, http_body_unmodified (true by construction of the model: HandleMessage hands m.Body to "
     "Publish; the wire-level statements are the POST harness oracle and Props.C20Get for GET), http_no_silent_drop;"),
    # C23: eventual delivery concludes request + fin
    ("only 'an attempt accepted everywhere ends in Finish' is proved;",
     "only 'an attempt accepted everywhere puts an accepted request carrying the body (every address in mode all) in front "
     "of the Finish' is proved, with naddr != 0 (guaranteed by main(): http_valid_start_has_address);"),
    # C22: one-step n2n theorems
    ("n2n_fin_only_after_accept, n2n_reject_implies_requeue,",
     "n2n_fin_only_after_accept (ONE step from an arbitrary state; the statement over whole histories from the initial "
     "state is Props.C20N2NTool.n2n_fin_history), n2n_reject_implies_requeue,"),
]

APPEND = (
    " Audit round 7 (b) (Props/C20N2NTool, C20Refuse, C20Get; docs/C20_audit7_b.md). nsq_to_nsq over whole histories from "
    "the initial state, for EVERY occurrence of fin id: n2n_fin_history (immediately preceded by accepted a id, an earlier "
    "publish a id b caused by a HandleMessage event with that id whose body is b when no filter is configured - or a "
    "configured filter dropped an event with that id); the tool behind go-nsq's handlerLoop (N2N.consume): "
    "n2n_tool_fin_history (third origin: the library gave up), n2n_tool_fin_only_after_accept 5 REFUTED "
    "(n2n_tool_fin_only_after_accept_false) / PARTIAL under 'no delivery of the history was given up' "
    "(n2n_tool_fin_only_after_accept_partial), n2n_safe_iff and both_relays_safe_iff (each relay acknowledges only after "
    "acceptance iff max_attempts = 0, instantiated with both regenerated defaults); the open finding "
    "gives-up-after-max-attempts is now replayed on BOTH tools (TestVerifN2NGiveUp: real Consumer built as main() builds it, "
    "destination answering E_PUB_FAILED). to_nsq with destinations that may refuse a record (Model/ToNsqRefuse; the Go map "
    "order is an input of every iteration): to_nsq_records_if_accepted (hypothesis explicit: all accepted => exit 0 and "
    "every destination holds exactly the records), to_nsq_records_unconditional_false (size limit: the tool stops at the "
    "refused record, later acceptable records are never published), to_nsq_published_until_refusal (exit status 1; every "
    "destination holds the records before the refused one, plus the refused one iff it was asked before the first refusing "
    "destination; nothing after), to_nsq_refuser_holds_prefix, to_nsq_refusal_prefix; tied on the REAL binary against a "
    "stub nsqd with a size limit (E_BAD_MESSAGE + close, E_PUB_FAILED; a 1 MiB+1 record). nsq_to_http GET "
    "(Model/HttpGet: url.QueryEscape and fmt.Sprintf with one operand at byte level): get_escape_roundtrip (QueryUnescape "
    "(QueryEscape b) = b for all bytes), get_escape_alphabet, get_endpoint_clean / get_body_recoverable (PARTIAL, hypothesis "
    "cleanTemplate: request target = prefix ++ QueryEscape body ++ suffix), get_main_check_sufficient REFUTED "
    "(get_main_check_sufficient_false: '/p?d=%s&pct=100%' passes strings.Count(addr, \"%s\") == 1 and is not clean) = open "
    "known finding get-template-stray-percent (replayed on the real GetPublisher on every run; not repaired), tied by the real "
    "GetPublisher.Publish against an httptest destination recording the raw request target + python urllib oracle over all "
    "256 byte values. Regenerated-leg facts of the new models: Tie/ToolsAudit7 (decided on the Gen definitions).")

NOTE_APPEND = (
    " Audit round 7 (b): the facts of Tie/ToolsRelay are decided directly on the regenerated definitions; its `_eq` theorems "
    "are textual ties to hand-written constants. The nsq_to_nsq history harness observes per-message responses, not the "
    "interleaving of the responder goroutines; the order of transaction results it feeds to the model is its own release order. "
    "The JSON-stage expectation of the nsq_to_nsq legs is recomputed in python from the input body (lib/c20_audit7.py). "
    "Model/HttpGet does not render fmt's %!... diagnostics (unclean template = no modelled endpoint); the fragment of a GET "
    "template ('#...') is never sent and is outside the model.")


def main():
    m = json.load(open(P))
    t = m["level_claimed"]["text"]
    for old, new in REPLACE:
        if new in t:
            continue
        if old not in t:
            print("c20_audit7_manifest: sentence not found (already edited by someone else?):", old[:70])
            continue
        t = t.replace(old, new)
    if "Audit round 7 (b) (Props/C20N2NTool" not in t:
        t += APPEND
    m["level_claimed"]["text"] = t
    if "Audit round 7 (b): the facts of Tie/ToolsRelay" not in m["level_note"]:
        m["level_note"] += NOTE_APPEND
    json.dump(m, open(P, "w"), indent=1, ensure_ascii=False)
    open(P, "a").write("\n")


if __name__ == "__main__":
    main()
