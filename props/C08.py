"""C08 — delete, empty and ephemeral semantics, safe under concurrency (engine E5, DESIGN §5 C08)."""
import json
import os
import re

import framework
from framework import REPO, ROOT

TIE = ["Nsq.Tie.Life", "Nsq.Tie.TopicDelete", "Nsq.Tie.ChanDelete"]
PROPS = ["Nsq.Props.C08", "Nsq.Props.C08TopicDelete", "Nsq.Props.C08ChanDelete"]
PROPS = PROPS + ["Nsq.Props.C08DQ"]  # E9 glue (builder dq2): Channel.Delete at file level on the go-diskqueue model
HARNESS = ["e5/replay_test.go", "e5/life_test.go", "e5/inflight_test.go", "e5/conc_test.go", "e5/pairs_test.go"]

# hook schedules exhibited in Lean (Props/C08.lean) and replayed on the real code
F7_PANIC = ["f7_empty_stale_index", "f7_req_empty", "f7_touch_empty"]
F7_VARIANT = "f7_unrelated_removed"
KEY_PANIC = "removeFromInFlightPQ-stale-index"
KEY_VARIANT = "removeFromInFlightPQ-unrelated-removed"
KEY_BADFILE = "diskqueue-bad-file-left-behind"
KEY_ORPHAN = "orphan-durable-channel-under-ephemeral-topic"
KEY_LEAK = "empty-races-delivery-leaks-inflight-count"
KEY_NEG = "answer-races-empty-negative-count"


def tree_fixed():
    """Which of the two modelled forms of removeFromInFlightPQ the tree has (Gen fact; Tie theorem
    remove_guard_known proves it is one of the two)."""
    try:
        txt = open(os.path.join(framework.LEAN, "Nsq", "Gen", "Life.lean")).read()
    except OSError:
        return False
    m = re.search(r"def removeGuard : List String := \[\s*\n(.*)\n", txt)
    return bool(m) and "c.inFlightPQ[msg.index] != msg" in m.group(1)


def tree_scan_atomic():
    """shape of processInFlightQueue on this tree (Gen fact; Tie theorem scan_shape_known)"""
    try:
        txt = open(os.path.join(framework.LEAN, "Nsq", "Gen", "Life.lean")).read()
    except OSError:
        return False
    m = re.search(r"def scanCalls : List String := \[(.*)\]", txt)
    return bool(m) and "popInFlightMessage" not in m.group(1) and '"delete"' in m.group(1)


def gen_fact(name):
    """a `List String` fact of Gen/Life.lean (the Lean side proves which shapes are acceptable)"""
    try:
        txt = open(os.path.join(framework.LEAN, "Nsq", "Gen", "Life.lean")).read()
    except OSError:
        return None
    m = re.search(r"def %s : List String := \[(.*?)\]\n" % name, txt, re.S)
    return re.findall(r'"([^"]*)"', m.group(1)) if m else None


def tree_push_atomic():
    """F48: pushInFlightMessage inserts into the map and pushes the heap entry in one critical section
    (Tie.Life.push_shape_known / treePushAtomic)"""
    return (gen_fact("pushInflightCalls") == ["Lock", "Unlock", "Push", "Unlock"] and
            gen_fact("startInflightCalls") == ["pushInFlightMessage"] and
            gen_fact("touchPushCalls") == ["popInFlightMessage", "removeFromInFlightPQ", "pushInFlightMessage"])


def tree_ans_lock():
    """F27 (/repo ebb5df3): REQ and TOUCH hold c.RLock (Tie.Life.answers_channel_lock_shape / treeAnsLock)"""
    pre = ["call:c.exitMutex.RLock", "defer:RUnlock", "call:c.RLock", "defer:RUnlock", "call:c.popInFlightMessage"]
    return (gen_fact("reqLockSeq") or [])[:5] == pre and (gen_fact("touchLockSeq") or [])[:5] == pre


def fix_commit(ctx, key):
    for f in ctx.known_findings().get("fixed", []):
        if f.get("property") == ctx.prop and f.get("key") == key:
            return f.get("commit", "PENDING")
    return None


def report(ctx, key, what, replay):
    """A reproduced failure: KNOWN-FINDING while listed open and its fix is not applied yet;
    once the fix commit is recorded the same failure is a regression → VIOLATION."""
    c = fix_commit(ctx, key)
    if c is not None and c != "PENDING":
        ctx.violation(key + "-regressed", "fixed in %s but fails again: %s" % (c, what), replay)
    else:
        ctx.violation(key, what, replay)


def run_sched(ctx, binp, name, timeout=40):
    rc, out = ctx.run_cmd([binp, "-test.run", "^TestVerifE5Replay$", "-test.count=1", "-test.timeout", "30s"],
                          timeout=timeout, env={"VERIF_SCHED": name, "VERIF_SEED": ctx.seed})
    line = [l for l in out.splitlines() if l.startswith("E5REPLAY " + name)]
    kv = dict(p.split("=", 1) for p in line[0].split()[2:]) if line else {}
    return rc, kv, out


def replay_known(ctx, binp):
    res = {}
    for name in F7_PANIC:
        rc, kv, out = run_sched(ctx, binp, name)
        res[name] = kv or {"error": out[-300:]}
        if not kv:
            ctx.broken_ties.append("hook replay %s did not run (rc=%s)" % (name, rc))
            continue
        ctx.evaluations += 1
        if kv.get("op", "").startswith("panic") or kv.get("later_fin") == "blocked":
            report(ctx, KEY_PANIC,
                   "%s: op=%s later_fin=%s" % (name, kv.get("op"), kv.get("later_fin")),
                   open(os.path.join(ROOT, "corpus", "C08", "known", name + ".sched")).read())
    rc, kv, out = run_sched(ctx, binp, F7_VARIANT)
    res[F7_VARIANT] = kv or {"error": out[-300:]}
    if not kv:
        ctx.broken_ties.append("hook replay %s did not run (rc=%s)" % (F7_VARIANT, rc))
    else:
        ctx.evaluations += 1
        if kv.get("op", "").startswith("panic") or kv.get("u_stuck_in_flight") == "true":
            report(ctx, KEY_VARIANT, "%s: %s" % (F7_VARIANT, " ".join("%s=%s" % x for x in sorted(kv.items()))),
                   open(os.path.join(ROOT, "corpus", "C08", "known", F7_VARIANT + ".sched")).read())
    rc, kv, out = run_sched(ctx, binp, "dq_bad_file_after_delete")
    res["dq_bad_file_after_delete"] = kv or {"error": out[-300:]}
    if not kv:
        ctx.broken_ties.append("replay dq_bad_file_after_delete did not run (rc=%s)" % rc)
    else:
        ctx.evaluations += 1
        left = [x for x in kv.get("left", "").split(",") if x]
        if left and all(x.endswith(".bad") for x in left):
            ctx.violation(KEY_BADFILE, "deleted channel dq:c leaves %s" % left,
                          open(os.path.join(ROOT, "corpus", "C08", "known", "dq_bad_file_after_delete.sched")).read())
        elif left:
            ctx.violation("files-left-behind:replay", "deleted channel dq:c leaves %s" % left,
                          open(os.path.join(ROOT, "corpus", "C08", "known", "dq_bad_file_after_delete.sched")).read())
    rc, kv, out = run_sched(ctx, binp, "delete_races_getchannel", timeout=90)
    res["delete_races_getchannel"] = kv or {"error": out[-300:]}
    sched = open(os.path.join(ROOT, "corpus", "C08", "delete_races_getchannel.sched")).read()
    if not kv:
        if rc == -9 or "test timed out" in out:
            ctx.violation("daemon-hangs:delete_races_getchannel", "delete racing GetChannel/SUB of the same name did not finish", sched)
        else:
            ctx.broken_ties.append("replay delete_races_getchannel did not run (rc=%s)" % rc)
    else:
        ctx.evaluations += 1
        ctx.count_case("sched:delete_races_getchannel", nontrivial=True)
        if kv.get("resurrected") == "true" or kv.get("delete") != "ok":
            ctx.violation("delete-races-getchannel-resurrects", "delete_races_getchannel: " +
                          " ".join("%s=%s" % x for x in sorted(kv.items())),
                          sched + "# observed: " + " ".join("%s=%s" % x for x in sorted(kv.items())) + "\n")
    for name in ("ephemeral_topic_two_last_deletes", "ephemeral_topic_delete_races_create", "ephemeral_topic_concurrent_leave"):
        rc, kv, out = run_sched(ctx, binp, name, timeout=90)
        res[name] = kv or {"error": out[-300:]}
        sched = open(os.path.join(ROOT, "corpus", "C08", name + ".sched")).read()
        if not kv:
            if rc == -9 or "test timed out" in out:
                ctx.violation("daemon-hangs:" + name, "%s did not finish" % name, sched)
            else:
                ctx.broken_ties.append("replay %s did not run (rc=%s)" % (name, rc))
            continue
        ctx.evaluations += int(kv.get("rounds", "1"))
        ctx.count_case("sched:" + name, nontrivial=True)
        if kv.get("wrong") == "true":
            ctx.violation("ephemeral-topic-autodelete:" + name.replace("ephemeral_topic_", ""), "%s: %s" % (
                name, " ".join("%s=%s" % x for x in sorted(kv.items()))),
                sched + "# observed: " + " ".join("%s=%s" % x for x in sorted(kv.items())) + "\n")
    # audit B9: hook-less rounds of "SUB while the last consumer of an ephemeral channel leaves" (asynchronous auto-delete)
    name = "ephemeral_sub_after_last_leave"
    rc, kv, out = run_sched(ctx, binp, name, timeout=120)
    res[name] = kv or {"error": out[-300:]}
    sched = open(os.path.join(ROOT, "corpus", "C08", name + ".sched")).read()
    if not kv:
        if rc == -9 or "test timed out" in out:
            ctx.violation("daemon-hangs:" + name, "%s did not finish" % name, sched)
        else:
            ctx.broken_ties.append("replay %s did not run (rc=%s)" % (name, rc))
    else:
        ctx.evaluations += int(kv.get("rounds", "1"))
        ctx.count_case("sched:" + name, nontrivial=True)
        obs = " ".join("%s=%s" % x for x in sorted(kv.items()))
        if kv.get("wrong") == "true":
            ctx.violation("ephemeral-autodelete-leaves-zombie-consumer", "%s: %s" % (name, obs), sched + "# observed: " + obs + "\n")
    # Empty / channel deletion while consumers are taking messages from the memory backlog (seeded C08-m6): unsteered rounds,
    # replayed on every run - the free-running concurrent leg reaches a stuck Empty at its stop only by luck
    name = "empty_while_consumer_drains"
    rc, kv, out = run_sched(ctx, binp, name, timeout=60)
    res[name] = kv or {"error": out[-300:]}
    sched = open(os.path.join(ROOT, "corpus", "C08", name + ".sched")).read()
    if not kv:
        if rc == -9 or "test timed out" in out:
            ctx.violation("daemon-hangs:" + name, "%s did not finish" % name, sched)
        else:
            ctx.broken_ties.append("replay %s did not run (rc=%s)" % (name, rc))
    else:
        ctx.evaluations += int(kv.get("rounds", "0"))
        ctx.count_case("sched:" + name, nontrivial=True)
        obs = " ".join("%s=%s" % x for x in sorted(kv.items()))
        if kv.get("blocked", "none") != "none":
            ctx.violation("daemon-hangs:" + name, "Empty / delete of a channel whose memory backlog is being delivered did not "
                          "return (holding the channel lock; GetStats behind it: %s): %s" % (kv.get("stats_behind_it"), obs),
                          sched + "# observed: " + obs + "\n")
        elif kv.get("wrong", "none") != "none":
            ctx.violation("empty-while-draining:" + kv["wrong"].split(":")[-1][:40], "%s: %s" % (name, obs),
                          sched + "# observed: " + obs + "\n")
    rc, kv, out = run_sched(ctx, binp, "empty_races_delivery")
    res["empty_races_delivery"] = kv or {"error": out[-300:]}
    if not kv:
        ctx.broken_ties.append("replay empty_races_delivery did not run (rc=%s)" % rc)
    else:
        ctx.evaluations += 1
        if kv.get("starved") == "true" or (kv.get("client_in_flight_count", "0") != "0" and kv.get("in_flight_map") == "0"):
            report(ctx, KEY_LEAK, "empty_races_delivery: " + " ".join("%s=%s" % x for x in sorted(kv.items())),
                   open(os.path.join(ROOT, "corpus", "C08", "known", "empty_races_delivery.sched")).read())
        elif kv.get("heap") is not None and kv.get("heap") != kv.get("in_flight_map"):
            # F48 (map insert + heap push one critical section): once the delivery and the Empty have both returned the
            # heap holds exactly the in-flight messages (Props.C08.map_heap_agree_at_quiescence); the pre-F48 shape leaves
            # the zombie entry of Props.C08.zombieSchedule
            obs = " ".join("%s=%s" % x for x in sorted(kv.items()))
            ctx.violation("heap-map-differ:empty_races_delivery", "empty_races_delivery: " + obs,
                          open(os.path.join(ROOT, "corpus", "C08", "known", "empty_races_delivery.sched")).read() +
                          "# observed: " + obs + "\n")
    for name in ("fin_races_empty_count", "req_races_empty_count"):
        rc, kv, out = run_sched(ctx, binp, name, timeout=90)
        res[name] = kv or {"error": out[-300:]}
        if not kv:
            ctx.broken_ties.append("replay %s did not run (rc=%s)" % (name, rc))
            continue
        ctx.evaluations += 1
        if kv.get("wrong") == "true":
            report(ctx, KEY_NEG, "%s: %s" % (name, " ".join("%s=%s" % x for x in sorted(kv.items()))),
                   open(os.path.join(ROOT, "corpus", "C08", "known", name + ".sched")).read())
    rc, kv, out = run_sched(ctx, binp, "orphan_resurrect")
    res["orphan_resurrect"] = kv or {"error": out[-300:]}
    if not kv:
        ctx.broken_ties.append("replay orphan_resurrect did not run (rc=%s)" % rc)
    else:
        ctx.evaluations += 1
        if kv.get("recreated_depth", "0") != "0":
            ctx.violation(KEY_ORPHAN, "re-created e#ephemeral:c starts with depth %s (files %s survived the restart)"
                          % (kv.get("recreated_depth"), kv.get("files")),
                          open(os.path.join(ROOT, "corpus", "C08", "known", "orphan_resurrect.sched")).read())
    topic_delete_replays(ctx, binp, res)
    sync_every_replays(ctx, binp, res)
    # Empty racing an operation that holds a message outside every container (audit B17).  REQ / TOUCH: repaired by
    # F27 = /repo ebb5df3, committed (the answers hold c.RLock: Empty waits; Tie.Life.answers_channel_lock_shape accepts only that
    # shape, so a surviving message is a VIOLATION under the key of the `fixed` entry); the timeout scan's window is NOT
    # covered by F27 (open finding).
    ans_lock = True
    if not tree_ans_lock():
        ctx.broken_ties.append("RequeueMessage/TouchMessage no longer take c.RLock right after exitMutex.RLock (F27, /repo ebb5df3)")
    for name, key, guarded in (("empty_races_req_survives", "empty-races-req-message-survives", True),
                               ("empty_races_touch_survives", "empty-races-touch-message-survives", True),
                               ("empty_races_scan_survives", "empty-races-timeout-scan-message-survives", False)):
        rc, kv, out = run_sched(ctx, binp, name, timeout=90)
        res[name] = kv or {"error": out[-300:]}
        sched = open(os.path.join(ROOT, "corpus", "C08", "known", name + ".sched")).read()
        if not kv:
            if rc == -9 or "test timed out" in out:
                ctx.violation("daemon-hangs:" + name, "Empty racing a parked operation did not finish", sched)
            else:
                ctx.broken_ties.append("replay %s did not run (rc=%s)" % (name, rc))
            continue
        ctx.evaluations += 1
        ctx.count_case("sched:" + name, nontrivial=True)
        obs = " ".join("%s=%s" % x for x in sorted(kv.items()))
        waited = kv.get("empty_waited_for_req") == "true"
        if kv.get("empty") != "ok":
            ctx.violation("daemon-hangs:" + name, obs, sched + "# observed: " + obs + "\n")
        elif kv.get("survived") == "true":
            # a tree whose facts say "the answers hold the channel lock" (or on which Empty did wait) must not let
            # the message survive: a different key, so that the open finding of the unprotected tree does not swallow it
            k = key + (":despite-lock" if (waited and not guarded) else "")
            ctx.violation(k, "%s: %s" % (name, obs), sched + "# observed: " + obs + "\n")
        elif guarded and ans_lock and not waited:
            ctx.broken_ties.append("replay %s: the facts say REQ/TOUCH hold c.RLock but Empty did not wait (%s)" % (name, obs))
    ctx.corr["hook_replays"] = res


# topic deletion racing SUB / channel creation / a second deletion of the same name (Model/TopicDelete.lean)
TOPIC_DELETE = [
    # (schedule, failing field, key, model parameter that protects the window)
    ("topic_delete_races_sub", "zombie_consumer", "topic-delete-races-sub-zombie-consumer", "subGuard"),
    ("topic_delete_races_sub_early", "zombie_consumer", "topic-delete-races-sub-zombie-consumer:early", None),
    ("topic_delete_races_create_channel", "files_or_meta", "topic-delete-races-create-channel-leaves-state", None),
    ("topic_double_delete_unlinks_fresh", "older_delete_hit_fresh_topic", "topic-double-delete-unlinks-fresh-topic", "ownUnlink"),
    # channel level (Model/ChanDelete.lean, round 7)
    ("chan_double_delete_unlinks_fresh", "older_delete_hit_fresh_channel", "channel-double-delete-unlinks-fresh-channel", "chanOwnUnlink"),
    ("chan_double_delete_waits", "wrong", "channel-double-delete-overtakes-running-exit", None),
]


def topic_delete_shape(ctx):
    import re
    try:
        txt = open(os.path.join(ROOT, "lean", "Nsq", "Gen", "Life.lean")).read()
    except OSError:
        return {}
    def fact(name):
        m = re.search(r"def %s : List String := \[(.*?)\]\n" % name, txt, re.S)
        return re.findall(r'"((?:[^"\\]|\\.)*)"', m.group(1)) if m else []
    shape = {"subGuard": fact("subGuard") == ["if (channel.ephemeral && channel.Exiting()) || topic.Exiting()"],
             "ownUnlink": fact("deleteTopicStmts") == ["if err == errExiting", "if n.topicMap[topicName] == topic"],
             "chanOwnUnlink": fact("deleteChanStmts") == ["if t.channelMap[channelName] == channel"],
             "syncEveryValidated": fact("syncEveryGuard") == ["if opts.SyncEvery < 1"]}
    ctx.corr["topic_delete_model_of_tree"] = shape
    return shape


def topic_delete_replays(ctx, binp, res):
    shape = topic_delete_shape(ctx)
    for name, field, key, guard in TOPIC_DELETE:
        rc, kv, out = run_sched(ctx, binp, name, timeout=90)
        res[name] = kv or {"error": out[-300:]}
        known = os.path.join(ROOT, "corpus", "C08", "known", name + ".sched")
        sched = open(known if os.path.exists(known) else os.path.join(ROOT, "corpus", "C08", name + ".sched")).read()
        if not kv:
            if rc == -9 or "test timed out" in out:
                ctx.violation("daemon-hangs:" + name, "%s did not finish" % name, sched)
            else:
                ctx.broken_ties.append("replay %s did not run (rc=%s)" % (name, rc))
            continue
        ctx.evaluations += 1
        ctx.count_case("sched:" + name, nontrivial=True)
        obs = " ".join("%s=%s" % x for x in sorted(kv.items()))
        if kv.get("delete", "ok") != "ok" or kv.get("d1", "ok") != "ok":
            ctx.violation("daemon-hangs:" + name, "%s: the deletion did not return: %s" % (name, obs), sched)
            continue
        if field == "files_or_meta":
            bad = kv.get("files_left", "0") != "0" or kv.get("listed_in_metadata") == "true"
        else:
            bad = kv.get(field) == "true"
        if name.startswith("topic_delete_races_sub") and kv.get("a_closed") != "true":
            ctx.violation("delete-consumers-not-closed:" + name, "%s: the consumer subscribed before the deletion was not "
                          "disconnected: %s" % (name, obs), sched + "# observed: " + obs + "\n")
        if bad:
            k = key + (":despite-fix" if guard and shape.get(guard) else "")
            ctx.violation(k, "%s: %s" % (name, obs), sched + "# observed: " + obs + "\n")


KEY_SYNC0 = "sync-every-zero-delete-leaves-meta-file"


def sync_every_replays(ctx, binp, res):
    """--sync-every reaches go-diskqueue unvalidated unless nsqd.New refuses non-positive values (tie
    sync_every_validation_shape).  0: every loop pass syncs → Empty's metadata removal is undone → a deleted
    topic/channel leaves <name>.diskqueue.meta.dat (open finding); negative and 1 must be clean."""
    shape = topic_delete_shape(ctx)
    for name in ("sync_every_zero_delete", "sync_every_negative_delete", "sync_every_one_delete"):
        rc, kv, out = run_sched(ctx, binp, name, timeout=60)
        res[name] = kv or {"error": out[-300:]}
        sched = open(os.path.join(ROOT, "corpus", "C08", "known" if name == "sync_every_zero_delete" else "", name + ".sched")).read()
        if not kv:
            if rc == -9 or "test timed out" in out:
                ctx.violation("daemon-hangs:" + name, "%s did not finish" % name, sched)
            else:
                ctx.broken_ties.append("replay %s did not run (rc=%s)" % (name, rc))
            continue
        ctx.evaluations += 1
        ctx.count_case("sched:" + name, nontrivial=True)
        obs = " ".join("%s=%s" % x for x in sorted(kv.items()))
        if kv.get("new_refused") == "true":
            if name == "sync_every_one_delete" or not shape.get("syncEveryValidated"):
                ctx.violation("sync-every-refused:" + name, "nsqd.New refused the configuration: " + obs, sched + "# observed: " + obs + "\n")
            continue
        if shape.get("syncEveryValidated") and name != "sync_every_one_delete":
            ctx.violation("sync-every-accepted-despite-validation:" + name, obs, sched + "# observed: " + obs + "\n")
            continue
        left = [x for x in (kv.get("chan_files_left", "") + "," + kv.get("topic_files_left", "")).split(",") if x]
        if kv.get("delete_chan") != "ok" or kv.get("delete_topic") != "ok":
            ctx.violation("daemon-hangs:" + name, obs, sched + "# observed: " + obs + "\n")
        elif kv.get("recreated_depth", "0") != "0":
            ctx.violation("recreated-not-empty:" + name, obs, sched + "# observed: " + obs + "\n")
        elif left:
            if name == "sync_every_zero_delete" and all(x.endswith(".diskqueue.meta.dat") for x in left):
                ctx.violation(KEY_SYNC0, "deleted channel and topic leave %s (--sync-every 0)" % left, sched + "# observed: " + obs + "\n")
            else:
                ctx.violation("files-left-behind:" + name, "deleted channel/topic leave %s" % left, sched + "# observed: " + obs + "\n")


def read_streams(ctx, name):
    ops = open(os.path.join(ctx.work, name + ".ops")).read().splitlines()
    impl = open(os.path.join(ctx.work, name + ".impl")).read().splitlines()
    rc, mout = ctx.driver("e5", stdin_path=os.path.join(ctx.work, name + ".ops"))
    return ops, impl, mout.splitlines()


def hist_from(out, ctx, label):
    h = {}
    for l in out.splitlines():
        if l.startswith("E5HIST "):
            _, k, v = l.split()
            h[k] = int(v)
    ctx.corr[label] = h
    return h


def deadline(ctx):
    """harness deadline: generous (quick ≈ 10 s of work) but short enough that a deadlocked daemon is reported quickly"""
    return ctx.budget(150, 900)


def hung(ctx, rc, out, test, seed, n, steps):
    """A harness run that hit its deadline: some operation on the real daemon never returned."""
    if rc == -9 or "test timed out" in out or "did not drain within" in out or "blocked" in out:
        stuck = [l.strip() for l in out.splitlines() if "nsqd.(*" in l and "zz_verif" not in l][:6]
        ctx.violation("daemon-hangs:" + test, "%s did not finish within its deadline — an operation on the daemon never "
                      "returned (goroutines in: %s)" % (test, "; ".join(stuck) or "?"),
                      json.dumps({"kind": "seed", "test": test, "seed": seed, "n": n, "steps": steps}))
        return True
    return False


def life_corr(ctx, binp, corr_broken, seed, n, steps):
    rc, out = ctx.run_cmd([binp, "-test.run", "^TestVerifE5LifeCorr$", "-test.count=1", "-test.timeout", "%ds" % deadline(ctx)],
                          timeout=deadline(ctx) + 30, env={"VERIF_SEED": seed, "VERIF_N": n, "VERIF_STEPS": steps,
                                            "VERIF_OUT": ctx.work})
    if rc != 0 and hung(ctx, rc, out, "TestVerifE5LifeCorr", seed, n, steps):
        corr_broken.append("life harness hit its deadline")
        return
    if rc != 0:
        ctx.log("life harness failed:\n" + out[-2500:])
        corr_broken.append("life harness exit %s: %s" % (rc, out[-300:].replace("\n", " | ")))
        if "not auto-deleted" in out:
            ctx.violation("ephemeral-not-autodeleted", [l for l in out.splitlines() if "not auto-deleted" in l][0],
                          json.dumps({"kind": "seed", "test": "TestVerifE5LifeCorr", "seed": seed, "n": n, "steps": steps}))
        return
    hist_from(out, ctx, "life_ops_histogram")
    ops, impl, model = read_streams(ctx, "life")
    last = ""
    ndiff = 0
    prev_dump = cur_dump = ""
    since_dump = 0
    for i, (o, a) in enumerate(zip(ops, impl)):
        b = model[i] if i < len(model) else "<missing>"
        w = o.split()[0]
        if w not in ("dump", "meta", "files", "settle"):
            last = o
            prev_dump = cur_dump
            since_dump += 1
            ctx.count_case(o, nontrivial=a.startswith("ok"))
        else:
            ctx.evaluations += 1
        if w == "dump":
            cur_dump = a
            # before/after comparison only when exactly one operation separates the two dumps
            bad = life_direct_oracle(last, prev_dump, a) if since_dump == 1 else None
            since_dump = 0
            if bad:
                ctx.violation(bad[0], bad[1], json.dumps({"kind": "seed", "test": "TestVerifE5LifeCorr", "seed": seed,
                                                          "n": n, "steps": steps, "line": i, "after": last}))
        if w == "files":
            # the model's file set is an upper bound (a data file disappears once fully read):
            # every backend that owns a file on disk must be allowed to
            real = set(a.split()[1].split(",")) if len(a.split()) > 1 else set()
            allowed = set(b.split()[1].split(",")) if len(b.split()) > 1 else set()
            extra = sorted(real - allowed)
            badonly = [x for x in extra if x.endswith("!bad")]
            extra = [x for x in extra if not x.endswith("!bad")]
            if badonly:
                ctx.violation(KEY_BADFILE, "only quarantined .bad files remain for %s after `%s`" % (badonly, last),
                              json.dumps({"kind": "seed", "test": "TestVerifE5LifeCorr", "seed": seed, "n": n,
                                          "steps": steps, "line": i, "after": last}))
            if extra:
                eph = [x for x in extra if x.endswith("#ephemeral") or "#ephemeral:" in x]
                what = "disk files of %s exist after `%s` (model allows %s)" % (extra, last, sorted(allowed))
                key = "ephemeral-has-disk-files" if eph else "files-left-behind:" + last.split()[0]
                ctx.violation(key, what, json.dumps({"kind": "seed", "test": "TestVerifE5LifeCorr",
                                                     "seed": seed, "n": n, "steps": steps, "line": i, "after": last}))
            continue
        if a != b:
            ndiff += 1
            if ndiff <= 3:
                ctx.log("life: model/impl disagree after `%s` on `%s`:\n  impl  %s\n  model %s" % (last, o, a, b))
            corr_broken.append("life correspondence after `%s` (%s)" % (last, o))
            bad = life_property_fails(last, o, a, b)
            if bad:
                ctx.violation(bad[0], bad[1], json.dumps({"kind": "seed", "test": "TestVerifE5LifeCorr", "seed": seed,
                                                          "n": n, "steps": steps, "line": i, "after": last,
                                                          "impl": a, "model": b}))
    for k in (0, 1, 2):
        for i, o in enumerate(ops):
            if o.split()[0] == ["echan", "dchan", "unsub"][k]:
                ctx.add_sample({"op": o, "impl": impl[i], "then": impl[i + 2] if i + 2 < len(impl) else ""})
                break
    ctx.corr.setdefault("streams", []).append({"label": "life", "lines": len(ops), "diffs": ndiff})


def topic_chans(dump, t):
    for part in dump.split(" ; "):
        if part.startswith("T %s " % t):
            return part.split(" | ")[1:]
    return None


def life_direct_oracle(last, before, after):
    """Property clauses that compare the implementation's state before and after one operation
    (no model involved)."""
    w = last.split()
    if not w or not before:
        return None
    if w[0] == "etopic":
        cb, ca = topic_chans(before, w[1]), topic_chans(after, w[1])
        if cb is not None and ca is not None and cb != ca:
            return ("topic-empty-touched-channels", "Topic.Empty changed the topic's channels: %s -> %s" % (cb, ca))
    if w[0] == "echan":
        for part_b in before.split(" ; "):
            if not part_b.startswith("T "):
                continue
            tname = part_b.split()[1]
            cb, ca = topic_chans(before, tname), topic_chans(after, tname)
            if cb is None or ca is None:
                continue
            for x, y in zip(cb, ca):
                same_chan = x.split()[1] == y.split()[1]
                if same_chan and (tname, x.split()[1]) != (w[1], w[2]) and x != y:
                    return ("channel-empty-touched-others", "Channel.Empty of %s:%s changed %s:%s: %s -> %s"
                            % (w[1], w[2], tname, x.split()[1], x, y))
    return None


def chan_fields(dump, t, c):
    """fields of channel c of topic t in a canonical dump line (or None)"""
    for part in dump.split(" ; "):
        if part.startswith("T %s " % t):
            for ch in part.split(" | ")[1:]:
                w = ch.split()
                if w[1] == c:
                    return dict(x.split("=", 1) for x in w[2:])
    return None


def life_property_fails(last, op, impl, model):
    """Decide by the property itself, on the implementation's answer (not by the model)."""
    w = last.split()
    if op != "dump" or not w:
        if op == "meta" and "#ephemeral" in impl:
            return ("ephemeral-in-metadata", "persisted metadata lists an ephemeral topic/channel after `%s`: %s" % (last, impl))
        return None
    if w[0] == "echan":
        f = chan_fields(impl, w[1], w[2])
        if f and (f["ml"] != "0" or f["dl"] != "0" or f["if"] != "[]" or f["df"] != "[]"):
            return ("empty-left-messages", "Channel.Empty left messages behind: %s" % f)
        if f and any(not x.endswith(":0") for x in f["cl"].strip("[]").split(",") if x):
            return ("empty-left-client-count", "Channel.Empty left a consumer's in-flight count non-zero: %s" % f["cl"])
        fm = chan_fields(model, w[1], w[2])
        if f and fm and f["cl"].count(":") != fm["cl"].count(":"):
            return ("empty-changed-subscriptions", "Channel.Empty changed the consumer set: %s vs %s" % (f["cl"], fm["cl"]))
    if w[0] in ("dchan", "dtopic"):
        closed_i = impl.rsplit("closed=", 1)[-1]
        closed_m = model.rsplit("closed=", 1)[-1]
        if closed_i != closed_m:
            return ("delete-consumers-not-closed", "after `%s` closed consumers are %s, expected %s" % (last, closed_i, closed_m))
        if w[0] == "dchan" and chan_fields(impl, w[1], w[2]) is not None and "ok" in last:
            return ("delete-left-channel", "channel still present after `%s`" % last)
    if w[0] == "cchan":
        f = chan_fields(impl, w[1], w[2])
        fm = chan_fields(model, w[1], w[2])
        if f and fm and fm["n"] == "0" and (f["ml"] != "0" or f["dl"] != "0" or f["n"] != "0"):
            return ("recreate-not-empty", "re-created channel is not empty: %s" % f)
    if w[0] == "unsub":
        f = chan_fields(impl, w[1], w[2])
        fm = chan_fields(model, w[1], w[2])
        if f is not None and fm is None:
            return ("ephemeral-not-autodeleted", "ephemeral channel survives its last consumer after `%s`" % last)
        if f is None and fm is not None:
            return ("channel-deleted-with-consumers", "channel vanished after `%s` although the model keeps it" % last)
    return None


def micro_corr(ctx, binp, corr_broken, seed, n, steps, fixed, scan_atomic=False, push_atomic=None, ans_lock=None):
    push_atomic = tree_push_atomic() if push_atomic is None else push_atomic
    ans_lock = True if ans_lock is None else ans_lock   # F27 is committed: the model parameter is an equality, not a selection
    rc, out = ctx.run_cmd([binp, "-test.run", "^TestVerifE5MicroCorr$", "-test.count=1", "-test.timeout", "%ds" % deadline(ctx)],
                          timeout=deadline(ctx) + 30, env={"VERIF_SEED": seed, "VERIF_N": n, "VERIF_STEPS": steps,
                                            "VERIF_OUT": ctx.work, "VERIF_FIXED": 1 if fixed else 0,
                                            "VERIF_SCANATOMIC": 1 if scan_atomic else 0,
                                            "VERIF_PUSHATOMIC": 1 if push_atomic else 0,
                                            "VERIF_ANSLOCK": 1 if ans_lock else 0})
    if rc != 0 and hung(ctx, rc, out, "TestVerifE5MicroCorr", seed, n, steps):
        corr_broken.append("micro harness hit its deadline")
        return
    if rc != 0:
        ctx.log("micro harness failed:\n" + out[-2500:])
        corr_broken.append("micro harness exit %s: %s" % (rc, out[-300:].replace("\n", " | ")))
        return
    hist_from(out, ctx, "micro_steps_histogram")
    ops, impl, model = read_streams(ctx, "micro")
    ndiff = 0
    case_start = 0
    for i, (o, a) in enumerate(zip(ops, impl)):
        b = model[i] if i < len(model) else "<missing>"
        if o.startswith("if new"):
            case_start = i
        if o != "if dump":
            ctx.count_case("|".join(ops[case_start:i + 1])[-400:], nontrivial=a in ("ok", "parked"))
        else:
            ctx.evaluations += 1
        if a in ("panic", "blocked"):
            # the property itself: no schedule may crash or deadlock the channel
            sched = "\n".join(ops[case_start:i + 1]) + "\n"
            if a == "panic" and o.split()[1] in ("finRemove", "reqResume", "touchResume"):
                report(ctx, KEY_PANIC, "generated schedule: %s panics in removeFromInFlightPQ" % o, sched)
            else:
                ctx.violation("micro-%s:%s" % (a, o.split()[1]), "generated schedule: `%s` → %s" % (o, a), sched)
        if a != b:
            ndiff += 1
            if ndiff <= 3:
                ctx.log("micro: model/impl disagree on `%s` (case line %d):\n  impl  %s\n  model %s" % (o, i - case_start, a, b))
            corr_broken.append("micro correspondence on `%s`" % o)
    ctx.corr.setdefault("streams", []).append({"label": "micro", "lines": len(ops), "diffs": ndiff})
    for i, o in enumerate(ops):
        if o.startswith("if emptyInit") and i + 1 < len(impl):
            ctx.add_sample({"op": o, "impl": impl[i], "dump": impl[i + 1][:200]})
            break


def concurrent_leg(ctx, binp, rounds, ms, race_bin=None):
    """Free-running goroutines (no hooks, no serialisation) against one real NSQD: liveness watch.
    A panic kills the subprocess; an operation that does not return within its deadline is reported."""
    res = {"ok": 0, "ops": 0}
    for i in range(rounds):
        b = race_bin if (race_bin and i % 2 == 1) else binp
        rc, out = ctx.run_cmd([b, "-test.run", "^TestVerifE5Concurrent$", "-test.count=1", "-test.timeout", "60s"],
                              timeout=90, env={"VERIF_SEED": ctx.seed * 100 + i, "VERIF_MS": ms})
        ok = [l for l in out.splitlines() if l.startswith("E5CONC ok")]
        rp = json.dumps({"kind": "conc", "seed": ctx.seed * 100 + i, "ms": ms})
        if ok:
            res["ok"] += 1
            # audit B23: the free-running operations are a stress load, not correspondence evaluations; what counts
            # is the number of oracle checks made on the quiescent daemon afterwards
            res["ops"] += int(ok[0].split("ops=")[1].split()[0])
            res["last"] = ok[0]
            nchk = int(ok[0].split("quiesce_checks=")[1].split()[0]) if "quiesce_checks=" in ok[0] else 0
            res["quiesce_checks"] = res.get("quiesce_checks", 0) + nchk
            ctx.evaluations += nchk
            for l in out.splitlines():
                if l.startswith("E5CONC oracle "):
                    kv = dict(x.split("=", 1) for x in l.split()[2:] if "=" in x)
                    ctx.violation("concurrent-quiesce:" + kv.get("key", "?"),
                                  "free-running goroutines, then every worker stopped: " + l[len("E5CONC oracle "):], rp + "\n" + l)
            continue
        blocked = [l for l in out.splitlines() if l.startswith("E5CONC blocked")]
        if "WARNING: DATA RACE" in out:
            where = [l.strip() for l in out.splitlines() if "nsqd.(*" in l][:4]
            ctx.violation("data-race:" + (where[0].split("(")[0] if where else "?"), "race detector: " + "; ".join(where), rp)
        elif "panic:" in out and "index out of range" in out and "removeFromInFlightPQ" in out:
            report(ctx, KEY_PANIC, "free-running goroutines (no hooks): " +
                   [l for l in out.splitlines() if l.startswith("panic:")][0], rp + "\n" + out[-1500:])
        elif "panic:" in out:
            pl = [l for l in out.splitlines() if l.startswith("panic:")][0]
            ctx.violation("concurrent-panic:" + pl[:60], "free-running goroutines: " + pl, rp + "\n" + out[-2500:])
        elif blocked or rc == -9 or "test timed out" in out:
            ctx.violation("daemon-hangs:concurrent", (blocked[0] if blocked else "concurrent leg did not finish"), rp + "\n" + out[-2500:])
        else:
            ctx.broken_ties.append("concurrent leg failed to run: " + out[-300:].replace("\n", " | "))
    ctx.corr["concurrent_leg"] = res


def pairs_leg(ctx, binp):
    """Thorough: every ordered pair (A parked at each of its yield points, B run inside the window), one
    process per pair with a deadline.  Oracle: no panic, nothing blocked, the channel answers afterwards."""
    rc, out = ctx.run_cmd([binp, "-test.run", "^TestVerifE5PairList$", "-test.count=1"], timeout=60)
    pairs = [l.split()[1] for l in out.splitlines() if l.startswith("E5PAIRSPEC ")]
    if not pairs:
        ctx.broken_ties.append("pair list did not run: " + out[-200:])
        return
    res = {"pairs": len(pairs), "b_waited_for_a": 0, "heap_map_differ": [], "double_push": []}
    for p in pairs:
        rc, out = ctx.run_cmd([binp, "-test.run", "^TestVerifE5Pair$", "-test.count=1", "-test.timeout", "20s"],
                              timeout=40, env={"VERIF_PAIR": p, "VERIF_SEED": ctx.seed})
        line = [l for l in out.splitlines() if l.startswith("E5PAIR ")]
        sched = "pair %s\n# harness/e5/pairs_test.go: VERIF_PAIR='%s' <bin> -test.run '^TestVerifE5Pair$'\n" % (p, p)
        if not line:
            if "panic:" in out:
                pl = [l for l in out.splitlines() if l.startswith("panic:")][0]
                ctx.violation("pair-panic:" + p, "pair %s: %s" % (p, pl), sched + out[-1500:])
            else:
                ctx.violation("daemon-hangs:pair:" + p, "pair %s did not finish within its deadline" % p, sched + out[-800:])
            continue
        kv = dict(x.split("=", 1) for x in line[0].split()[1:])
        ctx.count_case("pair:" + p, nontrivial=kv.get("a_parked") == "true")
        if kv["a_res"].startswith("panic") or kv["b_res"].startswith("panic"):
            ctx.violation("pair-panic:" + p, "pair %s: %s" % (p, line[0]), sched + line[0] + "\n")
        elif "blocked" in (kv["a_res"], kv["b_res"]) or kv.get("probe") not in ("ok",):
            ctx.violation("daemon-hangs:pair:" + p, "pair %s: %s" % (p, line[0]), sched + line[0] + "\n")
        if kv.get("b_waited_for_a") == "true":
            res["b_waited_for_a"] += 1
        if kv.get("dup") == "true":
            res["double_push"].append(p)
        elif kv.get("heap") != kv.get("map"):
            res["heap_map_differ"].append(p)
    ctx.corr["pairwise_interleavings"] = res
    ctx.notes.append("pairwise leg: %d pairs; heap≠map afterwards (the proved counter-examples of MapHeapAgree) in %s; "
                     "double push in %s" % (len(pairs), res["heap_map_differ"], res["double_push"]))


def run(ctx):
    ctx.trusted += [
        "translator tools/go2lean: kinds locknest (lock-nesting relation through the nsqd call graph; "
        "calls through function-typed fields are listed as unresolved, not followed), stmts, calls",
        "Go memory model: a critical section / atomic / channel operation is one atomic micro-step (DESIGN 4.4)",
        "correspondence harnesses harness/e5/{life,inflight,replay}_test.go (white-box dumps of the real NSQD/Channel; "
        "the harness plays the consumer's messagePump on real clientV2 objects; verif hooks park the real "
        "FinishMessage/RequeueMessage/TouchMessage/StartInFlightTimeout/processInFlightQueue/Empty between critical sections)",
        "go-diskqueue v1.1.0 (FIFO; Empty removes every file; Delete after Empty leaves none), container/heap for deferredPQ",
    ]
    ctx.assumptions += [
        "deadlock freedom: lock_only_deadlock_free is a graph fact about the regenerated lock-nesting relation (audit B22); it speaks "
        "about the tree through lock_order_acyclic, must_hold_edges (the nestings the models rely on are present), "
        "unresolved_calls_pinned (8 call sites through function-typed fields, not followed, reviewed by hand) and no_recursive_lock; "
        "only lock-only cycles are excluded; blocking on unbuffered Go "
        "channels (channelUpdateChan, pauseChan, notifyChan, diskqueue request channels) is outside the lemma — "
        "the harness watches liveness instead (every operation answers within its deadline)",
        "micro-step model: one live *Message object per message id (ids are unique, C12: `put o` is disabled while a container "
        "or a parked operation still refers to id o); message ids are inputs",
        "index_ok_every_schedule / map_heap_agree_at_quiescence / map_heap_agree_in_progress are theorems about the committed shape "
        "fixed + scanAtomic + pushAtomic (F7, F16, F48), which the ties remove_guard_known, scan_shape_known, push_shape_known demand "
        "of the tree (map_heap_agree_tree); the three counter-examples of the pre-F48 shape stay as theorems about that shape",
        "empty_discards_held_this_tree: F27 (/repo ebb5df3: REQ/TOUCH hold c.RLock) is committed, Tie.Life.answers_channel_lock_shape accepts ONLY "
        "its shape and tree_ans_lock decides ansLock = true (tree_is_f27Tree); the theorem carries the hypothesis that no timeout scan holds a "
        "message when Empty begins (noScanHeld = no in-flight scan continuation; the deferred scan's popDeferredMessage -> c.put window is "
        "not a model step; forced: empty_discards_held_scan_false; open finding empty-races-timeout-scan-message-survives). "
        "empty_survivor_variants is about the tree just BEFORE F27 (committedTree; empty_discards_held_full_false is about the still older pre-F48 "
        "shape) (findings empty-races-req/touch-message-survives, listed fixed, replayed: a "
        "reproduction is a VIOLATION)",
        "configuration: --sync-every >= 1 (E9 CfgOk.sync is an assumption on the configuration: nsqd does not validate the option; "
        "with 0 the open finding sync-every-zero-delete-leaves-meta-file applies; fixes/F25 is a proposal only); 'Empty/Delete leave no file' "
        "excludes quarantine files: open finding diskqueue-bad-file-left-behind (.bad files survive Empty and Delete; replayed on every run)",
        "atomic-model theorems delete_chan_effects / empty_chan_snapshot / ephemeral_autodelete_once / no_delivery_after_discard / "
        "no_delivery_after_delete: the channel is not already exiting; the last two also: x not in the topic's own queue, not in an orphaned "
        "disk queue, not published again",
        "no_zombie_fixed (topic deletion vs SUB / re-creation / second deletion) is a theorem about this tree: F19 8445d6a + F20 dbf8a73 are "
        "committed and the ties sub_guard_shape / delete_topic_shape / tree_model_known demand their shapes; about the tree BEFORE them "
        "DeleteDisconnectsFull is false (delete_disconnects_full_false, witnessDouble_leaks) - both witnesses are fixed findings replayed on "
        "every run (a reproduction is a VIOLATION); delete_topic_closes_attached holds on every tree",
        "no_fault is a theorem about removeFromInFlightPQ as patched by F7 (/repo 80a0e5f; tie remove_guard_known accepts only the patched "
        "guard); about the guard before it no_fault_full_false holds and the failure is a fixed finding replayed on every run",
    ]
    ctx.rule = ("life: generated histories (create/delete/empty/pause/sub/unsub/publish/deliver/FIN/REQ/deferred release; "
                "durable and ephemeral; mem-queue-size 1/2/3/50 with 200-byte disk files) on a real NSQD, full white-box "
                "state dump + GetMetadata + directory listing after every operation; a case is the operation line, "
                "non-trivial when it succeeded. micro: generated schedules of critical sections of the real Channel "
                "methods (goroutines parked at the verif hooks), dump of map/heap/index fields after every step; a case "
                "is the schedule prefix. oracle: no panic, no blocked step, Empty/Delete/ephemeral effects on the real state")
    # 1-2 regenerate, build, audit
    ctx.gen("e5_life")
    ok, log = ctx.lean_build(TIE + PROPS)
    if not ok:
        ctx.lean_obligation_failed("lake build " + " ".join(TIE + PROPS), log[-1500:])
    ctx.lean_audit(PROPS, TIE)
    if ctx.thorough():
        ctx.leanchecker(PROPS)
    fixed = tree_fixed()
    ctx.corr["tree_has_F7_fix"] = fixed
    scan_atomic = tree_scan_atomic()
    ctx.corr["tree_scan_pop_atomic"] = scan_atomic
    ctx.notes.append("processInFlightQueue on this tree: %s → model parameter scanAtomic=%s"
                     % ("heap pop + map delete in one critical section" if scan_atomic else
                        "heap pop, then popInFlightMessage (two critical sections)", scan_atomic))
    ctx.corr["tree_push_atomic_F48"] = tree_push_atomic()
    ctx.corr["tree_answers_hold_channel_lock_F27"] = tree_ans_lock()
    ctx.notes.append("micro-step model parameters of this tree: pushAtomic=%s (F48: map insert + heap push one critical "
                     "section), ansLock=%s (F27 ebb5df3: REQ/TOUCH hold c.RLock; %s)"
                     % (tree_push_atomic(), tree_ans_lock(),
                        "empty_discards_held_this_tree in force" if tree_ans_lock() else
                        "TIE BROKEN: the committed shape is demanded; the model still runs with ansLock=true"))
    ctx.notes.append("removeFromInFlightPQ on this tree: %s → micro-step model parameter fixed=%s; theorem in force: %s"
                     % ("patched guard" if fixed else "`if msg.index == -1`", fixed,
                        "no_fault (all schedules)" if fixed else "no_fault_full_false + known finding F7"))
    corr_broken = []
    if not ctx.build_driver("e5"):
        corr_broken.append("driver build")
    binp = ctx.go_test_binary("nsqd", HARNESS, "e5c08")
    if not binp:
        ctx.broken_ties.append("harness e5 does not compile against the current tree")
        corr_broken.append("harness build")
    else:
        if ctx.replay_in:
            replay_file(ctx, binp, fixed)
            return
        replay_known(ctx, binp)
        life_corr(ctx, binp, corr_broken, ctx.seed, ctx.budget(40, 400), ctx.budget(60, 80))
        micro_corr(ctx, binp, corr_broken, ctx.seed, ctx.budget(400, 6000), ctx.budget(40, 60), fixed, scan_atomic)
        race_bin = None
        if ctx.thorough():
            race_bin = ctx.go_test_binary("nsqd", HARNESS, "e5c08race", race=True)
        concurrent_leg(ctx, binp, ctx.budget(4, 24), ctx.budget(1200, 4000), race_bin)
        if ctx.thorough():
            pairs_leg(ctx, binp)
    if (ctx.broken_ties or corr_broken) and not ctx.violations:
        ctx.broken_without_input(ctx.broken_ties + corr_broken,
                                 "search: %d evaluations of the generated histories/schedules found no property failure"
                                 % ctx.evaluations)


def replay_file(ctx, binp, fixed):
    p = ctx.replay_in
    txt = open(p).read()
    if txt.startswith("sched "):
        name = txt.split()[1]
        rc, kv, out = run_sched(ctx, binp, name)
        print("replay %s on %s: %s" % (name, REPO, kv or out[-500:]))
        return
    try:
        d = json.loads(txt)
    except ValueError:
        d = None
    if d and d.get("kind") == "seed":
        cb = []
        if d["test"] == "TestVerifE5LifeCorr":
            life_corr(ctx, binp, cb, d["seed"], d["n"], d["steps"])
        else:
            micro_corr(ctx, binp, cb, d["seed"], d["n"], d["steps"], fixed, tree_scan_atomic())
        print("replay of %s: %s" % (p, cb or "no disagreement"))
        return
    # a micro-step schedule (lines `if …`): print the model's answers
    rc, out = ctx.driver("e5", stdin=txt)
    for o, m in zip(txt.splitlines(), out.splitlines()):
        print("%-50s model: %s" % (o, m))
