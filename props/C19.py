"""C19 — nsq_to_file never acknowledges what it has not safely written (engine E8, DESIGN.md §5 C19)."""
import json
import os
import re
import sys
import framework as fw
sys.path.insert(0, os.path.dirname(os.path.abspath(__file__)))
from framework import REPO
import c19_lines

TIE = ["Nsq.Tie.ToolsToFile", "Nsq.Tie.ToolsToFileFn"]
PROPS = ["Nsq.Props.C19", "Nsq.Props.C19Name", "Nsq.Props.C19Disc", "Nsq.Props.C19Ops",
         "Nsq.Props.C19Lines", "Nsq.Props.C19Mono", "Nsq.Props.C19Tree"]   # c19a (audit 7): line-level statement (C5/C4), step-wise no-overwrite + tool runs (C29)
CORPUS = os.path.join(fw.ROOT, "corpus", "C19")
HARNESS = ["e8/tofile_test.go", "e8/tofile_names_test.go", "e8/tofile_disc_test.go", "e8/tofile_xdev_test.go", "e8/tofile_giveup_test.go", "e8/stub_nsqd.go",
           "e8/tofile_lines_test.go"]   # c19a: line-level replays + probes of fixes F46/F47


def build_pair(ctx):
    """The harness is built twice: `tofile` (real clock: generates scripts, runs the children,
    evaluates the oracles) and `tofilechild` (-tags faketime, cgo off: the real router on the Go
    runtime's deterministic fake clock)."""
    parent = ctx.go_test_binary("apps/nsq_to_file", HARNESS, "e8tofile", pkgname="main")
    old = fw.GOENV["CGO_ENABLED"]
    fw.GOENV["CGO_ENABLED"] = "0"   # the fake clock only advances when deadlock detection works (no cgo threads)
    try:
        child = ctx.go_test_binary("apps/nsq_to_file", HARNESS, "e8tofilechild", pkgname="main",
                                   tags="verif,faketime")
    finally:
        fw.GOENV["CGO_ENABLED"] = old
    return parent, child


def parse_strace(path, root):
    """strace log of one child → model trace events: w:<file> (write to an output/work file),
    s:<file> (fsync), f:<id> (the FIN marker written by the recording delegate)."""
    fds = {}          # (fd) -> path, for files under root/w or root/o opened for writing
    names = {}
    ev = []
    pend = {}         # pid -> unfinished line
    skip = False      # between EXTB / EXTE markers the harness itself creates a file
    for raw in open(path, errors="replace"):
        m = re.match(r"^(\d+)\s+(.*)$", raw.rstrip("\n"))
        if not m:
            continue
        pid, l = m.group(1), m.group(2)
        if l.endswith("<unfinished ...>"):
            pend[pid] = l[:-len("<unfinished ...>")]
            continue
        mm = re.match(r"<\.\.\. (\w+) resumed>(.*)$", l)
        if mm:
            l = pend.pop(pid, mm.group(1) + "(") + mm.group(2)
        mo = re.match(r'openat\(AT_FDCWD, "([^"]*)", ([A-Z_|0-9]+)[^)]*\)\s+= (\d+)', l)
        if mo:
            p, flags, fd = mo.group(1), mo.group(2), int(mo.group(3))
            if (p.startswith(root + "/w/") or p.startswith(root + "/o/")) and ("O_WRONLY" in flags or "O_RDWR" in flags) and not skip:
                fds[fd] = names.setdefault(p, len(names))
            else:
                fds.pop(fd, None)
            continue
        mo = re.match(r"close\((\d+)\s*\)\s+= 0", l)
        if mo:
            fds.pop(int(mo.group(1)), None)
            continue
        mo = re.match(r'write\((\d+),\s+"([^"]*)"', l)
        if mo:
            fd, s = int(mo.group(1)), mo.group(2)
            if fd in fds:
                ev.append("w:%d" % fds[fd])
            elif s.startswith("FIN "):
                ev.append("f:" + s.split()[1])
            elif s.startswith("START"):
                ev = []
            elif s.startswith("EXTB"):
                skip = True
            elif s.startswith("EXTE"):
                skip = False
            continue
        mo = re.match(r"(fsync|fdatasync)\((\d+)\s*\)\s+= 0", l)
        if mo and int(mo.group(2)) in fds:
            ev.append("s:%d" % fds[int(mo.group(2))])
    return ev


def run(ctx):
    ctx.trusted += [
        "OS / file-system semantics: fsync makes preceding writes of that file durable; link fails with EEXIST "
        "when the target exists; O_CREAT|O_EXCL never opens an existing file; O_APPEND writes append",
        "compress/gzip: a member is decodable once Close returned and its bytes reached the file; "
        "go-nsq (Message.Finish calls the delegate once; max_attempts handling is outside the router)",
        "Go runtime fake clock (-tags faketime, the playground clock): only the clock source differs, the router "
        "code is compiled unchanged; time advances only when every goroutine is blocked",
        "correspondence harness harness/e8/tofile_test.go (fault seams: dup3 onto the descriptor of f.out, SIGKILL from the "
        "FIN delegate / log callback; starvation seam: a never-dialled nsq.Conn registered in the real Consumer); "
        "strace(1) output order (syscall leg)",
        "go2lean kind `skeleton` (statement skeletons of router/Close/Sync/Write/needsRotation/updateFile/sealTornTail/exclusiveRename)",
        "file permissions (round 11): a file of mode 0222 cannot be opened for reading by a process without CAP_DAC_OVERRIDE "
        "(as root the harness child that plays the tool runs as uid/gid 65534)",
    ]
    ctx.assumptions += [
        "writers: no other process renames, truncates or overwrites the tool's files while it runs; other processes may create "
        "new files (Ev.ext) and - plain append mode only - another O_APPEND writer (a second router of the same build: "
        "--filename-format without <TOPIC>) may append whole records with one write(2) each (Ev.extAppend; that is what fix F46 "
        "makes every router do; before F46 (/repo 85f4c48) two routers sharing a file tore each other's records: finding two-routers-one-file, fixed, replayed on every run)",
        "fin_owns_line_this_tree_partial (F46 85f4c48 + F47 efaf20c + F47b 73f7348 are committed, ties accept only their skeletons; "
        "sealTornTail: only the skeleton of F47b, Tie.ToolsToFile.tree_seal_read_warns): the line-level torn-tail "
        "guarantee (fin_owns_line_this_tree_partial, fin_owns_line_fixed, restart_keeps_lines, pending_owns_line_fixed, shared_file_lines_fixed) "
        "holds under the hypothesis ReadsOk: every existing file the tool appends to is readable by it (fin_owns_line_F47b_partial) - or is "
        "empty / newline-terminated (fin_owns_line_unreadable_partial); refuted without: fin_owns_line_F47b_full_false (write-only torn file "
        "\"A\" + message \"B\" -> \"AB\\n\", B FINished; replayed on the real router on every run: scenario unreadable-torn, reported as the "
        "witnessed hypothesis boundary, not as a violation); the infix theorems (fin_implies_durable, ...) need no such hypothesis; "
        "none of the following is needed for this tree; "
        "fin_owns_line_partial (tree BEFORE fix F47, plain append mode): every pre-existing file and every file another process "
        "drops is empty or ends in \"\\n\" (no writer died inside a record, no short write); without that directory hypothesis with F47 "
        "(fin_owns_line_fixed) and in O_EXCL modes (fin_owns_line_excl) - both still carry the environment hypothesis EnvOk: "
        "whatever another process appends to a file of the tool is a whole record written by a build with F46; refuted without (fin_owns_line_full_false, "
        "finding torn-tail-append, fixed, replayed on every run); a short write(2) is not a model primitive - its effect is a torn tail in the next run's directory",
        "tool_fin_implies_durable_partial: the consumer library does not give up (max_attempts = 0 or attempts <= "
        "max_attempts); with go-nsq's default max_attempts=5 the full tool-level statement is refuted (finding "
        "gives-up-after-max-attempts, fixed by F43 = /repo 924c537: main() sets cfg.MaxAttempts = 0, shipped_tool_safe; an operator's "
        "--consumer-opt max_attempts,N re-enables the give-up); the give-up rule shouldFail / toolRun is a hand-written Lean "
        "definition without a driver op: the real binary's give-up replay is compared with a Python mirror of it (giveup_leg); "
        "the router-level theorems do not depend on max_attempts",
        "no_overwrite_accepted / format_ok_cfg_wf are stated for cfgOf (hand-written: how an option set becomes a Cfg; shape "
        "parameters false); for this tree: Props.C19Tree.no_overwrite_accepted_this_tree over treeCfg (cfgOf ...). "
        "Props.C19Disc: the regexp answer and the NewFileLogger outcome are one time-invariant function of the topic per run",
    ]
    ctx.rule = ("one case = one generated script (configuration: gzip, rotate-size, rotate-interval, work-dir, "
                "skip-empty-files, max-in-flight, sync-interval, datetime format, filename format with/without <REV>; "
                "pre-existing colliding files in both dirs; events msg / clock advance / ticker tick / SIGHUP / "
                "SIGTERM+stop / stop without shutdown; consumer starvation both ways on msg events; in one script of "
                "three one injected fault: SIGKILL before the n-th Finish / between the writes and Sync / before the "
                "move's link, or a failing write / fsync on f.out before or after the FIN batch; max-in-flight 0) "
                "run through the real FileLogger.router() in a child process on the fake clock; every event's FIN batch + directory listing and the final decoded tree are "
                "compared with the Lean model; distinct = distinct (op line, answer) pairs, non-trivial = an event "
                "that finished a message, changed a file or ended the process")
    # 1-2: regenerate, build, audit
    ctx.gen("e8_tools")
    ctx.gen("e8_tofile_fn")
    built = []
    for mod in TIE + PROPS:
        ok, log = ctx.lean_build([mod])
        if ok:
            built.append(mod)
        else:
            ctx.lean_obligation_failed("lake build " + mod, log[-1500:])
    ctx.lean_audit([m for m in PROPS if m in built], [m for m in TIE if m in built])
    if ctx.thorough() and PROPS[0] in built:
        ctx.leanchecker(PROPS)
    corr_broken = []
    if not ctx.build_driver("e8"):
        corr_broken.append("driver drv_e8 does not build")
    parent, child = build_pair(ctx)
    if not parent or not child:
        ctx.broken_ties.append("harness e8/tofile_test.go does not compile against the current tree")
        corr_broken.append("harness build")
    else:
        runs = [("gen", None)]
        if os.path.isdir(CORPUS):
            runs = [("corpus:" + f, os.path.join(CORPUS, f)) for f in sorted(os.listdir(CORPUS)) if f.endswith(".json")] + runs
        if ctx.replay_in:
            runs = [("replay", os.path.abspath(ctx.replay_in))]
        for label, replay in runs:
            out = os.path.join(ctx.work, "tf_" + re.sub(r"[^A-Za-z0-9]", "_", label))
            os.makedirs(out, exist_ok=True)
            n = ctx.budget(400, 6000)
            nstrace = ctx.budget(60, 600)
            env = {"VERIF_SEED": ctx.seed, "VERIF_N": n, "VERIF_STRACE": nstrace, "VERIF_OUT": out,
                   "VF_E8_CHILD_BIN": child, "VERIF_PAR": 8}
            if replay:
                env["VF_E8_REPLAY"] = replay
                env["VERIF_STRACE"] = 1
            rc, log = ctx.run_cmd([parent, "-test.run", "^TestVerifToFileCorr$", "-test.count=1", "-test.timeout=0"],
                                  timeout=ctx.budget(600, 3000), env=env)
            if rc != 0 or "ORACLE-DONE" not in log:
                ctx.log("tofile harness failed (%s):\n%s" % (label, log[-2000:]))
                corr_broken.append("tofile harness exit %s (%s)" % (rc, label))
                continue
            ops = open(os.path.join(out, "tofile.ops")).read().splitlines()
            impl = open(os.path.join(out, "tofile.impl")).read().splitlines()
            # the model runs with the committed shapes oneWrite = sealsTail = 1 (F46, F47), not with what the harness probed
            # round 11 (F47b = /repo 73f7348 committed): sealReadWarns = 1; the regenerated skeleton and the probe must both say 1
            srw_seen = set()
            probed = c19_lines.committed_shape_ops(os.path.join(out, "tofile.ops"), os.path.join(out, "tofile.model.ops"), srw_seen)
            srw = c19_lines.seal_read_warns_from_gen()
            if "-1" in srw_seen:
                # the read fault could not be injected here (e.g. the work directory is not traversable for the unprivileged
                # child that the probe runs as): the regenerated skeleton alone decides, the probe is reported as unavailable
                ctx.notes.append("sealTornTail probe unavailable in this environment (fault not injectable): skeleton only")
            if srw != 1 or srw_seen - {"1", "-1"}:
                msg = ("probe of sealTornTail on an unreadable file (real updateFile()): sealReadWarns = %s, regenerated skeleton: %s "
                       "(accepted: only 1 = F47b = /repo 73f7348 for both; 0 = F47 alone, F47b reverted)" % (sorted(srw_seen), srw))
                if msg not in corr_broken:
                    corr_broken.append(msg)
            ctx.corr["seal_read_warns"] = {"probe": sorted(srw_seen), "regenerated_skeleton": srw}
            if probed - {("1", "1")}:
                corr_broken.append("probe of router()/updateFile() on the real code: (one_write, seals_tail) = %s, expected (1, 1) "
                                   "(F46 85f4c48, F47 efaf20c)" % sorted(probed))
            rc, mout = ctx.driver("e8", stdin_path=os.path.join(out, "tofile.model.ops"))
            model = mout.splitlines()
            # bookkeeping
            case_of, cur = [], -1
            for o in ops:
                if o.startswith("# case"):
                    cur = int(o.split()[2])
                case_of.append(cur)
            for o, i in zip(ops, impl):
                if o.startswith("#"):
                    continue
                ctx.count_case(o + "|" + i, nontrivial=("fin=[]" not in i) or ("st=running" not in i))
            hist = {}
            for l in log.splitlines():
                if l.startswith("HIST "):
                    _, k, v = l.split()
                    hist[k] = int(v)
            cc = sorted(set(o.split()[9] for o in ops if o.startswith("tf conf") and len(o.split()) >= 10))
            ctx.corr["close_clears_out_probe"] = cc   # ["0"]: tree before fix F44, ["1"]: with it (model parameter Cfg.closeClears)
            if cc and cc != ["0"]:
                # F44 (Close() clears f.out) is NOT committed and stays a proposal: the committed shape is expected (round 10)
                corr_broken.append("probe of Close() on the real code: closeClears = %s, expected 0 (fixes/F44 is a proposal, not in /repo)" % cc)
            ctx.corr.setdefault("runs", []).append({"label": label, "histogram": hist,
                                                     "oracle": [l for l in log.splitlines() if l.startswith("ORACLE-DONE")]})
            for o, i in list(zip(ops, impl))[1:6]:
                ctx.add_sample({"op": o[:160], "impl": i[:200]})
            # the "hang" status must never appear: it would hide the rest of a script
            if any(k.startswith("exit:hang") or k.startswith("exit:start") for k in hist):
                corr_broken.append("a child hung or did not start (%s)" % label)
            # 5: direct oracle
            for l in log.splitlines():
                if l.startswith("ORACLE-FAIL"):
                    m = re.match(r"ORACLE-FAIL case=(\d+) (.*)", l)
                    c = int(m.group(1))
                    script = open(os.path.join(out, "case%d" % c, "script.json")).read()
                    key = "tofile-oracle:" + "-".join(re.sub(r"[^a-z ]", "", re.sub(r"\S*/\S*", "", m.group(2).lower())).split()[:7])
                    ctx.violation(key, "nsq_to_file: " + m.group(2), script)
            # 4: correspondence
            diffs = ctx.diff_lines(impl, model, "tofile:" + label)
            for idx, a, b in diffs:
                c = case_of[idx] if idx < len(case_of) else -1
                ctx.log("model/impl disagree in case %d on `%s`:\n   impl =%s\n   model=%s" % (c, ops[idx][:120], a[:300], b[:300]))
                corr_broken.append("correspondence tofile case %d op %s" % (c, ops[idx].split()[1] if len(ops[idx].split()) > 1 else "?"))
                # decide by the property: a FIN the model does not allow at this point, or a file the model
                # says must still be there, is a violation on its own
                bad = property_fails_on(a, b)
                if bad and c >= 0:
                    script = open(os.path.join(out, "case%d" % c, "script.json")).read()
                    ctx.violation("tofile-corr:" + bad[0], "nsq_to_file: " + bad[1], script)
            # syscall leg: FIN only after every written file was fsynced
            nst, nfin = 0, 0
            for c in range(min(int(env["VERIF_STRACE"]), n)):
                sp = os.path.join(out, "case%d" % c, "strace.txt")
                if not os.path.exists(sp):
                    continue
                tr = parse_strace(sp, os.path.join(out, "case%d" % c))
                nst += 1
                nfin += sum(1 for e in tr if e.startswith("f:"))
                rc, ans = ctx.driver("e8", stdin="tr " + " ".join(tr) + "\n")
                ans = ans.strip()
                if ans != "ok":
                    script = open(os.path.join(out, "case%d" % c, "script.json")).read()
                    ctx.violation("tofile-syscall:" + ans.split()[0],
                                  "nsq_to_file sent FIN while written bytes were not yet fsynced (syscall trace, %s)" % ans,
                                  script + "\n" + " ".join(tr) + "\n")
                ctx.evaluations += 1
            ctx.corr.setdefault("syscall_leg", []).append({"label": label, "traces": nst, "fins": nfin})
            if label == "gen" and nst and nfin == 0:
                corr_broken.append("syscall leg saw no FIN marker")
    if parent and not ctx.replay_in:
        names_leg(ctx, parent, corr_broken)
        disc_leg(ctx, parent, corr_broken)
        xdev_leg(ctx, parent, corr_broken)
        # ---- c19a (audit 7, C5/C4): line-level replays on the real FileLogger, probes of fixes F46/F47 ----
        c19_lines.lines_leg(ctx, parent, corr_broken)
    # known finding replay on the REAL binary: the tool as shipped (router behind go-nsq's handlerLoop)
    if parent and not ctx.replay_in:
        giveup_leg(ctx, parent, corr_broken)
    # end-to-end leg (thorough): real binaries, real nsqd, signals at random instants, strace
    if ctx.thorough() and not ctx.replay_in:
        import c19_e2e
        corr_broken += c19_e2e.run(ctx, rounds=10)
    if (ctx.broken_ties or corr_broken) and not ctx.violations:
        ctx.broken_without_input(ctx.broken_ties + corr_broken,
                                 "search: %d generated events through the real router with the readable-at-FIN, "
                                 "end-state, no-overwrite and fsync-before-FIN oracles found no failing input" % ctx.evaluations)


def _unhex(h):
    return b"" if h == "-" else bytes.fromhex(h)


def py_names(op):
    """independent oracle for the file-name functions: Python's bytes.replace has the semantics of
    strings.Replace(…, -1) for a non-empty pattern"""
    w = op.split()
    if w[1] == "cff":
        hi, ff, gz, rs, ri, wd, od, tp, hk, hn, pid = w[2:13]
        hi, ff, wd, od, tp, hn, pid = map(_unhex, (hi, ff, wd, od, tp, hn, pid))
        if hk == "err":
            return "err " + (hn.hex() or "-")
        short = hn.split(b".")[0]
        ident = short
        if hi:
            ident = hi.replace(b"<SHORT_HOST>", short).replace(b"<HOSTNAME>", hn)
        need = gz == "1" or int(rs) > 0 or int(ri) > 0 or wd != od
        if need:
            if b"<REV>" not in ff:
                return "err " + b"missing <REV> in --filename-format when gzip, rotation, or work dir enabled".hex()
        else:
            ff = ff.replace(b"<REV>", b"")
        ff = ff.replace(b"<TOPIC>", tp).replace(b"<HOST>", ident).replace(b"<PID>", pid)
        if gz == "1" and not ff.endswith(b".gz"):
            ff += b".gz"
        return "ok %s rev=%d" % (ff.hex() or "-", 1 if b"<REV>" in ff else 0)
    if w[1] == "cfn":
        return _unhex(w[2]).replace(b"<DATETIME>", _unhex(w[3])).hex() or "-"
    return "?"


def names_leg(ctx, parent, corr_broken):
    """computeFilenameFormat / currentFilename: real functions vs the Lean model (which is proved equal to
    their go2lean translation) vs an independent Python rendering; direct oracles in the harness."""
    out = os.path.join(ctx.work, "tf_names")
    os.makedirs(out, exist_ok=True)
    rc, log = ctx.run_cmd([parent, "-test.run", "^TestVerifToFileNames$", "-test.count=1"], timeout=300,
                          env={"VERIF_SEED": ctx.seed, "VERIF_N": ctx.budget(600, 6000), "VERIF_OUT": out})
    if rc != 0 or "ORACLE-DONE names" not in log:
        ctx.log("names harness failed:\n" + log[-1500:])
        corr_broken.append("names harness exit %s" % rc)
        return
    ops = open(os.path.join(out, "tfnames.ops")).read().splitlines()
    impl = open(os.path.join(out, "tfnames.impl")).read().splitlines()
    rc, mout = ctx.driver("e8", stdin_path=os.path.join(out, "tfnames.ops"))
    model = mout.splitlines()
    hist = {}
    for l in log.splitlines():
        if l.startswith("HIST "):
            _, k, v = l.split()
            hist[k] = int(v)
        if l.startswith("ORACLE-FAIL names"):
            m = re.match(r"ORACLE-FAIL names case=(\d+) (.*)", l)
            ctx.violation("tofile-names:" + "-".join(re.sub(r"[^a-z ]", "", re.sub(r'"[^"]*"', "", m.group(2).lower())).split()[:6]),
                          "nsq_to_file file names: " + m.group(2), l + "\n")
    ctx.corr["names"] = {"ops": len(ops), "histogram": hist}
    for o, i in zip(ops, impl):
        ctx.count_case(o + "|" + i, nontrivial=True)
        want = py_names(o)
        ctx.evaluations += 1
        if want != i:
            # the implementation's own answer decides: a rotating configuration without <REV>, or a lost <REV>
            w = o.split()
            what = "computeFilenameFormat/currentFilename answered %s, an independent rendering of the documented substitution gives %s" % (i[:120], want[:120])
            bad = i.startswith("ok ") and want.startswith("err ")
            bad = bad or (i.startswith("ok ") and i.endswith("rev=0") and want.endswith("rev=1"))
            bad = bad or (w[1] == "cfn" and b"<REV>" in _unhex(want) and b"<REV>" not in _unhex(i))
            if bad:
                ctx.violation("tofile-names:" + w[1], "nsq_to_file file names: " + what, o + "\n")
            else:
                corr_broken.append("names oracle (python) " + w[1])
                ctx.log("names: " + what + "\n   op=" + o[:200])
    for idx, a, b in ctx.diff_lines(impl, model, "tofile-names"):
        ctx.log("model/impl disagree on `%s`:\n   impl =%s\n   model=%s" % (ops[idx][:160], a[:200], b[:200]))
        corr_broken.append("correspondence names op %s" % ops[idx].split()[1])
    for o, i in list(zip(ops, impl))[:3]:
        ctx.add_sample({"op": o[:160], "impl": i[:160]})


def disc_leg(ctx, parent, corr_broken):
    """TopicDiscoverer: the real run() against a scripted stub lookupd vs the Lean model; direct oracles in the
    harness (exactly the allowed+creatable topics have a logger; after SIGTERM run() returns, every logger was
    told to terminate, stopped its consumer and closed its file)."""
    out = os.path.join(ctx.work, "tf_disc")
    os.makedirs(out, exist_ok=True)
    rc, log = ctx.run_cmd([parent, "-test.run", "^TestVerifToFileDiscover$", "-test.count=1", "-test.timeout=0"],
                          timeout=ctx.budget(400, 1500),
                          env={"VERIF_SEED": ctx.seed, "VERIF_N": ctx.budget(40, 400), "VERIF_OUT": out})
    if rc != 0 or "ORACLE-DONE disc" not in log:
        ctx.log("discoverer harness failed:\n" + log[-1500:])
        corr_broken.append("discoverer harness exit %s" % rc)
        return
    ops = open(os.path.join(out, "tfdisc.ops")).read().splitlines()
    impl = open(os.path.join(out, "tfdisc.impl")).read().splitlines()
    rc, mout = ctx.driver("e8", stdin_path=os.path.join(out, "tfdisc.ops"))
    model = mout.splitlines()
    model = [("*" if i < len(impl) and impl[i] == "*" else m) for i, m in enumerate(model)]   # unobserved intermediate polls
    hist = {}
    for l in log.splitlines():
        if l.startswith("HIST "):
            _, k, v = l.split()
            hist[k] = int(v)
        if l.startswith("ORACLE-FAIL disc"):
            m = re.match(r"ORACLE-FAIL disc case=(\d+) (.*)", l)
            c = int(m.group(1))
            # the ops of that case are the replay
            starts = [i for i, o in enumerate(ops) if o.startswith("td new")]
            seg = ops[starts[c]:(starts[c + 1] if c + 1 < len(starts) else len(ops))] if c < len(starts) else []
            ctx.violation("tofile-disc:" + "-".join(re.sub(r"[^a-z ]", "", re.sub(r'"[^"]*"', "", m.group(2).lower())).split()[:6]),
                          "nsq_to_file TopicDiscoverer: " + m.group(2), "\n".join(seg) + "\n")
    ctx.corr["discoverer"] = {"ops": len(ops), "histogram": hist}
    for o, i in zip(ops, impl):
        if i != "*":
            ctx.count_case(o + "|" + i, nontrivial=not o.startswith("td new"))
    for idx, a, b in ctx.diff_lines(impl, model, "tofile-disc"):
        ctx.log("model/impl disagree on `%s`:\n   impl =%s\n   model=%s" % (ops[idx][:160], a[:200], b[:200]))
        corr_broken.append("correspondence discoverer op %s" % ops[idx].split()[1])
        if ops[idx].startswith("td term") and a.startswith("returned=1"):
            # run() returned although a logger was not terminated / stopped: a logger left behind
            ctx.violation("tofile-disc:term", "nsq_to_file TopicDiscoverer after SIGTERM: " + a + " (model: " + b + ")", ops[idx] + "\n")
    for o, i in list(zip(ops, impl))[1:4]:
        ctx.add_sample({"op": o[:160], "impl": i[:160]})


def xdev_leg(ctx, parent, corr_broken):
    """work dir on another device (link fails with EXDEV → os.Exit(1), fail-stop after the FINs, nothing moved or
    lost, restart keeps the stranded file) and every --gzip-level 1..9 (decodable output): direct oracles on the
    real router in child processes."""
    out = os.path.join(ctx.work, "tf_xdev")
    os.makedirs(out, exist_ok=True)
    rc, log = ctx.run_cmd([parent, "-test.run", "^TestVerifToFileXdev$", "-test.count=1", "-test.timeout=0"], timeout=600,
                          env={"VERIF_SEED": ctx.seed, "VERIF_OUT": out})
    if rc != 0 or "ORACLE-DONE xdev" not in log:
        ctx.log("xdev harness failed:\n" + log[-1500:])
        corr_broken.append("xdev harness exit %s" % rc)
        return
    ctx.corr["xdev_gzip_level"] = [l for l in log.splitlines() if l.startswith(("XDEV", "ORACLE-DONE xdev"))]
    if "XDEV available=false" in log:
        ctx.log("note: /dev/shm is not a separate file system here; the cross-device leg was skipped")
    for l in log.splitlines():
        if l.startswith("ORACLE-FAIL xdev"):
            what = l[len("ORACLE-FAIL xdev "):]
            ctx.violation("tofile-xdev:" + "-".join(re.sub(r"[^a-z ]", "", re.sub(r'"[^"]*"', "", what.lower())).split()[:6]),
                          "nsq_to_file (work dir on another device / gzip level): " + what, l + "\n")
    m = re.search(r"ORACLE-DONE xdev cases=(\d+)", log)
    for i in range(int(m.group(1)) if m else 0):
        ctx.count_case("xdev-case-%d" % i, nontrivial=True)
        ctx.evaluations += 1


def default_max_attempts():
    """what the regenerated Gen module says main() runs the consumer with (go-nsq default unless main assigns it)"""
    try:
        txt = open(os.path.join(fw.LEAN, "Nsq", "Gen", "ToolsToFileFn.lean")).read()
    except OSError:
        return None
    lib = re.search(r"def toFileMaxAttempts_lib : Nat := (\d+)", txt)
    tool = re.search(r"def toFileMaxAttempts_tool : Option Nat := (none|some (\d+))", txt)
    if not lib or not tool:
        return None
    return int(tool.group(2)) if tool.group(2) is not None else int(lib.group(1))


def giveup_leg(ctx, parent, corr_broken):
    """Finding gives-up-after-max-attempts, replayed on the real nsq_to_file binary built from the tree under
    check. Model: Nsq.Model.ToFile.shouldFail with max_attempts = the regenerated default of main()
    (Nsq.Gen.ToolsToFileFn.toFileMaxAttempts) or the operator's --consumer-opt. Decision theorem:
    Props.C19Ops.tool_safe_iff (safe iff max_attempts = 0). On a tree with fix F43 (main sets cfg.MaxAttempts = 0)
    the default cases must all be written before FIN; without it the known finding reproduces."""
    binp = os.path.join(fw.BUILD, "bin", "nsq_to_file_%d" % os.getpid())
    rc, out = fw.sh(["go", "build", "-o", binp, "./apps/nsq_to_file"], cwd=REPO, timeout=900)
    if rc != 0:
        ctx.log("go build apps/nsq_to_file failed:\n" + out[-800:])
        corr_broken.append("nsq_to_file binary does not build")
        return
    ctx._bins = getattr(ctx, "_bins", []) + [binp]
    dmx = default_max_attempts()
    if dmx is None:
        corr_broken.append("regenerated default max_attempts not found (Gen/ToolsToFileFn.lean)")
        return
    known_replay = os.path.join(CORPUS, "known", "max_attempts.txt")   # the `replay` of known_findings.d/C19.json (audit C36)
    rc, log = ctx.run_cmd([parent, "-test.run", "^TestVerifToFileGiveUpBin$", "-test.count=1", "-test.timeout=0"], timeout=400,
                          env={"VF_E8_TOFILE_BIN": binp, "VF_E8_GIVEUP_REPLAY": known_replay})
    rows = [dict(kv.split("=", 1) for kv in l.split()[1:]) for l in log.splitlines() if l.startswith("GIVEUPBIN ")]
    replayed = [dict(kv.split("=", 1) for kv in l.split()[1:]) for l in log.splitlines() if l.startswith("GIVEUPBIN-REPLAY ")]
    ctx.corr["give_up_known_replay"] = {"file": os.path.relpath(known_replay, fw.ROOT), "lines": replayed}
    for rp in replayed:   # each committed line must have been run both ways on the real binary
        for cli in ("default", "max_attempts,%s" % rp["max_attempts"]):
            if not any(r["cli"] == cli and r["attempts"] == rp["attempts"] for r in rows):
                corr_broken.append("known-finding replay %s not run with cli=%s" % (rp, cli))
    if not replayed or "GIVEUPBIN-ERROR" in log:
        corr_broken.append("known-finding replay corpus/C19/known/max_attempts.txt was not read")
    if len(rows) < 9:
        ctx.log("give-up replay did not run completely:\n" + log[-800:])
        corr_broken.append("give-up replay (TestVerifToFileGiveUpBin)")
    ctx.corr["give_up"] = {"default_max_attempts_of_main": dmx, "rows": rows}
    # --gzip-level outside 1..9 must be refused by the real binary before it consumes anything
    rc, glog = ctx.run_cmd([parent, "-test.run", "^TestVerifToFileGzipLevelBin$", "-test.count=1", "-test.timeout=0"], timeout=300,
                           env={"VF_E8_TOFILE_BIN": binp})
    grows = [dict(kv.split("=", 1) for kv in l.split()[1:]) for l in glog.splitlines() if l.startswith("GZLEVEL ")]
    ctx.corr["gzip_level_cli"] = grows
    if len(grows) < 5:
        corr_broken.append("gzip-level replay (TestVerifToFileGzipLevelBin)")
    # the other start-up checks of main(): generated argument vectors on the real binary vs Model.ToFileMain.refuses
    mout_dir = os.path.join(ctx.work, "tf_main")
    os.makedirs(mout_dir, exist_ok=True)
    rc, mlog = ctx.run_cmd([parent, "-test.run", "^TestVerifToFileMainBin$", "-test.count=1", "-test.timeout=0"], timeout=600,
                           env={"VF_E8_TOFILE_BIN": binp, "VERIF_SEED": ctx.seed, "VERIF_OUT": mout_dir, "VERIF_N": ctx.budget(36, 200)})
    if rc != 0 or "ORACLE-DONE main" not in mlog:
        ctx.log("main() start-up leg failed:\n" + mlog[-800:])
        corr_broken.append("main start-up leg exit %s" % rc)
    else:
        mops = open(os.path.join(mout_dir, "tfmain.ops")).read().splitlines()
        mimpl = open(os.path.join(mout_dir, "tfmain.impl")).read().splitlines()
        rc, mo = ctx.driver("e8", stdin_path=os.path.join(mout_dir, "tfmain.ops"))
        mh = {}
        for o, i in zip(mops, mimpl):
            mh[i] = mh.get(i, 0) + 1
            ctx.count_case(o + "|" + i, nontrivial=True)
        ctx.corr["main_startup"] = {"vectors": len(mops), "histogram": mh}
        for idx, a, b in ctx.diff_lines(mimpl, mo.splitlines(), "tofile-main"):
            ctx.log("main(): model/impl disagree on `%s`: impl=%s model=%s" % (mops[idx], a, b))
            corr_broken.append("correspondence main start-up checks")
            if a == "started" and b == "refused":
                ctx.violation("tofile-main-accepts-invalid", "nsq_to_file started with an option set its start-up checks (as modelled: "
                              "Props.C19Disc.started_iff) refuse: " + mops[idx], mops[idx] + "\n")
            elif a == "refused" and b == "started":
                ctx.violation("tofile-main-refuses-valid", "nsq_to_file refused an option set its start-up checks (as modelled) accept: "
                              + mops[idx], mops[idx] + "\n")
    # the starvation input produced by a real go-nsq consumer connection (audit C30.2)
    rc, slog = ctx.run_cmd([parent, "-test.run", "^TestVerifToFileStarved$", "-test.count=1", "-test.timeout=0"], timeout=300)
    srows = [dict(kv.split("=", 1) for kv in l.split()[1:]) for l in slog.splitlines() if l.startswith("STARVED ")]
    ctx.corr["starved_real_connection"] = srows
    if "ORACLE-DONE starved" not in slog or len(srows) < 3:
        corr_broken.append("starved-path leg (TestVerifToFileStarved) did not run")
    for l in slog.splitlines():
        if l.startswith("ORACLE-FAIL starved"):
            ctx.violation("tofile-starved-fin-without-line", "nsq_to_file (starved path): " + l[len("ORACLE-FAIL starved "):], l + "\n")
    for r in srows:
        ctx.count_case("starved|%s|%s|%s" % (r["max_in_flight"], r["delivered"], r["fins"]), nontrivial=True)
        if int(r["fins"]) < 1:
            corr_broken.append("starved path: none of %s messages finished with a starved connection and no tick" % r["delivered"])
    for g in grows:
        ctx.evaluations += 1
        ctx.count_case("gzlevel|%s|%s" % (g["level"], g["started"]), nontrivial=True)
        if g["started"] == "true" or g["exit"] == "0":
            ctx.violation("tofile-gzip-level-accepted",
                          "nsq_to_file started consuming with --gzip --gzip-level=%s (outside 1..9; compress/gzip returns no "
                          "writer for it): first message -> %s, exit %s" % (g["level"], g["response"], g["exit"]),
                          "nsq_to_file --gzip --gzip-level=%s ; deliver one message\n" % g["level"])
    for r in rows:
        att = int(r["attempts"])
        mx = dmx if r["cli"] == "default" else int(r["cli"].split(",")[1])
        ctx.evaluations += 1
        ctx.count_case("giveup|%s|%d|%s" % (r["cli"], att, r["written_at_response"]), nontrivial=True)
        model_gives_up = mx > 0 and att > mx      # Nsq.Model.ToFile.shouldFail
        observed = (r["response"] == "FIN" and r["written_at_response"] == "false")
        if observed != model_gives_up or r["response"] != "FIN":
            corr_broken.append("correspondence give-up rule cli=%s attempts=%d: %s" % (r["cli"], att, r))
        if observed and r["cli"] == "default":
            if dmx == 0:
                ctx.violation("gives-up-although-main-sets-max-attempts-0",
                              "nsq_to_file finished a message (attempts=%d) that it never wrote although main() sets "
                              "cfg.MaxAttempts = 0" % att, "tool=nsq_to_file cli=default attempts=%d\n" % att)
            else:
                ctx.violation("gives-up-after-max-attempts",
                              "nsq_to_file finished a message (attempts=%d, max_attempts=%d) that it never wrote" % (att, mx),
                              "tool=nsq_to_file max_attempts=%d attempts=%d\n" % (mx, att))


def property_fails_on(impl, model):
    """impl and model answer lines differ: is the implementation's answer itself a property failure?"""
    mi = re.match(r"st=(\S+) fin=\[([^\]]*)\] files=(.*)$", impl)
    mm = re.match(r"st=(\S+) fin=\[([^\]]*)\] files=(.*)$", model)
    if not mi or not mm:
        return None
    fi, fm = mi.group(2).split(), mm.group(2).split()
    extra = [x for x in fi if x not in fm]
    if extra:
        return ("early-fin", "message(s) %s finished at a point where the model (FIN only after Sync) finishes none" % " ".join(extra))
    files_i = dict(x.split(":") for x in mi.group(3).split(",") if x)
    files_m = dict(x.split(":") for x in mm.group(3).split(",") if x)
    for name, ln in files_m.items():
        if name not in files_i:
            return ("lost-file", "file %s is missing (the model keeps it)" % name)
        if int(files_i[name]) < int(ln):
            return ("short-file", "file %s holds %s decodable bytes, the model %s" % (name, files_i[name], ln))
    return None
