"""Engine E9 — go-diskqueue inside the model. Shared leg used by C05, C07 (and `./check E9`).

leg(ctx, corr_broken):
  1. regenerated facts (specs/e9_dq.json, kind `modpin`): the version go.mod resolves
     github.com/nsqio/go-diskqueue to, whether a `replace` redirects it, the sha256 of the module's
     diskqueue.go; `Nsq.Tie.DiskQueue` compares them with the modelled version;
  2. correspondence: harness/e9/dq_test.go drives the REAL package (compiled into package nsqd) with
     generated op sequences incl. close/re-open, kills (directory snapshot), stale metadata, truncated /
     overwritten / removed files; private state (reflection at a quiescent point) + files after every op
     are diffed against drv_e9 (lean/Nsq/Model/DiskQueue.lean);
  3. direct oracle on the implementation's own answers: reference FIFO while no kill / corruption was
     injected (order, exact bytes, Depth, size checks, Empty/Delete leave no data file), sync timer.
"""
import json
import os

from framework import REPO, ROOT

TIE = ["Nsq.Tie.DiskQueue", "Nsq.Tie.DiskQueueArgs"]
PROPS = ["Nsq.Props.E9DiskQueue", "Nsq.Props.E9Kill"]
# theorems of other properties restated with the E9 model in place of the disk-queue assumption (round 7);
# built and audited by the leg when it runs inside that property (C05, C07) and all of them by `./check E9`;
# props/C01.py and props/C08.py list theirs in PROPS (they do not run this leg)
GLUE = {"C05": ["Nsq.Props.C05DQ"], "C07": ["Nsq.Props.C07DQ"], "C01": ["Nsq.Props.C01DQ"], "C08": ["Nsq.Props.C08DQ"]}
TRUSTED = [
    "go-diskqueue v1.1.0 is MODELLED (lean/Nsq/Model/DiskQueue.lean: files, metadata file, read/write positions, "
    "two-phase read, roll, sync, Empty/Close/Delete, re-open, read-error path with .bad files) and tied on every run: "
    "go.mod pin + sha256 of the module source (regenerated, Nsq.Tie.DiskQueue) and the correspondence harness "
    "harness/e9/dq_test.go on the real package (private state by reflection + file contents after every operation). "
    "Round 7: the hard-kill behaviour is a theorem over every history (Nsq.Props.E9Kill: queue after a kill at a rest point of "
    "ioLoop = records received since the last metadata write ++ queue, nothing lost, Depth() stale; no metadata file => everything "
    "lost) with a direct oracle in the harness; a kill INSIDE one ioLoop pass and a power failure (un-fsynced data) are not modelled. "
    "The arguments nsqd passes to diskqueue.New are translated expressions (Nsq.Tie.DiskQueueArgs); option values outside "
    "`sane_options` (max-msg-size > 2^31-27, sync-every < 1, sync-timeout <= 0) are NOT validated by nsqd and are outside the theorems. "
    "Still assumed: OS I/O errors other than ENOENT do not occur; fmt.Fscanf/Fprintf of the five metadata integers; "
    "bodies < 2 GiB (int32 length); persistMetaData's temp-file + rename is one atomic step (FS assumption 4.5)",
]


def classify(op, impl, model):
    """A model/impl disagreement alone is not a violation: evaluate the property on the implementation's answer."""
    return None


def run_corr(ctx, binp, corr_broken, seed, n, steps, label):
    rc, out = ctx.run_cmd([binp, "-test.run", "^TestVerifE9DqCorr$", "-test.count=1", "-test.timeout", "600s"],
                          timeout=660, env={"VERIF_SEED": seed, "VERIF_N": n, "VERIF_STEPS": steps, "VERIF_OUT": ctx.work})
    rp = {"kind": "seed", "test": "TestVerifE9DqCorr", "seed": seed, "n": n, "steps": steps}
    fails = [l for l in out.splitlines() if l.startswith("ORACLE-FAIL")]
    for l in fails[:3]:
        ctx.violation("diskqueue-fifo-oracle", l, json.dumps(dict(rp, oracle=l)))
    if rc != 0 and not fails:
        ctx.log("e9 harness failed:\n" + out[-2500:])
        corr_broken.append("e9 diskqueue harness exit %s: %s" % (rc, out[-300:].replace("\n", " | ")))
        return
    h = ctx.corr.setdefault("e9_ops_histogram", {})
    for l in out.splitlines():
        if l.startswith("E9HIST "):
            _, k, v = l.split()
            h[k] = h.get(k, 0) + int(v)
    ops = open(os.path.join(ctx.work, "dq.ops")).read().splitlines()
    impl = open(os.path.join(ctx.work, "dq.impl")).read().splitlines()
    rc, mout = ctx.driver("e9", stdin_path=os.path.join(ctx.work, "dq.ops"))
    model = mout.splitlines()
    ndiff = 0
    case_start = 0
    for i, (o, a) in enumerate(zip(ops, impl)):
        b = model[i] if i < len(model) else "<missing>"
        if o.startswith("new "):
            case_start = i
        ctx.count_case("e9:" + o.split()[0] + ":" + a.split(" md=")[0], nontrivial=not a.startswith("none"))
        if a != b:
            ndiff += 1
            if ndiff <= 3:
                ctx.log("e9 diskqueue: model/impl disagree on `%s` (line %d, case starts at %d):\n  impl  %s\n  model %s"
                        % (o, i, case_start, a, b))
                ctx.write_replay("e9_diff_%d.ops" % ndiff, "\n".join(ops[case_start:i + 1]) + "\n# impl:  %s\n# model: %s\n" % (a, b))
            if ndiff == 1:
                corr_broken.append("e9 diskqueue correspondence on `%s` (case ops %d..%d)" % (o.split()[0], case_start, i))
    if len(model) != len(ops):
        corr_broken.append("e9 driver answered %d of %d lines" % (len(model), len(ops)))
    ctx.corr.setdefault("streams", []).append({"label": "e9 diskqueue " + label, "lines": len(ops), "diffs": ndiff})
    for i, o in enumerate(ops):
        if o.startswith("reopen") and i > 2:
            ctx.add_sample({"op": ops[i - 1] + " ; " + o, "before": impl[i - 1][:160], "after": impl[i][:160]})
            break


def leg(ctx, corr_broken, with_lean=True, thorough_n=600):
    ctx.trusted += TRUSTED
    ctx.gen("e9_dq")
    ctx.gen("e9_dqargs")  # diskqueue.New(...) arguments of NewTopic/NewChannel as translated expressions
    if with_lean:
        props = PROPS + (sum((GLUE[k] for k in sorted(GLUE)), []) if ctx.prop == "E9" else GLUE.get(ctx.prop, []))
        ok, log = ctx.lean_build(TIE + props)
        if not ok:
            ctx.lean_obligation_failed("lake build " + " ".join(TIE + props), log[-1500:])
        ctx.lean_audit(props, TIE)
        if ctx.thorough():
            ctx.leanchecker(props)
    if not ctx.build_driver("e9"):
        corr_broken.append("driver e9 build")
    binp = ctx.go_test_binary("nsqd", ["e9/dq_test.go"], "e9dq")
    if not binp:
        ctx.broken_ties.append("harness e9/dq_test.go does not compile against the current tree (go-diskqueue API/fields changed?)")
        corr_broken.append("e9 harness build")
        return
    if ctx.replay_in and open(ctx.replay_in).read().lstrip().startswith("{") and \
            json.loads(open(ctx.replay_in).read()).get("test") == "TestVerifE9DqCorr":
        d = json.loads(open(ctx.replay_in).read())
        run_corr(ctx, binp, corr_broken, d["seed"], d["n"], d["steps"], "replay")
        print("replay of %s on %s: %s" % (ctx.replay_in, REPO, corr_broken or "no disagreement"))
        return
    run_corr(ctx, binp, corr_broken, ctx.seed, ctx.budget(60, thorough_n), ctx.budget(60, 120), "generated")
    rc, out = ctx.run_cmd([binp, "-test.run", "^TestVerifE9DqSyncTimer$", "-test.count=1", "-test.timeout", "120s"], timeout=150)
    if "SYNCTIMER-OK" in out:
        ctx.evaluations += 1
        ctx.corr["e9_sync_timer"] = "metadata followed the state after the sync timeout (put ×3, then one receive)"
    elif "ORACLE-FAIL" in out:
        ctx.violation("diskqueue-sync-timer", [l for l in out.splitlines() if "ORACLE-FAIL" in l][0], "TestVerifE9DqSyncTimer\n")
    else:
        corr_broken.append("e9 sync-timer harness exit %s" % rc)
    replay_known(ctx, binp, corr_broken)


def replay_known(ctx, binp, corr_broken):
    """corpus/E9/*.ops: committed op sequences (witnesses of the theorems' `_false` / loss statements) replayed on
    the real package: the implementation must still answer what the model answers."""
    d = os.path.join(ROOT, "corpus", "E9")
    if not os.path.isdir(d):
        return
    res = ctx.corr.setdefault("e9_corpus", {})
    for fn in sorted(os.listdir(d)):
        if not fn.endswith(".ops"):
            continue
        rc, out = ctx.run_cmd([binp, "-test.run", "^TestVerifE9DqReplay$", "-test.count=1", "-test.timeout", "120s"],
                              timeout=150, env={"VERIF_OUT": ctx.work, "VERIF_E9_OPS": os.path.join(d, fn)})
        if rc != 0:
            corr_broken.append("e9 corpus replay %s exit %s: %s" % (fn, rc, out[-200:].replace("\n", " | ")))
            continue
        ops = open(os.path.join(ctx.work, "dqreplay.ops")).read().splitlines()
        impl = open(os.path.join(ctx.work, "dqreplay.impl")).read().splitlines()
        rc, mout = ctx.driver("e9", stdin_path=os.path.join(ctx.work, "dqreplay.ops"))
        model = mout.splitlines()
        bad = [(o, a, b) for o, a, b in zip(ops, impl, model) if a != b]
        ctx.evaluations += len(ops)
        res[fn] = {"lines": len(ops), "diffs": len(bad), "last": impl[-1][:200] if impl else ""}
        if bad or len(model) != len(ops):
            ctx.log("e9 corpus %s: model/impl disagree on `%s`:\n  impl  %s\n  model %s" % ((fn,) + bad[0]) if bad else "e9 corpus %s: short driver output" % fn)
            corr_broken.append("e9 corpus replay %s no longer corresponds" % fn)
