"""C10 — nsqd HTTP API: validation, status codes and equivalence with TCP publish (engine E3)."""
import os
import re
import threading
from framework import REPO, ROOT
from props import C09 as e3

TIE = ["Nsq.Tie.ProtoHttp", "Nsq.Tie.ProtoHttpFull", "Nsq.Tie.ConnsStats", "Nsq.Tie.HttpShared"]
PROPS = ["Nsq.Props.C10", "Nsq.Props.C10Full", "Nsq.Props.C10Char", "Nsq.Props.C10Conc"]
HARNESS = e3.HARNESS + ["e3/audit10_test.go", "e3/concur_nsqd_test.go"]


def cc_core(ctx, pkg):
    """The package-independent part of the concurrency leg (harness/e3/concur_core.go.tmpl) instantiated for
    package `pkg`; compiled into the real package like every harness file."""
    p = os.path.join(ctx.work, "concur_core_%s.go" % pkg)
    with open(os.path.join(ROOT, "harness", "e3", "concur_core.go.tmpl")) as fh:
        txt = fh.read().replace("PKGNAME", pkg)
    with open(p, "w") as fh:
        fh.write(txt)
    return p


def cc_run(ctx, binp, test, label, replay=None):
    env = {"VERIF_SEED": ctx.seed, "VERIF_N": ctx.budget(1, 6), "VERIF_OUT": ctx.work, "VERIF_REPO": REPO}
    if replay:
        env["VERIF_CC_REPLAY"] = replay
    rc, out = ctx.run_cmd([binp, "-test.run", "^%s$" % test, "-test.count=1", "-test.timeout=900s"], timeout=1000, env=env)
    return label, rc, out


def cc_side(ctx, res, replay=None):
    """nsqlookupd and nsqadmin answer through the same internal/http_api envelope (Decorate, V1, PlainText,
    RespondV1): the same leg on their httpServer values and listeners. Runs in a thread next to the nsqd legs.
    (C15 / C18 are other properties; this is part of C10's check because the shared code is C10's.)"""
    for pkg, f, test, label in (("nsqlookupd", "e3/concur_lookupd_test.go", "TestVerifE3HTTPConcurrentLookupd", "nsqlookupd"),
                                ("nsqadmin", "e3/concur_admin_test.go", "TestVerifE3HTTPConcurrentAdmin", "nsqadmin")):
        b = ctx.go_test_binary(pkg, [f, cc_core(ctx, pkg)], "e3cc_" + pkg)
        if not b:
            res.append((label, None, "harness %s does not compile against the current tree" % f))
            continue
        res.append(cc_run(ctx, b, test, label, replay))


def cc_report(ctx, label, rc, out, corr_broken):
    """ORACLE-FAIL / REPLAY lines of one concurrency-leg run -> verdict."""
    if rc is None:
        ctx.broken_ties.append(out)
        corr_broken.append("concurrency harness build (%s)" % label)
        return
    fails, okl = e3.harness_lines(ctx, out, "concur-" + label)
    replays = {}
    for l in out.splitlines():
        m = re.match(r"REPLAY (\S+) (.*)", l)
        if m:
            replays.setdefault(m.group(1), []).append(m.group(2))
    what = {}
    for l in fails:
        m = re.match(r"ORACLE-FAIL key=(\S+) req=- what=(.*)", l)
        if m:
            what.setdefault(m.group(1), []).append(m.group(2))
    for key, texts in what.items():
        lines = replays.get(key, [])
        # the deterministic pair (if any) first: it is the one `./check C10 --replay` re-executes
        det = [x for x in lines if " pair " in x]
        replay = "".join("# %s\n" % t[:900] for t in texts[:6])
        replay += "# re-execute: ./check C10 --replay <this file>  (the `pair` lines are deterministic; `direct` / `listener` lines\n"
        replay += "# describe a scheduling-dependent run and are informative only)\n"
        replay += "\n".join(det + [x for x in lines if x not in det]) + "\n"
        first = texts[0]
        for t, x in zip(texts, lines):
            if " pair " in x:
                first = t
                break
        ctx.violation(key, first[:700], replay)
    if "panic:" in out or "fatal error:" in out:
        ctx.violation("http-concurrent-panic", "the %s process died while serving concurrent HTTP requests" % label, out[-4000:])
    elif (rc != 0 and not fails) or (not okl and not fails):
        ctx.log("concurrency harness (%s) failed (rc=%s):\n%s" % (label, rc, out[-3000:]))
        corr_broken.append("concurrency harness %s exit %s" % (label, rc))
    for l in okl:
        m = re.search(r"ORACLE-OK concur (\S+) requests=(\d+) judged-pairs=(\d+)", l)
        if m:
            ctx.evaluations += int(m.group(2)) + int(m.group(3))
            ctx.corr.setdefault("concurrent", {})[m.group(1)] = l
            ctx.count_case("concur %s seed %s" % (m.group(1), ctx.seed), nontrivial=True)
    for l in out.splitlines():
        if l.startswith("UNSTABLE "):
            ctx.log("concurrency leg: lone answers moved during the run, not judged: " + l[:600])
            ctx.corr.setdefault("concurrent_unstable", []).append(l[:600])
    if ctx.replay_in:
        print("\n".join(l[:1200] for l in out.splitlines() if l.startswith(("ORACLE", "REPLAY", "HIST pair", "HIST replay"))))


def audit_leg(ctx, binp, corr_broken):
    """Audit round 7 (B16, B20): `httpb` ops — status, broker and the number of body bytes each handler
    consumes, replayed through Nsq.Model.HttpFull.serve / Nsq.Model.HttpBody.bodyRead; model-free oracle "no
    handler consumes more than max(max-msg-size, max-body-size)+1 bytes"; interrupted requests on the listener.
    The model prints the current shape (`R`) and the shape before fix F33 (`RO`). F33 (/repo 894b9eb) is committed: ONLY `R`
    is accepted (audit B12) - a tree that reads the body again disagrees with the model on every admin line, breaks
    Tie.ProtoHttpFull.newReqParams_reads_no_body, and the replay corpus/C10/fixed/admin_body_unbounded.opsb reports
    `admin-body-unbounded` (listed fixed) as a VIOLATION."""
    corpus = os.path.join(ctx.work, "corpusb")
    os.makedirs(corpus, exist_ok=True)
    n = 0
    for sub in ("", "fixed", "known"):
        d = os.path.join(ROOT, "corpus", "C10", sub)
        if os.path.isdir(d):
            for fn in sorted(os.listdir(d)):
                if fn.endswith(".opsb"):
                    n += 1
                    with open(os.path.join(corpus, "%02d_%s_%s" % (n, sub or "min", fn)), "w") as f:
                        f.write(open(os.path.join(d, fn)).read())
    N = ctx.budget(500, 5000)
    if ctx.replay_in:
        N = 0
        if "httpb " not in open(ctx.replay_in).read():
            return
        for fn in os.listdir(corpus):
            os.remove(os.path.join(corpus, fn))
        with open(os.path.join(corpus, "00_replay.opsb"), "w") as f:
            f.write(open(ctx.replay_in).read())
    rc, out = ctx.run_cmd([binp, "-test.run", "^TestVerifE3HTTPAudit$", "-test.count=1", "-test.timeout=3000s"],
                          timeout=3200, env={"VERIF_SEED": ctx.seed, "VERIF_N": N, "VERIF_OUT": ctx.work,
                                             "VERIF_REPO": REPO, "VERIF_CORPUS": corpus})
    fails, okl = e3.harness_lines(ctx, out, "httpb")
    unfixed = any(" key=admin-body-unbounded " in l for l in fails)
    for l in fails:
        e3.report_oracle_fail(ctx, l)
    if rc != 0 or (not okl and not fails):
        ctx.log("httpb harness failed (rc=%s):\n%s" % (rc, out[-3000:]))
        corr_broken.append("httpb harness exit %s" % rc)
        if "panic:" in out or "fatal error:" in out:
            ctx.violation("panic", "the nsqd process died while serving generated HTTP requests (body-read leg)",
                          out[-4000:])
    opsf = os.path.join(ctx.work, "httpb.ops")
    if not os.path.exists(opsf):
        return
    ops = open(opsf).read().splitlines()
    impl = open(os.path.join(ctx.work, "httpb.impl")).read().splitlines()
    rc, mout = ctx.driver("e3", stdin_path=opsf, timeout=3000)
    model = mout.splitlines()
    ndiff = 0
    old_shape = 0
    norm_impl, norm_model = [], []
    for i, o in enumerate(ops):
        a = impl[i] if i < len(impl) else "<missing>"
        b = model[i] if i < len(model) else "<missing>"
        if o.startswith("httpb "):
            ctx.count_case(o, nontrivial=True)
            if len(o) < 300 and i % 53 == 0:
                ctx.add_sample({"op": o, "impl": a[:300], "model": b[:300]})
            fa, fb = a.split(), b.split()
            if len(fa) == 3 and len(fb) == 4 and fa[1].startswith("R=") and fb[1].startswith("R") and fb[2].startswith("RO"):
                got = int(fa[1][2:])
                cur, old = fb[1][1:], fb[2][2:]

                def fits(tok):
                    if tok == "?":
                        return True
                    if tok.startswith("<="):
                        return got <= int(tok[2:])
                    return tok.startswith("=") and got == int(tok[1:])
                if fits(cur):
                    a = "%s R%s %s" % (fa[0], cur, fa[2])
                elif unfixed and fits(old):
                    old_shape += 1   # counted for the evidence only: the pre-F33 shape is NOT accepted any more
                b = "%s %s %s" % (fb[0], fb[1], fb[3])
        norm_impl.append(a)
        norm_model.append(b)
        if a != b:
            ndiff += 1
            if ndiff <= 5:
                ctx.log("body-read model/impl disagree on `%s`:\n   impl  %s\n   model %s" % (o[:300], a[:400], b[:400]))
                corr_broken.append("correspondence httpb: %s" % o[:160])
                if ndiff == 1:
                    ctx.corr["first_disagreement_httpb"] = {"op": o[:2000], "impl": a[:2000], "model": b[:2000]}
    ctx.corr["httpb_old_shape_lines"] = old_shape
    ctx.diff_lines(norm_impl, norm_model, "httpb")
    if ctx.replay_in:
        for o, a, b in zip(ops, impl, model):
            print("op    %s\n impl  %s\n model %s" % (o[:400], a[:600], b[:600]))


def full_leg(ctx, binp, corr_broken):
    """Round 6: the whole route table, the response envelope, /stats, /info, /config, /debug (`httpx` ops
    replayed through Nsq.Model.HttpFull.serve) + the model-free well-formed-response oracle."""
    corpus = os.path.join(ctx.work, "corpusx")
    os.makedirs(corpus, exist_ok=True)
    n = 0
    for sub in ("", "fixed", "known"):
        d = os.path.join(ROOT, "corpus", "C10", sub)
        if os.path.isdir(d):
            for fn in sorted(os.listdir(d)):
                if fn.endswith(".opsx"):
                    n += 1
                    with open(os.path.join(corpus, "%02d_%s_%s" % (n, sub or "min", fn)), "w") as f:
                        f.write(open(os.path.join(d, fn)).read())
    N = ctx.budget(1200, 12000)
    if ctx.replay_in:
        N = 0
        if "httpx " not in open(ctx.replay_in).read():
            return
        for fn in os.listdir(corpus):
            os.remove(os.path.join(corpus, fn))
        with open(os.path.join(corpus, "00_replay.opsx"), "w") as f:
            f.write(open(ctx.replay_in).read())
    rc, out = ctx.run_cmd([binp, "-test.run", "^TestVerifE3HTTPFull$", "-test.count=1", "-test.timeout=3000s"],
                          timeout=3200, env={"VERIF_SEED": ctx.seed, "VERIF_N": N, "VERIF_OUT": ctx.work,
                                             "VERIF_REPO": REPO, "VERIF_CORPUS": corpus})
    fails, okl = e3.harness_lines(ctx, out, "httpx")
    for l in fails:
        e3.report_oracle_fail(ctx, l.replace("req=httpx|", "req=httpx|", 1))
    if rc != 0 or (not okl and not fails):
        ctx.log("httpx harness failed (rc=%s):\n%s" % (rc, out[-3000:]))
        corr_broken.append("httpx harness exit %s" % rc)
        if "panic:" in out or "fatal error:" in out:
            ctx.violation("panic", "the nsqd process died while serving generated HTTP requests (whole-table leg)",
                          out[-4000:])
    opsf = os.path.join(ctx.work, "httpx.ops")
    if not os.path.exists(opsf):
        return
    ops = open(opsf).read().splitlines()
    impl = open(os.path.join(ctx.work, "httpx.impl")).read().splitlines()
    rc, mout = ctx.driver("e3", stdin_path=opsf, timeout=3000)
    model = mout.splitlines()
    ndiff = 0
    for i, o in enumerate(ops):
        a = impl[i] if i < len(impl) else "<missing>"
        b = model[i] if i < len(model) else "<missing>"
        if o.startswith("httpx "):
            ctx.count_case(o, nontrivial=True)
            if len(o) < 300 and i % 97 == 0:
                ctx.add_sample({"op": o, "impl": a[:300]})
        if a != b:
            ndiff += 1
            if ndiff <= 5:
                ctx.log("whole-table model/impl disagree on `%s`:\n   impl  %s\n   model %s" % (o[:300], a[:400], b[:400]))
                corr_broken.append("correspondence httpx: %s" % o[:160])
                if ndiff == 1:
                    j = i
                    while j > 0 and not ops[j].startswith("reset"):
                        j -= 1
                    ctx.corr["first_disagreement_httpx"] = {"op": o[:2000], "impl": a[:2000], "model": b[:2000],
                                                            "history": ops[j:i + 1][-30:]}
    ctx.diff_lines(impl, model, "httpx")
    if ctx.replay_in:
        for o, a, b in zip(ops, impl, model):
            print("op    %s\n impl  %s\n model %s" % (o[:400], a[:600], b[:600]))


def run(ctx):
    ctx.trusted += [
        "translator tools/go2lean (kinds routes, stmts, regex): route registrations and the ordered text of every "
        "status-deciding statement of nsqd/http.go and internal/http_api",
        "net/http (request parsing, chunked decoding, ContentLength) and httprouter (tree matching, 404/405, "
        "automatic OPTIONS, trailing-slash / case redirects): the model decides by exact path; any other path is "
        "`404/3xx`",
        "net/url.ParseQuery as modelled (split on &, first =, %XX and + unescaping, `;` is an error)",
        "correspondence harness harness/e3/http_test.go (real httpServer.ServeHTTP on constructed requests; a "
        "smoke set through the real listener; white-box broker snapshot); response rendering (V1/PlainText)",
        "the TCP side of the equivalence theorems is the C09 model, itself tied by Nsq.Tie.Proto and the C09 harness",
        "translator kind pkgvars (tools/go2lean/kind_pkgvars.go: package-level variables a function refers to, resolved by "
        "go/types, closed under static calls inside the package / file; calls through function values are not followed)",
        "concurrently served requests: state shared below the package level of the standard library (encoding/json, net/http "
        "buffers) is trusted; the Go memory model for the broker fields the handlers read under the broker's own locks",
    ]
    ctx.assumptions += [
        "independence of concurrently served requests: in the model the answer is a function of (options, broker, request); "
        "concurrent_answers_own / concurrent_equals_alone (Nsq.Props.C10Conc) assume that the rendered answer of a request lives "
        "in a request-local slot between encoding and writing (hypothesis `inj`; pooled_slot_full_false is the witness without it). "
        "The hypothesis is carried by the tie Nsq.Tie.HttpShared (no mutable package-level variable in reach of internal/http_api "
        "and the handlers of nsqd/http.go) and by the concurrency leg (oracle: every answer = the answer served alone), not proved",
        "no_500 / no_500_complete: holds for healthy=true; /ping answers 500 while nsqd.IsHealthy() is false (backend write error)",
        "no_500 / no_500_complete are MODEL statements for every request (no Complete hypothesis: the model has no read-error branch); "
        "they are claimed of the real server for complete requests only (declared length = bytes that arrive, or chunked) - a named "
        "exclusion, not a used hypothesis: an interrupted body is "
        "answered 500 by /pub, text /mpub and PUT /config (read-error branch, not modelled; observed on the real listener "
        "by TestVerifE3HTTPAudit, oracle http-interrupted)",
        "C10Char: every *_char theorem, pub_char and stats_char assumes hc.tlsRefuse = false and the exact method/path of its endpoint "
        "(403/405: router_status_iff); 'any other answer leaves the broker unchanged' has the exception 400 INVALID_DEFER of /pub, which has "
        "created the topic (deferCreates); the text /mpub theorems assume max-body-size >= 0",
        "the daemon is not exiting (503 EXITING from /pub and /mpub) and os.Hostname() succeeds (/info answers 500 otherwise): "
        "no model branch, named exclusions",
        "backend I/O faults (topic.Empty / channel.Empty / PersistMetadata errors) are outside",
        "body_read_bounded, admin_reads_no_body hold on this tree: F33 (/repo 894b9eb: NewReqParams reads nothing of the body) is "
        "committed, tie newReqParams_reads_no_body + only the `R` column of the httpb leg accepted; body_read_bounded_false_before_F33 is "
        "about the tree BEFORE it (finding admin-body-unbounded, listed fixed, replayed on every run: a reproduction is a VIOLATION)",
        "mpub_text_vs_tcp: options shared (Linked), valid topic name, framed batch shorter than 2^31 bytes",
        "equivalence theorems: both servers read the same options, auth disabled, 0 <= max-req-timeout < 2^63-1 ns, "
        "max-msg-size >= 0, body shorter than 2^31 bytes, request complete (declared length = body length, or chunked)",
        "mpub_binary_equiv_tcp: a chunked body is within max-body-size (beyond it HTTP reads only the first "
        "max-body-size bytes: mpub_body_bounded, F10 repaired by fixes/F10_mpub_body_limit.patch)",
        "pprof/debug routes, PUT /config/nsqlookupd_tcp_addresses and the content of /stats, /info, /config "
        "answers are not modelled (status `external` / message `*`)",
    ]
    ctx.rule = ("correspondence: histories `reset, (http|io)…` on four in-process nsqd configurations; http ops: "
                "/pub and /mpub (text, binary) with bodies around max-msg-size / max-body-size, declared and "
                "chunked, arbitrary newline layout, arbitrary counts/lengths; every admin endpoint with each query "
                "argument present / missing / empty / duplicated / invalid / differently escaped, malformed "
                "queries; every route x method; unknown and near-miss paths; /config GET/PUT; /ping with the "
                "health fault; interleaved TCP connections that create channels, consumers and messages. Compared: "
                "status, message, white-box broker snapshot after every op. Distinct by op line; non-trivial = all. "
                "Direct oracles: no 500 / panic; twin topics (HTTP vs TCP publish of the same payload leave "
                "identical queues or are both rejected — for text /mpub both sides are checked against the exact limits of "
                "their format, divergent cases included); size limits on accepted publishes; listener smoke test. Audit round 7: "
                "`httpb` histories (bodies up to 100 x max-body-size on every endpoint, counting reader): status, bytes of body "
                "consumed, broker; oracle: no handler consumes more than max(max-msg-size,max-body-size)+1 bytes; interrupted "
                "requests on the real listener. Concurrency leg (TestVerifE3HTTPConcurrent*): 46 state-preserving requests "
                "covering every kind of answer (JSON documents of 1 B - 8 KB, every error status, raw text, empty) on a quiescent nsqd "
                "(12 topics x 2 channels); all ordered pairs x 3 park points of a ResponseWriter that parks its handler (first Header(), "
                "WriteHeader, first Write) while the other request is served in between, under GOMAXPROCS(1), + a seeded sample with 1-3 "
                "requests in between; 12 goroutines calling ServeHTTP with yielding recorders; 12 keep-alive clients on the real listener; "
                "the same on nsqlookupd and nsqadmin. Oracle (model-free): status, both headers and body equal the answer the same request "
                "gets when served alone; JSON content type => well-formed JSON")
    gen_ok, _ = ctx.gen("e3_proto")
    ctx.gen("e3_shared")  # package-level variables in reach of internal/http_api and the HTTP handlers (Tie.HttpShared)
    ctx.gen("e3_conns")   # tcpServer.Handle's conns.Store vs the type assertions of GetStats / Close (Tie.ConnsStats)
    ok, log = ctx.lean_build(TIE + PROPS)
    if not ok:
        ctx.lean_obligation_failed("lake build " + " ".join(TIE + PROPS), log[-1500:])
    ctx.lean_audit(PROPS, TIE)
    if ctx.thorough():
        ctx.leanchecker(PROPS)
    corr_broken = []
    ctx.build_driver("e3")
    binp = ctx.go_test_binary("nsqd", HARNESS + [cc_core(ctx, "nsqd")], "e3http")
    conc_replay = None
    if ctx.replay_in and any(l.startswith("concur ") for l in open(ctx.replay_in).read().splitlines()):
        conc_replay = os.path.abspath(ctx.replay_in)
    side_res = []
    side = threading.Thread(target=cc_side, args=(ctx, side_res, conc_replay))
    if not ctx.replay_in or conc_replay:
        side.start()   # nsqlookupd / nsqadmin concurrency legs: own binaries, next to the nsqd legs
    if not binp:
        ctx.broken_ties.append("harness harness/e3 does not compile against the current tree")
        corr_broken.append("harness build")
    elif not conc_replay:
        corpus = os.path.join(ctx.work, "corpus")
        os.makedirs(corpus, exist_ok=True)
        n = 0
        for sub in ("", "fixed", "known"):
            d = os.path.join(ROOT, "corpus", "C10", sub)
            if os.path.isdir(d):
                for fn in sorted(os.listdir(d)):
                    if fn.endswith(".ops"):
                        n += 1
                        with open(os.path.join(corpus, "%02d_%s_%s" % (n, sub or "min", fn)), "w") as f:
                            f.write(open(os.path.join(d, fn)).read())
        if ctx.replay_in:
            for fn in os.listdir(corpus):
                os.remove(os.path.join(corpus, fn))
            with open(os.path.join(corpus, "00_replay.ops"), "w") as f:
                f.write(open(ctx.replay_in).read())
        N = 0 if ctx.replay_in else ctx.budget(2000, 25000)
        rc, out = ctx.run_cmd([binp, "-test.run", "^TestVerifE3HTTP$", "-test.count=1", "-test.timeout=3000s"],
                              timeout=3200, env={"VERIF_SEED": ctx.seed, "VERIF_N": N, "VERIF_OUT": ctx.work,
                                                 "VERIF_REPO": REPO, "VERIF_CORPUS": corpus})
        fails, okl = e3.harness_lines(ctx, out, "http")
        for l in fails:
            e3.report_oracle_fail(ctx, l)
        if rc != 0 or (not okl and not fails):
            ctx.log("corr harness failed (rc=%s):\n%s" % (rc, out[-3000:]))
            corr_broken.append("corr harness exit %s" % rc)
            if "panic:" in out or "fatal error:" in out:
                ctx.violation("panic", "the nsqd process died while serving generated HTTP requests", out[-4000:])
        opsf = os.path.join(ctx.work, "http.ops")
        if os.path.exists(opsf):
            ops = open(opsf).read().splitlines()
            impl = open(os.path.join(ctx.work, "http.impl")).read().splitlines()
            model = e3.run_driver(ctx, binp, opsf, "http")
            e3.compare(ctx, "http", ops, impl, model, corr_broken, binp=binp, testname="TestVerifE3HTTP")
            for o, i in list(zip(ops, impl)):
                if o.startswith("http ") and len(o) < 300:
                    ctx.add_sample({"op": o, "impl": i[:300]})
            if ctx.replay_in:
                for o, a, b in zip(ops, impl, model):
                    print("op    %s\n impl  %s\n model %s" % (o[:400], a[:600], b[:600]))
    if binp and (not ctx.replay_in or conc_replay):
        # concurrently served requests (seeded C10-m9): parked-writer pairs, concurrent ServeHTTP, real listener
        cc_report(ctx, *cc_run(ctx, binp, "TestVerifE3HTTPConcurrent", "nsqd", conc_replay), corr_broken)
    if side.ident is not None:
        side.join()
        for label, rc, out in side_res:
            cc_report(ctx, label, rc, out, corr_broken)
    if binp and not conc_replay:
        full_leg(ctx, binp, corr_broken)
        audit_leg(ctx, binp, corr_broken)
    e3.halfopen_leg(ctx, corr_broken)   # /stats while TCP connections have not completed the protocol magic
    if (ctx.broken_ties or corr_broken) and not ctx.violations:
        ctx.broken_without_input(ctx.broken_ties + corr_broken,
                                 "search: %d generated operations, the 500/twin-topic/size oracles found no request on "
                                 "which the implementation itself breaks the property" % ctx.evaluations)
