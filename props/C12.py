"""C12 — message ids are unique and increasing per topic (engine E1, DESIGN.md §5 C12)."""
import os
from framework import REPO

TIE = ["Nsq.Tie.Guid"]
PROPS = ["Nsq.Props.C12"]


def run(ctx):
    ctx.trusted += [
        "translator tools/go2lean (kind func) renders nsqd/guid.go NewGUID into Lean BitVec operations",
        "Go memory model: guidFactory's mutex makes NewGUID one atomic step",
        "correspondence harness harness/e1/guid_test.go (white-box pre/post state of the real guidFactory)",
        "encoding/hex (modelled as two lower-case hex digits per byte; compared on random values)",
    ]
    ctx.assumptions += ["time.Now() readings are arbitrary (no monotonicity assumed by any theorem)"]
    ctx.rule = ("correspondence: generated guidFactory pre-states (same/past/future pseudo-ms, sequence "
                "0/4094/4095/random, lastID below/equal/above the id about to be produced) and random "
                "int64 for Hex; a case is distinct by its input line and non-trivial when the answer is "
                "not the all-zero error line; oracle: 16 concurrent publishers on one real Topic")
    # 1-2: regenerate, build, audit
    gen_ok, _ = ctx.gen("e1_codec")
    ok, log = ctx.lean_build(TIE + PROPS)
    if not ok:
        ctx.lean_obligation_failed("lake build " + " ".join(TIE + PROPS), log[-1500:])
    ctx.lean_audit(PROPS, TIE)
    if ctx.thorough():
        ctx.leanchecker(PROPS)
    # 3-4: correspondence
    n = ctx.budget(20000, 400000)
    corr_broken = []
    ctx.build_driver("e1")
    binp = ctx.go_test_binary("nsqd", ["e1/guid_test.go"], "e1guid")
    if not binp:
        ctx.broken_ties.append("harness e1/guid_test.go does not compile against the current tree")
        corr_broken.append("harness build")
    else:
        rc, out = ctx.run_cmd([binp, "-test.run", "^TestVerifGuidCorr$", "-test.count=1"], timeout=900,
                              env={"VERIF_SEED": ctx.seed, "VERIF_N": n, "VERIF_OUT": ctx.work})
        if rc != 0:
            ctx.log("corr harness failed:\n" + out[-2000:])
            corr_broken.append("corr harness exit %s" % rc)
        else:
            ops = open(os.path.join(ctx.work, "guid.ops")).read().splitlines()
            impl = open(os.path.join(ctx.work, "guid.impl")).read().splitlines()
            rc, mout = ctx.driver("e1", stdin_path=os.path.join(ctx.work, "guid.ops"))
            model = mout.splitlines()
            for o, i in zip(ops, impl):
                ctx.count_case(o, nontrivial=not i.startswith("0 "))
            for o, i in list(zip(ops, impl))[:3] + list(zip(ops, impl))[-2:]:
                ctx.add_sample({"op": o, "impl": i})
            kinds = {}
            for i in impl:
                k = i.split()[1] if len(i.split()) > 1 else "hex"
                kinds[k] = kinds.get(k, 0) + 1
            ctx.corr["outcome_histogram"] = kinds
            diffs = ctx.diff_lines(impl, model, "guid")
            for idx, a, b in diffs:
                # A disagreement between NewGUID and its model: decide by the property itself.
                key = "guid-corr:" + ops[idx].split()[0]
                ctx.log("model/impl disagree on `%s`: impl=%s model=%s" % (ops[idx], a, b))
                corr_broken.append("correspondence %s" % ops[idx])
                bad = property_fails_on(ops[idx], a)
                if bad:
                    ctx.violation(key, bad, "op: %s\nimpl: %s\nmodel: %s\n" % (ops[idx], a, b))
        # 5: the property oracle on the implementation itself
        for node in ([1023] if not ctx.thorough() else [0, 1023, 512]):
            rc, out = ctx.run_cmd([binp, "-test.run", "^TestVerifGuidOracle$", "-test.count=1"], timeout=900,
                                  env={"VERIF_SEED": ctx.seed, "VERIF_N": ctx.budget(20000, 200000),
                                       "VERIF_OUT": ctx.work, "VERIF_NODEID": node})
            okline = [l for l in out.splitlines() if l.startswith("ORACLE-OK")]
            fail = [l for l in out.splitlines() if l.startswith("ORACLE-FAIL")]
            if fail:
                ctx.violation("guid-oracle", fail[0], "node-id %d, 16 concurrent publishers\n%s\n" % (node, fail[0]))
            elif rc != 0 or not okline:
                ctx.log("oracle run failed:\n" + out[-2000:])
                corr_broken.append("oracle harness exit %s" % rc)
            else:
                ids = int(okline[0].split("ids=")[1].split()[0])
                ctx.evaluations += ids
                ctx.corr.setdefault("oracle", []).append(okline[0])
    # 6: verdict for a broken tie without a failing input
    if (ctx.broken_ties or corr_broken) and not ctx.violations:
        ctx.broken_without_input(ctx.broken_ties + corr_broken,
                                 "search: %d generated pre-states and the concurrent oracle found no "
                                 "duplicate or non-increasing id" % ctx.evaluations)


def property_fails_on(op, impl):
    """Given one NewGUID case and the implementation's answer, does the *property* fail?
    (success must return an id above lastID and record it; errors must not change lastID)"""
    w = op.split()
    if w[0] != "guid":
        return None
    last_id = int(w[4])
    a = impl.split()
    gid, err, last2 = int(a[0]), a[1], int(a[4])
    if err == "none":
        if gid <= last_id:
            return "NewGUID returned id %d not above the previous id %d (%s)" % (gid, last_id, op)
        if last2 != gid:
            return "NewGUID returned id %d but remembered %d: a later call can repeat it (%s)" % (gid, last2, op)
    elif last2 != last_id:
        return "NewGUID failed with %s yet changed lastID %d -> %d (%s)" % (err, last_id, last2, op)
    return None
