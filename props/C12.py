"""C12 — message ids are unique and increasing per topic (engine E1, DESIGN.md §5 C12)."""
import os
import re
from framework import REPO, LEAN, sh
from props import c12clock

TIE = ["Nsq.Tie.Guid", "Nsq.Tie.GuidHex"] + c12clock.TIE
PROPS = ["Nsq.Props.C12", "Nsq.Props.C12Fn"] + c12clock.PROPS


def run(ctx):
    ctx.trusted += [
        "translator tools/go2lean (kind func) renders nsqd/guid.go NewGUID into Lean BitVec operations; kind bytes "
        "renders guid.Hex (byte stores, shifts, hex.Encode) into List UInt8 / BitVec operations",
        "Go memory model: guidFactory's mutex makes NewGUID one atomic step",
        "correspondence harness harness/e1/guid_test.go (white-box pre/post state of the real guidFactory)",
        "encoding/hex (modelled as two lower-case hex digits per byte; compared on random values)",
    ]
    ctx.assumptions += ["time.Now() readings are arbitrary (no monotonicity assumed by any theorem)"]
    ctx.rule = ("correspondence: generated guidFactory pre-states (same/past/future pseudo-ms, sequence "
                "0/4094/4095/random, lastID below/equal/above the id about to be produced) and random "
                "int64 for Hex; a case is distinct by its input line and non-trivial when the answer is "
                "not the all-zero error line; oracles (API only): 16 concurrent publishers on one real "
                "Topic, back-to-back NewGUID bursts on bare factories (sequence exhausted many times), "
                "single-goroutine Topic.GenerateID burst")
    ctx.trusted += c12clock.TRUSTED
    ctx.assumptions += c12clock.ASSUMPTIONS
    ctx.rule += "; " + c12clock.RULE
    # 1-2: regenerate, build, audit
    gen_ok, _ = ctx.gen("e1_codec")
    ctx.gen("e1_guidhex")   # translated guid.Hex (kind bytes) for Nsq.Tie.GuidHex
    for spec in c12clock.SPECS:   # body of Topic.GenerateID, writers / users of the id factory (Tie.GuidLoop)
        ctx.gen(spec)
    ok, log = ctx.lean_build(TIE + PROPS)
    if not ok:
        ctx.lean_obligation_failed("lake build " + " ".join(TIE + PROPS), log[-1500:])
    ctx.lean_audit(PROPS, TIE)
    if ctx.thorough():
        ctx.leanchecker(PROPS)
    # 3-4: correspondence (white-box harness; may stop compiling when guid.go's internals change)
    n = ctx.budget(20000, 400000)
    corr_broken = []
    ctx.build_driver("e1")
    binp = ctx.go_test_binary("nsqd", ["e1/guid_test.go"], "e1guid")
    if not binp:
        ctx.broken_ties.append("white-box harness e1/guid_test.go does not compile against the current tree")
        corr_broken.append("white-box harness build")
    else:
        rc, out = ctx.run_cmd([binp, "-test.run", "^TestVerifGuidCorr$", "-test.count=1"], timeout=900,
                              env={"VERIF_SEED": ctx.seed, "VERIF_N": n, "VERIF_OUT": ctx.work})
        if rc != 0:
            ctx.log("corr harness failed:\n" + out[-2000:])
            corr_broken.append("corr harness exit %s" % rc)
        else:
            ops = open(os.path.join(ctx.work, "guid.ops")).read().splitlines()
            impl = open(os.path.join(ctx.work, "guid.impl")).read().splitlines()
            rc, mout = ctx.driver("e1", stdin_path=os.path.join(ctx.work, "guid.ops"))
            model = mout.splitlines()
            for o, i in zip(ops, impl):
                ctx.count_case(o, nontrivial=not i.startswith("0 "))
            for o, i in list(zip(ops, impl))[:3] + list(zip(ops, impl))[-2:]:
                ctx.add_sample({"op": o, "impl": i})
            kinds = {}
            for i in impl:
                k = i.split()[1] if len(i.split()) > 1 else "hex"
                kinds[k] = kinds.get(k, 0) + 1
            ctx.corr["outcome_histogram"] = kinds
            diffs = ctx.diff_lines(impl, model, "guid")
            for idx, a, b in diffs:
                # A disagreement between NewGUID and its model: decide by the property itself.
                key = "guid-corr:" + ops[idx].split()[0]
                ctx.log("model/impl disagree on `%s`: impl=%s model=%s" % (ops[idx], a, b))
                corr_broken.append("correspondence %s" % ops[idx])
                bad = property_fails_on(ops[idx], a)
                if bad:
                    ctx.violation(key, bad, "op: %s\nimpl: %s\nmodel: %s\n" % (ops[idx], a, b))
    # search phase helper: when the tie is broken, look for a falsifying run of the regenerated
    # definition itself (a candidate only — it is the burst oracle below that executes real code)
    burst_nodes = [1, 1023, 512]
    if gen_ok and (ctx.broken_ties or corr_broken):   # (a rejected translation leaves a stale Gen file: skip)
        for cand in gen_search(ctx):
            ctx.notes.append("candidate from the regenerated NewGUID: " + cand)
            m = re.search(r"node=(\d+)", cand)
            if m and int(m.group(1)) not in burst_nodes:
                burst_nodes.insert(0, int(m.group(1)))
    # 5: the property oracles on the implementation itself (API only)
    obin = ctx.go_test_binary("nsqd", ["e1/guid_oracle_test.go"], "e1guidoracle")
    if not obin:
        ctx.broken_ties.append("oracle harness e1/guid_oracle_test.go does not compile against the current tree")
        corr_broken.append("oracle harness build")
    else:
        for node in ([1023] if not ctx.thorough() else [0, 1023, 512]):
            rc, out = ctx.run_cmd([obin, "-test.run", "^TestVerifGuidOracle$", "-test.count=1"], timeout=900,
                                  env={"VERIF_SEED": ctx.seed, "VERIF_N": ctx.budget(20000, 200000),
                                       "VERIF_OUT": ctx.work, "VERIF_NODEID": node})
            okline = [l for l in out.splitlines() if l.startswith("ORACLE-OK")]
            fail = [l for l in out.splitlines() if l.startswith("ORACLE-FAIL")]
            if fail:
                ctx.violation("guid-oracle", fail[0], "node-id %d, 16 concurrent publishers\n%s\n" % (node, fail[0]))
            elif rc != 0 or not okline:
                ctx.log("oracle run failed:\n" + out[-2000:])
                corr_broken.append("oracle harness exit %s" % rc)
            else:
                ids = int(okline[0].split("ids=")[1].split()[0])
                ctx.evaluations += ids
                ctx.corr.setdefault("oracle", []).append(okline[0])
        # bursts: more than 4096 requests per pseudo-millisecond, sequence exhausted many times
        expired_total = 0
        for node in burst_nodes:
            for test, nn in (("TestVerifGuidBurst", ctx.budget(400000, 3000000)),
                             ("TestVerifGuidTopicBurst", ctx.budget(60000, 400000))):
                rc, out = ctx.run_cmd([obin, "-test.run", "^%s$" % test, "-test.count=1"], timeout=900,
                                      env={"VERIF_SEED": ctx.seed, "VERIF_N": nn, "VERIF_OUT": ctx.work,
                                           "VERIF_NODEID": node})
                okline = [l for l in out.splitlines() if l.startswith("BURST-OK")]
                fail = [l for l in out.splitlines() if l.startswith("BURST-FAIL")]
                if fail:
                    ctx.violation("guid-burst", fail[0],
                                  "%s, node-id %d, %d back-to-back requests from one goroutine\n%s\n"
                                  % (test, node, nn, fail[0]))
                elif rc != 0 or not okline:
                    ctx.log("burst oracle run failed:\n" + out[-2000:])
                    corr_broken.append("burst oracle exit %s" % rc)
                else:
                    ctx.evaluations += nn
                    ctx.corr.setdefault("burst", []).append(okline[0])
                    m = re.search(r"sequenceExpired=(\d+)", okline[0])
                    if m:
                        expired_total += int(m.group(1))
        ctx.corr["burst_sequence_expired_total"] = expired_total
        if expired_total == 0 and not ctx.violations:
            ctx.notes.append("burst oracle inconclusive: the per-millisecond sequence was never exhausted "
                             "(machine too slow / too loaded for > 4096 NewGUID calls per pseudo-millisecond)")
    # 5b: clock stepped back (released / blocked) and ids through the real publish paths (audit round 7, B25)
    c12clock.run(ctx, corr_broken)
    # 6: verdict for a broken tie without a failing input
    if (ctx.broken_ties or corr_broken) and not ctx.violations:
        ctx.broken_without_input(ctx.broken_ties + corr_broken,
                                 "search: %d generated pre-states, the concurrent oracle and the burst "
                                 "oracles found no duplicate or non-increasing id" % ctx.evaluations)


def gen_search(ctx):
    """Run the *regenerated* Nsq.Gen.Codec.newGUID (whatever its state structure now is) on
    constant-clock bursts and report the first successful id that is not above its predecessor.
    Returns a list of candidate descriptions (possibly empty; empty too when Gen does not
    elaborate)."""
    genp = os.path.join(LEAN, "Nsq", "Gen", "Codec.lean")
    try:
        src = open(genp).read()
    except OSError:
        return []
    m = re.search(r"structure newGUIDState where\n((?:  \w+ : BitVec 64\n)+)", src)
    if not m:
        return []
    fields = re.findall(r"  (\w+) : BitVec 64", m.group(1))
    if "nodeID" not in fields:
        return []
    init = ", ".join("%s := %s" % (f, "BitVec.ofNat 64 node" if f == "nodeID" else "0#64") for f in fields)
    lean = """import Nsq.Gen.Codec
open Nsq.Gen.Codec
def z (node : Nat) : newGUIDState := { %s }
def burst (node : Nat) (now : BitVec 64) (n : Nat) : Option String := Id.run do
  let mut f := z node
  let mut prev : Option (BitVec 64) := none
  let mut k := 0
  for i in [0:n] do
    let r := newGUID f now
    f := r.1
    if r.2.2 == "" then
      match prev with
      | some p => if BitVec.sle r.2.1 p then
          return some s!"CANDIDATE node={node} clock constant at {now.toNat} ns: success #{k} (call #{i}) returns id {r.2.1.toInt} after id {p.toInt}"
      | none => pure ()
      prev := some r.2.1
      k := k + 1
  return none
#eval (do
  for node in [1, 2, 1023] do
    for now in [1700000000000000000#64, 1700000000001048576#64] do
      match burst node now 8400 with
      | some s => IO.println s
      | none => pure ()
  : IO Unit)
""" % init
    f = os.path.join(ctx.work, "gen_search.lean")
    with open(f, "w") as fh:
        fh.write(lean)
    rc, out = sh(["lake", "env", "lean", f], cwd=LEAN, timeout=300)
    cands = [l for l in out.splitlines() if l.startswith("CANDIDATE")]
    if rc != 0 and not cands:
        ctx.log("search over the regenerated NewGUID did not elaborate (rc=%s): %s" % (rc, out[-300:]))
    return cands[:3]


def property_fails_on(op, impl):
    """Given one NewGUID case and the implementation's answer, does the *property* fail?
    (success must return an id above lastID and record it; errors must not change lastID)"""
    w = op.split()
    if w[0] != "guid":
        return None
    last_id = int(w[4])
    a = impl.split()
    gid, err, last2 = int(a[0]), a[1], int(a[4])
    if err == "none":
        if gid <= last_id:
            return "NewGUID returned id %d not above the previous id %d (%s)" % (gid, last_id, op)
        if last2 != gid:
            return "NewGUID returned id %d but remembered %d: a later call can repeat it (%s)" % (gid, last2, op)
    elif last2 != last_id:
        return "NewGUID failed with %s yet changed lastID %d -> %d (%s)" % (err, last_id, last2, op)
    return None
