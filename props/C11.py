"""C11 — TLS-required and AUTH policies cannot be bypassed (engine gate, DESIGN.md §5 C11)."""
import glob
import os
import re
import framework
from framework import REPO, ROOT

TIE = ["Nsq.Tie.Gate", "Nsq.Tie.WireStack"]   # claim audit 2: the F30 shape of the writer stack is a tie of C11 too (Gen.WireStack: ctx.gen("e1_stack") in run())
PROPS = ["Nsq.Props.C11", "Nsq.Props.C11Auth", "Nsq.Props.C11Tls"]

TREE_HAS_F30 = [False]  # set in run(): the regenerated SetOutputBuffer shape (specs/e1_stack.json, Nsq.Gen.WireStack)

DENY_CODES = ("E_AUTH_FIRST", "E_AUTH_FAILED", "E_UNAUTHORIZED", "E_AUTH_DISABLED")
OPS = ("cfg", "http", "https", "conn", "c", "cx", "cp", "cb", "cz", "x")
CMDV = ("c", "cx", "cp", "cb", "cz")


def broker_of(line):
    m = re.search(r"broker=(\S+)", line or "")
    return m.group(1) if m else None


def content_of(broker):
    """topics, channels and message counts without the subscriber counts"""
    if broker in (None, "-"):
        return ""
    return ";".join(re.sub(r":\d+", "", t) for t in broker.split(";"))


def property_fails_on(prev_impl_broker, op, impl):
    """Given one command and the *implementation's* answer: does the property itself fail?
    (used when model and implementation disagree; the Go-side oracle covers the other clauses)"""
    w = op.split()
    if w[0] not in CMDV:
        return None
    cmd = w[5] if w[0] == "cb" else w[4]
    first = impl.split(" close=")[0].split("|")[0] if impl else ""
    if w[0] == "cb" and w[4] == "0" and first and cmd != "IDENTIFY":
        return "%s sent in plaintext before the TLS handshake was answered (%s) after it" % (cmd, first)
    code = first.split(":")[0]
    after = broker_of(impl)
    if code in DENY_CODES:
        if prev_impl_broker is not None and content_of(after) != content_of(prev_impl_broker):
            return "%s denied with %s changed the broker: %s -> %s" % (cmd, code, prev_impl_broker, after)
        if " close=1" not in impl:
            return "%s denied with %s but the connection stayed open" % (cmd, code)
    return None


def history_oracle(ops, impl):
    """The history theorems (tls_gate_history, auth_gate_history, trace_state, no_effect_before_auth) evaluated on
    the implementation's own trace: a flag can be up only after the event that the theorem names, and the broker can
    have grown through a command only on a connection that passed the gates. Returns [(key, index, detail)]."""
    out = []
    cfg, conns, prev_broker = None, {}, None
    for idx, (o, i) in enumerate(zip(ops, impl)):
        w = o.split()
        if w[0] == "cfg":
            cfg, conns, prev_broker = w, {}, "-"
            continue
        if cfg is None:
            continue
        if w[0] == "conn":
            conns[w[1]] = {"tls": False, "auth": False, "sub": False}
            continue
        if w[0] == "x":
            prev_broker = broker_of(i) or prev_broker
            continue
        if w[0] not in CMDV or w[1] not in conns:
            continue
        st, cmd = conns[w[1]], (w[5] if w[0] == "cb" else w[4])
        replies = i.split(" close=")[0]
        m = re.search(r"tls=(\d) st=(\w+) authed=(\d) broker=(\S+)", i)
        if not m:
            continue
        tls, state, authed, broker = m.groups()
        if w[0] == "cb" and w[4] == "0" and (cfg[1] != "0" or cfg[2] != "-") and cmd != "IDENTIFY":
            # plaintext_bytes_never_executed: no effect, no answer other than the gate's E_INVALID
            if replies not in ("", "E_INVALID:fatal") or (prev_broker is not None and content_grew(prev_broker, broker)):
                out.append(("hist-plaintext:" + cmd, idx, "%s received in plaintext (before the handshake) was executed/answered after it: %s [%s]" % (cmd, replies or "(effect)", o[:200])))
        if cmd == "IDENTIFY" and re.match(r"ident:tls=1:auth=\d\|OK$", replies):
            st["tls"] = True
        if cmd == "AUTH" and replies.startswith("auth:"):
            st["auth"] = True
        if cmd == "SUB" and replies == "OK":
            st["sub"] = True
        if tls == "1" and not st["tls"]:
            out.append(("hist-tls", idx, "TLS flag set without a completed handshake inside an earlier IDENTIFY [%s]" % o[:200]))
        if authed == "1" and not st["auth"]:
            out.append(("hist-auth", idx, "connection holds authorizations without an earlier successful AUTH [%s]" % o[:200]))
        if state != "init" and not st["sub"]:
            out.append(("hist-sub", idx, "connection left the initial state without an accepted SUB [%s]" % o[:200]))
        grew = prev_broker is not None and content_grew(prev_broker, broker)
        if grew and cfg[4] != "0" and not st["auth"]:
            out.append(("hist-effect-auth:" + cmd, idx, "%s changed the broker (%s -> %s) on a connection without an earlier successful AUTH" % (cmd, prev_broker[:150], broker[:150])))
        if grew and (cfg[1] != "0" or cfg[2] != "-") and not st["tls"]:
            out.append(("hist-effect-tls:" + cmd, idx, "%s changed the broker (%s -> %s) on a connection without a completed TLS handshake" % (cmd, prev_broker[:150], broker[:150])))
        prev_broker = broker
    return out


def parse_broker(b):
    d = {}
    if b in (None, "-"):
        return d
    for t in b.split(";"):
        m = re.match(r"(.*)\((\d+)\)\[(.*)\]$", t)
        if not m:
            continue
        chans = {}
        for c in filter(None, m.group(3).split(",")):
            name, _, k = c.rpartition(":")
            chans[name] = int(k)
        d[m.group(1)] = (int(m.group(2)), chans)
    return d


def content_grew(a, b):
    """a topic, a channel, a message or a subscription appeared"""
    if a == b:
        return False
    A, B = parse_broker(a), parse_broker(b)
    for t, (n, chans) in B.items():
        if t not in A or n > A[t][0]:
            return True
        for c, k in chans.items():
            if c not in A[t][1] or k > A[t][1][c]:
                return True
    return False


class Stream:
    """one harness run + the model's replay of its op lines"""

    def __init__(self, ctx, binp, test, stream, env, timeout=1700):
        self.ok = False
        self.stream = stream
        rc, out = ctx.run_cmd([binp, "-test.run", test, "-test.count=1", "-test.timeout=25m"], timeout=timeout, env=env)
        self.out = out
        self.rc = rc
        self.fails = []           # (key, index or None, detail)
        for l in out.splitlines():
            if l.startswith("ORACLE-FAIL"):
                m = re.match(r"ORACLE-FAIL (\S+) (?:@(\d+) )?\| (.*)", l)
                if m:
                    self.fails.append((m.group(1), int(m.group(2)) if m.group(2) else None, m.group(3)))
        self.oks = [l for l in out.splitlines() if l.startswith("ORACLE-OK")]
        self.hist = {}
        for l in out.splitlines():
            if l.startswith("HIST "):
                _, k, v = l.split(" ", 2)
                self.hist[k] = int(v)
        self.ops, self.impl, self.model, self.diffs = [], [], [], []
        if rc != 0 or not self.oks:
            return
        self.ops = open(os.path.join(ctx.work, stream + ".ops")).read().splitlines()
        self.impl = open(os.path.join(ctx.work, stream + ".impl")).read().splitlines()
        rc2, mout = ctx.driver("gate", stdin_path=os.path.join(ctx.work, stream + ".ops"))
        self.model = mout.splitlines()
        if stream != "gateia":
            self.fails += history_oracle(self.ops, self.impl)
        self.ok = True

    def context(self, idx, minimal):
        """op lines needed to replay line idx: its configuration and (minimal) only its own
        connection, or the whole history of that nsqd instance up to idx"""
        start = max([j for j in range(idx + 1) if self.ops[j].startswith("cfg ")] or [0])
        if not minimal:
            return [l for l in self.ops[start:idx + 1]]
        w = self.ops[idx].split()
        cid = w[1] if w[0] in CMDV + ("x", "conn") else None
        keep = [self.ops[start]]
        for l in self.ops[start + 1:idx + 1]:
            lw = l.split()
            if cid is not None and lw[0] in CMDV + ("x", "conn") and lw[1] == cid:
                keep.append(l)
        return keep


def replay_lines(ctx, binp, env, lines, tag):
    p = os.path.join(ctx.work, "replay_%s.ops" % tag)
    with open(p, "w") as f:
        f.write("\n".join(lines) + "\n")
    return Stream(ctx, binp, "^TestVerifGateReplay$", "gaterp", dict(env, VERIF_REPLAY=p), timeout=600)


def shrink(ctx, binp, env, st, idx, reproduces):
    """two-step shrink: try the failing connection alone, else the instance's whole history"""
    for minimal in (True, False):
        lines = st.context(idx, minimal)
        r = replay_lines(ctx, binp, env, lines, "shrink")
        if r.ok and reproduces(r):
            return lines, True
    return st.context(idx, False), False


def report(ctx, binp, env, st, label):
    """oracle failures and model/implementation disagreements of one stream → verdict inputs.
    Returns the list of broken correspondences."""
    broken = []
    seen_keys = set()
    for key, idx, detail in st.fails:
        if key in seen_keys:
            continue
        seen_keys.add(key)
        okey = key
        # F30 (/repo d6aa4e3) is committed: `second-identify-cleartext` is listed fixed, a reproduction is a VIOLATION
        if idx is not None and idx < len(st.ops) and st.stream != "gateia":
            lines, ok = shrink(ctx, binp, env, st, idx, lambda r, key=okey: any(k == key for k, _, _ in r.fails))
            body = "# C11 oracle failure %s\n# %s\n# replay: ./check C11 --replay <this file>%s\n%s\n" % (
                key, detail[:600], "" if ok else "  (did not reproduce in isolation: timing or history dependent)",
                "\n".join(lines))
        else:
            body = "# C11 oracle failure %s\n# %s\n" % (key, detail)
        ctx.violation(key, detail[:400], body)
    if st.rc != 0 or not st.oks:
        ctx.log("harness %s failed (rc=%s):\n%s" % (label, st.rc, st.out[-3000:]))
        broken.append("harness %s exit %s" % (label, st.rc))
        return broken
    diffs = ctx.diff_lines(st.impl, st.model, label)
    for idx, a, b in diffs[:3]:
        ctx.log("model/impl disagree on `%s`:\n   impl=%s\n   model=%s" % (st.ops[idx][:300], a, b))
        broken.append("correspondence %s line %d: %s" % (label, idx, st.ops[idx][:120]))
        prev = broker_of(st.impl[idx - 1]) if idx > 0 else None
        bad = property_fails_on(prev, st.ops[idx], a)
        lines = st.context(idx, False) if st.stream != "gateia" else [st.ops[idx]]
        body = "# C11 model/implementation disagreement on the last line\n#   impl:  %s\n#   model: %s\n%s\n" % (a, b, "\n".join(lines))
        if bad:
            w = st.ops[idx].split()
            ctx.violation("corr:" + (w[5] if w[0] == "cb" else w[4] if len(w) > 4 else w[0]), bad, body)
        else:
            ctx.write_replay("corr_%s_%d.ops" % (label, idx), body)
    return broken


def authq_leg(ctx, corr_broken):
    """Round 6: the request side of internal/auth (QueryAuthd's URL / parameters, QueryAnyAuthd's walk, the TTL
    arithmetic) — the real functions against recording HTTP servers, replayed through Nsq.Model.AuthQuery."""
    binp = ctx.go_test_binary("internal/auth", ["gate/authq_test.go"], "authq", pkgname="auth")
    if not binp:
        ctx.broken_ties.append("harness gate/authq_test.go does not compile against the current tree")
        corr_broken.append("authq harness build")
        return
    N = ctx.budget(700, 6000)
    rc, out = ctx.run_cmd([binp, "-test.run", "^TestVerifAuthQuery$", "-test.count=1", "-test.timeout=1500s"],
                          timeout=1600, env={"VERIF_SEED": ctx.seed, "VERIF_N": N, "VERIF_OUT": ctx.work})
    hist = {}
    for l in out.splitlines():
        p = l.split()
        if l.startswith("HIST ") and len(p) == 3:
            hist[p[1]] = int(p[2])
    ctx.corr.setdefault("histogram_authq", hist)
    fails = [l for l in out.splitlines() if l.startswith("ORACLE-FAIL")]
    for l in fails:
        m = re.match(r"ORACLE-FAIL key=(\S+) op=(\S+) what=(.*)", l)
        if m:
            ctx.violation(m.group(1), m.group(3)[:400], "# %s\n%s\n" % (l[:600], m.group(2).replace("|", " ")))
        else:
            ctx.violation("authq-oracle", l[:400], l + "\n")
    if rc != 0 or (not fails and "ORACLE-OK" not in out):
        ctx.log("authq harness failed (rc=%s):\n%s" % (rc, out[-2000:]))
        corr_broken.append("authq harness exit %s" % rc)
    opsf = os.path.join(ctx.work, "authq.ops")
    if not os.path.exists(opsf):
        return
    ops = open(opsf).read().splitlines()
    impl = open(os.path.join(ctx.work, "authq.impl")).read().splitlines()
    rc, mout = ctx.driver("gate", stdin_path=opsf, timeout=600)
    model = mout.splitlines()
    nd = 0
    for i, o in enumerate(ops):
        a = impl[i] if i < len(impl) else "<missing>"
        b = model[i] if i < len(model) else "<missing>"
        ctx.count_case("authq|" + o, nontrivial=True)
        if i % 61 == 0:
            ctx.add_sample({"op": o[:300], "impl": a[:300]})
        if a != b:
            nd += 1
            if nd <= 4:
                ctx.log("auth query model/impl disagree on `%s`:\n   impl  %s\n   model %s" % (o[:300], a[:400], b[:400]))
                corr_broken.append("correspondence authq: %s" % o[:160])
    ctx.diff_lines(impl, model, "authq")


def run(ctx):
    ctx.trusted += [
        "translator tools/go2lean (kinds toplevel, stmts, errsites, callers, fieldwrites, consts, calls): statement "
        "skeletons of Exec / PUB / MPUB / DPUB / SUB / CheckAuth / AUTH / IDENTIFY / enforceTLSPolicy / IsAuthorized / "
        "IsExpired / IsAllowed / QueryAuthd / UpgradeTLS / ServeHTTP / Main / New / buildTLSConfig; a top-level "
        "`if …{return}` followed by statements is read as dominance",
        "crypto/tls (the handshake outcome per client-certificate policy is a decision table of the model, compared on "
        "every policy x certificate combination), net/http + encoding/json of the auth client, regexp (an arbitrary "
        "Matcher in every theorem; the concrete pattern family of the harness is compared line by line in the rx stream)",
        "Go runtime: one IOLoop goroutine per connection executes its commands sequentially",
        "correspondence harness harness/gate/gate_test.go (real TCP + TLS against in-process nsqd, stub auth server, "
        "white-box reads of client.TLS / State / AuthState and of the topic / channel maps; AuthState.Expires is set "
        "white-box from a virtual clock, never by sleeping)",
    ]
    ctx.assumptions += [
        "time.Now() readings are arbitrary inputs (no monotonicity assumed)",
        "the auth server is an arbitrary function of the request at every instant (may fail, change its mind, return empty grants)",
        "regexp is an arbitrary Matcher (compiles, isMatch) in every theorem",
        "FIN/REQ/TOUCH may do anything to the broker once past their own guards (parameter Ext)",
        "deny_is_fatal and requery_after_ttl are stated for commands that reach CheckAuth (hypothesis: not rejected "
        "for TLS or for their arguments before the check)",
        "PARTIAL (audit B10): the first clause read literally is false (Props.C11Tls.tls_clause_literal_false: an IDENTIFY "
        "that does not negotiate TLS is executed on a plaintext connection under --tls-required); tls_clause_partial weakens "
        "'executed' to 'has an effect outside the connection's own negotiation settings'",
        "auth TTLs are at most 9223372036 s (beyond, the code's int64 nanosecond product wraps to an EARLIER expiry: "
        "Props.C11Auth.ttl_exact_and_never_late; Model.Gate uses unbounded integers)",
    ]
    ctx.rule = ("correspondence: one in-process nsqd per policy configuration (tls-required x client-cert policy x "
                "certificate x auth; 31 configurations incl. 3 that New must refuse), generated connection scenarios "
                "(IDENTIFY variants with every client certificate kind, AUTH variants, every command with valid and "
                "malformed arguments, virtual time before/after the TTL, scripted auth answers: HTTP errors, bad JSON, bad "
                "TTL/permission/regex, empty grants, changes of mind); one line per command = replies, closure, auth-server "
                "requests seen, TLS/state/auth flags and the broker's topics/channels/message counts/subscriber counts; a "
                "case is distinct by its op line (which carries connection id, virtual time, scripted answer and command), "
                "non-trivial unless it is bookkeeping (conn/x lines)")
    gen_ok, _ = ctx.gen("gate_facts")
    ctx.gen("e1_stack")
    from props.C07 import stack_tree_fixed
    TREE_HAS_F30[0] = bool(stack_tree_fixed())
    ok, log = ctx.lean_build(TIE + PROPS)
    if not ok:
        ctx.lean_obligation_failed("lake build " + " ".join(TIE + PROPS), log[-1500:])
    ctx.lean_audit(PROPS, TIE)
    if ctx.thorough():
        ctx.leanchecker(PROPS)

    corr_broken = []
    ctx.build_driver("gate")
    binp = ctx.go_test_binary("nsqd", ["gate/gate_test.go"], "gate")
    if not binp:
        ctx.broken_ties.append("harness gate/gate_test.go does not compile against the current tree")
        corr_broken.append("harness build")
    else:
        env = {"VERIF_SEED": ctx.seed, "VERIF_OUT": ctx.work,
               "VERIF_CERTS": os.path.join(REPO, "nsqd", "test", "certs")}
        if ctx.replay_in:
            # --replay <file>: re-execute one recorded op file, show implementation and model side by side
            st = Stream(ctx, binp, "^TestVerifGateReplay$", "gaterp", dict(env, VERIF_REPLAY=os.path.abspath(ctx.replay_in)))
            for i, o in enumerate(st.ops):
                m = st.model[i] if i < len(st.model) else "<missing>"
                print("%s\n   impl:  %s\n   model: %s%s" % (o, st.impl[i], m, "" if m == st.impl[i] else "   <-- differ"))
            for key, idx, detail in st.fails:
                print("ORACLE-FAIL %s | %s" % (key, detail))
            for o in st.ops:
                ctx.count_case("replay:" + o, nontrivial=not (o.startswith("conn ") or o.startswith("x ")))
            corr_broken += report(ctx, binp, env, st, "replay")
        else:
            # 0: the corpus of past failures (minimised replays of mutation trials) runs first
            corpus = sorted(glob.glob(os.path.join(ROOT, "corpus", "C11", "*.ops")))
            if corpus:
                st = Stream(ctx, binp, "^TestVerifGateReplay$", "gaterp",
                            dict(env, VERIF_REPLAY=os.path.join(ROOT, "corpus", "C11")))
                ctx.corr["corpus"] = {"files": len(corpus), "lines": len(st.ops)}
                for o in st.ops:
                    ctx.count_case("corpus:" + o, nontrivial=not (o.startswith("conn ") or o.startswith("x ")))
                corr_broken += report(ctx, binp, env, st, "corpus")
            runs = [("^TestVerifGateAllowed$", "gateia", ctx.budget(12000, 200000)),
                    ("^TestVerifGateCorr$", "gate", ctx.budget(6000, 80000))]
            for test, stream, n in runs:
                st = Stream(ctx, binp, test, stream, dict(env, VERIF_N=n))
                if st.hist:
                    ctx.corr["histogram"] = st.hist
                if st.oks:
                    ctx.corr.setdefault("oracle", []).append("%s %s" % (stream, st.oks[0]))
                cfg = ""
                for o in st.ops:
                    # the same op line under another configuration is another case
                    if o.startswith("cfg "):
                        cfg = o
                    ctx.count_case(cfg + "|" + o, nontrivial=not (o.startswith("conn ") or o.startswith("x ")))
                zipped = list(zip(st.ops, st.impl))
                for o, i in zipped[3:5] + zipped[len(zipped) // 2:len(zipped) // 2 + 3] + zipped[-2:]:
                    ctx.add_sample({"op": o[:300], "impl": i[:300]})
                corr_broken += report(ctx, binp, env, st, stream)
    if not ctx.replay_in:
        authq_leg(ctx, corr_broken)
    if (ctx.broken_ties or corr_broken) and not ctx.violations:
        ctx.broken_without_input(ctx.broken_ties + corr_broken,
                                 "search: %d generated commands under the direct oracle (TLS gate, auth gate, "
                                 "deny-no-trace, documented codes, re-query after TTL, HTTP gate) found no property "
                                 "failure" % ctx.evaluations)
