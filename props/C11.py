"""C11 — TLS-required and AUTH policies cannot be bypassed (engine gate, DESIGN.md §5 C11)."""
import os
import re
import framework
from framework import REPO

TIE = ["Nsq.Tie.Gate"]
PROPS = ["Nsq.Props.C11"]

DENY_CODES = ("E_AUTH_FIRST", "E_AUTH_FAILED", "E_UNAUTHORIZED", "E_AUTH_DISABLED")


def load(ctx, name):
    return (open(os.path.join(ctx.work, name + ".ops")).read().splitlines(),
            open(os.path.join(ctx.work, name + ".impl")).read().splitlines())


def broker_of(line):
    m = re.search(r"broker=(\S+)", line)
    return m.group(1) if m else None


def content_of(broker):
    """topics, channels and message counts without the subscriber counts"""
    if broker in (None, "-"):
        return ""
    return ";".join(re.sub(r":\d+", "", t) for t in broker.split(";"))


def property_fails_on(cfgline, prev_impl_broker, op, impl):
    """Given one command and the *implementation's* answer: does the property itself fail?
    (used when model and implementation disagree; the Go-side oracle covers the rest)"""
    w = op.split()
    if w[0] not in ("c", "cx"):
        return None
    cmd = w[4]
    first = impl.split(" close=")[0].split("|")[0] if impl else ""
    code = first.split(":")[0]
    after = broker_of(impl)
    if code in DENY_CODES or (code == "E_INVALID" and "TLS" in first):
        if prev_impl_broker is not None and content_of(after) != content_of(prev_impl_broker):
            return "%s denied with %s changed the broker: %s -> %s" % (cmd, code, prev_impl_broker, after)
        if " close=1" not in impl:
            return "%s denied with %s but the connection stayed open" % (cmd, code)
    return None


def run(ctx):
    ctx.trusted += [
        "translator tools/go2lean (kinds calls, stmts, errsites, consts, toplevel): order-of-statements facts of "
        "Exec / PUB / MPUB / DPUB / SUB / CheckAuth / AUTH / enforceTLSPolicy / IsAuthorized / IsExpired / ServeHTTP / Main",
        "crypto/tls (handshake outcome per client-certificate policy is an input of the model, compared on every "
        "policy x certificate combination), net/http + encoding/json of the auth client, regexp (abstract Matcher "
        "in every theorem; concrete family compared line by line in the rx stream)",
        "Go runtime: one IOLoop goroutine per connection executes commands sequentially",
        "correspondence harness harness/gate/gate_test.go (real TCP + TLS against in-process nsqd, stub auth server, "
        "white-box reads of client.TLS / State / AuthState and of the topic / channel maps; AuthState.Expires is set "
        "white-box from a virtual clock)",
    ]
    ctx.assumptions += [
        "time.Now() readings are arbitrary inputs (no monotonicity assumed)",
        "the auth server is an arbitrary function of the request at every instant (may fail, change its mind, return empty grants)",
        "regexp is an arbitrary Matcher (compiles, isMatch) in every theorem",
    ]
    ctx.rule = ("correspondence: one in-process nsqd per policy configuration (tls-required x client-cert policy x "
                "certificate x auth), generated connection scenarios (IDENTIFY variants incl. every client certificate "
                "kind, AUTH variants, every command with valid and malformed arguments, virtual time before/after the "
                "TTL, scripted auth answers: errors, bad JSON, bad TTL/permission/regex, empty grants, changes of mind); "
                "one line per command = replies, closure, auth-server requests seen, TLS/state/auth flags and the "
                "broker's topics/channels/message counts/subscriber counts; a case is distinct by its op line within its "
                "configuration and connection history, non-trivial unless it is bookkeeping (conn/x lines)")
    gen_ok, _ = ctx.gen("gate_facts")
    ok, log = ctx.lean_build(TIE + PROPS)
    if not ok:
        ctx.lean_obligation_failed("lake build " + " ".join(TIE + PROPS), log[-1500:])
    ctx.lean_audit(PROPS, TIE)
    if ctx.thorough():
        ctx.leanchecker(PROPS)

    corr_broken = []
    ctx.build_driver("gate")
    binp = ctx.go_test_binary("nsqd", ["gate/gate_test.go"], "gate")
    if not binp:
        ctx.broken_ties.append("harness gate/gate_test.go does not compile against the current tree")
        corr_broken.append("harness build")
    else:
        env = {"VERIF_SEED": ctx.seed, "VERIF_OUT": ctx.work,
               "VERIF_CERTS": os.path.join(REPO, "nsqd", "test", "certs")}
        runs = [("^TestVerifGateAllowed$", "gateia", ctx.budget(20000, 200000)),
                ("^TestVerifGateCorr$", "gate", ctx.budget(5000, 80000))]
        for test, stream, n in runs:
            rc, out = ctx.run_cmd([binp, "-test.run", test, "-test.count=1", "-test.timeout=25m"], timeout=1700,
                                  env=dict(env, VERIF_N=n))
            fails = [l for l in out.splitlines() if l.startswith("ORACLE-FAIL")]
            oks = [l for l in out.splitlines() if l.startswith("ORACLE-OK")]
            hist = {}
            for l in out.splitlines():
                if l.startswith("HIST "):
                    _, k, v = l.split(" ", 2)
                    hist[k] = int(v)
            if hist:
                ctx.corr["histogram"] = hist
            seen_keys = set()
            for l in fails:
                key = l.split(" ", 2)[1]
                if key in seen_keys:
                    continue
                seen_keys.add(key)
                ctx.violation(key, l[len("ORACLE-FAIL "):][:400],
                              "\n".join(x for x in fails if x.split(" ", 2)[1] == key)[:6000] + "\n")
            if rc != 0 or not oks:
                ctx.log("harness %s failed (rc=%s):\n%s" % (test, rc, out[-3000:]))
                corr_broken.append("harness %s exit %s" % (test, rc))
                continue
            ctx.corr.setdefault("oracle", []).append("%s %s" % (stream, oks[0]))
            ops, impl = load(ctx, stream)
            rc, mout = ctx.driver("gate", stdin_path=os.path.join(ctx.work, stream + ".ops"))
            model = mout.splitlines()
            for o, i in zip(ops, impl):
                ctx.count_case(o, nontrivial=not (o.startswith("conn ") or o.startswith("x ")))
            for o, i in list(zip(ops, impl))[3:6] + list(zip(ops, impl))[-2:]:
                ctx.add_sample({"op": o[:300], "impl": i[:300]})
            diffs = ctx.diff_lines(impl, model, stream)
            for idx, a, b in diffs:
                # replay context: the configuration line and the lines of this connection
                start = max(j for j in range(idx + 1) if ops[j].startswith("cfg ") or j == 0)
                ctxt = "\n".join("%s\n   impl:  %s\n   model: %s" % (ops[j], impl[j], model[j] if j < len(model) else "<missing>")
                                 for j in range(start, idx + 1)
                                 if ops[j].startswith("cfg ") or j >= idx - 12)
                ctx.log("model/impl disagree on `%s`:\n   impl=%s\n   model=%s" % (ops[idx][:300], a, b))
                corr_broken.append("correspondence %s line %d: %s" % (stream, idx, ops[idx][:120]))
                prev = broker_of(impl[idx - 1]) if idx > 0 else None
                bad = property_fails_on(ops[start], prev, ops[idx], a)
                if bad:
                    w = ops[idx].split()
                    ctx.violation("corr:" + (w[4] if len(w) > 4 else w[0]), bad, ctxt + "\n")
                else:
                    ctx.write_replay("corr_%s_%d.txt" % (stream, idx), ctxt + "\n")
    if (ctx.broken_ties or corr_broken) and not ctx.violations:
        ctx.broken_without_input(ctx.broken_ties + corr_broken,
                                 "search: %d generated commands under the direct oracle (TLS gate, auth gate, "
                                 "deny-no-trace, re-query after TTL, HTTP gate) found no property failure" % ctx.evaluations)
