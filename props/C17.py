"""C17 — nsqadmin state-changing actions require an admin identity (engine E7, DESIGN.md §5 C17)."""
import ipaddress
import os
import re
from framework import REPO, ROOT

TIE = ["Nsq.Tie.AdminGate", "Nsq.Tie.AdminFanout", "Nsq.Tie.AdminProg", "Nsq.Tie.AdminNotify"]
PROPS = ["Nsq.Props.C17"]
STREAMS = [("gate_identity", "^TestVerifE7Identity$"), ("gate_fanout", "^TestVerifE7Fanout$"),
           ("gate_config", "^TestVerifE7Config$"), ("gate_prog", "^TestVerifE7Prog$"), ("gate_strfn", "^TestVerifE7StrFns$"),
           ("gate_proxy", "^TestVerifE7Proxy$")]


def unhex(s):
    if s in ("-", ""):
        return ""
    return bytes.fromhex(s).decode("utf-8", "replace")


def hexlist(s):
    if s in ("-", ""):
        return []
    return [unhex(x) for x in s.split(",")]


def parse_op(op):
    f = {}
    for tok in op.split()[1:]:
        k, _, v = tok.partition("=")
        f[k] = v
    f["segs"] = hexlist(f.get("p", "-"))
    f["userlist"] = hexlist(f.get("users", "-"))
    hd = []
    if f.get("hdrs", "-") not in ("-", ""):
        for t in f["hdrs"].split(","):
            n, _, v = t.partition(":")
            hd.append((unhex(n), unhex(v)))
    f["hdrlist"] = hd
    return f


TOKEN = set("!#$%&'*+-.^_`|~0123456789abcdefghijklmnopqrstuvwxyzABCDEFGHIJKLMNOPQRSTUVWXYZ")


def canon(name):
    """net/textproto CanonicalMIMEHeaderKey as documented: a name with a space or a non-token byte is left alone."""
    if any(ch not in TOKEN for ch in name):
        return name
    out, up = [], True
    for ch in name:
        out.append(ch.upper() if up else ch.lower())
        up = ch == "-"
    return "".join(out)


def is_admin(f):
    """The property's own reading of "carries an admin identity" (independent of the Lean model):
    no admin list, or the first received value of the configured header is literally listed."""
    if not f["userlist"]:
        return True
    want = canon(unhex(f.get("acl", "-")))
    val = ""
    for n, v in f["hdrlist"]:
        if n == want:
            val = v
            break
    return val in f["userlist"]


NAME_RE = re.compile(r"^[.a-zA-Z0-9_-]+(#ephemeral)?$")


def valid_name(s):
    return isinstance(s, str) and 1 <= len(s) <= 64 and NAME_RE.match(s) is not None


def decode_body(raw):
    """What `json.NewDecoder(req.Body).Decode(&struct{…string fields…})` makes of a body, read independently of
    the harness: the first JSON value must be an object (trailing bytes are not looked at), a member whose name
    matches a field (case-insensitively) must be a string or null. Returns the lower-cased members or None."""
    import json
    try:
        v, _ = json.JSONDecoder().raw_decode(raw.lstrip(" \t\r\n"))
    except ValueError:
        return None
    if not isinstance(v, dict):
        return None
    out = {}
    for k, x in v.items():
        if k.lower() in ("topic", "channel", "action"):
            if x is None:
                continue
            if not isinstance(x, str):
                return None
            out[k.lower()] = x
    return out


def well_formed(f):
    """Is this state-changing request one the property promises to carry out — by the documented API alone
    (route shape, body members, name syntax), not by looking at the handler or the model? None = no opinion."""
    segs, m = f["segs"], f["m"]
    if "xbody" not in f:
        return None
    body = decode_body(unhex(f["xbody"]))
    if (body is not None) != (f.get("body") == "1"):
        return None      # python and Go read this body differently: no verdict from this clause
    if m == "DELETE" and len(segs) in (3, 4) and segs[1] == "topics":
        return True
    if body is None:
        return False
    if m == "POST" and len(segs) == 2 and segs[1] == "topics":
        return valid_name(body.get("topic", "")) and (body.get("channel", "") == "" or valid_name(body["channel"]))
    if m == "POST" and len(segs) in (3, 4) and segs[1] == "topics":
        return body.get("action", "") in ("pause", "unpause", "empty")
    if m == "DELETE" and len(segs) == 3 and segs[1] == "nodes":
        return valid_name(body.get("topic", ""))
    return None


def strfn_oracle(op, impl):
    """The two library functions against their documentation, in python (no Lean, no Go)."""
    import urllib.parse
    _, fn, h = op.split()
    s, got = unhex(h), unhex(impl)
    want = canon(s) if fn == "canon" else urllib.parse.quote_plus(s, safe="")
    if got != want:
        return "%s(%r) = %r, documented behaviour gives %r" % (
            "CanonicalMIMEHeaderKey" if fn == "canon" else "url.QueryEscape", s, got, want)
    return None


def proxy_oracle(op, impl):
    """GET /render (only with --proxy-graphite): a read-only pass-through to graphite — available to everybody, GET
    only, never a request to an nsqd / nsqlookupd, the query handed on unchanged."""
    f = dict(t.partition("=")[::2] for t in op.split()[1:])
    a = impl.split()
    status, fw, nsq = int(a[0]), a[1], a[3]
    where = "%s /render?%s (proxy-graphite %s, identity %s)" % (f["m"], unhex(f["q"]), "on" if f["on"] == "1" else "off", f["who"])
    if nsq != "nsq=0":
        return where + " caused %s request(s) to nsqd / nsqlookupd" % nsq[4:]
    if f["on"] != "1" or f["m"] != "GET":
        if fw != "-":
            return where + " was forwarded to graphite: " + fw
        if status < 400:
            return where + " answered %d" % status
        return None
    if status == 403:
        return where + " answered 403: a read-only route"
    if f["g"] != "down":
        want = "GET:/render" + ("?" + unhex(f["q"]) if unhex(f["q"]) else "")
        if fw != want:
            return where + ": graphite received %s, not %s" % (fw, want)
        if status != int(f["g"]):
            return where + ": graphite answered %s, nsqadmin answered %d" % (f["g"], status)
    return None


def property_fails_on(op, impl):
    """Evaluate C17 on one request and the implementation's own answer. Returns text or None."""
    if op.startswith("fan "):
        return prog_oracle(op, impl)
    if op.startswith("strfn "):
        return strfn_oracle(op, impl)
    if op.startswith("proxy "):
        return proxy_oracle(op, impl)
    f = parse_op(op)
    a = impl.split()
    if len(a) != 4:
        return "malformed implementation answer %r" % impl
    status, reqs, notes, cfgw = int(a[0]), a[1], a[2], a[3]
    segs, m = f["segs"], f["m"]
    under_api = len(segs) > 0 and segs[0] == "api"
    if under_api and m in ("POST", "PUT", "DELETE") and status not in (404, 405):
        if not is_admin(f):
            if status != 403:
                return "state-changing %s /%s without an admin identity answered %d, not 403" % (m, "/".join(segs), status)
            if reqs != "-" or notes != "-":
                return "state-changing %s /%s without an admin identity reached an upstream: %s %s" % (
                    m, "/".join(segs), reqs, notes)
        else:
            if status == 403:
                return "%s /%s with an admin identity (or no admin list) answered 403" % (m, "/".join(segs))
            wf = well_formed(f)
            if wf is True and status not in (200, 502):
                return ("%s /%s with an admin identity and a well-formed request (body %r) answered %d: the action was "
                        "not carried out (recorded upstream requests: %s)" % (m, "/".join(segs), unhex(f.get("xbody", "-")), status, reqs))
            if wf is False and (status in (200, 502) or reqs != "-"):
                return ("%s /%s with a malformed request (body %r) answered %d and reached an upstream: %s" % (
                    m, "/".join(segs), unhex(f.get("xbody", "-")), status, reqs))
            if status in (200, 502):
                bad = fanout_missing(f, reqs, status)
                if bad:
                    return bad
        bad = notify_oracle(f, status, notes)
        if bad:
            return bad
    if m not in ("GET", "POST", "PUT", "DELETE") and (reqs != "-" or notes != "-" or cfgw != "0"):
        return "%s /%s (a method no route is registered under) had an effect: upstream %s, notifications %s, config written %s" % (
            m, "/".join(segs), reqs, notes, cfgw)
    if under_api and m != "GET" and not is_admin(f) and (reqs != "-" or notes != "-"):
        return "%s /%s without an admin identity reached an upstream (status %d): %s %s" % (m, "/".join(segs), status, reqs, notes)
    if segs and segs[0] == "config" and f.get("cidr") == "1":
        out = f.get("innet") == "0" or f.get("lfail", "-") != "-" and "6e65742e53706c6974486f7374506f7274" in f["lfail"] \
            or "6970203d3d206e696c" in f.get("other", "")
        if out:
            if not (400 <= status < 500) or cfgw != "0":
                return "%s /config/%s from outside the allowed network answered %d (config written: %s)" % (
                    m, segs[-1], status, cfgw)
    if reqs.startswith("isadmin="):
        # the page's IS_ADMIN flag is the admin check, nothing else (it only hides controls; the API checks again)
        if reqs != "isadmin=" + ("true" if is_admin(f) else "false"):
            return "GET /%s renders IS_ADMIN = %s for a request that %s an admin identity" % (
                "/".join(segs), reqs[8:], "carries" if is_admin(f) else "does not carry")
    if m == "GET" and under_api and status == 403:
        return "read-only view /%s answered 403" % "/".join(segs)
    if m == "GET" and not (segs and segs[0] == "config") and ("P:" in reqs or notes != "-" or cfgw != "0"):
        return ("GET /%s changed state without any admin check: upstream requests %s, notifications %s, config written %s"
                % ("/".join(segs), reqs, notes, cfgw))
    return None


def qs_oracle(where, recs, topic, channel, node_addr_ok=True):
    """Every command nsqadmin sent names exactly the topic / channel of the request: its query string, decoded by
    the rules of application/x-www-form-urlencoded (python's urllib, not Go's), gives them back — whatever
    characters the unvalidated path parameters contain (audit C17)."""
    import urllib.parse
    for r in recs:
        if not r.startswith("P:") or "?" not in r:
            continue
        path, _, qs = r[2:].partition("?")
        try:
            q = urllib.parse.parse_qs(qs, keep_blank_values=True, strict_parsing=True, errors="strict")
        except ValueError:
            return "%s: command %s has a query string that does not parse" % (where, r)
        allowed = {"topic", "channel", "node"}
        if set(q) - allowed or any(len(v) != 1 for v in q.values()):
            return "%s: command %s carries unexpected or repeated arguments %s" % (where, r, sorted(q))
        if q.get("topic", [None])[0] != topic:
            return "%s: command %s names topic %r, the request was about %r" % (where, r, q.get("topic", [None])[0], topic)
        if "channel" in q and q["channel"][0] != channel:
            return "%s: command %s names channel %r, the request was about %r" % (where, r, q["channel"][0], channel)
        if "/channel/" in path and "channel" not in q:
            return "%s: channel command %s names no channel" % (where, r)
    return None


def notify_oracle(f, status, notes):
    """Exactly one notification per performed action, none without an admin identity / a configured endpoint /
    a performed action — from the request and the answer alone (no Lean). pause/unpause/empty announce before
    they look at the upstream error, so a 502 of theirs still notifies (what the code does, see docs/C17.md)."""
    segs, m = f["segs"], f["m"]
    got = [] if notes == "-" else notes.split(",")
    where = "%s /%s" % (m, "/".join(segs))
    if not is_admin(f) or f.get("notify") != "1":
        if got:
            return "%s notified %s %s" % (where, ",".join(got), "without an admin identity" if not is_admin(f)
                                          else "although no notification endpoint is configured")
        return None
    want = []
    if m == "POST" and len(segs) == 2:
        if status == 200:
            want = ["create_topic"] + (["create_channel"] if unhex(f.get("bchan", "-")) != "" else [])
    elif m == "POST" and len(segs) in (3, 4):
        act = unhex(f.get("action", "-"))
        if status in (200, 502) and act in ("pause", "unpause", "empty"):
            want = [act + ("_channel" if len(segs) == 4 else "_topic")]
    elif m == "DELETE" and len(segs) == 3 and segs[1] == "nodes":
        if status == 200:
            want = ["tombstone_topic_producer"]
    elif m == "DELETE" and len(segs) in (3, 4):
        if status == 200:
            want = ["delete_channel" if len(segs) == 4 else "delete_topic"]
    if sorted(got) != sorted(want):
        return "%s answered %d and notified [%s]; one notification per performed action would be [%s]" % (
            where, status, ",".join(got), ",".join(want))
    return None


def fanout_missing(f, reqs, status):
    """With an admin identity and an answer 200/502 (the request got past validation): the action is carried out on
    every relevant nsqd and nsqlookupd — evaluated on the requests the stub upstreams recorded. The producers are
    the ones the responding upstreams report (GET side); a 502 is legitimate only when that lookup found nobody
    to ask. In particular nsqlookupds that fail the POSTed command do not excuse skipping the nsqds."""
    got = [] if reqs in ("-", "*") else reqs.split("|")
    lk = [] if f.get("lk", "-") == "-" else [t.split(":") for t in f["lk"].split(",")]
    nd = {} if f.get("nd", "-") == "-" else {t.split(":")[0]: t.split(":") for t in f["nd"].split(",")}
    na = [] if f.get("na", "-") == "-" else f["na"].split(",")
    segs = f["segs"]
    where = "%s /%s" % (f["m"], "/".join(segs))
    rep = lambda n: nd[n][4] if n in nd and len(nd[n]) > 4 else n   # the address the node's /info claims
    posts = [g for g in got if g.startswith("P:")]
    if f["m"] == "POST" and len(segs) == 2:
        rt, rc = unhex(f.get("btopic", "-")), unhex(f.get("bchan", "-"))
    elif len(segs) >= 3 and segs[1] == "nodes":
        rt, rc = unhex(f.get("btopic", "-")), ""
    else:
        rt, rc = (segs[2] if len(segs) > 2 else ""), (segs[3] if len(segs) > 3 else "")
    bad = qs_oracle(where, posts, rt, rc)
    if bad:
        return bad
    lk_up = [l for l in lk if l[1] == "1"]
    via_lookupd = set(x for l in lk_up if l[2] != "-" for x in l[2].split("+"))
    need_lookupd = None       # substring of the command every configured nsqlookupd must have received
    if f["m"] == "POST" and len(segs) == 2:            # create topic [+ channel]
        need_lookupd = "/topic/create?"
        if not lk and status == 200 and not posts:
            # audit C15: the relevant upstreams of a create are the configured nsqds when there is no nsqlookupd
            return ("%s with an admin identity in direct-nsqd mode (no nsqlookupd configured; nsqds %s) answered 200%s, "
                    "but no request was sent to anybody: the topic was created nowhere" % (
                        where, ",".join(na) or "-", " and announced it" if f.get("notify") == "1" else ""))
        if unhex(f.get("bchan", "-")) == "":
            lookup_ok, prods = True, set()
        else:
            lookup_ok, prods = bool(lk_up), via_lookupd
    elif f["m"] == "DELETE" and len(segs) == 3 and segs[1] == "nodes":
        need_lookupd = "/topic/tombstone?"
        node = segs[2]
        lookup_ok = node in nd and nd[node][1] == "1"
        prods = {rep(node)} if lookup_ok else set()
    else:                                              # delete / pause / unpause / empty
        if lk:
            lookup_ok, prods = bool(lk_up), via_lookupd
        else:
            lookup_ok = any(n in nd and nd[n][1] == "1" for n in na)
            prods = set(rep(n) for n in na if n in nd and nd[n][1] == "1" and nd[n][2] == "1")
        if f["m"] == "DELETE":
            need_lookupd = "/delete?"
    prods = set(p for p in prods if p in nd)           # an address nobody listens on cannot record anything
    missing = sorted(p for p in prods if not any(q.startswith("P:%s/" % p) for q in posts))
    if status == 502 and lookup_ok:
        return "%s answered 502 although the producer lookup succeeded%s (recorded: %s)" % (
            where, "; nsqd %s never received the command" % ", ".join(missing) if missing else "", reqs)
    if not lookup_ok:
        return None
    if missing:
        return "%s: nsqd %s, reported as a producer by a responding upstream, never received the command (recorded: %s)" % (
            where, ", ".join(missing), reqs)
    if need_lookupd:
        for l in lk:
            if not any(p.startswith("P:%s/" % l[0]) and need_lookupd in p for p in posts):
                return "%s: nsqlookupd %s did not receive %s (recorded: %s)" % (where, l[0], need_lookupd.strip("/?"), reqs)
    return None


NSQD_CMD = {"createChannel": "/channel/create", "deleteTopic": "/topic/delete", "deleteChannel": "/channel/delete",
            "pauseTopic": "/topic/pause", "unpauseTopic": "/topic/unpause", "emptyTopic": "/topic/empty",
            "pauseChannel": "/channel/pause", "unpauseChannel": "/channel/unpause", "emptyChannel": "/channel/empty",
            "tombstone": "/topic/delete"}
LOOKUPD_CMDS = {"createTopic": ["/topic/create"], "createChannel": ["/topic/create", "/channel/create"],
                "deleteTopic": ["/topic/delete"], "deleteChannel": ["/channel/delete"], "tombstone": ["/topic/tombstone"]}


def prog_oracle(op, impl):
    """"Every relevant nsqd and nsqlookupd is contacted exactly once; errors are aggregated, never dropped",
    evaluated on what the recording stubs saw when the real ClusterInfo method ran (no Lean involved): the
    outcome of every recorded request follows from the world (a down stub fails everything, a POST-failing
    stub fails POSTs), so the number of errors the method must report is known."""
    f = {}
    for tok in op.split()[1:]:
        k, _, v = tok.partition("=")
        f[k] = v
    a = impl.split()
    if len(a) != 3 or not a[1].startswith("errs="):
        return "malformed implementation answer %r" % impl
    res, errs = a[0], int(a[1][5:])
    phases = [] if a[2] == "-" else [ph.split("|") for ph in a[2].split(";")]
    recs = [r for ph in phases for r in ph]
    kind = f["kind"]
    lk = [] if f.get("lk", "-") == "-" else [t.split(":") for t in f["lk"].split(",")]
    nd = {} if f.get("nd", "-") == "-" else {t.split(":")[0]: t.split(":") for t in f["nd"].split(",")}
    lkd = {l[0]: l for l in lk}
    where = "ClusterInfo %s (topic %s)" % (kind, unhex(f.get("topic", "-")))

    def failed(r):
        sym = r[2:].split("/", 1)[0]
        if r.startswith("G:"):
            return (sym in lkd and lkd[sym][1] == "0") or (sym in nd and nd[sym][1] == "0")
        return (sym in lkd and lkd[sym][3] == "0") or (sym in nd and nd[sym][3] == "0")
    nfail = sum(1 for r in recs if failed(r))
    rep = lambda n: nd[n][4] if n in nd and len(nd[n]) > 4 else n   # the address the node's /info claims
    na0 = [] if f.get("na", "-") == "-" else f["na"].split(",")
    # requests that fail without being recorded (nobody listens on X0): at most one per command through a
    # nsqlookupd report, one per configured nsqd whose /info claims X0, one for a tombstone of / through X0
    dead = (1 if any("X0" in l[2].split("+") for l in lk if l[2] != "-") else 0) + \
        (sum(1 for n in na0 if rep(n) == "X0") if not lk else 0) + \
        (1 if f.get("node") == "X0" or (f.get("node", "-") != "-" and rep(f["node"]) == "X0") else 0)
    dead_possible = dead > 0
    # the same command twice at one address is what the code does when two configured nsqds claim that address
    mult = {}
    if not lk:
        for n in na0:
            if n in nd and nd[n][1] == "1" and nd[n][2] == "1":
                mult[rep(n)] = mult.get(rep(n), 0) + 1
    for r in set(recs):
        allowed = mult.get(r[2:].split("/", 1)[0], 1) if r.startswith("P:") else 1
        if recs.count(r) > max(1, allowed):
            return "%s: contacted more than once: %s x%d (recorded: %s)" % (where, r, recs.count(r), a[2])
    if res == "none" and nfail > 0:
        return "%s returned nil although %d request(s) failed: %s" % (where, nfail, ", ".join(r for r in recs if failed(r)))
    if res == "partial" and (errs < nfail or errs > nfail + dead):
        return "%s reports %d error(s) but %d recorded request(s) failed: %s" % (
            where, errs, nfail, ", ".join(r for r in recs if failed(r)))
    if res == "partial" and errs == 0:
        return "%s returned an empty error list" % where
    posts = [r for r in recs if r.startswith("P:")]
    bad = qs_oracle(where, posts, unhex(f.get("topic", "-")), unhex(f.get("channel", "-")))
    if bad:
        return bad
    if kind in ("createTopic", "createChannel", "tombstone") or (kind in LOOKUPD_CMDS and res != "full"):
        for c in LOOKUPD_CMDS[kind]:
            for l in lk:
                if not any(r.startswith("P:%s%s?" % (l[0], c)) for r in posts):
                    return "%s: nsqlookupd %s did not receive %s (recorded: %s)" % (where, l[0], c.strip("/"), a[2])
    if kind in NSQD_CMD and res != "full" and kind != "tombstone":
        if lk or kind == "createChannel":
            prods = set(x for l in lk if l[1] == "1" and l[2] != "-" for x in l[2].split("+"))
        else:
            na = [] if f.get("na", "-") == "-" else f["na"].split(",")
            prods = set(rep(n) for n in na if n in nd and nd[n][1] == "1" and nd[n][2] == "1")
        for p_ in sorted(prods):
            if p_ in nd and not any(r.startswith("P:%s%s?" % (p_, NSQD_CMD[kind])) for r in posts):
                return "%s: nsqd %s, reported as a producer, never received %s (recorded: %s)" % (
                    where, p_, NSQD_CMD[kind].strip("/"), a[2])
    if kind not in ("createTopic", "createChannel", "tombstone"):
        seen_post = False
        for r in recs:
            if r.startswith("P:"):
                seen_post = True
            elif seen_post:
                return "%s: producer lookup %s after a command had already been sent (recorded: %s)" % (where, r, a[2])
        if res == "full" and posts:
            return "%s: the producer lookup failed as a whole but commands were sent: %s" % (where, ", ".join(posts))
    return None


def cidr_oracle(op, impl):
    """Independent check of the CIDR gate on the literal client address and network (python's ipaddress,
    not Go's net): a parsable address outside the network must get 403 and write nothing; inside, never 403."""
    f = parse_op(op)
    if not f["segs"] or f["segs"][0] != "config" or "xcidr" not in f:
        return None
    cidr, remote = unhex(f["xcidr"]), unhex(f["xremote"])
    if not cidr:
        return None
    a = impl.split()
    status, cfgw = int(a[0]), a[3]
    m = re.match(r"^\[([0-9a-fA-F:.]+)\]:(\d+)$", remote) or re.match(r"^([0-9.]+):(\d+)$", remote)
    if not m:
        return None  # not a literal host:port — left to the fact-based check
    try:
        ip = ipaddress.ip_address(m.group(1))
        net = ipaddress.ip_network(cidr, strict=False)
    except ValueError:
        return None
    if ip.version == 6 and ip.ipv4_mapped is not None and net.version == 4:
        ip = ip.ipv4_mapped   # Go compares 4-in-6 addresses as IPv4
    inside = ip.version == net.version and ip in net
    if not inside and (status != 403 or cfgw != "0"):
        return "%s /config/%s from %s, outside %s, answered %d (config written: %s)" % (f["m"], f["segs"][-1], remote, cidr, status, cfgw)
    if inside and status == 403:
        return "%s /config/%s from %s, inside %s, answered 403" % (f["m"], f["segs"][-1], remote, cidr)
    if inside != (f.get("innet") == "1"):
        return "harness fact innet=%s disagrees with %s in %s" % (f.get("innet"), remote, cidr)
    return None


def run(ctx):
    ctx.trusted += [
        "translator tools/go2lean (kinds adminroutes, adminpred): renders the route registrations of "
        "NewHTTPServer and the control-flow skeleton of every handler (calls to receiver methods inlined, "
        "unknown statements kept as Skel.unknown), and isAuthorizedAdminRequest into a Lean Bool function",
        "net/http and httprouter: routing, 404/405/OPTIONS, trimming of header values on the wire "
        "(the model takes the header map as the handler receives it; Header.Get's canonicalisation is modelled and compared)",
        "translator kind upstreamwrites: which ClusterInfo / http_api.Client method can send a non-GET request (the logger field "
        "`c.log` is declared harmless in specs/e7_admin.json)",
        "net.ParseCIDR / net.ParseIP / IPNet.Contains, protocol.IsValidTopicName, encoding/json of the request "
        "body, lg.ParseLogLevel: their outcomes are inputs of the model (computed by the harness with the same calls)",
        "correspondence harness harness/e7/gate_test.go (recording stub nsqlookupd/nsqd upstreams, symbolic addresses)",
    ]
    ctx.assumptions += [
        "an upstream stub answers or fails all its GETs and, independently, all its POSTs; an nsqd stub's /info may claim "
        "another stub's address or a dead one (model AdminFanout.World)",
        "admin_carried_out: 'well-formed request' = body decodes, topic/channel names pass IsValidTopicName/IsValidChannelName, "
        "action in {pause, unpause, empty} (hypotheses WellFormed / validOf; the python oracle decides the same from the raw body)",
        "the handler -> ClusterInfo -> requests composition is made in the driver, not in a Lean theorem",
        "request-level fan-out (which URLs each ClusterInfo action sends) is a hand-written model tied by "
        "correspondence and by a pinned fact table of the call/URI statements of data.go (Tie.AdminFanout); "
        "the handler-level statements are over regenerated skeletons",
    ]
    ctx.rule = ("correspondence: every registered route x 16 identities (absent, empty, non-admin, admin, second admin, "
                "case/prefix/suffix/whitespace/list look-alikes, lower-case header name, other header, two values) x "
                "admin list {[],[a],[a,b]} x ACL header name {canonical, lower-case, custom}, 14 smuggling channels, off-the-wire "
                "look-alikes, non-token ACL header names, every registered path x 7 methods x {admin, other}, every mutating route "
                "x 16 identities in direct-nsqd mode; every mutating action x 24 upstream worlds (up/down, POST-failing, both modes, "
                "nsqds whose /info claims another address) x ~10 bodies x topics / channels with reserved characters; /config GET/PUT "
                "x 9 CIDRs x 62+ client addresses; the ClusterInfo methods directly on 22 fixed + N random worlds; the graphite proxy; "
                "url.QueryEscape / CanonicalMIMEHeaderKey on fixed + random strings; a case is distinct by its op line and "
                "non-trivial when it is not a plain GET view; oracle: property_fails_on evaluates C17 on the implementation's own answer")
    gen_ok, _ = ctx.gen("e7_admin")
    ctx.gen("e7_fanout")
    ctx.gen("e7_prog")
    ok, log = ctx.lean_build(TIE + PROPS)
    if not ok:
        ctx.lean_obligation_failed("lake build " + " ".join(TIE + PROPS), log[-1500:])
    ctx.lean_audit(PROPS, TIE)
    if ctx.thorough():
        ctx.leanchecker(PROPS)

    corr_broken = []
    binp = None
    if not ctx.build_driver("e7"):
        corr_broken.append("driver drv_e7 does not build against the regenerated tables")
        ctx.broken_ties.append("lake build drv_e7")
    rc, routes = ctx.driver("e7", stdin="routes\n")
    routes_path = os.path.join(ctx.work, "routes.txt")
    with open(routes_path, "w") as fh:
        fh.write(routes.strip())
    ctx.corr["routes"] = routes.strip().count(";") + 1 if routes.strip() else 0
    # corpus first: committed requests with the answer the real server gave when they were recorded; the model
    # (over the table regenerated now) must still give it and the property must hold on it
    for cp in [os.path.join(ROOT, "corpus", "C17", "gate_regressions.ops"),
               os.path.join(ROOT, "corpus", "C17", "prog_regressions.ops")]:
        if not os.path.exists(cp) or ctx.replay_in:
            continue
        cops = open(cp).read().splitlines()
        cexp = open(cp[:-4] + ".expect").read().splitlines()
        rc, mout = ctx.driver("e7", stdin_path=cp)
        for o, want, got in zip(cops, cexp, mout.splitlines() + [""] * len(cops)):
            ctx.count_case(o)
            if property_fails_on(o, want):
                ctx.broken_ties.append("corpus line violates the property: " + o[:80])
            if want != got:
                ctx.log("corpus regression: `%s`\n  recorded=%s\n     model=%s" % (o[:300], want, got))
                corr_broken.append("corpus C17/%s line" % os.path.basename(cp))
        ctx.corr["corpus_lines"] = ctx.corr.get("corpus_lines", 0) + len(cops)
    binp = ctx.go_test_binary("nsqadmin", ["e7/gate_test.go", "e7/prog_test.go", "e7/strfn_test.go", "e7/proxy_test.go"], "e7gate")
    if not binp:
        ctx.broken_ties.append("harness e7/gate_test.go does not compile against the current tree")
        corr_broken.append("harness build")
    else:
        # corpus first: replay committed op lines (model side only needs the ops; the harness regenerates
        # the same systematic product on every run, so the corpus is a regression list for the driver)
        for name, test in STREAMS:
            rc, out = ctx.run_cmd([binp, "-test.run", test, "-test.count=1", "-test.timeout=600s"], timeout=700,
                                  env={"VERIF_SEED": ctx.seed, "VERIF_OUT": ctx.work, "VERIF_ROUTES": routes_path,
                                       "VERIF_N": ctx.budget(40, 400)})
            opsp, implp = os.path.join(ctx.work, name + ".ops"), os.path.join(ctx.work, name + ".impl")
            if rc != 0 or not os.path.exists(opsp):
                ctx.log("harness %s failed:\n%s" % (test, out[-2500:]))
                corr_broken.append("harness %s exit %s" % (test, rc))
                continue
            for l in out.splitlines():
                if l.startswith("E7-NOTIFY-BAD "):
                    ctx.violation("notify:" + l.split()[2], "notification content: " + l[14:], "harness line: %s\n" % l)
                elif l.startswith("E7-PREPUT-BAD "):
                    # the config update that precedes every third gated case was itself refused: the "after a config
                    # update" leg did not run as described (machinery or /config changed) - a broken tie, not a replay
                    if "preput" not in [b.split(":")[0] for b in ctx.broken_ties]:
                        ctx.broken_ties.append("preput: " + l[14:])
                elif l.startswith("E7-"):
                    ctx.corr.setdefault("distribution", []).append(l)
            ops = open(opsp).read().splitlines()
            impl = open(implp).read().splitlines()
            if os.environ.get("VERIF_KEEP_STREAMS"):   # for refreshing corpus/C17/*.ops by hand
                import shutil
                shutil.copy(opsp, os.environ["VERIF_KEEP_STREAMS"])
                shutil.copy(implp, os.environ["VERIF_KEEP_STREAMS"])
            rc, mout = ctx.driver("e7", stdin_path=opsp)
            model = mout.splitlines()
            if ctx.replay_in:
                # --replay <file>: the streams are a deterministic product; show the wanted requests side by side
                want = [l[4:] if l.startswith("op: ") else l for l in open(ctx.replay_in).read().splitlines()]
                want = [norm_op(l) for l in want if l.startswith("gate ") or l.startswith("fan ")]
                for o, i, mline in zip(ops, impl, model):
                    if norm_op(o) in want:
                        print("op:    " + o[:600])
                        print("impl:  " + i)
                        print("model: " + mline)
                        ctx.count_case(o)
                        bad = property_fails_on(o, i)
                        if bad:
                            ctx.violation(key_of(o, bad), bad, "op: %s\nimpl: %s\n" % (o, i))
                continue
            for o, i in zip(ops, impl):
                ctx.count_case(o, nontrivial=o.startswith("fan ") or (" m=GET " not in o) or " p=636f6e666967," in o)
            for o, i in list(zip(ops, impl))[:2]:
                ctx.add_sample({"op": o[:300], "impl": i[:300]})
            # direct oracle on every implementation answer
            for idx, (o, i) in enumerate(zip(ops, impl)):
                bad = property_fails_on(o, i) or cidr_oracle(o, i)
                if bad:
                    ctx.violation(key_of(o, bad), bad, "request: %s\nop: %s\nimpl: %s\n" % (describe_op(o), o, i))
            # read-only views stay available *whoever asks*: the same GET view against the same upstreams must be
            # answered alike for every identity / admin list / ACL header name of the stream
            seen_view = {}
            for o, i in zip(ops, impl):
                if not o.startswith("gate ") or " m=GET " not in o:
                    continue
                toks = o.split()
                ident = [t for t in toks if t.split("=")[0] in ("users", "acl", "hdrs")]
                rest = " ".join(t for t in toks if t.split("=")[0] not in ("users", "acl", "hdrs"))
                segs0 = parse_op(o)["segs"]
                if segs0 and segs0[0] == "config":
                    continue
                i = re.sub(r"isadmin=(true|false)", "isadmin=?", i)   # the page flag is *meant* to follow the identity
                if rest in seen_view and seen_view[rest][0] != i:
                    ctx.violation("view-identity:/" + "/".join(pattern_of(segs0)),
                                  "GET /%s is answered %r for identity [%s] and %r for identity [%s]: a read-only view depends "
                                  "on who asks" % ("/".join(segs0), seen_view[rest][0], " ".join(seen_view[rest][1]), i, " ".join(ident)),
                                  "op: %s\nimpl: %s\nother identity: %s\nimpl: %s\n" % (o, i, " ".join(seen_view[rest][1]), seen_view[rest][0]))
                seen_view.setdefault(rest, (i, ident))
            diffs = ctx.diff_lines(impl, model, name)
            for idx, a, b in diffs:
                ctx.log("model/impl disagree on `%s`:\n   impl=%s\n  model=%s" % (ops[idx][:400], a, b))
                corr_broken.append("correspondence %s line %d" % (name, idx))
    # known finding, replayed (not remembered): the notification loop with an unreachable endpoint
    if binp and not ctx.replay_in:
        rc, out = ctx.run_cmd([binp, "-test.run", "^TestVerifE7NotifyEndpointDown$", "-test.count=1", "-test.timeout=60s"],
                              timeout=90, env={"VERIF_SEED": ctx.seed, "VERIF_OUT": ctx.work})
        ctx.count_case("notify-endpoint-down", nontrivial=True)
        if "NOTIFY-OK" in out and rc == 0:
            ctx.corr["notify_endpoint_down"] = "survived"
        elif "panic:" in out or "SIGSEGV" in out:
            ctx.corr["notify_endpoint_down"] = "process died"
            ctx.violation("crash:handleAdminActions",
                          "nsqadmin died in handleAdminActions after an admin action because the notification endpoint is unreachable",
                          "replay: corpus/C17/known/notify_endpoint_down.ops (harness test TestVerifE7NotifyEndpointDown)\n\n" + out[-2500:])
        else:
            ctx.log("notify test failed:\n" + out[-1500:])
            corr_broken.append("harness TestVerifE7NotifyEndpointDown exit %s" % rc)
    if (ctx.broken_ties or corr_broken) and not ctx.violations:
        ctx.broken_without_input(ctx.broken_ties + corr_broken,
                                 "search: %d generated requests; the direct oracle found no unauthenticated request "
                                 "that was answered other than 403 or reached an upstream" % ctx.evaluations)


def key_of(op, bad=""):
    """Finding key: the route shape of a gate request, the method of a direct ClusterInfo call."""
    if bad and "in direct-nsqd mode" in bad and "created nowhere" in bad:
        return "fanout:create-direct-mode"
    if op.startswith("fan "):
        return "fanout:" + dict(t.partition("=")[::2] for t in op.split()[1:]).get("kind", "?")
    if op.startswith("strfn "):
        return "strfn:" + op.split()[1]
    if op.startswith("proxy "):
        return "proxy:" + op.split()[2]
    f = parse_op(op)
    return "gate:%s:/%s" % (f["m"], "/".join(pattern_of(f["segs"])))


def describe_op(op):
    if op.startswith("strfn "):
        return "%s(%r)" % (op.split()[1], unhex(op.split()[2]))
    if op.startswith("proxy "):
        return op
    if op.startswith("fan "):
        f = dict(t.partition("=")[::2] for t in op.split()[1:])
        return "ClusterInfo %s topic=%s channel=%s node=%s, stubs: lookupds %s, configured nsqds %s, nsqds %s" % (
            f.get("kind"), unhex(f.get("topic", "-")), unhex(f.get("channel", "-")), f.get("node"), f.get("lk"),
            f.get("na"), f.get("nd"))
    return describe(parse_op(op))


def describe(f):
    """The request of an op line in readable form (for replay files)."""
    q = unhex(f["xq"]) if "xq" in f else ""
    return "%s /%s%s  headers as received: %s  admin-users=%s acl-header=%s" % (
        f["m"], "/".join(f["segs"]), ("?" + q) if q else "", ["%s: %s" % kv for kv in f["hdrlist"]],
        f["userlist"], unhex(f.get("acl", "-")))


def norm_op(op):
    """An op line without the fields that vary with the route-table order (none today)."""
    return " ".join(op.split())


def pattern_of(segs):
    """Normalise a concrete path to its route shape for the finding key."""
    out = []
    for i, s in enumerate(segs):
        if i >= 2 and segs[0] == "api":
            out.append("*")
        elif i >= 1 and segs[0] in ("config", "static", "fonts", "topics", "nodes"):
            out.append("*")
        else:
            out.append(s)
    return out
