"""C07 — message content and envelope integrity on every path (engine E1; DESIGN.md §5 C07)."""
import os
import re
import time

from framework import REPO
from props import e1util
from props.e1util import unhex

TIE = ["Nsq.Tie.Wire", "Nsq.Tie.WireFn", "Nsq.Tie.WireStack"]
# audit round 7, B28 (builder codec2): ties the old extractor was blind to — the fan-out loop with its call
# statements, `continue` and nesting (kind stmtsx), and the protocol magics tied to the model's bytes
TIE_B28 = ["Nsq.Tie.FanoutX", "Nsq.Tie.MagicBytes"]
TIE = TIE + TIE_B28
PROPS = ["Nsq.Props.C07", "Nsq.Props.C07Path", "Nsq.Props.C07Fn", "Nsq.Props.C07Stack"]


from props import e9_dq  # noqa: E402


def run(ctx):
    ctx.trusted += [
        "translator tools/go2lean, kind bytes: Message.WriteTo, decodeMessage, SendFramedResponse, SendResponse and "
        "readLen are translated into Lean definitions (List UInt8 / BitVec, explicit panic outcome) that Tie.WireFn "
        "proves equal to the model (writer = bytes.Buffer; readLen for a scratch slice of length 4); its prelude Model/ByteOps renders encoding/binary big-endian as Model.Wire.beBytes/"
        "beVal, bytes.Buffer as the writer that appends everything and io.ReadFull over a byte stream",
        "translator tools/go2lean (kinds consts/stmts/body): the statements of readMPUB, SendMessage, "
        "writeMessageToBackend, bufferPoolPut, doMPUB's text loop, doPUB's body read and Topic.messagePump's copy are "
        "rendered as text and compared with the model's transcription",
        "encoding/binary, bufio.Writer / bufio.Reader.ReadBytes, io.LimitReader, io.ReadFull, bytes.Buffer "
        "(Go standard library): modelled, compared on generated inputs through the real code",
        "go-nsq ReadResponse / UnpackResponse / DecodeMessage as the client-side reader (modelled, compared)",
        "Go memory model: clientV2.writeLock makes each Send / Flush / writer replacement atomic",
        "correspondence harness harness/e1/wire_test.go and end-to-end oracle harness/e1/e2e_test.go",
    ]
    ctx.assumptions += [
        "PARTIAL: crypto/tls, compress/flate and golang/snappy are assumed to deliver what was written "
        "(hypothesis dec (enc s) = s of upgrade_loses_nothing_partial); the end-to-end oracle exercises them "
        "on every negotiated combination but no theorem covers their internals",
        "go-diskqueue v1.1.0 returning each record put, once, in order, byte-identical, also across Close/New, is no "
        "longer an assumption: it is Props.E9DiskQueue.reachable_Q / diskqueue_law over the model of its files and "
        "positions (record format: dq_roundtrip), tied by Tie.DiskQueue + harness/e9 on the real package (engine E9 leg "
        "below); what remains assumed of it is listed under trusted_base (OS I/O errors, metadata text, 2 GiB bodies)",
        "frames are within the client's int32 length (size_le_limits: max-msg-size + 30 < 2^31)",
        "connection model: IDENTIFY (feature upgrades, output buffer change) is accepted only before SUB and "
        "message frames are sent only to subscribed clients — as protocolV2.IDENTIFY / messagePump enforce",
        "'every output byte goes to the negotiated transport' holds for EVERY schedule on this tree (Props.C07Stack.this_tree_full = OnNegotiated and nothing leaked, this_tree_decodes = the "
        "client decodes exactly the frames sent; both over "
        "Tie.WireStack.treeFixed, which the facts decide to be true: F30 = /repo d6aa4e3 is committed and Tie.WireStack accepts only its "
        "shape). About the tree BEFORE F30: output_on_negotiated_transport_false / second_identify_leaks_cleartext (witness; finding "
        "second-identify-cleartext, listed fixed, replayed on every run) and output_on_negotiated_transport_partial (hypothesis "
        "NoRebufferAfterUpgrade); upgrade_loses_nothing speaks about the F30 tree (fixed_tree_is_round6_model)",
        "writer-stack model: an upgrade installs a clean new stack; Model.WireStack.kstep also carries the KIND of every upgrade, "
        "c.tlsConn and c.flateWriter (which Flush flushes whatever stack is current). The tree is Tie.WireStack.tree, which the facts "
        "decide to be treeF30b (tree_is_F30b: F30b = /repo d424240 is committed and Tie.WireStack accepts only its shape of UpgradeTLS): "
        "the clause WITH the markers holds for EVERY action sequence on this tree (this_tree_k_full, no hypothesis; "
        "output_on_negotiated_transport_k). About the tree BEFORE F30b (d6aa4e3): output_on_negotiated_transport_k_false "
        "(IDENTIFY{deflate} then IDENTIFY{tls_v1}; finding tls-after-deflate-garbled, listed fixed, replayed on every run — a "
        "reproduction is a VIOLATION) and _k_partial (hypothesis NoTlsAfterDeflate). The theorems above about 'every output byte' "
        "(this_tree_full) speak about FRAME bytes",
        "the server's read side after a second upgrade is not modelled: bytes still buffered in a replaced reader can only be bytes "
        "the client sent BEFORE it had the IDENTIFY response (docs/C07.md, round 11), which the protocol forbids after a "
        "stack-changing IDENTIFY; a client that leaves deflate must skip sync markers of unsolicited flushes (harness does)",
    ]
    ctx.rule = ("codec: generated envelopes (every timestamp class incl. negative / extreme, attempts 0/255/256/65535/"
                "random, ids, bodies of size 0..max+1 around 26/64/4096/16384 with classes random, all-zero, "
                "newline-heavy, frame-header look-alike, protocol look-alike, high bytes), frame streams (valid, "
                "truncated, damaged size, trailing garbage), MPUB batches (valid and malformed counts/sizes), text "
                "/mpub bodies through real HTTP, bufio.Writer write/flush sequences; end to end: in-process nsqd "
                "(mem-queue-size 3, max-bytes-per-file 4096), all publish paths, consumers over negotiated "
                "{plain,TLS}x{none,snappy,deflate l}x{buffer size}x{buffer timeout}, REQ, two channels, restart; "
                "a case is distinct by its operation line; non-trivial = not an error answer")
    gen_ok, _ = ctx.gen("e1_codec")
    ctx.gen("e1_bytes")   # translated WriteTo / decodeMessage / SendFramedResponse / SendResponse / readLen (kind bytes)
    for spec in ("e1_guidloop", "e3_proto", "e4_proto"):   # Gen.GuidLoop (fanoutLoop), Gen.Proto / Gen.LookupdProto (magics)
        ctx.gen(spec)
    ctx.gen("e1_stack")   # audit A2: the shape of SetOutputBuffer / Upgrade* (which tree: Tie.WireStack.treeFixed)
    ok, log = ctx.lean_build(TIE + PROPS)
    if not ok:
        ctx.lean_obligation_failed("lake build " + " ".join(TIE + PROPS), log[-1500:])
    ctx.lean_audit(PROPS, TIE)
    if ctx.thorough():
        ctx.leanchecker(PROPS)
    ctx.build_driver("e1")
    corr_broken = []
    # --- codec correspondence (white-box) -----------------------------------------------------
    binp = ctx.go_test_binary("nsqd", ["e1/e1_helpers_test.go", "e1/wire_test.go"], "e1c07")
    if not binp:
        ctx.broken_ties.append("harness e1/wire_test.go does not compile against the current tree")
        corr_broken.append("wire harness build")
    elif ctx.replay_in:
        e1util.replay(ctx, binp, [("TestVerifWireCorr", "wire", lambda o: True)], wire_oracle)
        return
    else:
        # round 10 budget: thorough 60000 -> 40000 cases (C07 thorough ran 728-926 s on a loaded box; target <= 8 min)
        run_wire(ctx, binp, corr_broken, ctx.budget(8000, 40000))
    # --- end-to-end oracle (network API + white-box quiescence only) ----------------------------
    ebin = ctx.go_test_binary("nsqd", ["e1/e1_helpers_test.go", "e1/e2e_test.go", "e1/pubsub_test.go"], "e1e2e")
    if not ebin:
        ctx.broken_ties.append("end-to-end oracle e1/e2e_test.go does not compile against the current tree")
        corr_broken.append("e2e harness build")
    else:
        run_e2e(ctx, ebin, corr_broken, combos=ctx.budget(24, 0), n=ctx.budget(40, 30))
        run_pubsub(ctx, ebin, corr_broken, ctx.budget(40, 400))
    # --- audit A2: which transport the output goes to when IDENTIFY is sent more than once -------------
    run_stack(ctx, corr_broken)
    # --- engine E9: the real go-diskqueue against its model (discharges the disk-queue assumption) -----
    # thorough: 300 op sequences x 120 steps here (C05 and E9 run the same leg with 600; round 10 budget)
    e9_dq.leg(ctx, corr_broken, thorough_n=300)
    # --- search phase ---------------------------------------------------------------------------
    if (ctx.broken_ties or corr_broken) and not ctx.violations:
        limit = ctx.budget(60, 600)
        ctx.log("tie/correspondence broken without an oracle failure: searching other seeds for at most %d s" % limit)
        t_end = time.time() + limit
        seed0 = ctx.seed
        for s in range(1, 9):
            if time.time() > t_end - 20:
                break
            ctx.seed = seed0 + 1000 * s
            if binp:
                run_wire(ctx, binp, [], ctx.budget(8000, 40000), search=True)
            if ebin and not ctx.violations and time.time() < t_end - 20:
                run_e2e(ctx, ebin, [], combos=ctx.budget(24, 0), n=40, search=True)
            if ctx.violations:
                break
        ctx.seed = seed0
    if (ctx.broken_ties or corr_broken) and not ctx.violations:
        ctx.broken_without_input(ctx.broken_ties + corr_broken,
                                 "search: %d generated codec cases and end-to-end deliveries under the direct "
                                 "oracles found no corrupted, lost or re-identified message" % ctx.evaluations)


def stack_tree_fixed():
    """Which tree the regenerated facts describe (Nsq.Tie.WireStack.treeFixed, read off the generated text)."""
    from framework import LEAN
    try:
        txt = open(os.path.join(LEAN, "Nsq", "Gen", "WireStack.lean")).read()
    except OSError:
        return None
    return "bufio.NewWriterSize(c.outputDest, c.OutputBufferSize)" in txt


def stack_tree_f30b():
    """Does the regenerated UpgradeTLS drop c.flateWriter (fix F30b)? (Nsq.Tie.WireStack.tree.tlsClears, read off the text)"""
    from framework import LEAN
    try:
        txt = open(os.path.join(LEAN, "Nsq", "Gen", "WireStack.lean")).read()
    except OSError:
        return None
    m = re.search(r"def upgradeTLSWriter : List String := \[(.*?)\]", txt, re.S)
    return bool(m) and '"assign c.flateWriter = nil"' in m.group(1)


def run_stack(ctx, corr_broken):
    """Writer-stack leg (Model.WireStack): white-box correspondence `stack` + network double-IDENTIFY oracle.
    F30 is committed: a tree with the unfixed shape breaks Tie.WireStack AND reproduces `second-identify-cleartext` (listed
    fixed) as a VIOLATION with the replay corpus/C07/fixed/second_identify.stack."""
    sbin = ctx.go_test_binary("nsqd", ["e1/e1_helpers_test.go", "e1/reident_test.go"], "e1stack")
    if not sbin:
        ctx.broken_ties.append("harness e1/reident_test.go does not compile against the current tree")
        corr_broken.append("stack harness build")
        return
    fixed = stack_tree_fixed()
    reproduced = False
    key = "second-identify-cleartext"   # F30 (/repo d6aa4e3) is committed: listed fixed, a reproduction is a VIOLATION
    if fixed is not True:
        corr_broken.append("Tie.WireStack.treeFixed is not `true`: SetOutputBuffer no longer builds the writer on c.outputDest (F30)")
    known = os.path.join(os.path.dirname(os.path.dirname(os.path.abspath(__file__))), "corpus", "C07", "fixed",
                         "second_identify.stack")
    # fix review of F30: TLS negotiated after deflate. F30b (/repo d424240) is committed: listed fixed, a reproduction is a
    # VIOLATION under the plain key on any tree (a tree without the F30b shape also breaks Tie.WireStack.tree_is_F30b)
    f30b = stack_tree_f30b()
    tad_key = "tls-after-deflate-garbled"
    if f30b is not True:
        corr_broken.append("Tie.WireStack.tree is not treeF30b: UpgradeTLS no longer drops c.flateWriter (F30b)")
    tad_replay = os.path.join(os.path.dirname(known), "tls_after_deflate.stack")
    tad_reproduced = False
    ok, ops, impl, out = e1util.run_corr(ctx, sbin, "TestVerifStackCorr", "stack", ctx.budget(600, 6000),
                                         {"VERIF_CORPUS": known + ":" + tad_replay, "VERIF_STACK_DS": "1" if fixed else "0",
                                          "VERIF_REPO": REPO,
                                          "VERIF_STACK_ORACLE_ONLY": os.path.join(os.path.dirname(known), "snappy_after_deflate.stackx")},
                                         timeout=ctx.budget(300, 900))
    if not ok:
        corr_broken.append("TestVerifStackCorr exit")
    else:
        ctx.corr.setdefault("histograms", {})["stack"] = e1util.histogram(out, "STACK-HIST")
        fails = [l for l in out.splitlines() if l.startswith("ORACLE-FAIL")]
        seen_keys = set()
        for l in fails:
            wk = wire_key(l)
            if wk in seen_keys:
                continue
            seen_keys.add(wk)
            if wk == "second-identify-cleartext":
                k = key
                reproduced = True
            elif wk == "snappy-after-deflate-garbled":
                k = wk
            elif wk == "tls-after-deflate-garbled":
                k = tad_key
                tad_reproduced = True
            else:
                k = "stack:" + wk
            ctx.violation(k, l[:700], "TestVerifStackCorr (white-box), seed %s; first failing lines:\n%s\n"
                          "replay: corpus/C07/fixed/second_identify.stack, corpus/C07/fixed/tls_after_deflate.stack through VERIF_CORPUS\n"
                          % (ctx.seed, "\n".join([x for x in fails if wk in x][:5])))
        model = e1util.model_of(ctx, "stack")
        for o, i in zip(ops, impl):
            ctx.count_case(o, nontrivial="garbled" not in i and "dead" not in i)
        for idx, a, b in ctx.diff_lines(impl, model, "stack"):
            ctx.log("model/impl disagree on `%s`: impl=%s model=%s" % (ops[idx][:200], a[:200], b[:200]))
            corr_broken.append("correspondence stack: %s" % ops[idx][:160])
    rc, out = ctx.run_cmd([sbin, "-test.run", "^TestVerifReidentify$", "-test.count=1", "-test.timeout=600s"],
                          timeout=660, env={"VERIF_SEED": ctx.seed, "VERIF_N": ctx.budget(1, 4), "VERIF_REPO": REPO})
    fails = [l for l in out.splitlines() if l.startswith("REIDENT-FAIL")]
    okl = [l for l in out.splitlines() if l.startswith("REIDENT-OK")]
    for l in fails:
        m = re.search(r"key=(\S+)", l)
        k = m.group(1) if m else "?"
        if k == "harness":
            continue
        reproduced = reproduced or k == "second-identify-cleartext"
        if k == "tls-after-deflate-garbled":
            tad_reproduced = True
            ctx.violation(tad_key, l[:700], "TestVerifReidentify (network), seed %s\n%s\n"
                          % (ctx.seed, "\n".join([x for x in fails if "key=tls-after-deflate-garbled" in x][:8])))
            continue
        ctx.violation(key if k == "second-identify-cleartext" else "reident:" + k, l[:700],
                      "TestVerifReidentify (network), seed %s\n%s\n" % (ctx.seed, "\n".join(fails[:8])))
    if not okl or any("key=harness" in l for l in fails):
        ctx.log("TestVerifReidentify did not complete cleanly (rc=%s):\n%s" % (rc, out[-2000:]))
        corr_broken.append("reidentify harness: " + (([l for l in fails if "key=harness" in l] or ["exit %s" % rc])[0][:200]))
    else:
        m = re.search(r"cases=(\d+) failed=(\d+)", okl[0])
        ctx.evaluations += int(m.group(1))
        ctx.corr["reidentify"] = {"summary": okl[0], "tree_has_F30": bool(fixed), "tree_has_F30b": bool(f30b),
                                  "notes": [l for l in out.splitlines() if l.startswith("REIDENT-NOTE")][:10],
                                  "cases": [l for l in out.splitlines() if l.startswith("REIDENT-")][:80]}
    if f30b is False and not tad_reproduced and ok and okl:
        ctx.log("UpgradeTLS has the d6aa4e3 shape (c.flateWriter kept) but the tls-after-deflate replay did not reproduce")
        corr_broken.append("tie says UpgradeTLS keeps c.flateWriter, replay corpus/C07/fixed/tls_after_deflate.stack does not reproduce the finding")
    if fixed is False and not reproduced and ok and okl:
        ctx.log("the tree has the unfixed SetOutputBuffer shape but the second-IDENTIFY replay did not reproduce")
        corr_broken.append("tie says unfixed SetOutputBuffer, replay does not reproduce the cleartext writer")


def run_wire(ctx, binp, corr_broken, n, search=False):
    corpus = ":".join(e1util.corpus_files("C07"))
    ok, ops, impl, out = e1util.run_corr(ctx, binp, "TestVerifWireCorr", "wire", n, {"VERIF_CORPUS": corpus}, timeout=ctx.budget(400, 1500))
    if not ok:
        corr_broken.append("TestVerifWireCorr exit")
        return
    ctx.corr.setdefault("histograms", {})["wire"] = e1util.histogram(out, "WIRE-HIST")
    for l in out.splitlines():
        if l.startswith("ORACLE-FAIL"):
            ctx.violation("wire-oracle:" + wire_key(l), l[:600], "harness TestVerifWireCorr seed %s\n%s\n" % (ctx.seed, l))
    model = e1util.model_of(ctx, "wire")
    for o, i in zip(ops, impl):
        ctx.count_case(o, nontrivial=not (i == "err" or i.startswith("E_") or i.endswith("_TOO_BIG")))
        bad = wire_oracle(o, i)
        if bad:
            ctx.violation("wire:" + o.split()[0], bad, "op: %s\nimpl: %s\n(replay: put the op line in a file and run "
                          "TestVerifWireCorr with VERIF_CORPUS=<file>)\n" % (o, i))
    if not search:
        for o, i in list(zip(ops, impl))[:4]:
            ctx.add_sample({"op": o[:160], "impl": i[:160]}, limit=6)
    for idx, a, b in ctx.diff_lines(impl, model, "wire"):
        ctx.log("model/impl disagree on `%s`: impl=%s model=%s" % (ops[idx][:200], a[:200], b[:200]))
        corr_broken.append("correspondence wire: %s" % ops[idx][:160])


def wire_key(line):
    m = re.match(r"ORACLE-FAIL (\S+)", line)
    return m.group(1) if m else "?"


def be(n, w):
    return n.to_bytes(w, "big", signed=False)


def wire_oracle(op, impl):
    """The format statement evaluated on the implementation's own answer, independent of the model."""
    w = op.split()
    kind = w[0]
    if impl.startswith("other:") or impl.startswith("writeerr") or impl.startswith("httperr"):
        return "unexpected outcome `%s` for `%s`" % (impl[:200], op[:200])
    if kind == "enc":
        ts, att, mid, body = int(w[1]), int(w[2]), unhex(w[3]), unhex(w[4])
        want = be(ts % 2 ** 64, 8) + be(att, 2) + mid + body
        if unhex(impl) != want:
            return ("WriteTo wrote %d bytes that are not timestamp(8, big endian) attempts(2) id(16) body: ts=%d attempts=%d"
                    % (len(unhex(impl)), ts, att))
    elif kind == "dec":
        b = unhex(w[1])
        if len(b) < 26:
            if impl != "err":
                return "decodeMessage accepted a %d-byte buffer" % len(b)
        else:
            ts = int.from_bytes(b[:8], "big", signed=True)
            want = "%d %d %s %s" % (ts, int.from_bytes(b[8:10], "big"), b[10:26].hex(), b[26:].hex() or "-")
            if impl != want:
                return "decodeMessage mis-read a %d-byte buffer: got `%s`" % (len(b), impl[:120])
    elif kind == "frame":
        ft, d = int(w[1]), unhex(w[2])
        if unhex(impl) != be(len(d) + 4, 4) + be(ft % 2 ** 32, 4) + d:
            return "SendFramedResponse(type %d, %d bytes) wrote a frame that is not size(len+4) type data" % (ft, len(d))
    elif kind == "mpub":
        want = mpub_expect(unhex(w[3]), int(w[1]), int(w[2]))
        if impl != want:
            return ("readMPUB (max-msg-size %s, max-body-size %s) answered `%s`; the batch as written is `%s`"
                    % (w[1], w[2], impl[:120], want[:120]))
    elif kind in ("hpub", "hpubcl"):
        mx, b = int(w[1]), unhex(w[2])
        want = "MSG_EMPTY" if not b else ("MSG_TOO_BIG" if len(b) > mx else "ok " + b.hex())
        if impl != want:
            return ("POST /pub of %d bytes with max-msg-size %d answered `%s`; expected `%s`"
                    % (len(b), mx, impl[:80], want[:80]))
    elif kind in ("textmpub", "textmpubcl"):
        want = textmpub_expect(unhex(w[3]), int(w[1]), int(w[2]), kind == "textmpubcl")
        if impl != want:
            return ("/mpub text (max-msg-size %s, max-body-size %s) answered `%s`; the body as written is `%s`"
                    % (w[1], w[2], impl[:120], want[:120]))
    return None


def i32(b):
    return int.from_bytes(b, "big", signed=True)


def hexlist(bs):
    return ",".join(b.hex() or "-" for b in bs) if bs else "-"


def mpub_expect(s, max_msg, max_body):
    """What the MPUB body format says about the byte string `s` (count, then length-prefixed
    bodies; limits) — written from the protocol description, independently of the Lean model."""
    if len(s) < 4:
        return "E_BAD_BODY"
    n = i32(s[:4])
    lim = (max_body - 4) // 5 if max_body >= 4 else -((4 - max_body) // 5)
    if n <= 0 or n > lim:
        return "E_BAD_BODY"
    pos, bodies = 4, []
    for _ in range(n):
        if len(s) - pos < 4:
            return "E_BAD_MESSAGE"
        sz = i32(s[pos:pos + 4])
        pos += 4
        if sz <= 0 or sz > max_msg or len(s) - pos < sz:
            return "E_BAD_MESSAGE"
        bodies.append(s[pos:pos + sz])
        pos += sz
    return "ok %d %s rest=%d" % (len(bodies), hexlist(bodies), len(s) - pos)


def textmpub_expect(s, max_msg, max_body, content_length_known):
    if content_length_known and len(s) > max_body:
        return "BODY_TOO_BIG"
    pieces = s[:max_body + 1].split(b"\n")
    # an over-long body is an error, but an over-long piece met before the limit is reported first
    total = 0
    out = []
    for k, p in enumerate(pieces):
        last = k == len(pieces) - 1
        total += len(p) + (0 if last else 1)
        if total == max_body + 1:
            return "BODY_TOO_BIG"
        if not p:
            continue
        if len(p) > max_msg:
            return "MSG_TOO_BIG"
        out.append(p)
    return "ok %d %s" % (len(out), hexlist(out))


def run_pubsub(ctx, ebin, corr_broken, n):
    """One connection that subscribes AND publishes, its length prefixes split across TCP segments
    with a frame to the same connection forced in between."""
    rc, out = ctx.run_cmd([ebin, "-test.run", "^TestVerifPubSubSplit$", "-test.count=1", "-test.timeout=300s"],
                          timeout=330, env={"VERIF_SEED": ctx.seed, "VERIF_N": n, "VERIF_OUT": ctx.work})
    bad = [l for l in out.splitlines() if l.startswith("ORACLE-FAIL")]
    if bad:
        ctx.violation("pubsub:split-length", bad[0][:700], "TestVerifPubSubSplit with VERIF_SEED=%s VERIF_N=%s\n%s\n"
                      % (ctx.seed, n, "\n".join(bad)))
        return
    m = re.search(r"PUBSUB-OK cases=(\d+).*", out)
    if m:
        ctx.evaluations += int(m.group(1))
        ctx.corr["pubsub_split"] = m.group(0)
    elif "no tests to run" not in out:
        ctx.log("TestVerifPubSubSplit did not complete (rc=%s):\n%s" % (rc, out[-1500:]))
        corr_broken.append("pubsub harness exit %s" % rc)


def run_e2e(ctx, ebin, corr_broken, combos, n, search=False):
    env = {"VERIF_SEED": ctx.seed, "VERIF_N": n, "VERIF_OUT": ctx.work, "VERIF_E2E_COMBOS": combos,
           "VERIF_REPO": REPO}
    rc, out = ctx.run_cmd([ebin, "-test.run", "^TestVerifE2E$", "-test.count=1", "-test.timeout=1500s"],
                          timeout=1600, env=env)
    okl = [l for l in out.splitlines() if l.startswith("E2E-OK")]
    fail = [l for l in out.splitlines() if l.startswith("E2E-FAIL")]
    err = [l for l in out.splitlines() if l.startswith("E2E-ERROR")]
    notes = [l for l in out.splitlines() if l.startswith("E2E-NOTE")]
    combos_l = [l for l in out.splitlines() if l.startswith("E2E-COMBO")]
    if fail:
        m = re.search(r"key=(\S+)", fail[0])
        detail = ""
        p = os.path.join(ctx.work, "e2e_fail.txt")
        if os.path.exists(p):
            detail = open(p).read()
        ctx.violation("e2e:" + (m.group(1) if m else "?"), fail[0][:600],
                      "end-to-end oracle, seed %s, %s combinations x %s messages\n%s\n%s\n" % (ctx.seed, combos, n, fail[0], detail))
        return
    if rc != 0 or not okl:
        ctx.log("end-to-end oracle did not complete (rc=%s):\n%s" % (rc, (("\n".join(err)) or out)[-2500:]))
        corr_broken.append("e2e oracle: " + (err[0][:200] if err else "exit %s" % rc))
        return
    m = re.search(r"combos=(\d+) published=(\d+) deliveries=(\d+) redeliveries=(\d+) bytes=(\d+)", okl[0])
    if m:
        ctx.evaluations += int(m.group(3))
        if not search:
            ctx.corr["e2e"] = {"summary": okl[0], "combinations": combos_l[:400], "notes": notes[:5]}
            for l in combos_l:
                ctx.distinct.add(l.split(" published=")[0].encode())
