"""C12, audit round 7 (B25): the clock-stepped-back legs and the publish-order leg.
Called from props/C12.py; harness harness/e1/guid_clock_test.go; theorems Nsq.Props.C12Clock;
ties Nsq.Tie.GuidLoop (body of Topic.GenerateID, writers/users of the id factory)."""
import os
import re

from framework import ROOT

TIE = ["Nsq.Tie.GuidLoop"]
PROPS = ["Nsq.Props.C12Clock"]
SPECS = ["e1_guidloop"]

TRUSTED = [
    "translator tools/go2lean kinds stmtsx / structwrites / fielduses (every statement of Topic.GenerateID with its "
    "nesting depth; every write of a guidFactory field and every mention of Topic.idFactory in package nsqd, by type)",
    "white-box harness harness/e1/guid_clock_test.go: a wall-clock step back of D is installed as factory state "
    "(lastTimestamp = (now + D) >> 20, lastID = the id of that pseudo-millisecond); everything after that is the real "
    "Topic.GenerateID / PUB / MPUB / DPUB / HTTP pub / HTTP mpub code and the real clock",
]
ASSUMPTIONS = [
    "released_when_clock_passes (progress of the waiting publish): clock readings stay inside the id layout's 41-bit "
    "horizon (2012-10-28 … ≈ 2085-11) and the factory is well-formed (WF, wf_reachable); the theorem says that an id is "
    "returned at the latest at the first reading in a later pseudo-millisecond (∃ id, not at which reading). For readings "
    "2^41 … 2^42 pseudo-ms past twepoch (≈ 2085-11 … 2158) and a non-negative lastID the packed id is negative and GenerateID "
    "waits as long as the readings stay there (beyond_horizon_waits_forever; nothing is stated for later readings) — no id is "
    "reused, but nothing is accepted any more. Only the generator's side of "
    "liveness is proved: that time.Sleep returns and the goroutine is scheduled is trusted",
    "restart_unique_partial (uniqueness across a daemon restart or a topic delete + re-create, where the new factory "
    "starts from zero): every clock reading of the new factory is in a later pseudo-millisecond (2^20 ns) than the old "
    "factory's lastTimestamp, i.e. the wall clock is not stepped back across the restart; the old factory is well-formed "
    "(WF) and every reading of both factories is inside the 41-bit horizon; without the first hypothesis two messages of "
    "one topic name can get the same id (restart_unique_full_false). Within one factory's life NO clock assumption is "
    "made (waits_while_clock_is_behind, returns_only_when_clock_caught_up, ids_strictly_increasing)",
    "the 41-bit horizon and the restart statement are model-only (the wall clock cannot be moved by a test); they rest "
    "on Tie.Guid.newGUID_eq (translated NewGUID = model) and on Model.GuidClock.fresh, a hand-written model of "
    "NewGUIDFactory (every field zero but the node id) that no tie checks",
]
RULE = ("clock legs: factory states of a clock stepped back by 1 ms … 1.6 s (quick; sequence 0/4094/4095/random, last id "
        "= the id of lastTimestamp or older) through Topic.GenerateID, PUB, DPUB, MPUB, HTTP pub, HTTP mpub binary and "
        "text: blocked until the real clock passes lastTimestamp, ids above everything before, pre/post state vs model op "
        "`genids`; steps of 10 min / 1 h / 1 day (four entrances only: Topic.GenerateID, TCP PUB, HTTP pub, TCP MPUB): blocked, "
        "factory state unchanged, for a window of 2500 (quick) / 12000 (thorough) one-millisecond retries counted by a "
        "calibration goroutine, cut short by a wall-clock limit of 25 s / 90 s; order leg: two concurrent publishers "
        "alternating the six publish paths, ids read off consumed frames strictly increase per publisher, all distinct, "
        "node bits = --node-id, time field inside the run")


def run(ctx, corr_broken, node=None):
    """Runs the three legs. Violations are reported through ctx.violation with a concrete input."""
    binp = ctx.go_test_binary("nsqd", ["e1/guid_clock_test.go"], "e1guidclock")
    if not binp:
        ctx.broken_ties.append("white-box harness e1/guid_clock_test.go does not compile against the current tree")
        corr_broken.append("clock harness build")
        return
    node = 517 if node is None else node
    base = {"VERIF_SEED": ctx.seed, "VERIF_OUT": ctx.work, "VERIF_NODEID": node}
    # 1. released leg (correspondence + oracle)
    for ext in (".ops", ".impl"):
        try:
            os.remove(os.path.join(ctx.work, "guidclock" + ext))
        except OSError:
            pass
    env = dict(base, VERIF_N=ctx.budget(14, 42), VERIF_MAXSTEP_MS=ctx.budget(1600, 4000))
    rc, out = ctx.run_cmd([binp, "-test.run", "^TestVerifGuidClockBack$", "-test.count=1", "-test.timeout=300s"],
                          timeout=330, env=env)
    fails = [l for l in out.splitlines() if l.startswith("ORACLE-FAIL")]
    okl = [l for l in out.splitlines() if l.startswith("CLOCK-OK")]
    for l in fails[:3]:
        ctx.violation("guid-clock-back:" + entrance_of(l), l,
                      "harness TestVerifGuidClockBack seed %s node-id %s\n%s\n(white-box state: set the topic's "
                      "idFactory fields as printed, then publish through the named entrance)\n" % (ctx.seed, node, l))
    if not fails and (rc != 0 or not okl):
        ctx.log("clock-back leg failed:\n" + out[-2000:])
        corr_broken.append("clock-back harness exit %s" % rc)
    opsf = os.path.join(ctx.work, "guidclock.ops")
    if os.path.exists(opsf):
        ops = open(opsf).read().splitlines()
        impl = open(os.path.join(ctx.work, "guidclock.impl")).read().splitlines()
        rc2, mout = ctx.driver("e1", stdin_path=opsf)
        model = mout.splitlines()
        for o, i in zip(ops, impl):
            ctx.count_case(o, nontrivial=True)
        for o, i in list(zip(ops, impl))[:2]:
            ctx.add_sample({"op": o, "impl": i})
        for idx, a, b in ctx.diff_lines(impl, model, "guidclock"):
            ctx.log("model/impl disagree on `%s`: impl=%s model=%s" % (ops[idx], a, b))
            corr_broken.append("correspondence %s" % ops[idx])
            bad = genids_property_fails(ops[idx], a)
            if bad:
                ctx.violation("guid-clock-corr", bad, "op: %s\nimpl: %s\nmodel: %s\n" % (ops[idx], a, b))
    if okl:
        ctx.corr["clock_back"] = okl[0]
    # 2. far-future leg (blocked for N retries)
    env = dict(base, VERIF_RETRIES=ctx.budget(2500, 12000), VERIF_WALL_MAX_S=ctx.budget(25, 90))
    rc, out = ctx.run_cmd([binp, "-test.run", "^TestVerifGuidClockFar$", "-test.count=1", "-test.timeout=300s"],
                          timeout=330, env=env)
    fails = [l for l in out.splitlines() if l.startswith("ORACLE-FAIL")]
    okl = [l for l in out.splitlines() if l.startswith("CLOCKFAR-OK")]
    for l in fails[:2]:
        ctx.violation("guid-clock-far:" + entrance_of(l), l,
                      "harness TestVerifGuidClockFar seed %s node-id %s\n%s\n" % (ctx.seed, node, l))
    if not fails and (rc != 0 or not okl):
        ctx.log("clock-far leg failed:\n" + out[-2000:])
        corr_broken.append("clock-far harness exit %s" % rc)
    if okl:
        ctx.corr["clock_far"] = okl[0]
        m = re.search(r"retries=(\d+) wanted=(\d+)", okl[0])
        if m:
            ctx.evaluations += int(m.group(1))
            if int(m.group(1)) < int(m.group(2)):
                ctx.notes.append("clock-far leg: the wall limit was reached after %s of %s retries (loaded machine); "
                                 "a give-up threshold above that many retries would not have been seen" % m.groups())
    # 3. publish-order leg
    env = dict(base, VERIF_N=ctx.budget(300, 3000))
    rc, out = ctx.run_cmd([binp, "-test.run", "^TestVerifGuidPublishOrder$", "-test.count=1", "-test.timeout=300s"],
                          timeout=330, env=env)
    fails = [l for l in out.splitlines() if l.startswith("ORACLE-FAIL")]
    okl = [l for l in out.splitlines() if l.startswith("ORDER-OK")]
    for l in fails[:2]:
        ctx.violation("guid-publish-order", l,
                      "harness TestVerifGuidPublishOrder seed %s node-id %s\n%s\n" % (ctx.seed, node, l))
    if not fails and (rc != 0 or not okl):
        ctx.log("publish-order leg failed:\n" + out[-2000:])
        corr_broken.append("publish-order harness exit %s" % rc)
    if okl:
        ctx.corr["publish_order"] = okl[0]
        m = re.search(r"msgs=(\d+)", okl[0])
        if m:
            ctx.evaluations += int(m.group(1))
    # 4. open finding: a re-created topic starts a new factory (replayed on every run)
    run_recreate(ctx, binp, base)


def run_recreate(ctx, binp, base):
    """Replay of the open finding topic-recreate-same-pseudo-ms (a KNOWN-FINDING line only if it reproduces)."""
    rc, out = ctx.run_cmd([binp, "-test.run", "^TestVerifGuidRecreate$", "-test.count=1", "-test.timeout=120s"],
                          timeout=150, env=dict(base, VERIF_N=ctx.budget(300, 2000)))
    m = re.search(r"^RECREATE cycles=(\d+) same_id=(\d+) lower_id=(\d+) node=\d+ ?(.*)$", out, re.M)
    if not m:
        ctx.log("recreate replay did not complete (rc=%s):\n%s" % (rc, out[-1200:]))
        return
    ctx.corr["topic_recreate_replay"] = m.group(0)[:300]
    ctx.evaluations += int(m.group(1))
    if int(m.group(2)) > 0 or int(m.group(3)) > 0:
        ctx.violation("topic-recreate-same-pseudo-ms",
                      "%s of %s delete + re-create cycles of one topic name handed out the SAME id again: %s"
                      % (m.group(2), m.group(1), m.group(4)),
                      open(os.path.join(ROOT, "corpus", "C12", "known", "topic_recreate_same_ms.txt")).read() + m.group(0) + "\n")


def entrance_of(line):
    m = re.search(r"entrance=(\w+)", line)
    return m.group(1) if m else "?"


def genids_property_fails(op, impl):
    """Evaluate the property on one `genids` case: ids above lastID, increasing, time field >= lastTs,
    lastID' = last id."""
    w = op.split()
    if w[0] != "genids":
        return None
    last_ts, last_id = int(w[3]), int(w[4])
    m = re.match(r"ids=([-\d,]+) (-?\d+) (-?\d+) (-?\d+)$", impl)
    if not m:
        return None
    ids = [int(x) for x in m.group(1).split(",")]
    prev = last_id
    for g in ids:
        if g <= prev:
            return "id %d handed out after id %d (%s)" % (g, prev, op)
        if (g >> 22) + 1288834974288 < last_ts:
            return "id %d carries a pseudo-millisecond before lastTimestamp %d: the publish did not wait (%s)" % (g, last_ts, op)
        prev = g
    if int(m.group(4)) != prev:
        return "the factory remembers lastID %s, the last id handed out is %d (%s)" % (m.group(4), prev, op)
    return None
