"""C05 — graceful shutdown and restart lose nothing (engine E5, DESIGN §5 C05)."""
import json
import os

from framework import REPO, ROOT
from props import C08 as base
from props import e9_dq

TIE = ["Nsq.Tie.Restart"]
PROPS = ["Nsq.Props.C05"]
HARNESS = ["e5/replay_test.go", "e5/life_test.go", "e5/restart_test.go"]

F9 = [("f9_pump_holds", "shutdown-while-pump-holds-message", "pumpjoin"),
      ("f9_put_after_exit_check", "shutdown-while-publish-past-exit-check", "barrier"),
      ("exit_races_req", "shutdown-while-answer-in-progress:req", "anslock"),
      ("exit_races_req_deferred", "shutdown-while-answer-in-progress:req-deferred", "anslock"),
      ("exit_races_touch", "shutdown-while-answer-in-progress:touch", "anslock"),
      ("exit_races_new_topic_publish", "shutdown-while-publish-creates-topic", "gettopicguard")]


def tree_shape(ctx):
    """Which windows the tree protects, read off the regenerated facts (the Lean side proves in
    Tie.Restart that each fact has one of the two known shapes and defines `treeModel` the same way)."""
    import re
    try:
        txt = open(os.path.join(ROOT, "lean", "Nsq", "Gen", "Restart.lean")).read()
    except OSError:
        return {}
    def fact(name):
        m = re.search(r"def %s : List String := \[(.*?)\]" % name, txt, re.S)
        return re.findall(r'"([^"]*)"', m.group(1)) if m else []
    def factx(name):     # kind stmtsx: rows (depth, kind, text)
        m = re.search(r"def %s : List \(Nat × String × String\) := \[(.*?)\]\n" % name, txt, re.S)
        return [(int(d), k, t) for d, k, t in re.findall(r'\((\d+), "([^"]*)", "((?:[^"\\]|\\.)*)"\)', m.group(1))] if m else []
    # claim audit 2, item 24: the JOIN in IOLoop (`client.Close()` then `<-messagePumpDoneChan` before the return; the pump
    # goroutine closes the channel after messagePump returned) and the BODY of GetTopic's guard (`t.Close()` under `if exiting`,
    # flag read before the NSQD lock is released) — same lists as Tie.Restart.ioLoopJoinShape / getTopicExitShape
    join_x = [(0, "assign", "messagePumpDoneChan := make(chan struct{})"),
              (0, "go", "func() { p.messagePump(client, messagePumpStartedChan) close(messagePumpDoneChan) }()"),
              (1, "expr", "p.messagePump(client, messagePumpStartedChan)"),
              (1, "expr", "close(messagePumpDoneChan)"),
              (0, "expr", "client.Close()"),
              (0, "expr", "<-messagePumpDoneChan"),
              (0, "return", "err")]
    gettopic_x = [(1, "expr", "n.Unlock()"),
                  (0, "assign", "exiting := atomic.LoadInt32(&n.isExiting) == 1"),
                  (0, "expr", "n.Unlock()"),
                  (0, "if", "exiting"),
                  (1, "expr", "t.Close()")]
    shape = {"barrier": fact("topicExitHead")[:3] == ["Lock", "CompareAndSwapInt32", "Unlock"],
             "anslock": (fact("reqCalls")[:3] == ["RLock", "RUnlock", "popInFlightMessage"] or
                         fact("reqCalls")[:5] == ["RLock", "RUnlock", "RLock", "RUnlock", "popInFlightMessage"]) and
                        (fact("touchCalls")[:3] == ["RLock", "RUnlock", "popInFlightMessage"] or
                         fact("touchCalls")[:5] == ["RLock", "RUnlock", "RLock", "RUnlock", "popInFlightMessage"]),
             "gettopicguard": fact("getTopicExitGuard") == ["assign exiting := atomic.LoadInt32(&n.isExiting) == 1", "if exiting"] and
                              factx("getTopicExitX") == gettopic_x,
             "pumpjoin": fact("tcpCloseCalls") == ["Range", "Wait"] and
                         fact("ioLoopJoin") == ["assign messagePumpDoneChan := make(chan struct{})"] and
                         factx("ioLoopJoinX") == join_x}
    ctx.corr["race_model_of_tree"] = shape
    return shape


# crash-point schedules that must NOT lose anything on a correct tree
SAFE = [("exit_races_timeout_scan", "shutdown-races-timeout-scan"),
        ("exit_races_pending_notify", "pending-notify-persists-after-close")]


def replay_safe(ctx, binp):
    res = ctx.corr.setdefault("crash_point_replays", {})
    for name, key in SAFE:
        rc, kv, out = base.run_sched(ctx, binp, name, timeout=90)
        res[name] = kv or {"error": out[-300:]}
        sched = open(os.path.join(ROOT, "corpus", "C05", name + ".sched")).read()
        if not kv:
            if rc == -9 or "test timed out" in out:
                ctx.violation("shutdown-blocked:" + name, "the %s schedule did not finish (Exit or the scan never returned)" % name, sched)
            else:
                ctx.broken_ties.append("crash-point replay %s did not run (rc=%s): %s" % (name, rc, out[-200:].replace("\n", " | ")))
            continue
        ctx.evaluations += 1
        ctx.count_case("sched:" + name, nontrivial=True)
        if kv.get("lost") == "true":
            ctx.violation(key, "%s: %s" % (name, " ".join("%s=%s" % x for x in sorted(kv.items()))),
                          sched + "# observed: " + " ".join("%s=%s" % x for x in sorted(kv.items())) + "\n")
        elif kv.get("exit") != "ok":
            ctx.violation("shutdown-blocked:" + name, "NSQD.Exit did not return in the %s schedule: %s" % (name, kv), sched)


def replay_known(ctx, binp):
    res = {}
    shape = tree_shape(ctx)
    for name, key, guard in F9:
        rc, kv, out = base.run_sched(ctx, binp, name, timeout=60)
        res[name] = kv or {"error": out[-300:]}
        if not kv:
            ctx.broken_ties.append("hook replay %s did not run (rc=%s)" % (name, rc))
            continue
        ctx.evaluations += 1
        ctx.count_case("sched:" + name, nontrivial=True)
        sched = open(os.path.join(ROOT, "corpus", "C05", "fixed", name + ".sched")).read()
        obs = " ".join("%s=%s" % x for x in sorted(kv.items()))
        if kv.get("lost") == "true":
            # a tree whose facts say the window is protected must not lose: a different key, so that the
            # open finding of the unprotected tree does not swallow it
            k = key + (":despite-lock" if guard and shape.get(guard) else "")
            ctx.violation(k, "%s: %s" % (name, obs), sched + "# observed: " + obs + "\n")
        elif kv.get("exit") != "ok":
            ctx.violation("shutdown-blocked:" + name, "NSQD.Exit did not return in the %s schedule: %s" % (name, kv), sched)
    ctx.corr["hook_replays"] = res


def restart_corr(ctx, binp, corr_broken, seed, n, steps, maxfile):
    rc, out = ctx.run_cmd([binp, "-test.run", "^TestVerifE5RestartCorr$", "-test.count=1", "-test.timeout",
                           "%ds" % base.deadline(ctx)],
                          timeout=base.deadline(ctx) + 30, env={"VERIF_SEED": seed, "VERIF_N": n, "VERIF_STEPS": steps,
                                            "VERIF_OUT": ctx.work, "VERIF_MAXFILE": maxfile})
    rp = {"kind": "seed", "test": "TestVerifE5RestartCorr", "seed": seed, "n": n, "steps": steps, "maxfile": maxfile}
    if rc != 0 and base.hung(ctx, rc, out, "TestVerifE5RestartCorr", seed, n, steps):
        corr_broken.append("restart harness hit its deadline")
        return
    if rc != 0:
        ctx.log("restart harness failed:\n" + out[-2500:])
        corr_broken.append("restart harness exit %s: %s" % (rc, out[-300:].replace("\n", " | ")))
        return
    base.hist_from(out, ctx, "restart_ops_histogram_maxfile%d" % maxfile)
    ops, impl, model = base.read_streams(ctx, "restart")
    last = ""
    ndiff = 0
    restarts = 0
    after_restart = False
    for i, (o, a) in enumerate(zip(ops, impl)):
        b = model[i] if i < len(model) else "<missing>"
        w = o.split()[0]
        if w not in ("dump", "meta", "files", "filesexact", "settle"):
            last = o
            ctx.count_case(o + ("|r" if after_restart else ""), nontrivial=a.startswith("ok"))
        else:
            ctx.evaluations += 1
        if w == "reload":
            restarts += 1
            after_restart = True
        if w == "new":
            after_restart = False
        if w in ("files", "filesexact"):
            real = set(x for x in (a.split()[1].split(",") if len(a.split()) > 1 else []))
            allowed = set(b.split()[1].split(",")) if len(b.split()) > 1 else set()
            bad = set(x for x in real if x.endswith("!bad"))
            real -= bad
            if bad - allowed:
                ctx.notes.append("go-diskqueue .bad files seen (C08 finding diskqueue-bad-file-left-behind): %s" % sorted(bad))
            if w == "filesexact" and allowed - real:
                # after Exit every durable queue must have left at least its metadata file
                ctx.violation("restart-missing-disk-files", "after the restart the data path lacks files of %s (has %s)"
                              % (sorted(allowed - real), sorted(real)), json.dumps(dict(rp, line=i)))
            if real - allowed:
                corr_broken.append("unexpected disk files %s after `%s`" % (sorted(real - allowed), last))
            continue
        if a != b:
            ndiff += 1
            if ndiff <= 3:
                ctx.log("restart: model/impl disagree after `%s` on `%s`:\n  impl  %s\n  model %s" % (last, o, a, b))
            corr_broken.append("restart correspondence after `%s` (%s)" % (last, o))
            bad = restart_property_fails(last, o, a, b, after_restart)
            if bad:
                ctx.violation(bad[0], bad[1], json.dumps(dict(rp, line=i, after=last, impl=a, model=b)))
    ctx.corr["restarts"] = ctx.corr.get("restarts", 0) + restarts
    for i, o in enumerate(ops):
        if o.startswith("reload") and i + 3 < len(impl):
            ctx.add_sample({"op": ops[i - 2] + " ; " + o, "closed": impl[i - 2], "dump_after": impl[i + 3][:300]})
            break
    ctx.corr.setdefault("streams", []).append({"label": "restart maxfile=%d" % maxfile, "lines": len(ops), "diffs": ndiff})


def located(dump):
    """per (topic, channel): message count implied by a canonical dump (ml + dl + |if| + |df|), and topics' ml+dl"""
    res = {}
    for part in dump.split(" ; "):
        if not part.startswith("T "):
            continue
        chunks = part.split(" | ")
        tw = chunks[0].split()
        tf = dict(x.split("=", 1) for x in tw[2:])
        res[(tw[1], None)] = (int(tf["ml"]) + int(tf["dl"]), tf["p"])
        for ch in chunks[1:]:
            w = ch.split()
            f = dict(x.split("=", 1) for x in w[2:])
            n = int(f["ml"]) + int(f["dl"]) + len([x for x in f["if"].strip("[]").split(",") if x]) + \
                len([x for x in f["df"].strip("[]").split(",") if x])
            res[(tw[1], w[1])] = (n, f["p"])
    return res


def restart_property_fails(last, op, impl, model, after_restart):
    """The property on the implementation's own answers: after a restart the durable objects, their
    paused flags and the number of messages each is responsible for are what the model (which holds
    the pre-shutdown state) says; a delivered frame must be byte-identical with attempts continued."""
    w = last.split()
    if op == "dump" and w and w[0] in ("reload", "closeall"):
        li, lm = located(impl), located(model)
        for k, (n, p) in lm.items():
            if "#ephemeral" in k[0] or (k[1] and "#ephemeral" in k[1]):
                continue
            if k not in li:
                return ("restart-lost-object", "%s:%s missing after the restart" % k)
            if li[k][1] != p:
                return ("restart-paused-flag", "%s:%s paused=%s after the restart, was %s" % (k[0], k[1], li[k][1], p))
            if li[k][0] < n:
                return ("restart-lost-messages", "%s:%s holds %d messages after the restart, %d before the shutdown"
                        % (k[0], k[1], li[k][0], n))
            if li[k][0] > n:
                return ("restart-extra-messages", "%s:%s holds %d messages after the restart, %d before the shutdown"
                        % (k[0], k[1], li[k][0], n))
        for k in li:
            if k not in lm:
                return ("restart-extra-object", "%s:%s exists after the restart but not before" % k)
    if op == "meta" and w and w[0] in ("reload",) and impl != model:
        return ("restart-metadata", "metadata after the restart is %s, expected %s" % (impl, model))
    if op.startswith("deliver") and after_restart and impl.startswith("ok") and model.startswith("ok"):
        return ("restart-frame-differs", "frame delivered after a restart differs: `%s` gives %s, expected %s" % (op, impl, model))
    if op.startswith("deliver") and after_restart and model == "not-allowed":
        return ("restart-reappeared", "a message that was not located before the shutdown is delivered after the restart: %s" % op)
    if op == "closeall" and impl != model:
        return ("shutdown-consumers-not-closed", "Exit closed %s, expected %s" % (impl, model))
    return None


def run(ctx):
    ctx.trusted += [
        "translator tools/go2lean kinds calls/stmts (order of effects in NSQD.Exit, Topic.exit, Channel.exit, "
        "Channel.flush, Topic.flush, LoadMetadata)",
        "Go memory model: one critical section / channel operation = one micro-step (race model)",
        "correspondence harness harness/e5/{life,restart,replay}_test.go (white-box dumps; the harness plays the consumer "
        "pump on real clientV2 objects; Exit + New + LoadMetadata + PersistMetadata + Main on the same data path)",
        "go-diskqueue v1.1.0 keeping exactly its FIFO content across Close/New (what Restart.lookupDQ assumes) is "
        "Props.E9DiskQueue.close_reopen_preserves / DQLaw.flush_then_restart over the model of its files (for --sync-every >= 1, "
        "max-msg-size < 2^31 and unchanged record-size bounds across the restart), tied by the "
        "engine E9 leg (Tie.DiskQueue + harness/e9 on the real package); NOT composed with restart_preserves in Lean - no theorem "
        "instantiates Restart.lookupDQ with the DiskQueue model, the match is by inspection; Message.WriteTo/decodeMessage round-trip (C07)",
    ]
    ctx.assumptions += [
        "restart_preserves / restart_cycles: the shutdown is requested in a state with no pending continuation (atomic "
        "model); durable channels of durable topics only; names are unique (WF, proved for every reachable state: wf_reachable)",
        "scan_race_safe: the timeout scans hold exitMutex.RLock across 'out of the in-flight/deferred map … back on the "
        "queue' (tie scan_holds_exit_lock; replayed: exit_races_timeout_scan); persisted_ignores_exiting: GetMetadata does "
        "not consult exit flags (tie metadata_ignores_exit_flag; replayed: exit_races_pending_notify)",
        "C05_full_tree / C05_full_joined (THE theorem for the current tree; no hypothesis): the instance of the race model "
        "selected by the regenerated facts is joinedTree (ties topic_exit_flag_shape F17, answers_exit_lock_shape F18, "
        "exit_joins_pumps_shape + io_loop_join_shape F23 (the join `client.Close(); <-messagePumpDoneChan` before IOLoop returns, "
        "extractor stmtsx), get_topic_exit_shape + get_topic_exit_closes F26 (`t.Close()` under `if exiting`, stmtsx) demand exactly the "
        "committed shapes; tree_model_known is an equality). What remains assumed is the model itself: ONE durable topic with one durable channel, memory queues of capacity 4, message contents "
        "abstracted, several topics interacting only through the NSQD lock (pubNewTopic)",
        "theorems about the UNREPAIRED shapes (not about this tree): C05_full_false / C05_full_fixed_false / "
        "each_repair_needed (dropping any one of F17, F18, F23, F26 re-opens its window: lostFrom = true on its witness), C05_partial and C05_fixed_partial "
        "(hypotheses: no publisher between the exitFlag test and its queue write, no pump holding an unregistered message, "
        "no REQ/TOUCH between pop and re-insertion; resp. lateReg = [] and lateTopic = []); all six witnesses are replayed "
        "on the real code on every run and a reproduction is a VIOLATION (the findings are recorded fixed)",
        "ephemeral topics/channels are outside the property; a durable channel under an ephemeral topic is not restored "
        "(its files stay as orphans: C08 finding)",
    ]
    ctx.rule = ("generated histories on a real NSQD (backlog in memory and on disk, in flight to live and departed consumers, "
                "deferred, paused topics/channels, zero-channel topics, ephemeral objects; mem-queue-size 1/2/3/50; "
                "max-bytes-per-file 200 and 1 MiB), 1–3 Exit/New+LoadMetadata cycles per case with more history in "
                "between, full drain at the end; dump + metadata + directory listing after every operation; every "
                "delivered frame's attempts/timestamp/body compared with the model; a case = operation line (tagged "
                "when after a restart), non-trivial when it succeeded")
    ctx.gen("e5_restart")
    ok, log = ctx.lean_build(TIE + PROPS)
    if not ok:
        ctx.lean_obligation_failed("lake build " + " ".join(TIE + PROPS), log[-1500:])
    ctx.lean_audit(PROPS, TIE)
    if ctx.thorough():
        ctx.leanchecker(PROPS)
    corr_broken = []
    if not ctx.build_driver("e5"):
        corr_broken.append("driver build")
    binp = ctx.go_test_binary("nsqd", HARNESS, "e5c05")
    if not binp:
        ctx.broken_ties.append("harness e5 does not compile against the current tree")
        corr_broken.append("harness build")
    else:
        if ctx.replay_in:
            replay_file(ctx, binp)
            return
        replay_known(ctx, binp)
        replay_safe(ctx, binp)
        restart_corr(ctx, binp, corr_broken, ctx.seed, ctx.budget(24, 240), ctx.budget(30, 50), 200)
        restart_corr(ctx, binp, corr_broken, ctx.seed + 1000, ctx.budget(8, 80), ctx.budget(30, 50), 1 << 20)
        # engine E9: the real go-diskqueue against its model (discharges the disk-queue assumption of restart_preserves)
        e9_dq.leg(ctx, corr_broken)
    if (ctx.broken_ties or corr_broken) and not ctx.violations:
        ctx.broken_without_input(ctx.broken_ties + corr_broken,
                                 "search: %d evaluations of generated restart histories found no lost, duplicated or "
                                 "altered message" % ctx.evaluations)


def replay_file(ctx, binp):
    txt = open(ctx.replay_in).read()
    if txt.startswith("sched "):
        name = txt.split()[1]
        rc, kv, out = base.run_sched(ctx, binp, name, timeout=60)
        print("replay %s on %s: %s" % (name, REPO, kv or out[-500:]))
        return
    d = json.loads(txt)
    cb = []
    restart_corr(ctx, binp, cb, d["seed"], d["n"], d["steps"], d.get("maxfile", 200))
    print("replay of %s: %s" % (ctx.replay_in, cb or "no disagreement"))
