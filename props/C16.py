"""C16 — nsqd keeps nsqlookupd in sync and tolerates its faults (engine E6, DESIGN.md §5 C16)."""
import glob
import json
import os
import re
from framework import REPO, ROOT, LEAN

TIE = ["Nsq.Tie.LookupSync"]
PROPS = ["Nsq.Props.C16", "Nsq.Props.C16Ticks", "Nsq.Props.C16More", "Nsq.Props.C16Drain"]
KEY_F3 = "negative-length-panic"
KEY_STALE = "deleted-object-still-registered"
KEY_NAMES = "precreate-unvalidated-channel-name"
NAME_RE = re.compile(rb"^[.a-zA-Z0-9_-]+(#ephemeral)?$")


def hexset(line):
    """`{6f6b,-}` -> list of byte strings"""
    return [b"" if x == "-" else bytes.fromhex(x) for x in line.strip("{}").split(",") if x]


def valid_name(b):
    return 1 <= len(b) <= 64 and NAME_RE.match(b) is not None


def parse_views(line):
    """`want={..} L0={..} L1=down R={..}` -> (want set, {name: set or None})"""
    want, views = None, {}
    for p in line.split():
        k, v = p.split("=", 1)
        s = None if v == "down" else set(x for x in v.strip("{}").split(",") if x)
        if k == "want":
            want = s
        else:
            views[k] = s
    return want, views


def property_fails_on(op, impl_line, healthy):
    """model/impl disagreement on a `settle` line: is the *property* violated by the implementation's answer?
    (only when every lookupd is healthy: each view must equal nsqd's own state)"""
    if not op.startswith("settle") or not healthy or not impl_line.startswith("want="):
        return None
    want, views = parse_views(impl_line)
    bad = {k: v for k, v in views.items() if v != want}
    if not bad:
        return None
    if all(v is not None and v >= want for v in bad.values()):
        return (KEY_STALE + ":" + ",".join(k for k in views if k in bad),
                "lookupd views %s list objects nsqd no longer has (%s)" % (
            {k: sorted(v - want) for k, v in bad.items()}, impl_line))
    return ("registration-missing", "healthy lookupds do not list all of nsqd's objects: " + impl_line)


def run_stream(ctx, binp, test, label, env, timeout):
    outdir = os.path.join(ctx.work, label)
    os.makedirs(outdir, exist_ok=True)
    e = {"VERIF_SEED": ctx.seed, "VERIF_OUT": outdir}
    e.update(env)
    rc, out = ctx.run_cmd([binp, "-test.run", "^%s$" % test, "-test.count=1", "-test.timeout=%ds" % timeout],
                          timeout=timeout + 30, env=e)
    return rc, out, outdir


def run_stream_retry(ctx, binp, test, label, env, timeout):
    """like run_stream; a run in which the HARNESS could not query the real nsqlookupd (line E6-INCONCLUSIVE: loaded box,
    no free port) says nothing about nsqd: it is repeated once in a fresh process, the first outcome goes to the notes"""
    rc, out, od = run_stream(ctx, binp, test, label, env, timeout)
    inc = [l for l in out.splitlines() if l.startswith("E6-INCONCLUSIVE")]
    if inc:
        ctx.notes.append("leg %s repeated once: %s" % (label, inc[0][:300]))
        rc, out, od = run_stream(ctx, binp, test, label, env, timeout)
    return rc, out, od


def diff_stream(ctx, outdir, name, label):
    p = os.path.join(outdir, name + ".ops")
    if not os.path.exists(p):
        return None
    ops = open(p).read().splitlines()
    impl = open(os.path.join(outdir, name + ".impl")).read().splitlines()
    _, mout = ctx.driver("e6", stdin_path=p)
    return ops, impl, mout.splitlines()


def oracle_lines(ctx, out, label):
    lines = out.splitlines()
    for n, l in enumerate(lines):
        if l.startswith("ORACLE-FAIL"):
            key = l.split("key=")[1].split()[0]
            script = next((x for x in lines[n:] if x.startswith("SCRIPT ")), "")
            ctx.violation(key, l[len("ORACLE-FAIL "):], "%s\n%s\n(run: %s, seed %s)\n" % (l, script, label, ctx.seed))
        elif l.startswith("CONVERGENCE_SAMPLES"):
            record_convergence(ctx, l.split()[1:], label)
        elif l.startswith("TICK_SAMPLES"):
            record_ticks(ctx, l.split()[1:])
        elif l.startswith(("DIST", "ORACLE-OK", "CONVERGENCE", "HOSTILE")):
            ctx.corr.setdefault(label, []).append(l)


def record_ticks(ctx, samples):
    """`kind:n` samples: heartbeat ticks of the real lookupLoop from the end of a lookupd's last fault to its new session
    (theorem C16Ticks.two_ticks_connect: n <= 2; two_ticks_needed: 2 occurs, after a restart nsqd had not noticed)."""
    d = ctx.corr.setdefault("reconnect_ticks", {"theorem": "C16Ticks.two_ticks_connect (k = 2)", "samples": 0,
                                                "histogram": {}, "per_fault_kind_max": {}})
    for smp in samples:
        kind, n = smp.rsplit(":", 1)
        d["samples"] += 1
        d["histogram"][n] = d["histogram"].get(n, 0) + 1
        d["per_fault_kind_max"][kind] = max(d["per_fault_kind_max"].get(kind, 0), int(n))


def record_convergence(ctx, samples, label, heartbeat_ms=100):
    """`kind:ms` samples -> distribution in evidence (coverage.correspondence.convergence and a note)."""
    if not samples or label == "known":
        return
    by = {}
    for smp in samples:
        k, ms = smp.rsplit(":", 1)
        by.setdefault(k or "none", []).append(int(ms))
    allms = sorted(x for v in by.values() for x in v)

    def q(xs, p):
        return xs[min(len(xs) - 1, int(p * len(xs)))]
    hist = {}
    for x in allms:
        b = "<=1hb" if x <= heartbeat_ms else "<=2hb" if x <= 2 * heartbeat_ms else "<=5hb" if x <= 5 * heartbeat_ms \
            else "<=5hb+1s" if x <= 5 * heartbeat_ms + 1000 else "<=5hb+2.5s" if x <= 5 * heartbeat_ms + 2500 else "over"
        hist[b] = hist.get(b, 0) + 1
    d = {"heartbeat_ms": heartbeat_ms, "bound_ms": 5 * heartbeat_ms + 2500, "samples": len(allms),
         "p50_ms": q(allms, 0.5), "p90_ms": q(allms, 0.9), "max_ms": allms[-1], "histogram": hist,
         "by_last_fault": {k: {"n": len(v), "p50_ms": q(sorted(v), 0.5), "max_ms": max(v)} for k, v in sorted(by.items())},
         "meaning": "time from the end of the last fault (heal / lookupd restart / peer re-added) until every lookupd's "
                    "registrations for this nsqd equal nsqd's maps (wall clock, measured, not proved)"}
    ctx.corr["convergence"] = d
    ctx.notes.append("convergence after the last fault: n=%d p50=%dms p90=%dms max=%dms (heartbeat %dms, bound %dms); %s" % (
        d["samples"], d["p50_ms"], d["p90_ms"], d["max_ms"], heartbeat_ms, d["bound_ms"], hist))


def judge_sync(ctx, res, label, corr_broken):
    ops, impl, model = res
    healthy = {}
    script = []
    scripts = []
    for o, i, m in zip(ops, impl, model):
        if o.startswith("reset"):
            script = []
            scripts.append(script)
            healthy = {}
        script.append((o, i, m))
    n_clean = 0
    for sc in scripts:
        bad_modes = set()
        first = None
        for (o, i, m) in sc:
            w = o.split()
            if w[0] == "fault":
                bad_modes.add(w[1])
            elif w[0] == "heal":
                bad_modes.discard(w[1])
            # a case is non-trivial when the implementation's answer carries state (a settle line with the views)
            ctx.count_case(o + "|" + i, nontrivial=i not in ("notfound", "bad-op", "ok"))
            if i != m and first is None:
                first = (o, i, m, not bad_modes)
        if first is None:
            n_clean += 1
            continue
        o, i, m, hl = first
        pf = property_fails_on(o, i, hl)
        hooks = [x[0].split()[1] for x in sc if x[0].startswith("hook ")]
        if pf and hooks:
            pf = (hooks[0], pf[1])  # the failure was produced by a verif hook that forces a named schedule
        replay = "script (op | impl | model):\n" + "\n".join("%s | %s | %s" % x for x in sc) + "\n"
        if pf:
            is_new = ctx.violation(pf[0], pf[1], replay)
            if not is_new and not any(v["key"] == pf[0] for v in ctx.violations):
                continue  # explained by a listed known finding: not a broken correspondence
        ctx.log("model/impl disagree (%s) on `%s`:\n  impl =%s\n  model=%s" % (label, o, i, m))
        corr_broken.append("correspondence %s: %s" % (label, o.split()[0]))
    ctx.corr.setdefault("streams", []).append({"label": label, "lines": len(ops), "scripts": len(scripts),
                                               "scripts_clean": n_clean})


def run(ctx):
    ctx.trusted += [
        "Go runtime: lookupLoop is one goroutine (one model Step per select iteration); Notify goroutines are "
        "unordered (modelled as a bag)",
        "nsqlookupd drops a closed connection's registrations (IOLoop exit) — C14's domain; REGISTER/UNREGISTER "
        "semantics of lookup_protocol_v1.go as modelled in LookupSync.register/unregister",
        "net (dial/read/write deadlines of 1 s), go-nsq command encoding, encoding/json of the IDENTIFY reply",
        "translator tools/go2lean kinds `effseq`/`stmts` (order of effects in connectCallback, Command, lookupLoop, "
        "GetTopic; guards of readResponseBounded)",
        "harness harness/e6/{sync,more}_test.go: real NSQD with the verif heartbeat override (100 ms), one to three scripted fake "
        "lookupds (real wire protocol, fault injection), one real nsqlookupd (subprocess) restarted on its ports",
    ]
    ctx.assumptions += [
        "converges holds for every schedule (no order hypothesis) on the tree with F14 and F15; without either it is false "
        "(converges_false_without_F14 / _F15)",
        "converges_with_rejections / no_injection / 'a round trip takes at most 1 s' hold on this tree: F36 abf2660, F35 d2805fe, F39 233d375 are "
        "committed, the ties accept ONLY their shapes (Tie.LookupSync command_shape, getTopic_precreate_before_start, read_deadline_shape; "
        "treeF36 = treeF35 = true computed from the facts; converges_with_rejections_this_tree, no_injection_this_tree). "
        "converges_false_without_F36 / no_injection_false_without_F35 are theorems about the shapes BEFORE the fixes; their findings are listed "
        "`fixed` and replayed on every run (corpus/C16/fixed/register_rejected.ops, slow_drip_reply.ops, cases prex bad1-3): a reproduction is a VIOLATION",
        "precreate_partial: a lookupd is asked for a new topic's channels only after an IDENTIFY to it has succeeded (precreate_full_false)",
        "'within a few heartbeat intervals' in wall-clock terms, 'does not stop publishing/delivering' and 'receive the very first message' are "
        "measured / tested by the harness, not proved",
        "nsqlookupd learns of a closed connection (FIN/RST delivered); a silent partition leaves a stale session until the inactivity timeout (C14)",
    ]
    ctx.rule = ("correspondence: (a) readResponseBounded on generated byte streams (valid, short, oversize, negative "
                "length prefixes) vs the model; (b) generated scripts of topic/channel churn interleaved with lookupd "
                "faults (accept-then-close, garbage, bad/huge length, refuse, stall, restart) against a real NSQD, 2 "
                "fake lookupds and 1 real nsqlookupd: at every `settle` the registrations each lookupd holds for this "
                "nsqd are compared with the model's and (when all are healthy) with nsqd's own maps; a case = one "
                "script line + implementation answer; liveness/publish/deliver probe during every fault; hostile "
                "length prefixes end-to-end in a subprocess; channel pre-creation with first-message delivery: failing "
                "HTTP sides, which lookupds are asked (identified / TCP down / never identified), hostile channel names, "
                "an endless answer; replays of the known / fixed findings (refused REGISTER, drip-fed reply, double deletion)")
    gen_ok, _ = ctx.gen("e6_facts")
    if not gen_ok:
        try:
            os.remove(os.path.join(LEAN, "Nsq", "Gen", "E6Facts.lean"))
        except OSError:
            pass
    ok, log = ctx.lean_build(TIE + PROPS)
    if not ok:
        ctx.lean_obligation_failed("lake build " + " ".join(TIE + PROPS), log[-1500:])
    ctx.lean_audit(PROPS, TIE if gen_ok and ok else [])
    if ctx.thorough():
        ctx.leanchecker(PROPS)
    corr_broken = []
    ctx.build_driver("e6")
    binp = ctx.go_test_binary("nsqd", ["e6/sync_test.go", "e6/more_test.go", "e6/drive_test.go"], "e6")
    if not binp:
        ctx.broken_ties.append("harness e6/sync_test.go does not compile against the current tree")
        corr_broken.append("harness build")
    elif ctx.replay_in:
        rc, out, od = run_stream(ctx, binp, "TestVerifE6Sync", "replay", {"VERIF_SCRIPT": os.path.abspath(ctx.replay_in)}, 300)
        print(out[-3000:])
        res = diff_stream(ctx, od, "sync", "replay")
        if res:
            for x in zip(*res):
                print("%s\n   impl : %s\n   model: %s" % x)
            oracle_lines(ctx, out, "replay")
            judge_sync(ctx, res, "replay", corr_broken)
    else:
        # (a) readResponseBounded
        rc, out, od = run_stream(ctx, binp, "TestVerifE6ReadResp", "readresp", {"VERIF_N": ctx.budget(4000, 60000)}, 300)
        res = diff_stream(ctx, od, "readresp", "readresp")
        oracle_lines(ctx, out, "readresp")
        if rc != 0 or not res:
            corr_broken.append("readresp harness exit %s" % rc)
        else:
            ops, impl, model = res
            for o, i in zip(ops, impl):
                ctx.count_case(o, nontrivial=i != "err")
            for idx, a, b in ctx.diff_lines(impl, model, "readresp"):
                corr_broken.append("correspondence readresp")
                if a == "panic":
                    ctx.violation(KEY_F3, "readResponseBounded panics (makeslice: len out of range) on `%s`" % ops[idx],
                                  "op: %s\nimpl: %s\nmodel: %s\n" % (ops[idx], a, b))
            ctx.add_sample({"op": ops[0], "impl": impl[0]})
        # (a2) the real lookupPeer.Command + connectCallback driven one Command at a time against a scripted server that
        # fails a chosen interaction, vs the interaction-level model fineCommand (audit C33)
        rc, out, od = run_stream(ctx, binp, "TestVerifE6PeerDrive", "drive", {"VERIF_N": ctx.budget(300, 4000)}, 300)
        res = diff_stream(ctx, od, "drive", "drive")
        oracle_lines(ctx, out, "drive")
        if rc != 0 or not res:
            ctx.log("drive harness failed rc=%s\n%s" % (rc, out[-1500:]))
            corr_broken.append("drive harness exit %s" % rc)
        else:
            ops, impl, model = res
            for o, i in zip(ops, impl):
                ctx.count_case(o + "|" + i, nontrivial=True)
            for idx, a, b in ctx.diff_lines(impl, model, "drive"):
                corr_broken.append("correspondence drive (lookupPeer.Command vs fineCommand)")
                # the property on the implementation's answer: a peer that stays `connected` although the lookupd has
                # dropped the session is not re-registered by the next Command (only after that one has failed as well)
                if a.startswith("conn none") and "cmd=nil" not in ops[idx]:
                    ctx.violation("peer-connected-without-session", "lookupPeer.Command left lp.state connected although the "
                                  "round trip failed and the lookupd holds no session: `%s`" % ops[idx],
                                  "op: %s\nimpl: %s\nmodel: %s\n" % (ops[idx], a, b))
            ctx.add_sample({"op": ops[0], "impl": impl[0]})
        # (b) hostile replies end to end (subprocess: a panic kills the process)
        rc, out, od = run_stream(ctx, binp, "TestVerifE6Hostile", "hostile",
                                 {"VERIF_E6_LENS": "-1,-2147483648,2147483647" if not ctx.thorough()
                                  else "-1,-2,-2147483648,2147483647,1073741824,0"}, 600)
        oracle_lines(ctx, out, "hostile")
        for l in out.splitlines():
            if l.startswith("HOSTILE"):
                ctx.count_case(l)
                if "PANIC" in l:
                    ctx.violation(KEY_F3, "nsqd died: " + l, l + "\nreplay: corpus/C16/fixed/negative_length_prefix.ops\n")
                elif "survived" not in l:
                    corr_broken.append("hostile subprocess: " + l[:200])
        if rc != 0:
            corr_broken.append("hostile harness exit %s" % rc)
        # (c) known / fixed findings are replayed, not remembered (the F3 replay runs as a subprocess above too)
        scripts = sorted(glob.glob(os.path.join(ROOT, "corpus", "C16", "*.ops")) + glob.glob(os.path.join(ROOT, "corpus", "C16", "known", "*.ops")) +
                         glob.glob(os.path.join(ROOT, "corpus", "C16", "fixed", "*.ops")))
        if scripts:
            rc, out, od = run_stream_retry(ctx, binp, "TestVerifE6Sync", "known", {"VERIF_SCRIPT": ",".join(scripts)}, 300)
            oracle_lines(ctx, out, "known")
            res = diff_stream(ctx, od, "sync", "known")
            if res:
                judge_sync(ctx, res, "known", corr_broken)
        # (d) generated fault/churn scripts
        rc, out, od = run_stream_retry(ctx, binp, "TestVerifE6Sync", "sync", {"VERIF_N": ctx.budget(5, 60)},
                                       ctx.budget(400, 3000))
        oracle_lines(ctx, out, "sync")
        res = diff_stream(ctx, od, "sync", "sync")
        if rc != 0 or not res:
            ctx.log("sync harness failed rc=%s\n%s" % (rc, out[-1500:]))
            corr_broken.append("sync harness exit %s" % rc)
        else:
            judge_sync(ctx, res, "sync", corr_broken)
            for x in list(zip(res[0], res[1]))[1:5]:
                ctx.add_sample({"op": x[0], "impl": x[1][:200]})
        # (e) pre-creation: lookupds failing over HTTP; which lookupds are asked at all (identified / not, connected /
        # not: audit C26, seeded C16-m8); hostile channel names (audit C8)
        for test, label, tmo in (("TestVerifE6Precreate", "precreate", 120), ("TestVerifE6PrecreateWindows", "prewin", 120),
                                 ("TestVerifE6PrecreateBadNames", "prebad", 120), ("TestVerifE6PrecreateFlood", "preflood", 120)):
            rc, out, od = run_stream(ctx, binp, test, label, {}, tmo)
            oracle_lines(ctx, out, label)
            res = diff_stream(ctx, od, label, label)
            if rc != 0 or not res:
                ctx.log("%s harness failed rc=%s\n%s" % (label, rc, out[-1500:]))
                corr_broken.append("%s harness exit %s" % (label, rc))
                continue
            for o, i, m in zip(*res):
                ctx.count_case(o + "|" + i)
                if i == m:
                    continue
                # model/impl disagreement: evaluate the PROPERTY on the implementation's answer
                if o.startswith("prex") and any(not valid_name(b) for b in hexset(i)):
                    bad = [b for b in hexset(i) if not valid_name(b)]
                    if not ctx.violation(KEY_NAMES, "GetTopic created channels with invalid names %r taken from a lookupd's "
                                         "/channels answer" % bad, "%s\nimpl : %s\nmodel: %s\n" % (o, i, m)):
                        continue  # only if the key were listed open again; F35 is committed: this is a VIOLATION
                else:
                    ctx.violation("precreate", "GetTopic pre-created %s, model %s (%s)" % (i, m, o), "%s\n%s\n%s\n" % (o, i, m))
                corr_broken.append("correspondence " + label)
    if (ctx.broken_ties or corr_broken) and not ctx.violations:
        ctx.broken_without_input(ctx.broken_ties + corr_broken,
                                 "search: %d cases executed on the real code; no oracle failed" % ctx.evaluations)
