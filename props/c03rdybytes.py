"""C03.4 over the bytes on the wire (audit round 7, A9): real RDY handler vs Model.RdyBytes (driver e1 op `rdy`).
Called from props/C03.py. Theorem Nsq.Props.C03RdyBytes.rdy_range_bytes; parser tie Nsq.Tie.Num (translated ByteToBase10)."""
import os
import re

TIE = ["Nsq.Tie.Num"]
PROPS = ["Nsq.Props.C03RdyBytes"]
SPECS = ["e1_codec"]


def run(ctx, broken):
    ctx.build_driver("e1")
    binp = ctx.go_test_binary("nsqd", ["e1/e1_helpers_test.go", "e1/num_test.go", "e1/rdy_bytes_test.go"], "e1rdybytes")
    if not binp:
        ctx.broken_ties.append("harness e1/rdy_bytes_test.go does not compile against the current tree")
        broken.append("rdy-bytes harness build")
        return
    for ext in (".ops", ".impl"):
        try:
            os.remove(os.path.join(ctx.work, "rdybytes" + ext))
        except OSError:
            pass
    rc, out = ctx.run_cmd([binp, "-test.run", "^TestVerifRdyBytesCorr$", "-test.count=1", "-test.timeout=300s"],
                          timeout=330, env={"VERIF_SEED": ctx.seed, "VERIF_OUT": ctx.work, "VERIF_N": ctx.budget(4000, 40000)})
    opsf = os.path.join(ctx.work, "rdybytes.ops")
    if rc != 0 or not os.path.exists(opsf):
        ctx.log("rdy-bytes harness failed (rc=%s):\n%s" % (rc, out[-1500:]))
        broken.append("rdy-bytes harness exit %s" % rc)
        return
    ops = open(opsf).read().splitlines()
    impl = open(os.path.join(ctx.work, "rdybytes.impl")).read().splitlines()
    rc2, mout = ctx.driver("e1", stdin_path=opsf)
    model = mout.splitlines()
    m = re.search(r"^RDY-HIST (.*)$", out, re.M)
    if m:
        ctx.corr["rdy_bytes"] = m.group(1)
    for o, i in zip(ops, impl):
        ctx.count_case(o, nontrivial=i.startswith("ok") or "range" in i)
        bad = property_fails(o, i)
        if bad:
            ctx.violation("rdy-bytes:" + ("accepted" if i.startswith("ok") else "refused"), bad, "op: %s\nimpl: %s\n" % (o, i))
    for idx, a, b in ctx.diff_lines(impl, model, "rdybytes"):
        ctx.log("model/impl disagree on `%s`: impl=%s model=%s" % (ops[idx], a, b))
        broken.append("correspondence %s" % ops[idx])


def property_fails(op, impl):
    """RDY accepted iff the parameter is a digit string with value <= max-rdy-count (statement: values outside
    [0, max-rdy-count] are refused) — on the implementation's own answer."""
    w = op.split()
    mx, arg = int(w[1]), w[2]
    if arg == "none":
        want = 1 if mx >= 1 else None
    else:
        b = b"" if arg == "-" else bytes.fromhex(arg)
        want = None
        if all(48 <= c <= 57 for c in b):
            v = int(b.decode()) if b else 0
            want = v if v <= mx else None
    if impl.startswith("ok"):
        got = int(impl.split()[1])
        if want is None:
            return "RDY with count parameter %s accepted (ready count %d) although it does not denote a value in [0, %d]" % (arg, got, mx)
        if got != want:
            return "RDY %s set ready count %d instead of %d" % (arg, got, want)
    elif impl.startswith("E_INVALID") and want is not None:
        return "RDY %s (value %d <= max-rdy-count %d) refused: %s" % (arg, want, mx, impl)
    return None
