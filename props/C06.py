"""C06 — hard-kill consistency of persisted metadata (engine E5/meta, DESIGN.md §5 C06)."""
import glob
import json
import os
from framework import REPO, ROOT, LEAN

TIE = ["Nsq.Tie.Meta"]
PROPS = ["Nsq.Props.C06"]
KEY_F6 = "deleted-object-still-listed"


def split_scripts(ops, impl, model):
    """Cut the three parallel line streams at every `reset` line."""
    out, cur = [], None
    for i, o in enumerate(ops):
        if o == "reset":
            cur = []
            out.append(cur)
        if cur is not None:
            cur.append((o, impl[i] if i < len(impl) else "<missing>", model[i] if i < len(model) else "<missing>"))
    return out


def property_fails_on(op, impl_line, model_line):
    """A model/implementation disagreement on one line: does the *property* fail on the implementation's
    answer? Returns (key, what) or None."""
    w = op.split()
    if w[0] == "restart":
        if impl_line != "ok":
            return ("restart-failed", "the daemon did not start after SIGKILL: " + impl_line)
        if model_line.startswith("bad"):
            return ("restart-state-not-allowed",
                    "after SIGKILL the daemon loaded %s, which is not a state it passed through since its last "
                    "acknowledged synchronous persist (%s)" % (w[1] if len(w) > 1 else "-", model_line))
    if w[0] == "second" and impl_line == "started":
        return ("second-instance", "a second nsqd started on a data path that is in use")
    if w[0] == "start" and impl_line != "ok":
        return ("start-failed", "nsqd did not start on an empty data path: " + impl_line)
    if w[0] in ("pausetopic", "pausechan") and impl_line.startswith("200 file="):
        want = w[-1]
        got = impl_line.split("file=")[1]
        if got not in ("-", want):
            return ("pause-ack-not-persisted", "%s was answered 200 but nsqd.dat has flag %s" % (op, got))
    if w[0] == "idle" and impl_line.startswith("dat="):
        dat, mem = impl_line[4:].split(" mem=")
        if dat != mem:
            return (KEY_F6 if len(dat) > len(mem) else "idle-file-differs",
                    "daemon idle but nsqd.dat=%s while live state=%s" % (dat, mem))
    return None


def run_harness(ctx, binp, label, env, timeout):
    outdir = os.path.join(ctx.work, label)
    os.makedirs(outdir, exist_ok=True)
    e = {"VERIF_SEED": ctx.seed, "VERIF_OUT": outdir}
    e.update(env)
    rc, out = ctx.run_cmd([binp, "-test.run", "^TestVerifMetaCorr$", "-test.count=1", "-test.timeout=%ds" % timeout],
                          timeout=timeout + 30, env=e)
    res = {"rc": rc, "out": out, "ops": [], "impl": [], "model": []}
    p = os.path.join(outdir, "meta.ops")
    if rc == 0 and os.path.exists(p):
        res["ops"] = open(p).read().splitlines()
        res["impl"] = open(os.path.join(outdir, "meta.impl")).read().splitlines()
        _, mout = ctx.driver("meta", stdin_path=p)
        res["model"] = mout.splitlines()
    return res


def judge(ctx, res, label, corr_broken):
    """Oracle lines + correspondence of one harness run. Returns number of clean scripts."""
    out = res["out"]
    for l in out.splitlines():
        if l.startswith("ORACLE-FAIL"):
            key = l.split("key=")[1].split()[0]
            nxt = [x for x in out.splitlines() if x.startswith("SCRIPT")]
            script = ""
            if "script=" in l:
                sid = l.rsplit("script=", 1)[1].strip()
                script = "\n".join(x for x in nxt if x.startswith("SCRIPT %s:" % sid))
            ctx.violation(key, l[len("ORACLE-FAIL "):], "%s\n%s\n(run: %s, seed %s)\n" % (l, script, label, ctx.seed))
    if res["rc"] != 0 or not res["ops"]:
        ctx.log("%s harness failed rc=%s:\n%s" % (label, res["rc"], out[-1500:]))
        corr_broken.append("%s harness exit %s" % (label, res["rc"]))
        return 0
    for l in out.splitlines():
        if l.startswith("DIST ") or l.startswith("ORACLE-OK"):
            ctx.corr.setdefault(label, []).append(l)
    clean = 0
    for sc in split_scripts(res["ops"], res["impl"], res["model"]):
        bad = None
        for (o, i, m) in sc:
            ctx.count_case(o + "|" + i, nontrivial=not (i.startswith("404") or i in ("bad-op",)))
            if i != m and bad is None:
                bad = (o, i, m)
        if bad is None:
            clean += 1
            continue
        o, i, m = bad
        if len(corr_broken) < 6:
            ctx.log("model/impl disagree (%s) on `%s`: impl=%s model=%s" % (label, o, i, m))
        corr_broken.append("correspondence %s: %s" % (label, o.split()[0]))
        pf = property_fails_on(o, i, m)
        if pf:
            ctx.violation(pf[0], pf[1], "script (op | impl | model):\n" +
                          "\n".join("%s | %s | %s" % x for x in sc) + "\n")
    ctx.corr.setdefault("streams", []).append({"label": label, "lines": len(res["ops"]),
                                               "scripts_clean": clean})
    return clean


def run(ctx):
    ctx.trusted += [
        "OS semantics (DESIGN §4.5): a completed write(2) is visible after SIGKILL, rename(2) is atomic w.r.t. "
        "process death, flock(2) is exclusive and released at process death",
        "encoding/json round-trips the metadata document (Codec.RoundTrip hypothesis of start_after_kill_ok)",
        "Go memory model: the nsqd RWMutex makes a PersistMetadata call one critical section; topic locks make a "
        "channel-map read atomic (one model Step per critical section / system call)",
        "translator tools/go2lean kind `effseq` (order of tracked calls/assignments in a function body)",
        "harness harness/meta/meta_test.go: real nsqd as a subprocess (New, LoadMetadata, PersistMetadata, Main), "
        "SIGKILL at verif points / random instants, white-box idle detection (no goroutine in Notify.func1 or "
        "PersistMetadata), concurrent observer of nsqd.dat",
    ]
    ctx.assumptions += [
        "disk faults (ENOSPC, EIO) are outside the quantifier: doPause* ignore PersistMetadata's error",
        "Quiet (idle) additionally requires that no topic deletion is half-way (Props.C06.Quiet)",
        "the per-topic read of GetMetadata (IsPaused, then the channel map) is one model step",
    ]
    ctx.rule = ("correspondence: generated client scripts (create/delete/pause of persisted and #ephemeral topics and "
                "channels) against a real daemon subprocess with SIGKILL at the k-th visit of each of 9 verif points, "
                "SIGKILL at random instants inside a request, forced unlucky delete order, restarts, second instance; "
                "one case = one script line with the implementation's answer, non-trivial when the answer is not a "
                "404; the Lean driver replays every line (exact answers at idle points, acceptor for the state loaded "
                "after a kill); oracles: nsqd.dat always parses (concurrent observer), restart succeeds, idle file = "
                "live state, pause answer => file has the flag, second instance refused")
    gen_ok, _ = ctx.gen("meta_facts")
    if not gen_ok:
        try:
            os.remove(os.path.join(LEAN, "Nsq", "Gen", "MetaFacts.lean"))  # never build the tie against stale facts
        except OSError:
            pass
    ok, log = ctx.lean_build(TIE + PROPS)
    if not ok:
        ctx.lean_obligation_failed("lake build " + " ".join(TIE + PROPS), log[-1500:])
    ctx.lean_audit(PROPS, TIE if gen_ok and ok else [])
    if ctx.thorough():
        ctx.leanchecker(PROPS)
    corr_broken = []
    ctx.build_driver("meta")
    binp = ctx.go_test_binary("nsqd", ["meta/meta_test.go"], "meta")
    if not binp:
        ctx.broken_ties.append("harness meta/meta_test.go does not compile against the current tree")
        corr_broken.append("harness build")
    elif ctx.replay_in:
        res = run_harness(ctx, binp, "replay", {"VERIF_SCRIPT": os.path.abspath(ctx.replay_in)}, 300)
        for x in zip(res["ops"], res["impl"], res["model"]):
            print("%-40s impl: %-50s model: %s" % x)
        judge(ctx, res, "replay", corr_broken)
    else:
        # fixed / known findings are replayed, not remembered
        scripts = sorted(glob.glob(os.path.join(ROOT, "corpus", "C06", "fixed", "*.ops")) +
                         glob.glob(os.path.join(ROOT, "corpus", "C06", "*.ops")))
        if scripts:
            res = run_harness(ctx, binp, "corpus", {"VERIF_SCRIPT": ",".join(scripts)}, 300)
            judge(ctx, res, "corpus", corr_broken)
            ctx.corr["corpus_scripts"] = [os.path.relpath(s, ROOT) for s in scripts]
        n = ctx.budget(48, 2400)
        res = run_harness(ctx, binp, "generated", {"VERIF_N": n, "VERIF_META_KMAX": ctx.budget(3, 5)},
                          ctx.budget(240, 2400))
        judge(ctx, res, "generated", corr_broken)
        for x in list(zip(res["ops"], res["impl"]))[1:7]:
            ctx.add_sample({"op": x[0], "impl": x[1]})
    if (ctx.broken_ties or corr_broken) and not ctx.violations:
        ctx.broken_without_input(ctx.broken_ties + corr_broken,
                                 "search: %d script lines executed on the real daemon; no oracle failed" % ctx.evaluations)
