"""C06 — hard-kill consistency of persisted metadata (engine E5/meta, DESIGN.md §5 C06)."""
import glob
import json
import os
from framework import REPO, ROOT, LEAN, loopback

TIE = ["Nsq.Tie.Meta", "Nsq.Tie.MetaLoad"]
PROPS = ["Nsq.Props.C06", "Nsq.Props.C06Load"]
KEY_F6 = "deleted-object-still-listed"


def split_scripts(ops, impl, model):
    """Cut the three parallel line streams at every `reset` line."""
    out, cur = [], None
    for i, o in enumerate(ops):
        if o == "reset":
            cur = []
            out.append(cur)
        if cur is not None:
            cur.append((o, impl[i] if i < len(impl) else "<missing>", model[i] if i < len(model) else "<missing>"))
    return out


def property_fails_on(op, impl_line, model_line):
    """A model/implementation disagreement on one line: does the *property* fail on the implementation's
    answer? Returns (key, what) or None."""
    w = op.split()
    if w[0] == "restart":
        if impl_line != "ok":
            return ("restart-failed", "the daemon did not start after SIGKILL: " + impl_line)
        if model_line.startswith("bad"):
            return ("restart-state-not-allowed",
                    "after SIGKILL the daemon loaded %s, which is not a state it passed through since its last "
                    "acknowledged synchronous persist (%s)" % (w[1] if len(w) > 1 else "-", model_line))
    if w[0] == "second" and impl_line == "started":
        return ("second-instance", "a second nsqd started on a data path that is in use")
    if w[0] == "start" and impl_line != "ok":
        return ("start-failed", "nsqd did not start on an empty data path: " + impl_line)
    if w[0] in ("pausetopic", "pausechan") and impl_line.startswith("200 file="):
        want = w[-1]
        got = impl_line.split("file=")[1]
        if got not in ("-", want):
            return ("pause-ack-not-persisted", "%s was answered 200 but nsqd.dat has flag %s" % (op, got))
    if w[0] == "load" and len(w) == 4:
        # (round 6) the implementation's own answer against the document encoding/json decodes
        if impl_line.startswith("ok") and (w[1] == "dir" or (w[1] == "bytes" and w[3] == "-")):
            return ("corrupt-file-accepted", "LoadMetadata returned nil on a file that encoding/json rejects "
                    "(hex %s): a truncated nsqd.dat would be loaded as a different state" % w[2][:200])
        if impl_line == "refuse" and (w[1] == "absent" or (w[1] == "bytes" and w[3] != "-")):
            return ("loadable-file-refused", "LoadMetadata refused a file that decodes to a document (hex %s)" % w[2][:200])
    if w[0] == "reload" and impl_line in ("refuse", "newfail"):
        return ("restart-failed", "the file PersistMetadata wrote right after LoadMetadata is not loadable")
    if w[0] == "idle" and impl_line.startswith("dat="):
        dat, mem = impl_line[4:].split(" mem=")
        if dat != mem:
            return (KEY_F6 if len(dat) > len(mem) else "created-object-not-persisted" if len(dat) < len(mem)
                    else "idle-file-differs",
                    "daemon idle but nsqd.dat=%s while live state=%s" % (dat, mem))
    return None


def run_harness(ctx, binp, label, env, timeout, test="TestVerifMetaCorr", stream="meta"):
    outdir = os.path.join(ctx.work, label)
    os.makedirs(outdir, exist_ok=True)
    e = {"VERIF_SEED": ctx.seed, "VERIF_OUT": outdir}
    e.update(env)
    rc, out = ctx.run_cmd([binp, "-test.run", "^%s$" % test, "-test.count=1", "-test.timeout=%ds" % timeout],
                          timeout=timeout + 30, env=e)
    res = {"rc": rc, "out": out, "ops": [], "impl": [], "model": []}
    p = os.path.join(outdir, stream + ".ops")
    if rc == 0 and os.path.exists(p):
        res["ops"] = open(p).read().splitlines()
        res["impl"] = open(os.path.join(outdir, stream + ".impl")).read().splitlines()
        _, mout = ctx.driver("meta", stdin_path=p)
        res["model"] = mout.splitlines()
    return res


def judge(ctx, res, label, corr_broken):
    """Oracle lines + correspondence of one harness run. Returns number of clean scripts."""
    out = res["out"]
    for l in out.splitlines():
        if l.startswith("ORACLE-FAIL"):
            key = l.split("key=")[1].split()[0]
            nxt = [x for x in out.splitlines() if x.startswith("SCRIPT")]
            script = ""
            if "script=" in l:
                sid = l.rsplit("script=", 1)[1].strip()
                script = "\n".join(x for x in nxt if x.startswith("SCRIPT %s:" % sid))
            ctx.violation(key, l[len("ORACLE-FAIL "):], "%s\n%s\n(run: %s, seed %s)\n" % (l, script, label, ctx.seed))
    if res["rc"] != 0 or not res["ops"]:
        ctx.log("%s harness failed rc=%s:\n%s" % (label, res["rc"], out[-1500:]))
        corr_broken.append("%s harness exit %s" % (label, res["rc"]))
        return 0
    for l in out.splitlines():
        if l.startswith("DIST ") or l.startswith("ORACLE-OK"):
            ctx.corr.setdefault(label, []).append(l)
    clean = 0
    for sc in split_scripts(res["ops"], res["impl"], res["model"]):
        bad = None
        for (o, i, m) in sc:
            ctx.count_case(o + "|" + i, nontrivial=not (i.startswith("404") or i in ("bad-op",)))
            if i != m and bad is None:
                bad = (o, i, m)
        if bad is None:
            clean += 1
            continue
        o, i, m = bad
        if len(corr_broken) < 6:
            ctx.log("model/impl disagree (%s) on `%s`: impl=%s model=%s" % (label, o, i, m))
        corr_broken.append("correspondence %s: %s" % (label, o.split()[0]))
        pf = property_fails_on(o, i, m)
        if pf:
            ctx.violation(pf[0], pf[1], "script (op | impl | model):\n" +
                          "\n".join("%s | %s | %s" % x for x in sc) + "\n")
    ctx.corr.setdefault("streams", []).append({"label": label, "lines": len(res["ops"]),
                                               "scripts_clean": clean})
    return clean


def second_instance_binary(ctx, corr_broken):
    """The real apps/nsqd binary: a second process on a data path in use must exit non-zero (flock), and after a
    SIGKILL of the first one a new process starts on the same path (the lock dies with the process)."""
    import signal
    import subprocess
    import time
    from framework import sh, env_with
    binp = os.path.join(ctx.work, "nsqd_bin")
    rc, out = sh(["go", "build", "-o", binp, "./apps/nsqd"], cwd=REPO, timeout=600)
    if rc != 0:
        ctx.log("apps/nsqd does not build:\n" + out[-800:])
        corr_broken.append("apps/nsqd build")
        return
    d = os.path.join(ctx.work, "second_dp")
    os.makedirs(d, exist_ok=True)
    # a loopback address private to this run (not 127.0.0.1: a client of another check that still reconnects to a recycled
    # 127.0.0.1 port must not reach this daemon; see framework.loopback / vfLoopback in harness/common)
    lo = loopback() + ":0"
    args = [binp, "--data-path", d, "--tcp-address=" + lo, "--http-address=" + lo]
    logs = [open(os.path.join(ctx.work, "nsqd%d.log" % i), "w+") for i in (1, 2, 3)]

    def wait_dat(p):
        for _ in range(500):
            if os.path.exists(os.path.join(d, "nsqd.dat")) or p.poll() is not None:
                break
            time.sleep(0.01)
        return p.poll() is None
    p1 = subprocess.Popen(args, stdout=logs[0], stderr=subprocess.STDOUT, env=env_with())
    res = {}
    try:
        if not wait_dat(p1):
            corr_broken.append("apps/nsqd did not start on an empty data path")
            return
        p2 = subprocess.Popen(args, stdout=logs[1], stderr=subprocess.STDOUT, env=env_with())
        try:
            rc2 = p2.wait(timeout=10)
        except subprocess.TimeoutExpired:
            rc2 = None
            p2.kill()
        logs[1].seek(0)
        out2 = logs[1].read()
        res["second_exit"] = rc2
        res["second_says"] = [l for l in out2.splitlines() if "lock" in l][:1]
        ctx.count_case("apps/nsqd second instance on a live data path -> exit %s" % rc2)
        if rc2 is None or rc2 == 0:
            ctx.violation("second-instance", "a second apps/nsqd process on a data path in use did not refuse to start "
                          "(exit %s)" % rc2, "args: %s\noutput:\n%s\n" % (args, out2[-1500:]))
        # the first instance must be undisturbed: still running, file intact
        res["first_still_running"] = p1.poll() is None
        if p1.poll() is not None:
            ctx.violation("second-instance", "the running nsqd died when a second one was started on its data path", "")
        p1.send_signal(signal.SIGKILL)
        p1.wait()
        p3 = subprocess.Popen(args, stdout=logs[2], stderr=subprocess.STDOUT, env=env_with())
        time.sleep(0.6)
        res["restart_after_sigkill_running"] = p3.poll() is None
        ctx.count_case("apps/nsqd restart after SIGKILL of the lock holder -> running=%s" % res["restart_after_sigkill_running"])
        if p3.poll() is not None:
            logs[2].seek(0)
            ctx.violation("restart-failed", "apps/nsqd did not start after the previous instance was SIGKILLed",
                          logs[2].read()[-1500:])
        else:
            p3.send_signal(signal.SIGTERM)
            try:
                res["graceful_exit"] = p3.wait(timeout=10)
            except subprocess.TimeoutExpired:
                p3.kill()
    finally:
        for p in (p1,):
            if p.poll() is None:
                p.kill()
        for f in logs:
            f.close()
    ctx.corr["second_instance_binary"] = res


def steered_tests(path):
    """`#!test <GoTestName>` lines of a corpus script: steered in-process schedules that ARE the replay of a known finding"""
    try:
        return [l.split()[1] for l in open(path).read().splitlines() if l.startswith("#!test ") and len(l.split()) > 1]
    except OSError:
        return []


def steered_cut(ctx, binp, name, script):
    rc, out = ctx.run_cmd([binp, "-test.run", "^%s$" % name, "-test.count=1", "-test.timeout=120s"], timeout=150)
    obs = [l for l in out.splitlines() if l.startswith("OBSERVATION")]
    if not obs:
        ctx.broken_ties.append("steered replay %s did not run (rc=%s): %s" % (name, rc, out[-200:].replace("\n", " | ")))
        return None
    ctx.corr["steered_global_cut"] = obs[0]
    ctx.evaluations += 1
    ctx.count_case("sched:" + name, nontrivial=True)
    if "restart_from_that_file=loaded-never-passed-state" in obs[0]:
        ctx.violation("restart-state-never-passed-through",
                      "steered schedule (Props.C06.cutSchedule on the real code): a SIGKILL while this document was nsqd.dat "
                      "leaves it for the restart: " + obs[0][:400], script + "# observed: " + obs[0] + "\n")
    return obs[0]


def run(ctx):
    ctx.trusted += [
        "OS semantics (DESIGN §4.5): a completed write(2) is visible after SIGKILL, rename(2) is atomic w.r.t. "
        "process death, flock(2) is exclusive and released at process death",
        "encoding/json round-trips the metadata document (Codec.RoundTrip hypothesis of start_after_kill_ok)",
        "Go memory model: the nsqd RWMutex makes a PersistMetadata call one critical section; topic locks make a "
        "channel-map read atomic (one model Step per critical section / system call)",
        "translator tools/go2lean kind `effseq` (order of tracked calls/assignments in a function body)",
        "encoding/json as the decoder of nsqd.dat (Codec.parse): the load leg hands the Lean driver the document that the "
        "harness's own json.Unmarshal into the real Metadata type produced; everything after the decode is modelled",
        "translator tools/go2lean kinds `regex`, `stmts`, `skeleton`, `stmtseq` (Tie.MetaLoad)",
        "harness harness/meta/load_test.go: in-process New + LoadMetadata on generated nsqd.dat contents, white-box read "
        "of the live maps",
        "harness harness/meta/meta_test.go: real nsqd as a subprocess (New, LoadMetadata, PersistMetadata, Main), "
        "SIGKILL at verif points / random instants, white-box idle detection (no goroutine in Notify.func1 or "
        "PersistMetadata), concurrent observer of nsqd.dat",
    ]
    ctx.assumptions += [
        "disk faults (ENOSPC, EIO) are outside the quantifier: doPause* ignore PersistMetadata's error",
        "Quiet (idle) additionally requires that no topic deletion is half-way (Props.C06.Quiet)",
        "the per-topic read of GetMetadata (IsPaused, then the channel map) is one model step",
        "pause_ack_flag / pause_ack_chan_flag: hquiet - no other pause/unpause (deletion, re-creation) of the same topic / channel "
        "raced with the handler; the conclusion covers the entries present in the document only",
        "load_marshal_snapshot: WF m (unique names of the live maps; not proved as an invariant of Reach) and Codec.RoundTrip",
        "creation_persisted_when_idle / deletion_excluded_when_idle: Quiet s and Reach on the tree with F6; nothing is proved about "
        "'the next completed persist' after a non-global-cut document (finding restart-state-never-passed-through, replayed by the "
        "steered leg TestVerifMetaCutSteered)",
        "start_load_exact_partial: every document the daemon wrote has unique valid non-ephemeral names (names enter the "
        "maps only through IsValid...Name-guarded call sites; the unguarded source is the channel list a nsqlookupd "
        "returns to GetTopic) - start_load_exact_false shows an invalid name does not survive a restart",
        "pause_ack_under_faults_partial: the persist succeeded (pause_ack_under_faults_false: rename fails, answer 200)",
        "truncated_file_refused: encoding/json rejects the prefix (checked on the real decoder for every strict prefix "
        "of documents written by PersistMetadata)",
    ]
    ctx.rule = ("correspondence: generated client scripts (create/delete/pause of persisted and #ephemeral topics and "
                "channels) against a real daemon subprocess with SIGKILL at the k-th visit of each of 9 verif points, "
                "SIGKILL at random instants inside a request, forced unlucky delete order, restarts, second instance; "
                "one case = one script line with the implementation's answer, non-trivial when the answer is not a "
                "404; the Lean driver replays every line (exact answers at idle points, acceptor for the state loaded "
                "after a kill); oracles: nsqd.dat always parses (concurrent observer), restart succeeds, idle file = "
                "live state, pause answer => file has the flag, second instance refused; load leg (in-process): generated "
                "nsqd.dat contents (hostile/duplicate/ephemeral/over-long names, odd JSON shapes, wrong types, null, empty, "
                "garbage, legacy line format, every strict prefix of persisted documents, nsqd.dat a directory, absent) "
                "through the real New+LoadMetadata, then PersistMetadata+Exit+New+LoadMetadata; the driver replays "
                "Model.MetaLoad on the decoded document; oracles: loaded names valid, error iff encoding/json rejects, "
                "prefixes refused, refused start touches nothing, load-persist-load fixed point, persist error returned "
                "and nsqd.dat untouched when rename/open fails, New fails on a missing or held data path")
    gen_ok, _ = ctx.gen("meta_facts")
    if not gen_ok:
        try:
            os.remove(os.path.join(LEAN, "Nsq", "Gen", "MetaFacts.lean"))  # never build the tie against stale facts
        except OSError:
            pass
    ok, log = ctx.lean_build(TIE + PROPS)
    if not ok:
        ctx.lean_obligation_failed("lake build " + " ".join(TIE + PROPS), log[-1500:])
    ctx.lean_audit(PROPS, TIE if gen_ok and ok else [])
    if ctx.thorough():
        ctx.leanchecker(PROPS)
    corr_broken = []
    ctx.build_driver("meta")
    binp = ctx.go_test_binary("nsqd", ["meta/meta_test.go", "meta/load_test.go"], "meta")
    if not binp:
        ctx.broken_ties.append("harness meta/meta_test.go does not compile against the current tree")
        corr_broken.append("harness build")
    elif ctx.replay_in and steered_tests(ctx.replay_in):
        # a known-finding replay that names its steered in-process test (`#!test <name>`): run that schedule on the real code
        for name in steered_tests(ctx.replay_in):
            print(steered_cut(ctx, binp, name, open(ctx.replay_in).read()) or "%s: no OBSERVATION line" % name)
    elif ctx.replay_in:
        res = run_harness(ctx, binp, "replay", {"VERIF_SCRIPT": os.path.abspath(ctx.replay_in)}, 300)
        for x in zip(res["ops"], res["impl"], res["model"]):
            print("%-40s impl: %-50s model: %s" % x)
        judge(ctx, res, "replay", corr_broken)
    else:
        # fixed / known findings are replayed, not remembered
        scripts = sorted(glob.glob(os.path.join(ROOT, "corpus", "C06", "fixed", "*.ops")) +
                         glob.glob(os.path.join(ROOT, "corpus", "C06", "*.ops")))
        if scripts:
            res = run_harness(ctx, binp, "corpus", {"VERIF_SCRIPT": ",".join(scripts)}, 300)
            judge(ctx, res, "corpus", corr_broken)
            ctx.corr["corpus_scripts"] = [os.path.relpath(s, ROOT) for s in scripts]
        n = ctx.budget(32, 2400)
        res = run_harness(ctx, binp, "generated", {"VERIF_N": n, "VERIF_META_KMAX": ctx.budget(3, 5)},
                          ctx.budget(240, 2400))
        judge(ctx, res, "generated", corr_broken)
        for x in list(zip(res["ops"], res["impl"]))[1:7]:
            ctx.add_sample({"op": x[0], "impl": x[1]})
        # round 6: LoadMetadata on every file content, persist error returns, dirlock (in-process, Model.MetaLoad)
        res = run_harness(ctx, binp, "load", {"VERIF_LOAD_N": ctx.budget(60, 1500), "VERIF_LOAD_CUTSTEP": 1}, ctx.budget(120, 600),
                          test="TestVerifMetaLoad", stream="metaload")
        judge(ctx, res, "load", corr_broken)
        for l in res["out"].splitlines():
            if l.startswith("OBSERVATION fault-rename"):
                ctx.corr["observation_persist_fault"] = l
                ctx.notes.append("observation (Props.C06Load.pause_ack_under_faults_false; outside the quantifier): " + l[:400])
        for x in [y for y in zip(res["ops"], res["impl"]) if y[1].startswith("ok mem=x")][:3]:
            ctx.add_sample({"op": x[0][:300], "impl": x[1][:300]})
        second_instance_binary(ctx, corr_broken)
        # audit A4 / claim audit 2 item 33: the known finding's replay file names the STEERED schedule (Props.C06.cutSchedule
        # forced on the real code by parking the persist on cutb's topic lock); replayed on every run
        for kf in sorted(glob.glob(os.path.join(ROOT, "corpus", "C06", "known", "*.ops"))):
            for name in steered_tests(kf):
                steered_cut(ctx, binp, name, open(kf).read())
        # audit A4: documents that are a per-topic cut but not a global cut, on the real code, UNSTEERED (free-running creations;
        # meets the window in a few of several hundred documents, or not at all); a restart from such a file
        # loads a state the daemon never passed through (Props.C06.cut_full_false) - open known finding
        rc, out = ctx.run_cmd([binp, "-test.run", "^TestVerifMetaCutObservation$", "-test.count=1", "-test.timeout=120s"],
                              timeout=150, env={"VERIF_CUT_PAIRS": ctx.budget(200, 1500), "VERIF_CUT_MS": ctx.budget(1000, 8000)})
        obs = [l for l in out.splitlines() if l.startswith("OBSERVATION")]
        if obs:
            ctx.corr["observation_global_cut"] = obs[0]
            ctx.notes.append("Props.C06.snapshot_cut is per topic; cut_full_false (cutSchedule): " + obs[0])
            ctx.evaluations += 1
            if "restart_from_that_file=loaded-never-passed-state" in obs[0]:
                ctx.violation("restart-state-never-passed-through",
                              "a SIGKILL while this document was nsqd.dat leaves it for the restart: " + obs[0][:400],
                              open(os.path.join(ROOT, "corpus", "C06", "known", "global_cut_two_topics.ops")).read() +
                              "# observed: " + obs[0] + "\n")
    if (ctx.broken_ties or corr_broken) and not ctx.violations:
        ctx.broken_without_input(ctx.broken_ties + corr_broken,
                                 "search: %d script lines executed on the real daemon; no oracle failed" % ctx.evaluations)
