"""C04, audit round 7 (A12): --msg-timeout vs --max-msg-timeout (finding msg-timeout-above-max, fix F40).
Called from props/C04.py. Harness harness/e1/opts_timeout_test.go, driver op `optcheck`, theorems
Nsq.Props.C04Opts, tie Nsq.Tie.TimingOpts (spec e1_opts)."""
import os
import re

from framework import LEAN, sh

TIE = ["Nsq.Tie.TimingOpts"]
PROPS = ["Nsq.Props.C04Opts"]
SPECS = ["e1_opts"]
ASSUMPTIONS = [
    "deadline_cap_this_tree (every in-flight deadline <= deliveryTS + max-msg-timeout for every accepted option pair) holds with no "
    "hypothesis on the options: F40 (/repo bedf305: nsqd.New lowers --msg-timeout to --max-msg-timeout when it is above) is committed, "
    "Tie.TimingOpts.new_msgTimeout_shape accepts ONLY the shape with the guard and tree_fixed decides treeFixed = true from nsqd.New on "
    "every run. deadline_cap_unfixed_false is a theorem about the tree BEFORE F40 (finding msg-timeout-above-max, listed fixed; the "
    "harness evaluates the clause on the real daemon for every generated option pair: a reproduction is a VIOLATION); "
    "deadline_cap_general + touch_restores_cap hold for both shapes",
]
TRUSTED = [
    "harness harness/e1/opts_timeout_test.go (real New + Main, a real TCP consumer without msg_timeout, white-box read of the "
    "in-flight deadline and deliveryTS)",
]


def tree_fixed(ctx):
    """Evaluate Nsq.Tie.TimingOpts.treeFixed (regenerated from nsqd.New) — None when it does not elaborate."""
    f = os.path.join(ctx.work, "tree_fixed.lean")
    with open(f, "w") as fh:
        fh.write("import Nsq.Tie.TimingOpts\n#eval Nsq.Tie.TimingOpts.treeFixed\n")
    rc, out = sh(["lake", "env", "lean", f], cwd=LEAN, timeout=300)
    m = re.search(r"^(true|false)$", out, re.M)
    return None if rc != 0 or not m else m.group(1) == "true"


def run(ctx, corr_broken):
    fixed = tree_fixed(ctx)
    if fixed is not True:
        # F40 is committed: the model the implementation is compared with is the FIXED one whatever the probe says
        corr_broken.append("Tie.TimingOpts.treeFixed is not `true` (%s): nsqd.New no longer has the F40 guard" % (
            "does not evaluate" if fixed is None else "false"))
    ctx.corr["msg_timeout_option_check"] = "present (F40)" if fixed else "absent or changed (expected: F40 guard)"
    fixed = True
    binp = ctx.go_test_binary("nsqd", ["e1/opts_timeout_test.go"], "e1c04opts")
    if not binp:
        ctx.broken_ties.append("harness e1/opts_timeout_test.go does not compile against the current tree")
        corr_broken.append("opts harness build")
        return
    for ext in (".ops", ".impl"):
        try:
            os.remove(os.path.join(ctx.work, "optcheck" + ext))
        except OSError:
            pass
    rc, out = ctx.run_cmd([binp, "-test.run", "^TestVerifMsgTimeoutOptions$", "-test.count=1", "-test.timeout=300s"],
                          timeout=330, env={"VERIF_SEED": ctx.seed, "VERIF_OUT": ctx.work, "VERIF_N": ctx.budget(8, 40)})
    for l in out.splitlines():
        if l.startswith("ORACLE-FAIL"):
            ctx.violation("opts-oracle", l, "TestVerifMsgTimeoutOptions seed %s\n%s\n" % (ctx.seed, l))
    opsf = os.path.join(ctx.work, "optcheck.ops")
    if not os.path.exists(opsf) or (rc != 0 and "ORACLE-FAIL" not in out):
        ctx.log("opts harness failed (rc=%s):\n%s" % (rc, out[-1500:]))
        corr_broken.append("opts harness exit %s" % rc)
        return
    ops = open(opsf).read().splitlines()
    impl = open(os.path.join(ctx.work, "optcheck.impl")).read().splitlines()
    mops = os.path.join(ctx.work, "optcheck_model.ops")
    with open(mops, "w") as fh:
        for o in ops:
            fh.write(o.replace("optcheck ", "optcheck %d " % (1 if fixed else 0), 1) + "\n")
    rc2, mout = ctx.driver("e1", stdin_path=mops)
    model = mout.splitlines()
    hist = {}
    for o, i in zip(ops, impl):
        ctx.count_case(o, nontrivial=True)
        hist[i.split()[0]] = hist.get(i.split()[0], 0) + 1
        bad = property_fails(o, i)
        if bad:
            ctx.violation("msg-timeout-above-max", bad, "op: %s\nimpl: %s\n(TestVerifMsgTimeoutOptions; "
                          "corpus/C04/fixed/msg_timeout_above_max.ops)\n" % (o, i))
    ctx.corr["optcheck"] = hist
    for o, i in list(zip(ops, impl))[:2]:
        ctx.add_sample({"op": o, "impl": i}, limit=12)
    for idx, a, b in ctx.diff_lines(impl, model, "optcheck"):
        ctx.log("model/impl disagree on `%s`: impl=%s model=%s" % (ops[idx], a, b))
        corr_broken.append("correspondence %s" % ops[idx])


def property_fails(op, impl):
    """never beyond max-msg-timeout after delivery — on the implementation's own answer"""
    w = op.split()
    mt, mx = int(w[1]), int(w[2])
    m = re.match(r"accepted first=(-?\d+) touch_le_cap=(\w+) touch_moved_back=(\w+)", impl)
    if not m:
        return None
    if int(m.group(1)) > mx:
        return ("--msg-timeout %d ns > --max-msg-timeout %d ns taken as given by nsqd.New: a consumer with the default timeout "
                "got in-flight deadline deliveryTS + %s ns, beyond max-msg-timeout after delivery%s"
                % (mt, mx, m.group(1), "; its TOUCH moved the deadline BACK" if m.group(3) == "true" else ""))
    if m.group(2) != "true":
        return "after TOUCH the deadline is beyond deliveryTS + max-msg-timeout (%s)" % op
    return None
